import collections
import os
from .. import core, diffprop
from ..chanprop import ChanSpec
from .c01 import C01


class C07(ChanSpec):
    id = "C07"
    design_ref = "DESIGN.md §6 C07"
    technique = "Lean 4 proof (panic outcome of every entry point over the handler-list model with the recover points as coded: never escapes, routed once in order, close decision) + differential runs with panicking probe handlers; sender/transport failure half over the Chan LTS under the controller"
    level_text = ("Lean 4 theorems over the handler-list model extended with panicking handlers and the recover points of channel.invokeMethod, handlerContext.Write/Trigger and the tail handler: "
                  "for every pipeline, every handler position, event kind, entry point and panic value the outcome is never 'escaped'; while the channel is open the panic value (the error itself "
                  "when it is one) is delivered exactly once to the chain of exception handlers in pipeline order up to the first that does not forward; the channel is closed with it iff it "
                  "reaches the tail or is a non-timeout net.Error, and stays usable otherwise; on an already closed channel the recovered panic is dropped; when an exception handler on the chain answers an exception with Channel.Write / "
                  "Channel.Trigger and that delivery panics, both exceptions are delivered exactly once each to the whole chain in pipeline order (C07_nested_panic_each_delivered_once). Tie: differential runs on the real "
                  "pipeline/channel with probe handlers of all interface subsets panicking with error / string / timeout and non-timeout net.Error values at every kind and entry point "
                  "(Channel.Write, Channel.Trigger, read-loop invoke, ctx.Write, ctx.Trigger), with a failing transport under the head handler and on closed channels. The sender half "
                  "(a failing transport write in the background sender closes the channel) runs over the Chan LTS with injected write failures under the schedule controller.")
    level_note = C01.level_note + " Exception handlers are assumed not to panic (the property's proviso); the idle-timer callback entry point is C20's; re-entrant handler programs: one exception handler that answers with Channel.Write / Channel.Trigger, once per invocation."
    rule = ("pipeline part: 1-5 probe handlers (random interface subsets, forwarding masks, panic masks over the five non-exception kinds, 4 panic value kinds) plus an inactive-observing sink; "
            "one injection per case through one of 6 entry points, 1/4 with a failing transport under the head, 1/6 on a closed channel; second generator: 1-3 invocations on the same channel for as long "
            "as it stays open (a call that does not return within 3 s is a hang), 2/3 with one exception handler that answers its first exception of the invocation by Channel.Write / "
            "Channel.Trigger (whose delivery may panic: a second exception while the first is travelling), the whole ordered trace of handler invocations compared with invokeR / ctxInvokeR; sender part: C05-style controlled scenarios with the "
            "k-th transport write failing; non-trivial = case in which some handler panicked or the head failed; distinct by full line")
    assumptions = ("exception handlers do not panic",)
    modelled_not_verified = ("Go panic/recover/defer semantics", "errors.As / net.Error classification")
    budgets = dict(quick=(40, 10, 4, 2, 300), thorough=(600, 30, 40, 3, 3000))
    pipe_counts = dict(quick=1500, thorough=60000)

    def harness(self, seed, count, tier):
        lines = []
        rc, so, se = core.run([os.path.join(core.BIN, "nvh"), "-prop", "C07", "-seed", str(seed), "-count", str(self.pipe_counts[tier] * count)], timeout=1800)
        lines += [l for l in so.split("\n") if l]
        if rc != 0:
            lines.append("C07 crash harness-exit-%d" % rc)
        lines += ChanSpec.harness(self, seed, count, tier)
        # served channels with panicking active / failing read handlers (lifecycle acceptor)
        n, scheds, ndfs, bound, cap = self.budgets[tier]
        rc, so, se = core.run([os.path.join(core.BIN, "nvhc"), "-prop", "C05L", "-seed", str(seed + 5), "-count", str(n * count), "-scheds", str(max(2, scheds // 2))],
                              timeout=self.harness_timeout[tier])
        lines += [l for l in so.split("\n") if l]
        if rc != 0:
            lines.append("C05L crash harness-exit-%d" % rc)
        return lines

    def nontrivial(self, line, answer):
        t = line.split()
        if t[1] == "invoke":
            return "val=none" not in line
        if t[1] == "ninvoke":
            return "exception" in answer
        return t[1] == "end"

    def signature(self, line, answer):
        return "C07 " + " ".join(answer.split()[1:4])

    def extra_coverage(self, pairs):
        d = ChanSpec.extra_coverage(self, [(l, a) for l, a in pairs if l.split()[1] in ("cfg", "thr", "step", "end", "failwrite")])
        inv = [l.split() for l, a in pairs if l.split()[1] == "invoke"]
        d["input_distribution"]["pipeline_entries"] = dict(collections.Counter(t[2] for t in inv))
        d["input_distribution"]["panics_routed"] = sum(1 for t in inv if not any(x == "val=none" for x in t))
        ninv = [(l.split(), a) for l, a in pairs if l.split()[1] == "ninvoke"]
        d["input_distribution"]["sequence_invocations"] = len(ninv)
        d["input_distribution"]["sequence_exceptions"] = sum(1 for t, a in ninv if "exception" in a)
        d["input_distribution"]["nested_exceptions"] = sum(1 for t, a in ninv if "nested-exception" in a)
        d["input_distribution"]["closed_by_exception"] = sum(1 for t in inv if any(x.startswith("closed=") and x != "closed=none" for x in t))
        return d


SPEC = C07()
