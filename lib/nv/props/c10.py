from ..chanprop import ChanSpec
from .c01 import C01


class C10(ChanSpec):
    id = "C10"
    design_ref = "DESIGN.md §6 C10 (Chan LTS)"
    technique = "Lean 4 proof that the wire consists of acceptance-time values (corollary of the FIFO invariant) + monitored executions of the real channel in which callers overwrite their buffers right after every call and pooled buffers are recycled under contention"
    level_text = ("Lean 4 theorems over the Chan LTS: the wire is always a prefix of the accepted payload *values* fixed at the acceptance step and no later step changes an accepted value. "
                  "That the implementation takes that snapshot (copy-on-enqueue, recycle only after Writev, no aliasing through the pool) is not modelled as a heap in Lean; it is decided by the "
                  "tie: every caller overwrites its buffer with 0xEE immediately after its call returns, payloads of every pool class incl. > 65536 bytes are used, several senders/writers "
                  "recycle and re-obtain pooled buffers under controlled interleavings, and the property predicate compares every transport unit with the call-time payload. Partial: buffer "
                  "ownership is an assumption of the model, validated by the tie.")
    level_note = C01.level_note + " Buffer/pool aliasing is observed only through its effect on transmitted bytes."
    rule = C01.rule + "; every write op has the overwrite flag; 1/12 of single-buffer ops carry 65537-65539 bytes"
    assumptions = C01.assumptions
    modelled_not_verified = C01.modelled_not_verified + ("buffer identity / aliasing (heap)",)


SPEC = C10()
