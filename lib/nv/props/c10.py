import os

from .. import core
from ..chanprop import ChanSpec
from .c01 import C01


class C10(ChanSpec):
    id = "C10"
    # payloads beyond 65536 bytes make long protocol lines: the thorough tier explores fewer scenarios than the other channel properties
    budgets = dict(quick=ChanSpec.budgets["quick"], thorough=(400, 20, 20, 3, 1000))
    design_ref = "DESIGN.md §6 C10 (Chan LTS)"
    technique = "Lean 4 proof (ownership invariant over a heap of buffers: what the channel holds keeps its call-time content whatever callers and pool users scribble; wire = call-time payloads in order) + monitored executions of the real channel in which callers overwrite their buffers right after every call and a foreign pool user scribbles on pooled buffers of every size class"
    level_text = ("Lean 4 theorems over the Chan LTS: the wire is always a prefix of the accepted payload *values* fixed at the acceptance step and no later step changes an accepted value. "
                  "Why the value is fixed is proved over a heap model (buffers with owners: caller / pool user / pool / channel): for every interleaving of write calls, callers overwriting "
                  "their buffers, other goroutines obtaining, scribbling on and returning pooled buffers, and the sender's dequeue / Writev / recycle steps, as long as every write copies into "
                  "a pooled buffer and buffers are returned only after the transport write, every buffer the channel holds has its call-time content and the wire is the sequence of "
                  "call-time payloads; dropping the copy or recycling early is refuted by concrete histories. Tie: every caller overwrites its buffer with 0xEE immediately after its call "
                  "returns, payloads of every pool class incl. > 65536 bytes are used, a foreign pool user obtains / scribbles on / returns buffers of five size classes while the sender "
                  "batches and recycles, under controlled interleavings; the property predicate compares every transport unit with the call-time payload.")
    level_note = C01.level_note + " The heap model's step from code to ownership (asyncWrite copies unless the buffer was obtained from the pool by the channel itself; writeOnce recycles after Writev) is read off the source and validated through its effect on transmitted bytes; exclusive hand-out by the pool is C19's theorem."
    rule = C01.rule + "; every write op has the overwrite flag; 1/12 of single-buffer ops carry 65537-65539 bytes; 1/2 of the scenarios add a goroutine that gets / scribbles on / returns pooled buffers of 1, 16, 700, 2048 and 65536 bytes with a scheduling point while it holds each; plus 300 (thorough 8000) messages of every carrier type incl. multi-chunk readers returning data together with EOF through the real head handler on a queued channel with a stalled sender, caller and pool scribbling in between"
    assumptions = C01.assumptions
    modelled_not_verified = C01.modelled_not_verified + ("buffer identity (the heap model is not monitored step by step)",)


    def harness(self, seed, count, tier):
        lines = super().harness(seed, count, tier)
        # the streaming entry point (ReadFrom / reader-typed messages): message carriers through the real head handler on a
        # queued channel whose sender is stalled while the caller reuses its storage and another pool user scribbles
        rc, so, se = core.run([os.path.join(core.BIN, "nvh"), "-prop", "C14", "-seed", str(seed), "-count", str(300 if tier == "quick" else 8000)], timeout=1800)
        lines += [l for l in so.split("\n") if l.startswith("C14 head") or l.startswith("C14 contend") or l.startswith("#case")]
        if rc != 0:
            lines.append("C14 crash harness-exit-%d" % rc)
        # refused streamed writes (non-blocking channel, full queue): the pool must not end up holding a buffer twice
        rc, so, se = core.run([os.path.join(core.BIN, "nvh"), "-prop", "C18", "-seed", str(seed), "-count", str(200 if tier == "quick" else 5000)], timeout=1800)
        lines += [l for l in so.split("\n") if l.startswith("C18 rf") or l.startswith("#case c18rf")]
        if rc != 0:
            lines.append("C18 crash harness-exit-%d" % rc)
        return lines

    def nontrivial(self, line, answer):
        t = line.split()
        return t[1] == "end" or t[0] in ("C14", "C18")

    def extra_coverage(self, pairs):
        cov = super().extra_coverage([(l, a) for l, a in pairs if not l.startswith("C14 ") and not l.startswith("C18 ")])
        cov["carrier_messages_compared"] = sum(1 for l, a in pairs if l.startswith("C14 "))
        return cov


SPEC = C10()
