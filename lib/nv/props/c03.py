import os
from .. import core, diffprop


class C03(diffprop.Spec):
    id = "C03"
    counts = dict(quick=400, thorough=20000)
    design_ref = "DESIGN.md §6 C03"
    level_text = ("Lean 4 refinement theorems (7): the pointer-level model of pipeline.go/context.go (separately updated next/prev links, size counter, pointer-walking loops) refines the "
                  "handler-list specification for every sequence of AddFirst/AddLast/AddHandler calls (unbounded length, all positions, multi-handler calls, failing calls), Size/IndexOf/"
                  "LastIndexOf/ContextAt agree from both ends, and event delivery from any position visits exactly the implementers reached by forwarding and ends as the list says "
                  "(stopped/dropped/channel write at head/close at tail). The hand model is tied to the real pipeline by differential runs with probe handlers of all 63 interface subsets.")
    level_note = ("Trusted: Lean kernel; axioms propext/Classical.choice/Quot.sound only; the hand model's fidelity is checked by sampling (differential), not proved; handlers are forward/stop "
                  "scripts (re-entrant handlers: C07); overlay-added NvAttach accessor (binds a channel without starting the read loop).")
    technique = "Lean 4 refinement proof (pointer-level doubly linked list -> handler list; routing loops -> list scan) with differential correspondence on the real pipeline"
    rule = ("random build programs (AddFirst/AddLast/AddHandler, positions -3..size+1, 0-3 handlers per call, repeated instances, 4% inadmissible handlers) over "
            "2-8 probe handlers drawn from all 63 interface subsets with random forwarding masks; after the program every query (Size, forward chain via IndexOf, "
            "backward chain via LastIndexOf, IndexOf/LastIndexOf per instance, ContextAt -3..size+1) and every event kind through pipeline.Fire*, Channel.Write/Trigger, "
            "ctx.Write/ctx.Trigger and ctx.HandleX from every position; non-trivial = a build op, or an event line with at least one visited handler; distinct by full line; between two build operations, 1/2 of the time, 1-3 of active / read / user event / write are fired through the half-built pipeline; the exception fired through the pipeline is a plain error, a timeout / non-timeout net.Error (bare or wrapped) or io.EOF")
    assumptions = (
        "handlers are modelled as forward/stop per event kind (probe handlers do exactly that); handlers that re-enter the pipeline from inside a callback are covered by C07's model",
        "Go interface satisfaction (which of the six interfaces a handler implements) is taken from the probe type's method set",
        "events on head/tail themselves are observed through their effects (channel write / channel close)",
    )
    modelled_not_verified = ("Go type assertion semantics in newHandlerContext", "headHandler's write to the channel (C14) and tailHandler's Close (C05)")

    def harness(self, seed, count, tier):
        rc, so, se = core.run([os.path.join(core.BIN, "nvh"), "-prop", "C03", "-seed", str(seed), "-count", str(count)], timeout=1800)
        lines = [l for l in so.split("\n") if l]
        if rc != 0:
            lines.append("C03 crash harness-exit-%d" % rc)
        return lines

    def nontrivial(self, line, answer):
        t = line.split()
        if t[1] in ("addfirst", "addlast", "addhandler"):
            return True
        if t[1] == "from":
            return len(t) > 5
        return False

    def signature(self, line, answer):
        return "C03 " + line.split()[1]

    def extra_coverage(self, pairs):
        import collections
        c = collections.Counter(l.split()[1] for l, a in pairs)
        panics = sum(1 for l, a in pairs if l.split()[1].startswith("add") and l.split()[2] == "panic")
        closes = sum(1 for l, a in pairs if l.split()[1] == "from" and l.split()[4] == "close")
        cw = sum(1 for l, a in pairs if l.split()[1] == "from" and l.split()[4] == "chanwrite")
        return dict(input_distribution=dict(c, build_ops_panicking=panics, deliveries_closing_channel=closes, deliveries_reaching_channel_write=cw))


SPEC = C03()
