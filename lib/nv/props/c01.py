import os

from .. import core
from ..chanprop import ChanSpec


class C01(ChanSpec):
    id = "C01"
    gen_targets = ("routing",)
    design_ref = "DESIGN.md §6 C01 (Chan LTS)"
    technique = "Lean 4 proof (inductive 23-conjunct invariant of the channel write-path LTS: FIFO accepted = wire ++ batch ++ queue, for unboundedly many writers) with step-by-step monitoring of the real instrumented channel under a deterministic schedule controller"
    level_text = ("Lean 4 theorems over the Chan LTS (one action per synchronisation step of channel.go: queue send/recv, CAS/load/store of the ownership flag, len(queue), transport calls, "
                  "mutex): an inductive invariant holding in every reachable state for every capacity, payload type, queue mode, any number of anonymous writers and every interleaving gives "
                  "accepted = wire ++ batch ++ queue, hence the wire is always a prefix of the accepted payloads in acceptance order (each at most once, whole, in order), and wire = accepted on "
                  "sync channels. The LTS is tied to the real code by executing small concurrent scenarios on the instrumented channel under a cooperative controller (random + "
                  "preemption-bounded DFS schedules) and following every scheduling step in Lean: the step's label is mapped to an LTS action that must be enabled and whose predicted "
                  "observables (returns, transport calls, spawned senders) must equal the implementation's; the property's own predicate is evaluated on the observable event stream.")
    level_note = ("Trusted: Lean kernel; axioms propext/Classical.choice/Quot.sound only; nvinstr (go/ast rewriting of channel.go, checked by running the repo's own tests on the instrumented "
                  "copy during development) and the controller (harness/rt); the label-to-action table in Driver/Chan.lean; Go runtime semantics of channels/atomics/mutex are modelled; "
                  "interleavings inside one uninstrumented statement and the pool's internals are not controlled; schedules explored are sampled/bounded, not exhaustive.")
    rule = ("random scenarios: sync or async (qcap 1-4, blocking/non-blocking), 1-3 writer goroutines x 1-3 calls drawn from Write1/Writev/Writer().Write/CtxWrite1/CtxWritev with payload "
            "sizes 0-5 (self-describing bytes); each under random schedules of 4 stickiness levels plus preemption-bounded DFS on further scenarios; one evaluation = one complete execution "
            "followed step by step; non-trivial = every execution (distinct by full step trace); C01/C02/C06: 1/4 of the async scenarios run over transport.NewTransport(conn, 0, 4|16|4096) on a connection whose writes are scheduling points (connection bytes must be a prefix of the transport-level writes and contain everything written before the last flush); C01: a closer in 1/3 of the scenarios")
    assumptions = ("transport accepts writes (no failure, no Close) in C01 scenarios", "one goroutine runs at a time between yield points (cooperative controller)")
    modelled_not_verified = ("Go channel / atomic / sync.Mutex semantics", "utils/pool (C19)", "executor (any executor that runs submitted actions)")




class C01Full(C01):
    """C01 proper: the channel part plus the transport wrappers between channel and connection"""

    def harness(self, seed, count, tier):
        lines = super().harness(seed, count, tier)
        rc, so, se = core.run([os.path.join(core.BIN, "nvh"), "-prop", "C17", "-seed", str(seed), "-count", str(300 if tier == "quick" else 6000)], timeout=1800)
        lines += [l for l in so.split("\n") if l]
        if rc != 0:
            lines.append("C17 crash harness-exit-%d" % rc)
        return lines

    def nontrivial(self, line, answer):
        t = line.split()
        return t[1] == "end" or (t[0] == "C17" and t[1] in ("write", "writev") and t[2] != "-")

    def extra_coverage(self, pairs):
        chan = [(l, a) for l, a in pairs if not l.startswith("C17 ")]
        cov = super().extra_coverage(chan)
        cov["wrapper_operations_compared"] = sum(1 for l, a in pairs if l.startswith("C17 "))
        return cov


SPEC = C01Full()
