import os

from .. import core
from ..chanprop import ChanSpec
from .c01 import C01


class C11(ChanSpec):
    id = "C11"
    design_ref = "DESIGN.md §6 C11 (Chan LTS)"
    technique = "Lean 4 proof (closed flag monotone; entry check rejects; nothing is accepted without a call that passed the check) over the channel LTS, with monitored executions of every write entry point after and concurrently with Close(nil / error)"
    level_text = ("Lean 4 theorems over the Chan LTS with the repaired entry check (every write entry point consults the atomic closed flag and reports the stored close error or a non-nil "
                  "sentinel): the closed flag never resets, a call whose entry check runs after any Close won the flag is rejected without changing the state, and only calls that passed the "
                  "check can extend `accepted`; hence after Close has returned every new write fails and transmits nothing, for every Close argument including nil. Tie as C01, scenarios with "
                  "Close(nil/e1/e2) followed by every write entry point from the same and from other goroutines, and IsActive queries. Streaming entry point: ReadFrom copies a reader "
                  "chunk by chunk through the checked low-level write, so with a Close between two chunks exactly the chunks read before it are written and the call reports the close error "
                  "(model + theorem); differential runs close the channel from inside the reader's k-th Read on sync and queued channels and compare bytes on the transport, the count, the "
                  "error, and require that no transport write follows the Close.")
    level_note = C01.level_note
    rule = C01.rule + "; plus 1-2 closers whose Close (nil / e1 / e2) is followed by a write; IsActive queries"
    assumptions = ()
    modelled_not_verified = C01.modelled_not_verified

    def harness(self, seed, count, tier):
        lines = super().harness(seed, count, tier)
        rc, so, se = core.run([os.path.join(core.BIN, "nvh"), "-prop", "C11", "-seed", str(seed), "-count", str(400 if tier == "quick" else 10000)], timeout=1800)
        lines += [l for l in so.split("\n") if l]
        if rc != 0:
            lines.append("C11 crash harness-exit-%d" % rc)
        # served channels (activation, read loop): a write issued after a Close call returned - also from inside the active
        # handler, i.e. while the channel is still being activated - must fail
        rc, so, se = core.run([os.path.join(core.BIN, "nvhc"), "-prop", "C05L", "-seed", str(seed + 9), "-count", str(60 if tier == "quick" else 600), "-scheds", "6"],
                              timeout=self.harness_timeout[tier])
        lines += [l for l in so.split("\n") if l]
        if rc != 0:
            lines.append("C05L crash harness-exit-%d" % rc)
        return lines

    def nontrivial(self, line, answer):
        t = line.split()
        return t[1] in ("end", "rf", "pw")

    def extra_coverage(self, pairs):
        cov = super().extra_coverage([(l, a) for l, a in pairs if l.split()[1] not in ("rf", "pw") and not l.startswith("C05L ")])
        cov["readfrom_cases"] = sum(1 for l, a in pairs if l.split()[1] == "rf")
        cov["served_channel_executions"] = sum(1 for l, a in pairs if l.startswith("C05L end"))
        return cov


SPEC = C11()
