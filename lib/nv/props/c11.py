from ..chanprop import ChanSpec
from .c01 import C01


class C11(ChanSpec):
    id = "C11"
    design_ref = "DESIGN.md §6 C11 (Chan LTS)"
    technique = "Lean 4 proof (closed flag monotone; entry check rejects; nothing is accepted without a call that passed the check) over the channel LTS, with monitored executions of every write entry point after and concurrently with Close(nil / error)"
    level_text = ("Lean 4 theorems over the Chan LTS with the repaired entry check (every write entry point consults the atomic closed flag and reports the stored close error or a non-nil "
                  "sentinel): the closed flag never resets, a call whose entry check runs after any Close won the flag is rejected without changing the state, and only calls that passed the "
                  "check can extend `accepted`; hence after Close has returned every new write fails and transmits nothing, for every Close argument including nil. Tie as C01, scenarios with "
                  "Close(nil/e1/e2) followed by every write entry point from the same and from other goroutines, and IsActive queries.")
    level_note = C01.level_note
    rule = C01.rule + "; plus 1-2 closers whose Close (nil / e1 / e2) is followed by a write; IsActive queries"
    assumptions = ()
    modelled_not_verified = C01.modelled_not_verified


SPEC = C11()
