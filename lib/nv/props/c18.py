import os
from .. import core
from ..chanprop import ChanSpec
from .c01 import C01


class C18(ChanSpec):
    id = "C18"
    design_ref = "DESIGN.md §6 C18 (Chan LTS)"
    technique = "Lean 4 proof (queue/batch bounds from the inductive invariant; enabledness of the enqueue select in both queue modes) over the channel LTS, with step-by-step monitoring incl. which goroutines are parked at every scheduling decision"
    level_text = ("Lean 4 theorems over the Chan LTS, all reachable states / capacities / interleavings: |queue| <= cap and |batch| <= cap/2+1, hence accepted-but-unsent <= queue size + batch; "
                  "the queue-full error arises only in a state whose queue is full; in non-blocking mode a write at its enqueue point always has an enabled step (accept or queue-full); in "
                  "blocking mode the enqueue is enabled exactly when there is room, and giving up on a done caller context or a closed channel leaves accepted/wire unchanged. Tie: scenarios "
                  "with slow/stalled senders, pre-cancelled and concurrently cancelled caller contexts and Close arriving while writers wait; the controller reports at every decision which "
                  "goroutines are parked-and-disabled, and the monitor flags a writer parked on the queue in non-blocking mode; the streaming entry point (ReadFrom, 1-6 chunks, 1-3 free slots, sender stalled) is run "
                  "sequentially against readFromNoSpace with a watchdog for calls that do not return; queue capacities 1 … 4000 are filled exactly (non-blocking) and two writes stay parked on a "
                  "full queue for 5.5 s of real time (31 s in the thorough tier) before the sender is run.")
    level_note = C01.level_note + " The error value returned on the closed branch when the close error is nil is C11's subject."
    rule = C01.rule.replace("sync or async", "async only") + "; plus canceller goroutines (context.CancelFunc) and closers; contexts: live / already done / cancelled concurrently"
    assumptions = ("caller contexts are cancelled only through the scenario's canceller goroutines",)
    modelled_not_verified = C01.modelled_not_verified + ("context.Context cancellation (Done channel closed after cancel)",)
    gen_targets = ()

    def harness(self, seed, count, tier):
        lines = ChanSpec.harness(self, seed, count, tier)
        # the streaming entry point (ReadFrom) on a non-blocking channel with a stalled sender, sequentially
        rc, so, se = core.run([os.path.join(core.BIN, "nvh"), "-prop", "C18", "-seed", str(seed), "-count", str(300 if tier == "quick" else 20000)], timeout=1800)
        lines += [l for l in so.split("\n") if l]
        if rc != 0:
            lines.append("C18 crash harness-exit-%d" % rc)
        return lines

    def nontrivial(self, line, answer):
        if line.split()[1] in ("rf", "qfill", "park"):
            return "refused" in answer
        return ChanSpec.nontrivial(self, line, answer)

    def extra_coverage(self, pairs):
        d = ChanSpec.extra_coverage(self, [(l, a) for l, a in pairs if l.split()[1] not in ("rf", "qfill", "park")])
        rf = [a for l, a in pairs if l.split()[1] == "rf"]
        d["input_distribution"]["capacity_and_patience"] = [l for l, a in pairs if l.split()[1] in ("qfill", "park")]
        d["input_distribution"]["readfrom_nonblocking"] = dict(calls=len(rf), refused=sum(1 for a in rf if "refused" in a))
        return d


SPEC = C18()
