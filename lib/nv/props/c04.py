import collections
import os
from .. import core, diffprop


class FrameSpec(diffprop.Spec):
    counts = dict(quick=500, thorough=12000)
    gen_targets = ("guards",)   # T3: the integer skeleton of codec/frame/*.go, regenerated on every run
    trusted_extra = ("nvextract guards extractor (harness/cmd/nvextract/guards.go, ~280 lines of go/ast): statements that are not assignments to an identifier, utils.AssertIf or utils.Assert are kept as source text without meaning",)

    def harness(self, seed, count, tier):
        rc, so, se = core.run([os.path.join(core.BIN, "nvh"), "-prop", self.id, "-seed", str(seed), "-count", str(count)], timeout=3000)
        lines = [l for l in so.split("\n") if l]
        if rc != 0:
            lines.append("%s crash harness-exit-%d" % (self.id, rc))
        return lines

    def nontrivial(self, line, answer):
        t = line.split()
        if t[1] == "enc":
            return t[3] != "-"
        if t[1] == "dec":
            return len(t) > 6 or "," in t[4]
        return False

    def signature(self, line, answer):
        a = answer.split()
        t = line.split()
        kind = t[2].split(":")[0] if len(t) > 2 else "?"
        if len(a) > 1 and a[1] in ("encoder-unsound", "decoder-does-not-terminate", "runtime-fault-in-decoder", "runtime-fault-in-encoder"):
            return "%s %s %s" % (self.id, a[1], kind)
        return "%s %s %s" % (self.id, t[1], kind)

    def describe(self, line, answer):
        return "%s -> %s" % (line[:300], answer[:400])

    def extra_coverage(self, pairs):
        kinds = collections.Counter()
        fins = collections.Counter()
        raises = 0
        msgs = 0
        chunked = 0
        for l, a in pairs:
            t = l.split()
            kinds[t[1] + ":" + t[2].split(":")[0]] += 1
            if t[1] == "dec":
                fins[t[3]] += 1
                msgs += sum(1 for x in t[5:] if x.startswith("m="))
                chunked += 1 if "," in t[4] else 0
            if t[1] == "enc" and t[-1] == "raise":
                raises += 1
        return dict(input_distribution=dict(kinds, stream_end=dict(fins), frames_delivered=msgs, fragmented_streams=chunked, encoder_exceptions=raises))


class C04(FrameSpec):
    id = "C04"
    design_ref = "DESIGN.md §6 C04"
    technique = "Lean 4 proof (reader algebra: decoders over chunked sources = scan of the flattened stream; encode/decode round trips by induction; end-to-end composition with the channel and transport-wrapper models) with differential correspondence on the real codecs and the codecs' guards re-extracted from the source on every run (T3) and proved to mean the model's guards"
    level_text = ("Lean 4 theorems over an executable model of the frame codecs on a chunked transport source: every reading primitive depends only on the flattened stream "
                  "(fragmentation independence for every chunking), each encoder/decoder pair round-trips every admissible payload list consuming exactly each frame, and the repaired "
                  "encoders either emit a header that reads back as the body length or raise. The model is tied to the real codecs by differential runs (encode, re-fragment, decode with "
                  "a draining consumer; messages, reader offsets and exceptions compared).")
    level_note = ("Trusted: Lean kernel; axioms propext/Classical.choice/Quot.sound only; hand model of codec/frame/*.go checked by sampling; io.ReadFull/io.CopyN/ioutil.ReadAll/"
                  "io.MultiReader/binary.Uvarint represented by their effect on the chunked source (readN); consumers are assumed to drain each frame (the shipped format codecs do).")
    rule = ("random codec configurations (length-field 1/2/4/8 x byte order x offsets x adjustments x strips, stand-alone prepender incl. adjustments pushing the value to the field "
            "capacity, varint, 8 delimiters, fixed) incl. ~5% invalid ones; 1-4 payloads per case with lengths around 0/255/256/65535/65536/max-frame and 6 carrier types; the "
            "concatenated encodings re-fragmented (single chunk, 1-byte chunks, random splits with empty chunks) and decoded until the first exception; "
            "non-trivial = encode of a non-empty payload, or a decode over a fragmented stream or delivering at least one frame; distinct by full line; 1/3 of the cases write their payloads as consecutive sub-slices of one caller buffer; every stream up to 600 bytes is decoded whole, byte by byte and under two random fragmentations; 1/6 of the length-field configurations strip 1-8 bytes beyond the header; an implementation encoding that differs from the model's is decoded by the model and compared frame by frame; variable-length codec (max from {1,2,5,16,100,1000,1024,1500,2048,5000}, non-empty fragments); a stream in one piece ending in EOF reaches the decoder as a *bytes.Buffer half of the time; half of the batched cases are corked (all records encoded before any emitted frame is read)")
    assumptions = ("consumer drains every delivered frame", "readers never return (0, nil) for a non-empty buffer", "|lengthAdjustment| < 2^62 (int addition before the int64 conversion does not overflow)")
    modelled_not_verified = ("encoding/binary", "io.ReadFull / io.CopyN / io.MultiReader / ioutil.ReadAll", "utils.ToBytes (C14)")


SPEC = C04()
