import collections
import os

from .. import core, diffprop


class C15(diffprop.Spec):
    id = "C15"
    counts = dict(quick=1500, thorough=60000)
    design_ref = "DESIGN.md §6 C15"
    technique = ("Lean 4 proof (the response writer as a state machine over handler operations; a standard response parser inverts its output for every handler program; request loop "
                 "alignment) with differential runs of the real server codec against the model and against net/http.ReadResponse")
    level_text = "set below"
    level_note = ("Trusted: Lean kernel; axioms propext/Classical.choice/Quot.sound only; net/http.ReadRequest (the request parser is not modelled: the loop is modelled at the level of "
                  "stream positions) and bufio; header maps are unordered, so responses are compared as status + sorted headers + body; handler programs keep an explicit Content-Length "
                  "consistent with what they write and do not use bodyless statuses (1xx, 204, 304) or HEAD; Expect: 100-continue and trailers are outside the model.")
    rule = ("per connection: 1-4 requests (GET/POST/PUT/DELETE, HTTP/1.1 or 1.0, Connection close / keep-alive / absent, body none / Content-Length 0-4097 bytes that look like requests / "
            "chunked) pipelined and fragmented at random; per request a handler program: reads all / none / k bytes of the body, sets 0-3 headers, Content-Length or chunked or neither, "
            "optional WriteHeader(200/201/202/404/500), 0-3 writes of 0/1/14/100/2047/2048/2049/5000 bytes, Flush before the header, between writes, twice at the end; 1/25 of the bodies have 65536 / 262144 / 262145 / 300000 bytes")
    assumptions = ("explicit Content-Length equals the number of body bytes written", "no bodyless status codes, no HEAD")
    modelled_not_verified = ("net/http.ReadRequest", "net/http.ReadResponse (validated against the model's parser on every generated wire)", "bufio.Writer", "httputil chunked writer")

    def harness(self, seed, count, tier):
        rc, so, se = core.run([os.path.join(core.BIN, "nvh"), "-prop", "C15", "-seed", str(seed), "-count", str(count)], timeout=3000)
        lines = [l for l in so.split("\n") if l]
        if rc != 0:
            lines.append("C15 crash harness-exit-%d %s" % (rc, se[-300:].replace("\n", " ")))
        return lines

    def nontrivial(self, line, answer):
        return line.split()[1] == "prog"

    def signature(self, line, answer):
        a = answer.split()
        return "C15 " + " ".join(a[1:5])

    def describe(self, line, answer):
        return answer[:600]

    def extra_coverage(self, pairs):
        served = collections.Counter(a for l, a in pairs if l.split()[1] == "end")
        methods = collections.Counter(l.split()[3] for l, a in pairs if l.split()[1] == "req")
        bodies = collections.Counter(l.split()[7] for l, a in pairs if l.split()[1] == "req")
        ops = collections.Counter()
        for l, a in pairs:
            t = l.split()
            if t[1] == "prog":
                for o in t[4].split(","):
                    ops[o.split(":")[0]] += 1
                ops["read=" + ("all" if t[3] == "read=-1" else "none" if t[3] == "read=0" else "part")] += 1
        return dict(connections=sum(served.values()), input_distribution=dict(outcomes=dict(served.most_common(10)), methods=dict(methods), request_bodies=dict(bodies), handler_ops=dict(ops)))


C15.level_text = ("Lean 4 theorems over a model of codec/xhttp: (1) the response writer as a state machine over handler operations (Header().Set, WriteHeader, Write, Flush) followed by the "
                  "adapter's finish, producing status line, header lines, body with chunked or identity framing and the close decision; (2) a response parser with standard semantics "
                  "(status line, header lines, chunked / Content-Length / until-close bodies); for every handler program the parser reads back from the emitted bytes exactly the status, "
                  "headers and body the handler produced and stops exactly at the end of a self-delimiting response, so pipelined responses are read back one per request in order; Flush "
                  "at any point and any number of times changes nothing; the connection is marked closed iff the request asked for it or the response is not self-delimiting, and only "
                  "after all bytes were flushed; (3) the request loop at the level of stream positions: with draining, every request is parsed at its true start whatever part of its "
                  "body the handler read. The pinned behaviours are refuted (unread body shifts the next parse; Flush finishes the response and the deferred Flush dereferences nil; "
                  "chunked framing sent to HTTP/1.0). Tie: the real ServerCodec + Handler adapter over a mock transport, run connection by connection with scripted handlers; the handler "
                  "invocations, the wire parsed by the model's parser, the position of Close and net/http.ReadResponse's reading of the same bytes are compared with the model.")
SPEC = C15()
