import collections
import os

from .. import core
from ..chanprop import ChanSpec


class C13(ChanSpec):
    id = "C13"
    design_ref = "DESIGN.md §6 C13 (Boot LTS)"
    budgets = dict(quick=(120, 8, 10, 2, 300), thorough=(2500, 30, 80, 3, 3000))
    technique = ("Lean 4 proof (inductive invariants of per-listener and per-channel transition systems of bootstrap.go/holder.go: an open acceptor that is accepted on is always still "
                 "owed a Close) with executions of the real bootstrap under a cooperative scheduler followed step by step by the Lean monitor")
    level_text = ("Lean 4 theorems over two labelled transition systems extracted by hand from bootstrap.go / holder.go / the read loop of channel.go, one per listener object and one per "
                  "accepted channel, each with the shared state that decides its fate (bootstrap context, progress of Shutdown's Range over the registry, the holder's map swap): for every "
                  "interleaving of Listen, the steps of Sync, accepted connections, Listener.Close (any number of calls) and the steps of Shutdown, once Shutdown has cancelled the context, "
                  "returned from Range and every Close has finished, no Sync is blocked in Accept on an open acceptor; at quiescence every started Sync has returned the server-closed error "
                  "with its acceptor closed, and a Sync started later returns it without ever accepting; after CloseAll no channel is parked in a read, every channel that was accepted is "
                  "closed with its transport closed exactly once and inactive delivered exactly once, including channels activated after the holder's map was swapped and channels whose active handler is waiting for the peer (the pinned holder, which forwards active whatever the context says, is refuted by a history the controller exhibited on the real code before fix cf5752a). The pinned listener "
                  "(no closed mark, no context test after creating the acceptor) is refuted by a concrete history in the model that the controller replayed on the real code before the fix. "
                  "Tie: bootstrap.go, holder.go and channel.go are instrumented (a scheduling point before every registry/mutex/acceptor/context operation, labels carrying the listener "
                  "object / channel id) and run over a mock transport factory under the controller (random, sticky and preemption-bounded DFS schedules); every step must be an enabled "
                  "action of the model, and the property is evaluated independently on the events of the mock factory and probe handlers.")
    level_note = ("Trusted: Lean kernel; axioms propext/Classical.choice/Quot.sound only; the hand-written LTS is tied by monitored executions only (no translator); sync.Map (Range visits "
                  "every entry that stays in the map throughout; LoadOrStore/Delete atomic), sync.Mutex, context cancellation and the executor are modelled; the TCP acceptor is replaced by a "
                  "mock whose Accept fails exactly when it was closed (accept errors of other kinds are outside the model); channels are closed by the bootstrap, by a peer hang-up or by "
                  "their own read loop; a handler waiting for the peer inside HandleActive is modelled (state activating), handlers blocking on anything else are outside the model.")
    rule = ("per scenario: 1-2 listen ops (Listen + Async) on one thread, 0-2 dials (each waits until its listener accepts; 1/4 followed by a peer hang-up) on another, a Shutdown thread that "
            "1/2 of the time first waits for 1-2 connections, plus (1/6 each) a Listener.Close before Shutdown, a Listener.Close racing it from its own thread, or Close / re-Listen of the "
            "same url / Close of the old listener again; 1/5 a Listen+Async after Shutdown; 1/5 of the listen ops meet a factory that refuses once, Async is retried on the same listener; 1/4 of the scenarios give every channel an active handler that waits for a greeting of the peer; random schedules with stickiness 0/50/80/95 and DFS with 2-3 preemptions; plus 8 (thorough 150) runs over the real TCP factory on the loopback interface: 0-3 client "
            "connections, Shutdown right after Async or once the connections are active; observed: Sync's error, every client sees its connection closed, a new dial is refused, inactive = active; 1/5 of the scenarios have inactive handlers that panic; outgoing connections (Bootstrap.Connect) from goroutines of their own, also after Shutdown")
    assumptions = ("the executor runs every submitted action eventually", "Accept returns an error exactly when the acceptor has been closed")
    modelled_not_verified = ("sync.Map", "sync.Mutex", "context.WithCancel", "transport/tcp acceptor (mock)", "Executor")

    def harness(self, seed, count, tier):
        lines = super().harness(seed, count, tier)
        rc, so, se = core.run([os.path.join(core.BIN, "nvh"), "-prop", "C13", "-seed", str(seed), "-count", str(8 if tier == "quick" else 150)], timeout=1800)
        lines += [l for l in so.split("\n") if l]
        if rc != 0:
            lines.append("C13 crash harness-exit-%d %s" % (rc, se[-200:].replace("\n", " ")))
        return lines

    def nontrivial(self, line, answer):
        return line.split()[1] in ("end", "tcp")

    def extra_coverage(self, pairs):
        tcp = collections.Counter(" ".join(l.split()[2:4]) for l, a in pairs if l.split()[1] == "tcp")
        pairs = [(l, a) for l, a in pairs if l.split()[1] != "tcp"]
        execs = sum(1 for l, a in pairs if l.split()[1] == "end")
        steps = sum(1 for l, a in pairs if l.split()[1] == "step")
        ends = collections.Counter(" ".join(a.split()[1:]) for l, a in pairs if l.split()[1] == "end")
        ops = collections.Counter(o.split(":")[0] for l, a in pairs if l.split()[1] == "thr" for o in l.split()[3:])
        labels = collections.Counter(l.split()[3].split("#")[0] for l, a in pairs if l.split()[1] == "step")
        traces, cur = set(), []
        for l, a in pairs:
            if l.split()[1] == "new":
                cur = []
            cur.append(l)
            if l.split()[1] == "end":
                traces.add(hash("\n".join(cur)))
        return dict(traces_validated_against_impl=execs, distinct_traces=len(traces), steps=steps,
                    input_distribution=dict(tcp_runs=dict(tcp), ops=dict(ops), endings=dict(ends.most_common(12)), labels_hit=len(labels),
                                            rare_labels={k: v for k, v in labels.items() if v < 50}))


SPEC = C13()
