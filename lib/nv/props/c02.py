import os
from .. import core
from ..chanprop import ChanSpec
from .c01 import C01


class C02(ChanSpec):
    id = "C02"
    design_ref = "DESIGN.md §6 C02 (Chan LTS)"
    technique = "Lean 4 proof (quiescent => queue empty, wire = accepted, all flushed; no deadlock; termination of the framework's steps by a lexicographic measure, hence 'eventually flushed') over the channel LTS, with step-by-step monitoring of the real channel run to quiescence under controlled schedules"
    level_text = ("Lean 4 theorems over the Chan LTS for every capacity, mode, number of writers and interleaving: in every reachable quiescent state of a healthy channel (no call between "
                  "enqueue and CAS, no executor action pending, no owner, no lingering sender) the queue and batch are empty, the wire equals the accepted payloads and everything is flushed "
                  "(uses the no-strand invariant: queue non-empty => owner running or a writer about to CAS or a sender about to re-check); whenever framework work is pending some non-client "
                  "step is enabled (no deadlock); the framework's own steps terminate (well-foundedness by the lexicographic measure: queue length, then the remaining steps of owner / pending "
                  "executor action / released senders); hence, once every write call has returned, running the framework in any order until no step is enabled always ends, with everything "
                  "accepted on the wire and flushed; and the model without the re-check after release strands a packet (negation witness). Tie as C01, with every execution run to quiescence and the terminal state "
                  "compared (implementation quiescent <=> LTS quiescent).")
    level_note = C01.level_note + " 'Eventually' is proved as termination of the framework's steps plus cleanliness of every state in which none is enabled; fairness of the Go scheduler and of the executor (every enabled step is eventually taken) is assumed."
    rule = C01.rule + "; the lost-wake-up window (writer finishing between the sender's last len check and Store idle) is reached by DFS with 2 preemptions"
    assumptions = C01.assumptions + ("the executor eventually runs every submitted action",)
    modelled_not_verified = C01.modelled_not_verified

    def harness(self, seed, count, tier):
        lines = super().harness(seed, count, tier)
        # the streaming entry point: reader-typed messages through the head handler on a queued channel; whatever was
        # accepted must be on the wire once the sender has run (no chunk left behind without a wake-up)
        rc, so, se = core.run([os.path.join(core.BIN, "nvh"), "-prop", "C14", "-seed", str(seed + 2), "-count", str(300 if tier == "quick" else 8000)], timeout=1800)
        lines += [l for l in so.split("\n") if l.startswith("C14 head async") or l.startswith("#case")]
        if rc != 0:
            lines.append("C14 crash harness-exit-%d" % rc)
        # sustained traffic in lock-step with the transport (every round of the sender finds the queue refilled), then silence
        rc, so, se = core.run([os.path.join(core.BIN, "nvh"), "-prop", "C02", "-seed", str(seed), "-count", "1"], timeout=300)
        lines += [l for l in so.split("\n") if l]
        if rc != 0:
            lines.append("C02 crash harness-exit-%d" % rc)
        return lines

    def nontrivial(self, line, answer):
        t = line.split()
        return t[1] in ("end", "burst") or t[0] == "C14"

    def extra_coverage(self, pairs):
        cov = super().extra_coverage([(l, a) for l, a in pairs if not l.startswith("C14 ") and l.split()[1] != "burst"])
        cov["streamed_messages_compared"] = sum(1 for l, a in pairs if l.startswith("C14 "))
        return cov


SPEC = C02()
