from ..chanprop import ChanSpec
from .c01 import C01


class C02(ChanSpec):
    id = "C02"
    design_ref = "DESIGN.md §6 C02 (Chan LTS)"
    technique = "Lean 4 proof (quiescent => queue empty, wire = accepted, all flushed; no deadlock; termination of the framework's steps by a lexicographic measure, hence 'eventually flushed') over the channel LTS, with step-by-step monitoring of the real channel run to quiescence under controlled schedules"
    level_text = ("Lean 4 theorems over the Chan LTS for every capacity, mode, number of writers and interleaving: in every reachable quiescent state of a healthy channel (no call between "
                  "enqueue and CAS, no executor action pending, no owner, no lingering sender) the queue and batch are empty, the wire equals the accepted payloads and everything is flushed "
                  "(uses the no-strand invariant: queue non-empty => owner running or a writer about to CAS or a sender about to re-check); whenever framework work is pending some non-client "
                  "step is enabled (no deadlock); the framework's own steps terminate (well-foundedness by the lexicographic measure: queue length, then the remaining steps of owner / pending "
                  "executor action / released senders); hence, once every write call has returned, running the framework in any order until no step is enabled always ends, with everything "
                  "accepted on the wire and flushed; and the model without the re-check after release strands a packet (negation witness). Tie as C01, with every execution run to quiescence and the terminal state "
                  "compared (implementation quiescent <=> LTS quiescent).")
    level_note = C01.level_note + " 'Eventually' is proved as termination of the framework's steps plus cleanliness of every state in which none is enabled; fairness of the Go scheduler and of the executor (every enabled step is eventually taken) is assumed."
    rule = C01.rule + "; the lost-wake-up window (writer finishing between the sender's last len check and Store idle) is reached by DFS with 2 preemptions"
    assumptions = C01.assumptions + ("the executor eventually runs every submitted action",)
    modelled_not_verified = C01.modelled_not_verified


SPEC = C02()
