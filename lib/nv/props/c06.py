import os
from .. import core
from ..chanprop import ChanSpec
from .c01 import C01


class C06(ChanSpec):
    id = "C06"
    design_ref = "DESIGN.md §6 C06 (Chan LTS)"
    technique = "Lean 4 proof (invariant linking the closer's queue-then-flag reads to the flushed prefix of the wire) over the channel LTS, with monitored executions of Close racing the sender's release/re-acquire window"
    level_text = "see level_text set below"
    level_note = C01.level_note
    rule = C01.rule + "; plus 1-2 closer goroutines (Close with distinct errors, optionally followed by a write); DFS reaches the 3-preemption schedule in which the sender is between Store idle and re-acquire"
    assumptions = ("bounded-wait mode: the guarantee is conditional on the sender not being stalled for 10 polls (executions in which the closer gave up are excused)",)
    modelled_not_verified = C01.modelled_not_verified

    def harness(self, seed, count, tier):
        lines = super().harness(seed, count, tier)
        # codec/xhttp/request.go closes the channel on `Connection: close`: one real-time run with a 300 KiB response and a peer
        # that takes about 1.5 s to drain it, on the bootstrap's default channel (waits for pending writes)
        rc, so, se = core.run([os.path.join(core.BIN, "nvh"), "-prop", "C06", "-seed", str(seed), "-count", "1"], timeout=120)
        lines += [l for l in so.split("\n") if l]
        if rc != 0:
            lines.append("C06 crash harness-exit-%d" % rc)
        return lines

    def nontrivial(self, line, answer):
        if line.split()[1] in ("http", "deadline"):
            return True
        return super().nontrivial(line, answer)

    def extra_coverage(self, pairs):
        d = super().extra_coverage([(l, a) for l, a in pairs if l.split()[1] not in ("http", "deadline")])
        d["input_distribution"]["http_close_path_runs"] = [l for l, a in pairs if l.split()[1] == "http"]
        return d


C06.level_text = ("Lean 4 theorems over the Chan LTS with the repaired wait loop (Close reads len(queue) first, then the ownership flag): for every capacity, number of writers and interleaving, "
                  "when the winning Close leaves its wait loop gracefully every payload accepted before it read the empty queue - in particular every payload whose call returned before Close "
                  "was invoked - is on the wire and flushed, and stays so until transport.Close; the transport is never closed while an owner holds a batch of such payloads. The pinned "
                  "wait loop (flag only) is refuted by a concrete schedule in the model (negation witness) that the controller replayed on the real code before the fix. Tie as C01.")
SPEC = C06()
