import collections
import os
from .. import core, diffprop


class C14(diffprop.Spec):
    id = "C14"
    counts = dict(quick=500, thorough=20000)
    design_ref = "DESIGN.md §6 C14"
    technique = "Lean 4 proof (head-handler type switch and ReadFrom loop forward exactly the message content, by induction over reader scripts; helpers return the content) with differential correspondence on the real head handler and utils helpers"
    level_text = ("Lean 4 theorems over an executable model of the head handler's type switch, channel.ReadFrom's 1024-byte loop and the utils conversion helpers: for every accepted carrier "
                  "([]byte, [][]byte, *bytes.Buffer, byte readers, generic io.WriterTo writing from a reused scratch buffer, generic io.Reader with arbitrary fragments, data-with-EOF and "
                  "error-after-data) the low-level writes carry exactly the message bytes in order, any other type raises and writes nothing, and ToBytes/ToReader/CountOf/ByteReader return "
                  "exactly the content or an error. Tied to the real head handler on sync and async channels over a mock transport, and to the real helpers, by differential runs.")
    level_note = ("Trusted: Lean kernel; axioms propext/Quot.sound only; hand model checked by sampling; bytes.Buffer/bytes.Reader/strings.Reader/io.ReadAll library behaviour modelled; "
                  "the async path's delivery of low-level writes to the transport is C01/C02's subject (here only the final wire bytes are compared after quiescence).")
    rule = ("random messages of 9 kinds (incl. unsupported int and bare string) with sizes from {0, 1-3, 1023-1025, 2047-2049, <5000, 65536-65538 rarely}; reader scripts of 0-4 fragments "
            "(each up to 3000 bytes, 1/8 with EOF attached, 1/8 with an error attached); each message sent through FireChannelWrite on a sync and an async channel and through "
            "ToBytes/ToReader/CountOf/ByteReader; non-trivial = message with non-empty content; distinct by full line; 1/2 of the cases also run on a synchronous channel over transport.NewTransport(conn, 0, 16|512|4096|100000); 1/3 of the reader / buffer carriers have already been read from (the message is what is left); 1/4 of the io.WriterTo messages are a 1-16 byte header plus a body of 65537-70536 bytes (either order); every ToBytes result is emitted again four conversions later")
    assumptions = ("readers never return (0, nil) forever", "the transport accepts all writes")
    modelled_not_verified = ("bytes.Buffer / bytes.Reader / strings.Reader WriteTo (single write of own storage)", "ioutil.ReadAll")

    def harness(self, seed, count, tier):
        rc, so, se = core.run([os.path.join(core.BIN, "nvh"), "-prop", "C14", "-seed", str(seed), "-count", str(count)], timeout=1800)
        lines = [l for l in so.split("\n") if l]
        if rc != 0:
            lines.append("C14 crash harness-exit-%d" % rc)
        return lines

    def nontrivial(self, line, answer):
        t = line.split()
        spec = t[3] if t[1] == "head" else t[2]
        return len(spec) > 3

    def signature(self, line, answer):
        t = line.split()
        spec = t[3] if t[1] == "head" else t[2]
        return "C14 %s %s" % (t[1], spec.split(":")[0])

    def describe(self, line, answer):
        return "%s -> %s" % (line[:300], answer[:300])

    def extra_coverage(self, pairs):
        c = collections.Counter()
        for l, a in pairs:
            t = l.split()
            spec = t[3] if t[1] == "head" else t[2]
            c[t[1] + ":" + spec.split(":")[0]] += 1
        return dict(input_distribution=dict(c))


SPEC = C14()
