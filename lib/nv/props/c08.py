from .c04 import FrameSpec


class C08(FrameSpec):
    id = "C08"
    design_ref = "DESIGN.md §6 C08"
    technique = "Lean 4 proof (every delivered frame is complete and bounded; every loop iteration consumes input or raises; the exact-length reader modelled call by call and proved to refine the frame-level model) with differential correspondence on adversarial streams and per Read call, and the decoders' guards and exactReader.Read re-extracted from the source on every run (T3)"
    level_text = ("Lean 4 theorems over the same executable codec model as C04, for arbitrary byte streams, end-of-stream kinds and chunkings: a delivered frame always has exactly its "
                  "declared/fixed length and respects the maximum, premature end of stream raises, each iteration of the read loop consumes at least one byte or raises (so the loop "
                  "terminates, ending in the exception that closes the channel), and the bytes pulled per frame are bounded by max + header. Tied to the real decoders by differential "
                  "runs over cut, corrupted, random and adversarial-header streams with three end-of-stream kinds.")
    level_note = ("Trusted: Lean kernel; axioms propext/Classical.choice/Quot.sound only; hand model checked by sampling; 'channel is closed' relies on the default pipeline routing an "
                  "exception to the tail (C03/C07) and on consumers draining frames; readers returning (0, nil) are outside the model.")
    rule = ("as C04, then the stream is cut at a random point / replaced by random bytes / prefixed by adversarial headers (0xff.., 0x80.., over-long varints) / bit-flipped / "
            "extended by garbage, ended by EOF, ErrUnexpectedEOF or a connection error, and fragmented; non-trivial as C04")
    assumptions = ("consumer drains every delivered frame", "readers never return (0, nil) for a non-empty buffer")
    modelled_not_verified = ("encoding/binary", "io.ReadFull / io.CopyN / io.MultiReader / ioutil.ReadAll", "channel.readLoop exception routing (C05/C07)")


SPEC = C08()
