import collections
import os

from .. import core, diffprop


class C16(diffprop.Spec):
    id = "C16"
    counts = dict(quick=4000, thorough=150000)
    design_ref = "DESIGN.md §6 C16"
    technique = ("Lean 4 proof (a recursive-descent JSON parser inverts the encoder for every value tree, by mutual structural induction; the codec delivers only objects; text codec is the "
                 "identity on bytes) with differential runs of the real codecs against the model's encoder and parser")
    level_text = ("Lean 4 theorems over a model of encoding/json on value trees (null, bool, number literal kept exactly, string of Unicode scalar values, array, object): the encoder "
                  "(compact, HTML-safe escaping as json.Marshal) and a parser with the decoder's semantics (whitespace, literals, JSON number grammar, escapes with surrogate pairs, first "
                  "value only): parse(encode v ++ rest) = (v, rest) for every well-formed tree (mutual structural induction; fuel = text length suffices), hence every object written through "
                  "the codec is read back identical whatever follows in the frame; the read side delivers a message exactly when the frame begins with one complete valid value that is an "
                  "object, never a nil map; everything delivered is well-formed and stable under re-encoding; closed suites of malformed and well-formed frames are evaluated in the kernel. "
                  "The pinned codec delivered a nil map for `null` (negation witness, exhibited on the real code before the fix). Text codec: bytes pass unchanged in both directions for "
                  "every byte string and carrier (via C14's carrier theorems). Tie: the real JSONCodec (all flag combinations) and TextCodec, alone and over a real length-field frame codec, "
                  "on generated trees (escaped / unicode / empty keys, integers beyond 2^53, fractions, exponents, nesting), re-spaced and re-escaped frames, duplicates, trailing bytes, "
                  "truncations and mutations, a fixed list of 100 malformed frames, and byte strings of sizes across the pool classes: the model's encoder must produce json.Marshal's bytes "
                  "and the model's parser must agree with the decoder's verdict and value on every frame.")
    level_note = ("Trusted: Lean kernel; axioms propext/Classical.choice/Quot.sound only; the model works on Unicode scalar values - UTF-8 encoding/decoding (and encoding/json's replacement "
                  "of invalid UTF-8) is outside it, frames in the tie are valid UTF-8; without number preservation numbers become float64 and only plain integers below 10^15 are compared; "
                  "encoding/json's depth limit (10000) and Go struct destinations (DisallowUnknownFields has no effect on maps) are outside the model.")
    rule = ("cases cycle through: (1) object tree -> HandleWrite bytes vs model encoder, then the implementation's own write->read round trip, half of them through LengthFieldCodec; "
            "(2,3) valid text re-spaced / re-escaped (\\uXXXX, surrogate pairs, \\/), 1/6 with a repeated key, random trailing bytes, random carrier type; (4) malformed: fixed list or "
            "truncation / insertion / deletion on valid text; (5) text codec on 0..70000 random bytes incl. NUL, newline, 0xff; useNumber 3/4, DisallowUnknownFields 1/2; one JSON codec instance per configuration serves all frames of the run (replaced with probability 1/50); the text codec writes into a length-field (4- or 2-byte) or varint codec which receives the very message the text codec emits; 1/3 of the encoder cases encode two objects through one codec before reading either frame")
    assumptions = ("frames are valid UTF-8",)
    modelled_not_verified = ("encoding/json (validated by the tie on every generated case)", "UTF-8")

    def harness(self, seed, count, tier):
        rc, so, se = core.run([os.path.join(core.BIN, "nvh"), "-prop", "C16", "-seed", str(seed), "-count", str(count)], timeout=3000)
        lines = [l for l in so.split("\n") if l]
        if rc != 0:
            lines.append("C16 crash harness-exit-%d %s" % (rc, se[-300:].replace("\n", " ")))
        return lines

    def signature(self, line, answer):
        a = answer.split()
        if "nil" == line.split()[-1] and line.split()[1] == "dec":
            return "C16 nil-map-delivered"
        return "C16 %s %s" % (line.split()[1], " ".join(a[1:4]))

    def describe(self, line, answer):
        return answer[:500]

    def extra_coverage(self, pairs):
        kinds = collections.Counter(l.split()[1] for l, a in pairs)
        verdicts = collections.Counter(" ".join(a.split()[:2]) for l, a in pairs if l.split()[1] == "dec")
        sizes = collections.Counter()
        for l, a in pairs:
            if l.split()[1] == "text":
                n = len(l.split()[2]) // 2 if l.split()[2] != "-" else 0
                sizes["<64" if n < 64 else "<1024" if n < 1024 else "<4096" if n < 4096 else ">=4096"] += 1
        return dict(input_distribution=dict(lines=dict(kinds), decoder_verdicts=dict(verdicts), text_sizes=dict(sizes)))


SPEC = C16()
