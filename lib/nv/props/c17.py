import collections
import os
from .. import core, diffprop


class C17(diffprop.Spec):
    id = "C17"
    gen_targets = ("routing",)
    counts = dict(quick=600, thorough=30000)
    design_ref = "DESIGN.md §6 C17"
    technique = "Lean 4 proof (stream-preservation meta-theorem over a routing-table model of the wrappers + decide on the table extracted from buffered.go) with exact differential correspondence against bufio-backed wrappers"
    level_text = ("Lean 4 theorems: for every well-routed wrapper variant, every buffer size and every sequence of Write/Writev/Flush the connection bytes followed by the buffered bytes are "
                  "exactly everything written in call order and Flush leaves nothing buffered; every sequence of Reads returns the peer's stream in order under any fragmentation; and the routing "
                  "table extracted from transport/buffered.go on this run (which sink each method uses, which variant NewTransport picks) satisfies the premise (`decide`). The model reproduces "
                  "bufio.Writer/Reader exactly, so the differential tie compares the bytes reaching the connection after every single operation.")
    level_note = ("Trusted: Lean kernel; axioms propext/Quot.sound only; nvextract routing extractor (go/ast, classifies the receiver of each forwarding call); bufio.Writer/bufio.Reader and "
                  "net.Buffers.WriteTo are modelled (their agreement with the model is part of the differential tie); connection errors are outside this property.")
    rule = ("random (readSize, writeSize) from {0,1,4,16,17,64}x{0,1,2,3,8,16,64,4096}; 2-13 random Write/Writev/Flush ops with payload sizes around the write buffer size (size±2, 0-3, 2*size, "
            "<40) then Flush; then a peer stream of <120 bytes under a random fragmentation read back with buffer sizes from {1,2,3,7,15,16,17,33,64,100}; after every op the delta of bytes "
            "reaching the in-memory connection is compared; non-trivial = a write/writev of at least one byte or a read; distinct by full line; 1/7 of the payload sizes are drawn from {511,512,513,1023,1024,1025,2048,4097} whatever the buffer size; 1/3 of the Writev batches have 4-7 buffers; the last inbound fragment arrives together with io.EOF in 1/3 of the cases")
    assumptions = ("the connection accepts every write completely (no short writes / errors)", "bufio minimum reader size 16")
    modelled_not_verified = ("bufio.Writer", "bufio.Reader", "net.Buffers.WriteTo on a non-TCP writer")

    def harness(self, seed, count, tier):
        rc, so, se = core.run([os.path.join(core.BIN, "nvh"), "-prop", "C17", "-seed", str(seed), "-count", str(count)], timeout=1800)
        lines = [l for l in so.split("\n") if l]
        if rc != 0:
            lines.append("C17 crash harness-exit-%d" % rc)
        return lines

    def nontrivial(self, line, answer):
        t = line.split()
        return (t[1] in ("write", "writev") and t[2] != "-") or t[1] == "read"

    def signature(self, line, answer):
        a = answer.split()
        return "C17 %s %s" % (line.split()[1], a[1] if len(a) > 1 else "")

    def extra_coverage(self, pairs):
        c = collections.Counter(l.split()[1] for l, a in pairs)
        variants = collections.Counter(a.split()[1] for l, a in pairs if l.split()[1] == "new" and len(a.split()) > 1)
        return dict(input_distribution=dict(ops=dict(c), variants=dict(variants)))


SPEC = C17()
