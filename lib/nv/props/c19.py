import os
from .. import core, diffprop


class C19(diffprop.Spec):
    id = "C19"
    gen_targets = ("pmath",)
    counts = dict(quick=400, thorough=20000)
    design_ref = "DESIGN.md §6 C19"
    level_text = ("Lean 4 theorems (12) over the BitVec-64 definitions regenerated from pmath.go on every run (size-class arithmetic for every 64-bit int) and over a pool model "
                  "(capacity >= request and exclusive hand-out for every Get/Put history, every pool size, with arbitrary foreign Puts and item loss); the pool model is tied to the real "
                  "pool.Pool/pbytes/pbuffer by an acceptance check on generated histories, pmath by differential runs of the generated definitions. Proof level because the property's "
                  "quantifier (all histories, all sizes up to the platform limit) is exactly what induction and bit-level lemmas cover and sampling cannot.")
    level_note = ("Trusted: Lean kernel; axioms propext/Classical.choice/Quot.sound only; nvextract translator; Go harness + Lean driver; sync.Pool and make() modelled not verified; "
                  "generic.go hand-modelled (its tie is sampled, not exhaustive); 64-bit int only.")
    technique = "Lean 4 proof over generated BitVec-64 size-class code + pool model; differential/acceptance tie on real pools"
    rule = ("pmath: every value within 3 of every power of two up to 2^63, -70..70, int extremes, plus random magnitudes; "
            "pool: random Get/Put histories (generic pool, pbytes, pbuffer) over 20 pool sizes with sizes/capacities drawn around "
            "powers of two, multiples of 1024, max, 0 and negatives; identity tracked by backing-array pointer. "
            "non-trivial = pmath argument > 2, or a Get answered from the pool (fresh=0), or a Put of a non-class capacity; distinct by full line; concurrent stress: 8 goroutines x 6000 Get/Put over 7 size classes, counting double issues and buffers smaller than requested; every pbytes.Get is checked for sharing any byte of its capacity with a held buffer; four channel-recycle rounds (a queued channel recycles a batch of 2-4 packets of mixed classes, then 3 x Get of each size: distinct buffers of sufficient capacity)")
    assumptions = (
        "64-bit int (amd64); 32-bit platforms not modelled",
        "sync.Pool hands an item to at most one Get and may drop items (modelled as nondeterministic loss)",
        "callers Put a buffer only while they own it (the property's 'Put once')",
        "pool.New/Get/Put glue (generic.go) is hand-modelled (Model/Pool.lean) and tied by the acceptance check; only pmath.go is machine-translated",
    )
    trusted_extra = ("nvextract pmath translator (harness/cmd/nvextract/pmath.go, ~400 lines of go/ast)",)
    modelled_not_verified = ("sync.Pool", "runtime slice allocation (make returns the requested capacity)")

    def harness(self, seed, count, tier):
        lines = []
        # (a) pmath is an internal package: a test file is added to it through -overlay
        d = core.tmpdir("nv-c19-")
        outp = os.path.join(d, "pmath.lines")
        ov = core.overlay_json({
            os.path.join(core.REPO, "utils/pool/internal/pmath/zz_nv_test.go"): os.path.join(core.HARNESS, "overlay/pmath_nv_test.go.txt"),
        })
        env = dict(core.GOENV, NV_OUT=outp, NV_SEED=str(seed), NV_COUNT=str(count * 5))
        rc, so, se = core.run(["go", "test", "-vet=off", "-count=1", "-overlay", ov, "-run", "^TestNvPmath$", "./utils/pool/internal/pmath"],
                              cwd=core.REPO, env=env, timeout=600)
        if rc != 0 or not os.path.exists(outp):
            raise RuntimeError("pmath overlay test failed: " + (so + se)[-1500:])
        lines.append("#case pmath")
        lines += open(outp).read().split("\n")
        # (b) pools
        rc, so, se = core.run([os.path.join(core.BIN, "nvh"), "-prop", "C19", "-seed", str(seed), "-count", str(count)], timeout=900)
        lines += so.split("\n")
        if rc != 0:  # keep what was observed before the crash: it usually holds the failing input
            m = [l for l in se.split("\n") if l.startswith("panic:")]
            lines.append("C19 crash harness-exit-%d %s" % (rc, (m[0] if m else se[-200:]).replace("\n", " ")))
        return [l for l in lines if l]

    def nontrivial(self, line, answer):
        t = line.split()
        if t[1] == "pmath":
            try:
                return int(t[3]) > 2
            except ValueError:
                return False
        if t[1] == "get":
            return t[-1] == "0"
        if t[1] == "put":
            c = int(t[3])
            return c & (c - 1) != 0
        return False

    def extra_coverage(self, pairs):
        reuse = sum(1 for l, a in pairs if l.split()[1] == "get" and l.split()[-1] == "0")
        gets = sum(1 for l, a in pairs if l.split()[1] == "get")
        puts = sum(1 for l, a in pairs if l.split()[1] == "put")
        pm = sum(1 for l, a in pairs if l.split()[1] == "pmath")
        return dict(input_distribution=dict(pmath_calls=pm, gets=gets, gets_reused=reuse, puts=puts))


SPEC = C19()
