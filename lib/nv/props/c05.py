import os

from .. import core
from ..chanprop import ChanSpec
from .c01 import C01


class C05(ChanSpec):
    id = "C05"
    design_ref = "DESIGN.md §6 C05 (Chan LTS)"
    technique = "Lean 4 proof (single closer elected by CAS; transport closed at most once; closed flag / context monotone; invariants of a lifecycle acceptor for active / hand-out / reads / inactive) with monitored executions of concurrent Close calls, write- and read-side failures, in-flight writes and the real read loop"
    level_text = ("Lean 4 theorems over the Chan LTS for any number of concurrent Close calls and every interleaving: exactly one Close wins the flag, the transport is closed at most once and "
                  "exactly once when the winner returns, IsActive is false from the first won CAS on (so after any Close call has returned), the channel context is cancelled and the close "
                  "error stored once the winning Close has returned, and a sender failure leads to Close. Read-loop half: a lifecycle acceptor whose actions are the observable events of one "
                  "served channel (active begin/end, hand-out, read begin/end, Close win / transport close / cancel / inactive(e) / return, loop exit) with the guards the code enforces; for "
                  "every accepted sequence: active at most once and completed before hand-out and before any read, at most one read in flight, transport closed at most once, inactive at most "
                  "once and with the winner's error, everything done when the winner returns, the loop leaves only with its context cancelled; what the acceptor refuses is listed in a second "
                  "theorem. Tie for this half: one served channel with its real read loop under the controller (successful reads, EOF / network / timeout read failures, Close from outside, "
                  "from the active handler and from a read handler, sync and queued channels); every observed event must be accepted, and the predicates are also evaluated on the events alone.")
    level_note = C01.level_note
    rule = C01.rule + "; plus 1-2 closers with distinct errors and write-side transport failures"
    assumptions = ()
    modelled_not_verified = C01.modelled_not_verified + ("default exception handling (the tail handler closes the channel)",)

    def harness(self, seed, count, tier):
        lines = super().harness(seed, count, tier)
        n, scheds, ndfs, bound, cap = self.budgets[tier]
        for args in (["-seed", str(seed + 3), "-count", str(n * count), "-scheds", str(scheds)],
                     ["-seed", str(seed + 11), "-count", str(ndfs * count), "-dfs", str(bound), "-dfscap", str(max(100, cap // 4))]):
            rc, so, se = core.run([os.path.join(core.BIN, "nvhc"), "-prop", "C05L"] + args, timeout=self.harness_timeout[tier])
            lines += [l for l in so.split("\n") if l]
            if rc != 0:
                lines.append("C05L crash harness-exit-%d %s" % (rc, se[-200:].replace("\n", " ")))
        # the shipped idle handlers are part of most pipelines: the lifecycle events must pass them unchanged (histories on a
        # virtual clock, incl. an inactive event that reaches an idle handler which never saw the active event)
        rc, so, se = core.run([os.path.join(core.BIN, "nvhc"), "-prop", "C20", "-seed", str(seed + 5), "-count", str(400 if tier == "quick" else 20000)], timeout=self.harness_timeout[tier])
        lines += [l for l in so.split("\n") if l]
        if rc != 0:
            lines.append("C20 crash harness-exit-%d" % rc)
        return lines

    def nontrivial(self, line, answer):
        if line.startswith("C20 "):
            return "inact=" in line
        return super().nontrivial(line, answer)

    def extra_coverage(self, pairs):
        d = super().extra_coverage([(l, a) for l, a in pairs if not l.startswith("C20 ")])
        d["input_distribution"]["idle_handler_lifecycle_ops"] = sum(1 for l, a in pairs if l.startswith("C20 ") and "inact=" in l)
        return d


SPEC = C05()
