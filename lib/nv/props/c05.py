from ..chanprop import ChanSpec
from .c01 import C01


class C05(ChanSpec):
    id = "C05"
    design_ref = "DESIGN.md §6 C05 (Chan LTS)"
    technique = "Lean 4 proof (single closer elected by CAS; transport closed at most once; closed flag / context monotone) over the channel LTS, with monitored executions of concurrent Close calls, write-side failures and in-flight writes"
    level_text = ("Lean 4 theorems over the Chan LTS for any number of concurrent Close calls and every interleaving: exactly one Close wins the flag, the transport is closed at most once and "
                  "exactly once when the winner returns, IsActive is false from the first won CAS on (so after any Close call has returned), the channel context is cancelled and the close "
                  "error stored once the winning Close has returned, and a sender failure leads to Close. Partial: the read-loop half of the property (active exactly once and before the first "
                  "read, reads strictly sequential, inactive exactly once with the winner's error) is checked by the tie's event predicates on served channels, not yet by a theorem.")
    level_note = C01.level_note
    rule = C01.rule + "; plus 1-2 closers with distinct errors and write-side transport failures"
    assumptions = ()
    modelled_not_verified = C01.modelled_not_verified + ("readLoop / serveChannel hand-off barrier",)


SPEC = C05()
