import collections
import os
from .. import core, diffprop


class C20(diffprop.Spec):
    id = "C20"
    controlled = True
    counts = dict(quick=1500, thorough=60000)
    design_ref = "DESIGN.md §6 C20"
    technique = "Lean 4 proof (invariant of a timed model of the idle handlers over an abstract clock: never armed before last+idle, armed while active, nil after inactive) with differential runs of the real handlers on a virtual clock"
    level_text = ("Lean 4 theorems over a timed model of readIdleHandler/writeIdleHandler (state: last read/write time, timer nil/disarmed/armed(deadline), cached context; operations stamped "
                  "with the clock value of their locked section; callbacks may run late): for every monotone history an idle event is delivered only at a check instant t with t - last >= idle "
                  "and t - activation >= idle, the timer is never armed for earlier than last + idle, while the handler is active the timer is always armed and every due firing without "
                  "intervening traffic delivers and re-arms (persistence), after inactive the timer is nil, nothing fires and reads/writes do not re-arm it, and a callback overlapping inactive "
                  "delivers at most its one event. Tie: handler.go is rebuilt with package time redirected to a virtual clock (nvinstr -time) and random histories (activation, traffic with "
                  "processing delays, timer firings on time and late, inactive, inactive arriving inside the callback, panicking event handlers) are run on the real handlers in a real pipeline.")
    level_note = ("Trusted: Lean kernel; axioms propext/Classical.choice/Quot.sound only; the textual time shim (time.Now/Since/AfterFunc/*time.Timer -> Nv*) and the virtual clock; "
                  "time.AfterFunc/Timer.Reset/Stop semantics and the RWMutex are modelled (callbacks are run synchronously by the harness, so lock-level interleavings inside one locked section "
                  "are not exercised); the residual window between the callback's check and the delivery is inherent and stated at the check instant.")
    rule = ("per case: read- or write-idle handler with idle 1-6 (virtual seconds) in a real pipeline; 3-16 ops at non-decreasing times: activation, read/write with downstream processing delay "
            "0-2, firing of the due timer at its deadline or up to 2 late (1/6 with a panicking event handler, 1/6 with inactive arriving inside the callback), inactive; "
            "non-trivial = an op that delivered an event or a firing; distinct by full line; activation in which the handler behind the idle handler closes the channel (1/6) or panics (1/6); writes whose downstream handler panics (1/5); 1/3 of the reads/writes let the due timer fire while the message is being processed (up to idle+2 ticks); a final report if an active handler has no timer pending")
    assumptions = ("the runtime runs a timer callback no earlier than its deadline", "exception handlers do not panic")
    modelled_not_verified = ("time.AfterFunc / Timer.Reset / Timer.Stop", "sync.RWMutex")

    def harness(self, seed, count, tier):
        rc, so, se = core.run([os.path.join(core.BIN, "nvhc"), "-prop", "C20", "-seed", str(seed), "-count", str(count)], timeout=1800)
        lines = [l for l in so.split("\n") if l]
        if rc != 0:
            lines.append("C20 crash harness-exit-%d %s" % (rc, se[-200:].replace("\n", " ")))
        return lines

    def nontrivial(self, line, answer):
        t = line.split()
        return t[1] == "op" and (t[2].startswith("fire") or "ev=-" not in line)

    def signature(self, line, answer):
        return "C20 " + " ".join(answer.split()[1:4])

    def extra_coverage(self, pairs):
        c = collections.Counter(l.split()[2] for l, a in pairs if l.split()[1] == "op")
        delivered = sum(1 for l, a in pairs if l.split()[1] == "op" and "ev=-" not in l)
        panics = sum(1 for l, a in pairs if l.split()[1] == "op" and not l.endswith("exc=0"))
        return dict(input_distribution=dict(ops=dict(c), ops_delivering_events=delivered, panics_routed_as_exceptions=panics))


SPEC = C20()
