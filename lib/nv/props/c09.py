import collections

from ..chanprop import ChanSpec


class C09(ChanSpec):
    id = "C09"
    design_ref = "DESIGN.md §6 C09 (Wire LTS)"
    budgets = dict(quick=(80, 8, 8, 2, 250), thorough=(500, 20, 30, 3, 1500))
    technique = ("Lean 4 proof (invariant of a message-lock transition system: the wire is a sequence of whole messages plus a prefix of the lock holder's message) with executions of the "
                 "real pipeline and channel under a cooperative scheduler, compared with the model run in the observed lock order")
    level_text = ("Lean 4 theorems over a transition system in which any number of goroutines write messages given as arbitrary lists of low-level writes (one for []byte, [][]byte and "
                  "*bytes.Buffer, several for io.WriterTo and io.Reader carriers, with or without the frames added by the codecs) under the head handler's message lock: in every reachable "
                  "state the wire is the concatenation of complete messages, in the order in which their head writes began, followed by a prefix of at most one message in progress; at rest "
                  "every message's low-level writes are adjacent and in order; only one head write is in progress at any time. The pinned head handler (no message lock) is refuted by a "
                  "concrete interleaving in the model, which the harness exhibited on the real code before the fix; the statement that already held there (single-write messages are "
                  "contiguous) is kept as a `_partial` theorem. For queued channels the low-level write is the enqueue and the wire order is the queue order (C02). Tie: handler.go's "
                  "HandleWrite, channel.go and the real codecs run under the controller with 2-3 writer goroutines (random, sticky and preemption-bounded DFS schedules); the expected frame "
                  "of each message comes from a sequential run of the same pipeline; the model is run in the observed order of message-lock acquisitions and its wire must equal the bytes "
                  "the mock transport received; independently the wire must parse into whole frames, each once.")
    level_note = ("Trusted: Lean kernel; axioms propext/Classical.choice/Quot.sound only; the hand-written LTS is tied by monitored executions only; the atomicity of one low-level write "
                  "(write lock / one queue slot) is C01/C02's; direct calls of Write1/Writev/ReadFrom that bypass the pipeline are outside the property (it speaks of Channel.Write and "
                  "ctx.Write); custom Channel implementations are outside the repair.")
    rule = ("per scenario: sync or queued channel (capacity 1/2/4/8), pipeline plain / delimiter+text / 2-byte length field, 2-3 goroutines with 1-2 messages each: []byte, [][]byte, "
            "*bytes.Buffer, a WriterTo doing 2-3 writes, io.MultiReader of 2-3 parts, a plain io.Reader (sizes 3-40 bytes and 1024/1500/2100 = at and above the streaming chunk), strings; "
            "self-describing payloads (<T<writer>.<seq>:...>); also varint, varint+text and packet pipelines, bodies of 130/300 bytes (two-byte varint prefix); messages enter through Channel.Write (1/2), HandlerContext.Write of the last handler (1/4) or Pipeline.FireChannelWrite (1/4); 1/10 of the scenarios queue two-part messages of 70000 bytes (queue 4/8) behind the sender")
    assumptions = ("no write fails in these scenarios (failure atomicity is C01's subject)",)

    def extra_coverage(self, pairs):
        execs = sum(1 for l, a in pairs if l.split()[1] == "end")
        kinds = collections.Counter(l.split()[4] for l, a in pairs if l.split()[1] == "msg")
        cfgs = collections.Counter(" ".join(l.split()[2:]) for l, a in pairs if l.split()[1] == "cfg")
        wires = len(set(l for l, a in pairs if l.split()[1] == "wire"))
        return dict(traces_validated_against_impl=execs, distinct_wires=wires,
                    input_distribution=dict(carrier_kinds=dict(kinds), configs_sync_qcap_pipeline=dict(cfgs)))


SPEC = C09()
