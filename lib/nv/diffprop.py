"""Generic runner for properties whose tie is differential (T2 on a pure or sequential core):
the harness emits protocol lines `<PROP> …` (grouped by `#case` markers), the Lean driver answers
`ok | diff | specviol | bad-op` per line."""
import collections
import os
import time

from . import core


class Spec:
    id = ""
    gen_targets = ()            # nvextract targets regenerated on every run
    level = "proof"
    counts = dict(quick=200, thorough=5000)
    escalate_factor = 5
    rule = ""
    assumptions = ()
    trusted_extra = ()
    modelled_not_verified = ()
    technique = ""

    def harness(self, seed, count, tier):
        """returns list of protocol lines (with #case markers)"""
        raise NotImplementedError

    def nontrivial(self, line, answer):
        return True

    def signature(self, line, answer):
        """signature of a specviol, used for known_findings matching"""
        toks = answer.split()
        return "%s %s" % (self.id, toks[1] if len(toks) > 1 else "specviol")

    def describe(self, line, answer):
        return "%s -> %s" % (line, answer)

    def extra_coverage(self, pairs):
        return {}


def analyse(spec, lines):
    cases = core.split_cases(lines)
    flat = [l for c in cases for l in c["lines"]]
    pairs = core.drive(flat)
    # re-attach to cases
    k = 0
    for c in cases:
        n = len(c["lines"])
        c["pairs"] = pairs[k:k + n]
        k += n
    stats = collections.Counter()
    specviols, diffs, badops = [], [], []
    distinct = set()
    for c in cases:
        for idx, (l, a) in enumerate(c["pairs"]):
            kind = a.split(" ", 1)[0]
            stats[kind] += 1
            if kind == "specviol":
                specviols.append((c, idx))
            elif kind == "diff":
                diffs.append((c, idx))
            elif kind == "bad-op":
                badops.append((c, idx))
            if spec.nontrivial(l, a):
                distinct.add(l)
    return dict(cases=cases, pairs=pairs, stats=stats, specviols=specviols, diffs=diffs, badops=badops,
                distinct=len(distinct))


def case_payload(c, idx):
    return dict(case=c["id"], lines=[p[0] for p in c["pairs"][:idx + 1]], answers=[p[1] for p in c["pairs"][:idx + 1]])


def run(spec, tier, seed):
    t0 = time.time()
    verdict = core.Verdict(spec.id)
    ok, msg = core.build_tools()
    if ok and getattr(spec, "controlled", False):
        ok, msg = core.build_controlled()
    if not ok:
        verdict.add("%s build" % spec.id, "harness does not build against the current tree: " + msg[-1500:], dict(kind="build", log=msg[-4000:]), found_input=False)
    lean = core.lean_stage(spec.id, spec.gen_targets)
    count = spec.counts[tier]
    res = None
    tie_error = None
    if ok and lean["driver_ok"]:
        try:
            lines = spec.harness(seed, count, tier)
            res = analyse(spec, lines)
        except Exception as e:  # harness crashed / driver failed
            tie_error = repr(e)
    elif ok:
        tie_error = "driver does not build: " + "; ".join(lean.get("first_errors", []))[:800]

    replay_base = dict(tier=tier, seed=seed, count=count, rerun="bin/check %s --tier %s --seed %d" % (spec.id, tier, seed))
    found_input = False
    if res:
        for c, idx in res["specviols"]:
            l, a = c["pairs"][idx]
            verdict.add(spec.signature(l, a), "implementation violates the property: " + spec.describe(l, a),
                        dict(replay_base, kind="specviol", **case_payload(c, idx)))
            found_input = True
        for c, idx in res["badops"][:1]:
            l, a = c["pairs"][idx]
            tie_error = (tie_error or "") + " bad-op from driver on line: " + l

    broken = []
    if not lean["ok"]:
        if lean["failed"]:
            broken.append("theorems no longer check: " + ", ".join(lean["failed"]))
        if lean.get("failed_modules"):
            broken.append("modules failing to build: " + ", ".join(lean["failed_modules"]))
        if lean["gen_errors"]:
            broken.append("translator/extractor errors: " + "; ".join(lean["gen_errors"]))
        if lean["forbidden"]:
            broken.append("forbidden constructs: " + "; ".join(lean["forbidden"][:5]))
        if not broken:
            broken.append("lake build failed")
    if res and res["diffs"]:
        c, idx = res["diffs"][0]
        broken.append("correspondence broken (%d disagreements), first: %s" % (len(res["diffs"]), spec.describe(*c["pairs"][idx])))
    if tie_error:
        broken.append("tie could not be executed: " + tie_error)

    escalated = 0
    if broken and not found_input and ok and lean["driver_ok"]:
        # search harder for a concrete failing input on the implementation
        for k in range(0, 4):
            try:
                if k == 0:
                    # first the neighbourhood of the inputs / scenarios on which the tie broke
                    if not (res and res["diffs"] and hasattr(spec, "targeted")):
                        continue
                    tl = spec.targeted(seed, res, tier)
                    if not tl:
                        continue
                    r2 = analyse(spec, tl)
                else:
                    r2 = analyse(spec, spec.harness(seed + 1000 * k, count * spec.escalate_factor, tier))
            except Exception as e:
                broken.append("escalated search failed: %r" % e)
                break
            escalated += sum(r2["stats"].values())
            if r2["specviols"]:
                c, idx = r2["specviols"][0]
                l, a = c["pairs"][idx]
                verdict.add(spec.signature(l, a), "implementation violates the property: " + spec.describe(l, a),
                            dict(replay_base, seed=seed + 1000 * k, count=count * spec.escalate_factor, kind="specviol",
                                 found_by="targeted escalation (scenarios of the broken tie under more schedules)" if k == 0 else "escalation", **case_payload(c, idx)))
                found_input = True
                break
    if broken and not found_input:
        first_diff = None
        if res and res["diffs"]:
            c, idx = res["diffs"][0]
            first_diff = case_payload(c, idx)
        verdict.add("%s obligation-broken" % spec.id, "; ".join(broken),
                    dict(replay_base, kind="obligation", broken=broken, lean_errors=lean.get("first_errors", []),
                         failed_theorems=lean["failed"], first_disagreement=first_diff), found_input=False)

    rc, nviol, known = verdict.finish()

    stats = dict(res["stats"]) if res else {}
    samples = []
    if res:
        for c in res["cases"][:3]:
            samples.append(dict(case=c["id"], lines=[p[0] + " => " + p[1] for p in c["pairs"][:6]]))
    coverage = dict(
        obligations=len(lean["obligations"]), discharged=len(lean["discharged"]),
        checker_cmd="cd lean && lake build NettyVerif.Props.%s  (axiom audit via #print axioms%s)" % (spec.id, "; lake env leanchecker NettyVerif.Props.%s" % spec.id if tier == "thorough" else ""),
        trusted_base=core.TRUSTED_BASE_COMMON + list(spec.trusted_extra),
        theorems=lean["obligations"], axioms=lean["axioms"], failed_theorems=lean["failed"],
        evaluations=sum(stats.values()) + escalated, distinct_nontrivial=res["distinct"] if res else 0,
        rule=spec.rule, samples=samples or ["(tie not executed)"], answers=stats,
        cases=len(res["cases"]) if res else 0, escalated_evaluations=escalated,
        modelled_not_verified=list(spec.modelled_not_verified),
        known_findings_printed=known, lean_build_s=lean.get("build_s"),
    )
    if res:
        coverage.update(spec.extra_coverage(res["pairs"]))
    if tier == "thorough":
        rcc, so, se = core.run(["lake", "env", "leanchecker", "NettyVerif.Props.%s" % spec.id], cwd=core.LEAN, timeout=1800)
        coverage["leanchecker"] = "ok" if rcc == 0 else "FAILED: " + (so + se)[-500:]
        if rcc != 0 and rc == 0:
            print("VIOLATION property=%s replay=%s no-failing-input-found" % (spec.id, core.write_replay(spec.id, dict(kind="leanchecker", log=(so + se)[-3000:]))))
            rc = 1
    core.write_evidence(spec.id, tier, seed, spec.level, coverage, list(spec.assumptions), time.time() - t0, nviol)
    print("%s: %s  obligations %d/%d  tie %s  (%.1fs)" % (spec.id, "OK" if rc == 0 else "FAIL", len(lean["discharged"]), len(lean["obligations"]), stats, time.time() - t0))
    return rc
