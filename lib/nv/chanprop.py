"""Common part of the channel properties decided over the Chan LTS (C01 C02 C05 C06 C10 C11 C18):
executions of the real instrumented channel under the cooperative controller, followed step by
step by the Lean monitor (Driver/Chan.lean)."""
import collections
import os

from . import core, diffprop


class ChanSpec(diffprop.Spec):
    controlled = True
    # (scenarios, random schedules each, dfs scenarios, dfs preemption bound, dfs cap)
    budgets = dict(quick=(60, 12, 6, 2, 400), thorough=(1000, 30, 40, 3, 2000))
    counts = dict(quick=1, thorough=1)
    escalate_factor = 2
    harness_timeout = dict(quick=240, thorough=3000)

    def harness(self, seed, count, tier):
        n, scheds, ndfs, bound, cap = self.budgets[tier]
        n, ndfs = n * count, ndfs * count
        lines = []
        rc, so, se = core.run([os.path.join(core.BIN, "nvhc"), "-prop", self.id, "-seed", str(seed), "-count", str(n), "-scheds", str(scheds)], timeout=self.harness_timeout[tier])
        lines += [l for l in so.split("\n") if l]
        if rc != 0:
            lines.append("%s crash harness-exit-%d %s" % (self.id, rc, se[-300:].replace("\n", " ")))
        rc, so, se = core.run([os.path.join(core.BIN, "nvhc"), "-prop", self.id, "-seed", str(seed + 7), "-count", str(ndfs), "-dfs", str(bound), "-dfscap", str(cap)], timeout=self.harness_timeout[tier])
        lines += [l for l in so.split("\n") if l]
        if rc != 0:
            lines.append("%s crash harness-exit-%d %s" % (self.id, rc, se[-300:].replace("\n", " ")))
        return lines

    def targeted(self, seed, res, tier):
        """targeted escalation: the scenarios in which the correspondence broke, under many more schedules
        (random with other schedule seeds, and preemption-bounded DFS), before fresh scenarios are tried"""
        import re
        seen, lines = [], []
        for c, idx in res["diffs"]:
            m = re.match(r"%s-(\d+)-(r|dfs)\d+$" % self.id, c["id"])
            if m and (m.group(1), m.group(2)) not in seen:
                seen.append((m.group(1), m.group(2)))
            if len(seen) >= 5:
                break
        for i, kind in seen:
            base = seed if kind == "r" else seed + 7
            # the DFS generator skips big scenarios: -dfsany keeps the numbering of the random mode
            if kind == "r":
                rc, so, se = core.run([os.path.join(core.BIN, "nvhc"), "-prop", self.id, "-seed", str(base), "-count", str(int(i) + 1), "-only", i, "-scheds", "240"], timeout=600)
                lines += [l for l in so.split("\n") if l]
            rc, so, se = core.run([os.path.join(core.BIN, "nvhc"), "-prop", self.id, "-seed", str(base), "-count", str(int(i) + 1), "-only", i, "-dfs", "3", "-dfscap", "1500"] + ([] if kind == "dfs" else ["-dfsany"]), timeout=600)
            lines += [l for l in so.split("\n") if l]
        return lines

    def nontrivial(self, line, answer):
        t = line.split()
        return t[1] == "end"

    def signature(self, line, answer):
        a = answer.split()
        return "%s %s" % (self.id, " ".join(a[1:3]))

    def describe(self, line, answer):
        return answer[:400]

    def extra_coverage(self, pairs):
        execs = sum(1 for l, a in pairs if l.split()[1] == "end")
        steps = sum(1 for l, a in pairs if l.split()[1] == "step")
        cfgs = collections.Counter(" ".join(l.split()[2:]) for l, a in pairs if l.split()[1] == "cfg")
        ends = collections.Counter(l.split()[2] for l, a in pairs if l.split()[1] == "end")
        labels = collections.Counter(l.split()[3] for l, a in pairs if l.split()[1] == "step")
        return dict(traces_validated_against_impl=execs, steps=steps,
                    input_distribution=dict(configs_sync_qcap_until=dict(cfgs), endings=dict(ends), labels_hit=len(labels),
                                            rare_labels={k: v for k, v in labels.items() if v < 50}))
