"""Shared machinery of /verif/bin/check.

Per run, for one property:
  1. lean stage   : regenerate lean/NettyVerif/Gen/* from /repo (ties T1/T3), `lake build` the
                    property's theorem module and the driver, audit `#print axioms`, grep for
                    forbidden constructs.  obligations = property theorems; discharged = those that
                    elaborated with an allowed axiom set.
  2. tie stage    : run the Go harness against /repo's current tree (tie T2), pipe its lines
                    through the Lean driver (model + spec check), classify answers.
  3. verdict      : a `specviol` is a concrete failing input on the implementation -> VIOLATION
                    (or KNOWN-FINDING when its signature is listed in known_findings.jsonl).
                    A broken proof obligation or a `diff` without specviol triggers an escalated
                    search for a failing input; none found -> VIOLATION ... no-failing-input-found.
  4. evidence     : /verif/evidence/<id>.json is rewritten on every run.
"""
import atexit
import fcntl
import hashlib
import json
import os
import re
import shutil
import subprocess
import sys
import tempfile
import time

VERIF = os.path.dirname(os.path.dirname(os.path.dirname(os.path.abspath(__file__))))
REPO = os.environ.get("NV_REPO", "/repo")
LEAN = os.path.join(VERIF, "lean")
HARNESS = os.path.join(VERIF, "harness")
BIN = os.path.join(VERIF, "bin")
DRIVER = os.path.join(LEAN, ".lake", "build", "bin", "nvdriver")
ALLOWED_AXIOMS = {"propext", "Classical.choice", "Quot.sound"}
FORBIDDEN = re.compile(r"\b(sorry|admit|native_decide|bv_decide|implemented_by|unsafe|maxHeartbeats\s+0)\b|^\s*axiom\s")

GOENV = dict(os.environ, GOFLAGS="-mod=mod", GOPROXY="off", GOSUMDB="off", GOTOOLCHAIN="local",
             CGO_ENABLED=os.environ.get("CGO_ENABLED", "1"))

_tmpdirs = []


def tmpdir(prefix="nv-"):
    d = tempfile.mkdtemp(prefix=prefix)
    _tmpdirs.append(d)
    return d


@atexit.register
def _cleanup():
    for d in _tmpdirs:
        shutil.rmtree(d, ignore_errors=True)


def run(cmd, cwd=None, env=None, timeout=None, input=None):
    """run a command, return (rc, stdout, stderr); never raises on non-zero exit"""
    try:
        p = subprocess.run(cmd, cwd=cwd, env=env or GOENV, timeout=timeout, input=input,
                           stdout=subprocess.PIPE, stderr=subprocess.PIPE, text=True, errors="replace")
        return p.returncode, p.stdout, p.stderr
    except subprocess.TimeoutExpired as e:
        so = e.stdout.decode(errors="replace") if isinstance(e.stdout, bytes) else (e.stdout or "")
        se = e.stderr.decode(errors="replace") if isinstance(e.stderr, bytes) else (e.stderr or "")
        return 124, so, se + "\n[timeout after %ss]" % timeout


class Lock:
    def __init__(self, name):
        self.path = os.path.join(tempfile.gettempdir(), "nv-%s.lock" % name)

    def __enter__(self):
        self.f = open(self.path, "w")
        fcntl.flock(self.f, fcntl.LOCK_EX)
        return self

    def __exit__(self, *a):
        fcntl.flock(self.f, fcntl.LOCK_UN)
        self.f.close()


# ------------------------------------------------------------------ lean stage

def strip_comments(text):
    # remove /- ... -/ (nested not handled beyond one level) and -- line comments
    out = []
    depth = 0
    i = 0
    while i < len(text):
        if text.startswith("/-", i):
            depth += 1
            i += 2
        elif text.startswith("-/", i) and depth > 0:
            depth -= 1
            i += 2
        elif depth > 0:
            if text[i] == "\n":
                out.append("\n")
            i += 1
        elif text.startswith("--", i):
            while i < len(text) and text[i] != "\n":
                i += 1
        else:
            out.append(text[i])
            i += 1
    return "".join(out)


def forbidden_hits():
    hits = []
    for root in ("NettyVerif", "Driver"):
        for dp, _, fns in os.walk(os.path.join(LEAN, root)):
            for fn in fns:
                if not fn.endswith(".lean"):
                    continue
                p = os.path.join(dp, fn)
                body = strip_comments(open(p).read())
                for ln, line in enumerate(body.split("\n"), 1):
                    if FORBIDDEN.search(line):
                        hits.append("%s:%d: %s" % (os.path.relpath(p, LEAN), ln, line.strip()))
    return hits


def build_tools():
    """(re)build nvextract and nvh from the harness sources (fast when cached)"""
    with Lock("gobuild"):
        ov = overlay_json(hook_overlay())
        for name in ("nvextract", "nvh"):
            rc, so, se = run(["go", "build", "-overlay", ov, "-o", os.path.join(BIN, name), "./cmd/" + name], cwd=HARNESS, timeout=600)
            if rc != 0:
                return False, "go build %s failed:\n%s%s" % (name, so, se)
    return True, ""


def build_controlled():
    """instrument /repo/channel.go (current tree) with nvinstr and build bin/nvhc against it through an overlay"""
    with Lock("gobuild"):
        rc, so, se = run(["go", "build", "-o", os.path.join(BIN, "nvinstr"), "./cmd/nvinstr"], cwd=HARNESS, timeout=600)
        if rc != 0:
            return False, "go build nvinstr failed:\n" + so + se
        d = tmpdir("nv-instr-")
        mapping = dict(hook_overlay())
        mapping[os.path.join(REPO, "zz_nv_rt.go")] = os.path.join(HARNESS, "overlay", "zz_nv_rt.go.txt")
        for f in ("channel.go", "bootstrap.go", "holder.go"):
            outp = os.path.join(d, f)
            rc, so, se = run([os.path.join(BIN, "nvinstr"), os.path.join(REPO, f), outp], timeout=120)
            if rc != 0:
                return False, "nvinstr %s failed:\n%s%s" % (f, so, se)
            mapping[os.path.join(REPO, f)] = outp
        outp = os.path.join(d, "handler.go")
        rc, so, se = run([os.path.join(BIN, "nvinstr"), "-time", os.path.join(REPO, "handler.go"), outp], timeout=120)
        if rc != 0:
            return False, "nvinstr -time handler.go failed:\n%s%s" % (so, se)
        # the head handler's message lock becomes a scheduling point (only HandleWrite is rewritten)
        outp2 = os.path.join(d, "handler2.go")
        rc, so, se = run([os.path.join(BIN, "nvinstr"), outp, outp2, "HandleWrite,@messageLock"], timeout=120)
        if rc != 0:
            return False, "nvinstr handler.go (HandleWrite) failed:\n%s%s" % (so, se)
        mapping[os.path.join(REPO, "handler.go")] = outp2
        ov = overlay_json(mapping)
        rc, so, se = run(["go", "build", "-overlay", ov, "-o", os.path.join(BIN, "nvhc"), "./cmd/nvhc"], cwd=HARNESS, timeout=600)
        if rc != 0:
            return False, "go build nvhc (instrumented) failed:\n" + so + se
    return True, ""


ALL_GEN_TARGETS = ("pmath", "routing", "access", "guards")


def lean_stage(prop, gen_targets, extra_modules=()):
    """returns dict(ok, obligations, discharged, failed, axioms, log, gen_errors)"""
    res = dict(ok=False, obligations=[], discharged=[], failed=[], axioms={}, log="", gen_errors=[])
    with Lock("lean"):
        gen = os.path.join(LEAN, "NettyVerif", "Gen")
        os.makedirs(gen, exist_ok=True)
        for t in gen_targets:
            rc, so, se = run([os.path.join(BIN, "nvextract"), t, REPO, gen], timeout=120)
            if rc != 0:
                res["gen_errors"].append("%s: %s" % (t, (so + se).strip()))
        # keep the other generated files in step with the tree as well (a previous run may have generated them
        # from a different tree); failures there do not concern this property
        for t in ALL_GEN_TARGETS:
            if t not in gen_targets:
                run([os.path.join(BIN, "nvextract"), t, REPO, gen], timeout=120)
        mods = ["NettyVerif.Props.%s" % prop] + list(extra_modules)
        t0 = time.time()
        rc, so, se = run(["lake", "build"] + mods + ["nvdriver"], cwd=LEAN, timeout=1800)
        res["build_s"] = round(time.time() - t0, 1)
        res["log"] = so + se
    # theorems declared in the Props file = obligations
    props_file = os.path.join(LEAN, "NettyVerif", "Props", prop + ".lean")
    want = re.findall(r"^#print axioms ([\w.]+)", open(props_file).read(), re.M)
    res["obligations"] = want
    got = {}
    for m in re.finditer(r"'([\w.]+)' depends on axioms: \[([^\]]*)\]", res["log"]):
        got[m.group(1)] = [a.strip() for a in m.group(2).split(",") if a.strip()]
    for m in re.finditer(r"'([\w.]+)' does not depend on any axioms", res["log"]):
        got[m.group(1)] = []
    res["axioms"] = got
    for w in want:
        if w in got and set(got[w]) <= ALLOWED_AXIOMS:
            res["discharged"].append(w)
        else:
            res["failed"].append(w)
    hits = forbidden_hits()
    res["forbidden"] = hits
    res["ok"] = (rc == 0 and not res["failed"] and not hits and not res["gen_errors"] and os.path.exists(DRIVER))
    res["driver_ok"] = os.path.exists(DRIVER) and "nvdriver" not in [l for l in res["log"].split("\n") if l.startswith("✖")]
    if rc != 0:
        # which modules failed
        res["failed_modules"] = re.findall(r"^✖ \[\d+/\d+\] Building ([\w.]+)", res["log"], re.M)
        res["first_errors"] = re.findall(r"^error: (.*)$", res["log"], re.M)[:8]
    return res


# ------------------------------------------------------------------ tie stage

def drive(lines, timeout=900):
    """pipe protocol lines through nvdriver; returns list of (input, answer)"""
    payload = [l for l in lines if not l.startswith("#")]
    if not payload:
        return []
    rc, so, se = run([DRIVER], input="\n".join(payload) + "\n", timeout=timeout)
    outs = so.split("\n")
    if outs and outs[-1] == "":
        outs.pop()
    if rc != 0 or len(outs) != len(payload):
        raise RuntimeError("driver failed rc=%s, %d answers for %d lines: %s" % (rc, len(outs), len(payload), se[-2000:]))
    return list(zip(payload, outs))


def split_cases(lines):
    """group harness lines into cases: a line `#case <id> [meta]` starts a new case"""
    cases, cur = [], None
    for l in lines:
        if l.startswith("#case"):
            cur = dict(id=l[5:].strip(), lines=[])
            cases.append(cur)
        elif l.startswith("#"):
            continue
        else:
            if cur is None:
                cur = dict(id="0", lines=[])
                cases.append(cur)
            cur["lines"].append(l)
    return cases


# ------------------------------------------------------------------ findings / verdict

def load_findings():
    p = os.path.join(VERIF, "known_findings.jsonl")
    out = []
    if os.path.exists(p):
        for l in open(p):
            l = l.strip()
            if l and not l.startswith("#"):
                out.append(json.loads(l))
    return out


def write_replay(prop, payload):
    os.makedirs(os.path.join(VERIF, "replays"), exist_ok=True)
    blob = json.dumps(payload, indent=1, sort_keys=True, default=str)
    h = hashlib.sha1(blob.encode()).hexdigest()[:12]
    p = os.path.join(VERIF, "replays", "%s-%s.json" % (prop, h))
    with open(p, "w") as f:
        f.write(blob + "\n")
    return p


class Verdict:
    """collects violations; prints VIOLATION / KNOWN-FINDING lines; decides exit code"""

    def __init__(self, prop):
        self.prop = prop
        self.violations = []   # (signature, what, replay payload, found_input: bool)
        self.known = load_findings()
        self.notes = []

    def add(self, signature, what, payload, found_input=True):
        for v in self.violations:
            if v[0] == signature:
                return
        self.violations.append((signature, what, payload, found_input))

    def finish(self):
        """returns (exit_code, n_unlisted, list of known printed)"""
        known_sigs = {k["signature"]: k for k in self.known
                      if k.get("property") == self.prop and k.get("status") == "known"}
        n = 0
        printed = []
        for sig, what, payload, found in self.violations:
            if found and sig in known_sigs:
                print("KNOWN-FINDING: property=%s %s [%s]" % (self.prop, known_sigs[sig].get("what", what), sig))
                printed.append(sig)
                continue
            payload = dict(payload, property=self.prop, signature=sig, what=what, found_failing_input=found)
            path = write_replay(self.prop, payload)
            tail = "" if found else " no-failing-input-found"
            print("VIOLATION property=%s replay=%s%s" % (self.prop, path, tail))
            print("  " + what)
            n += 1
        return (1 if n else 0), n, printed


def write_evidence(prop, tier, seed, level, coverage, assumptions, wall_s, violations):
    os.makedirs(os.path.join(VERIF, "evidence"), exist_ok=True)
    ev = dict(property_id=prop, tier=tier, seed=int(seed), level=level, coverage=coverage,
              assumptions=assumptions, wall_s=round(wall_s, 2), violations=int(violations))
    p = os.path.join(VERIF, "evidence", prop + ".json")
    tmp = p + ".tmp%d" % os.getpid()
    with open(tmp, "w") as f:
        json.dump(ev, f, indent=1, sort_keys=True, default=str)
        f.write("\n")
    os.replace(tmp, p)
    return p


TRUSTED_BASE_COMMON = [
    "Lean 4.33.0 kernel (thorough tier re-checks the property module with leanchecker)",
    "axioms reported by #print axioms for every property theorem: subset of {propext, Classical.choice, Quot.sound}; no sorry/admit/native_decide/bv_decide/user axioms (grepped on every run)",
    "the Go harness (harness/cmd/nvh) and the Lean driver (lean/Driver) that execute model and implementation on the same inputs",
]


def hook_overlay():
    """files added to package netty at build time (never committed to /repo)"""
    return {os.path.join(REPO, "zz_nv_hooks.go"): os.path.join(HARNESS, "overlay", "zz_nv_hooks.go.txt")}


def overlay_json(mapping):
    d = tmpdir("nv-ov-")
    p = os.path.join(d, "overlay.json")
    with open(p, "w") as f:
        json.dump({"Replace": mapping}, f)
    return p
