import NettyVerif.Model.VarLen
/-! Facts about the variable-length decoder model. -/
namespace NettyVerif.VarLen

theorem step_bounded (max : Nat) (cs : List Bytes) (m : Bytes) (rest : List Bytes)
    (h : step max cs = .msg m rest) : m.length ≤ max := by
  cases cs with
  | nil => simp [step] at h
  | cons c cs =>
    simp only [step] at h
    split at h
    · simp at h; obtain ⟨rfl, _⟩ := h; assumption
    · simp at h; obtain ⟨rfl, _⟩ := h; simp [List.length_take]; omega

/-- every delivered message respects the configured maximum, whatever the fragments are -/
theorem run_bounded (max : Nat) : ∀ (fuel : Nat) (cs : List Bytes), ∀ m ∈ run max fuel cs, m.length ≤ max
  | 0, _ => by simp [run]
  | fuel+1, cs => by
    intro m hm
    simp only [run] at hm
    cases hs : step max cs with
    | raise => simp [hs] at hm
    | msg m' rest =>
      simp only [hs, List.mem_cons] at hm
      rcases hm with rfl | hm
      · exact step_bounded max cs _ rest hs
      · exact run_bounded max fuel rest m hm

theorem step_concat (max : Nat) (cs : List Bytes) (m : Bytes) (rest : List Bytes)
    (h : step max cs = .msg m rest) : m ++ rest.flatten = cs.flatten := by
  cases cs with
  | nil => simp [step] at h
  | cons c cs =>
    simp only [step] at h
    split at h
    · simp at h; obtain ⟨rfl, rfl⟩ := h; simp
    · simp at h; obtain ⟨rfl, rfl⟩ := h
      simp [List.flatten_cons, ← List.append_assoc, List.take_append_drop]

/-- nothing is lost, duplicated or reordered: what has been delivered so far is a prefix of the stream -/
theorem run_prefix (max : Nat) : ∀ (fuel : Nat) (cs : List Bytes), ∃ tail, (run max fuel cs).flatten ++ tail = cs.flatten
  | 0, cs => ⟨cs.flatten, by simp [run]⟩
  | fuel+1, cs => by
    simp only [run]
    cases hs : step max cs with
    | raise => exact ⟨cs.flatten, by simp⟩
    | msg m rest =>
      obtain ⟨t, ht⟩ := run_prefix max fuel rest
      refine ⟨t, ?_⟩
      simp only [List.flatten_cons, List.append_assoc, ht]
      exact step_concat max cs m rest hs

/-- a step on non-empty fragments with max > 0 delivers a non-empty message and leaves non-empty fragments -/
theorem step_nonempty (max : Nat) (hmax : 0 < max) (cs : List Bytes) (hne : ∀ c ∈ cs, c ≠ [])
    (m : Bytes) (rest : List Bytes) (h : step max cs = .msg m rest) : m ≠ [] ∧ (∀ c ∈ rest, c ≠ []) := by
  cases cs with
  | nil => simp [step] at h
  | cons c cs =>
    have hc := hne c (by simp)
    simp only [step] at h
    split at h
    · simp at h; obtain ⟨rfl, rfl⟩ := h
      exact ⟨hc, fun x hx => hne x (by simp [hx])⟩
    · rename_i hlt
      simp at h; obtain ⟨rfl, rfl⟩ := h
      constructor
      · intro he
        have h1 : (c.take max).length = min max c.length := List.length_take
        rw [he] at h1
        simp only [List.length_nil] at h1
        omega
      · intro x hx
        simp only [List.mem_cons] at hx
        rcases hx with rfl | hx
        · intro he
          have h1 : (c.drop max).length = c.length - max := List.length_drop
          rw [he] at h1
          simp only [List.length_nil] at h1
          omega
        · exact hne x (by simp [hx])

end NettyVerif.VarLen
