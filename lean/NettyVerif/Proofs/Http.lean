import NettyVerif.Model.Http
/-! The response writer's output is read back by the response parser: number printing, lines,
    header block, chunked bodies, the writer's invariant, and `finish_roundtrip`. -/
namespace NettyVerif.Http

theorem digitVal_digitChar : ∀ d : Fin 16, digitVal (digitChar d.val) = some d.val := by decide

theorem digitChar_plain : ∀ d : Fin 16, digitChar d.val ≠ LF ∧ digitChar d.val ≠ CR ∧ digitChar d.val ≠ COLON ∧ digitChar d.val ≠ SP ∧ digitChar d.val ≠ 9 := by decide

def stepB (b : Nat) (acc : Option Nat) (c : UInt8) : Option Nat :=
  match acc, digitVal c with
  | some a, some d => if d < b then some (a * b + d) else none
  | _, _ => none

theorem parseBase_eq (b : Nat) (l : Bytes) : parseBase b l = if l = [] then none else l.foldl (stepB b) (some 0) := rfl

theorem showBase_ne_nil (b f n : Nat) : showBase b (f + 1) n ≠ [] := by
  simp only [showBase]; split <;> simp

theorem showBase_fold (b : Nat) (hb2 : 2 ≤ b) (hb16 : b ≤ 16) : ∀ (f n : Nat), n < f →
    (showBase b f n).foldl (stepB b) (some 0) = some n := by
  intro f
  induction f with
  | zero => intro n h; omega
  | succ f ih =>
    intro n hn
    simp only [showBase]
    split
    · rename_i hlt
      have := digitVal_digitChar ⟨n, by omega⟩
      simp [stepB, this, hlt]
    · rename_i hge
      have hdiv : n / b < f := by
        have : n / b < n := Nat.div_lt_self (by omega) (by omega)
        omega
      have hmod : n % b < b := Nat.mod_lt _ (by omega)
      have := digitVal_digitChar ⟨n % b, by omega⟩
      rw [List.foldl_append, ih (n / b) hdiv]
      simp only [List.foldl_cons, List.foldl_nil, stepB, this, hmod, if_true]
      congr 1
      exact Nat.div_add_mod' n b

theorem parse_show (b : Nat) (hb2 : 2 ≤ b) (hb16 : b ≤ 16) (n : Nat) : parseBase b (showBase b (n + 1) n) = some n := by
  rw [parseBase_eq]
  simp [showBase_ne_nil, showBase_fold b hb2 hb16 (n + 1) n (by omega)]

theorem parseDec_showDec (n : Nat) : parseBase 10 (showDec n) = some n := parse_show 10 (by omega) (by omega) n
theorem parseHex_showHex (n : Nat) : parseBase 16 (showHex n) = some n := parse_show 16 (by omega) (by omega) n

/-- digits contain no line or field separators -/
theorem showBase_plain (b : Nat) (hb2 : 2 ≤ b) (hb16 : b ≤ 16) : ∀ (f n : Nat) (c : UInt8), c ∈ showBase b f n →
    c ≠ LF ∧ c ≠ CR ∧ c ≠ COLON ∧ c ≠ SP ∧ c ≠ 9 := by
  intro f
  induction f with
  | zero => intro n c h; simp [showBase] at h
  | succ f ih =>
    intro n c h
    simp only [showBase] at h
    split at h
    · rename_i hlt
      simp at h; subst h
      exact digitChar_plain ⟨n, by omega⟩
    · simp only [List.mem_append, List.mem_singleton] at h
      rcases h with h | h
      · exact ih _ c h
      · subst h
        have hmod : n % b < b := Nat.mod_lt _ (by omega)
        exact digitChar_plain ⟨n % b, by omega⟩

theorem takeLine_lf (l rest acc : Bytes) (h : LF ∉ l) :
    takeLine (l ++ LF :: rest) acc =
      some ((if (l.reverse ++ acc).head? = some CR then (l.reverse ++ acc).tail else (l.reverse ++ acc)).reverse, rest) := by
  induction l generalizing acc with
  | nil =>
    simp only [List.nil_append, takeLine, if_true, List.reverse_nil]
    congr 2
  | cons c l ih =>
    have hc : c ≠ LF := fun e => h (by simp [e])
    have hl : LF ∉ l := fun e => h (by simp [e])
    simp only [List.cons_append, takeLine, hc, if_false]
    rw [ih (c :: acc) hl]
    simp

/-- a CRLF-terminated line without LF inside is read back exactly -/
theorem takeLine_crlf (l rest : Bytes) (h : LF ∉ l) : takeLine (l ++ CRLF ++ rest) [] = some (l, rest) := by
  have e : l ++ CRLF ++ rest = (l ++ [CR]) ++ LF :: rest := by simp [CRLF, CR, LF]
  rw [e, takeLine_lf (l ++ [CR]) rest [] (by simp [h]; decide)]
  simp

theorem splitColon_app (k v acc : Bytes) (h : COLON ∉ k) : splitColon (k ++ COLON :: v) acc = some (acc.reverse ++ k, v) := by
  induction k generalizing acc with
  | nil => simp [splitColon]
  | cons c k ih =>
    have hc : c ≠ COLON := fun e => h (by simp [e])
    have hk : COLON ∉ k := fun e => h (by simp [e])
    simp only [List.cons_append, splitColon, hc, if_false]
    rw [ih (c :: acc) hk]
    simp

def notWs (c : UInt8) : Prop := c ≠ SP ∧ c ≠ 9

/-- a header value as the writer may emit it: no line feed, no blank at either end -/
structure OkVal (v : Bytes) : Prop where
  noLF : LF ∉ v
  head : ∀ c, v.head? = some c → notWs c
  last : ∀ c, v.getLast? = some c → notWs c

structure OkKey (k : Bytes) : Prop where
  ne : k ≠ []
  noLF : LF ∉ k
  noColon : COLON ∉ k

theorem trimSP_id (v : Bytes) (h : ∀ c, v.head? = some c → notWs c) : trimSP v = v := by
  cases v with
  | nil => rfl
  | cons c r =>
    have := h c rfl
    simp [trimSP, this.1, this.2]

theorem trim_id (v : Bytes) (h : OkVal v) : trim v = v := by
  unfold trim
  rw [trimSP_id v h.head, trimSP_id v.reverse (by intro c hc; rw [List.head?_reverse] at hc; exact h.last c hc)]
  simp

theorem trim_sp (v : Bytes) (h : OkVal v) : trim (SP :: v) = v := by
  have : trimSP (SP :: v) = trimSP v := by simp [trimSP]
  unfold trim
  rw [this]
  exact trim_id v h

theorem parseHeaderLine_ok (k v : Bytes) (hk : OkKey k) (hv : OkVal v) :
    parseHeaderLine (k ++ [COLON, SP] ++ v) = some (k, v) := by
  have e : k ++ [COLON, SP] ++ v = k ++ COLON :: (SP :: v) := by simp
  unfold parseHeaderLine
  rw [e, splitColon_app k (SP :: v) [] hk.noColon]
  simp [hk.ne, trim_sp v hv]

def OkHeaders (hs : List (Bytes × Bytes)) : Prop := ∀ kv ∈ hs, OkKey kv.1 ∧ OkVal kv.2

theorem headerLine_noLF (kv : Bytes × Bytes) (hk : OkKey kv.1) (hv : OkVal kv.2) : LF ∉ kv.1 ++ [COLON, SP] ++ kv.2 := by
  simp only [List.mem_append, List.mem_cons, List.not_mem_nil, or_false, not_or]
  exact ⟨⟨hk.noLF, by decide, by decide⟩, hv.noLF⟩

theorem parseHeaders_ok (hs : List (Bytes × Bytes)) (h : OkHeaders hs) : ∀ (f : Nat) (rest : Bytes), hs.length < f →
    parseHeaders f ((hs.map headerLine).flatten ++ CRLF ++ rest) = some (hs, rest) := by
  induction hs with
  | nil =>
    intro f rest hf
    obtain ⟨g, rfl⟩ : ∃ g, f = g + 1 := ⟨f - 1, by omega⟩
    have : ([] : Bytes) ++ CRLF ++ rest = CRLF ++ rest := by simp
    simp only [List.map_nil, List.flatten_nil, List.nil_append, parseHeaders]
    have := takeLine_crlf [] rest (by simp)
    simp only [List.nil_append] at this
    simp [this]
  | cons kv hs ih =>
    intro f rest hf
    obtain ⟨g, rfl⟩ : ∃ g, f = g + 1 := ⟨f - 1, by omega⟩
    have hkv := h kv (by simp)
    have hrest : OkHeaders hs := fun x hx => h x (by simp [hx])
    have e : ((kv :: hs).map headerLine).flatten ++ CRLF ++ rest =
        (kv.1 ++ [COLON, SP] ++ kv.2) ++ CRLF ++ ((hs.map headerLine).flatten ++ CRLF ++ rest) := by
      simp [headerLine, List.append_assoc]
    rw [e]
    simp only [parseHeaders]
    rw [takeLine_crlf _ _ (headerLine_noLF kv hkv.1 hkv.2)]
    have hne : kv.1 ++ [COLON, SP] ++ kv.2 ≠ [] := by simp
    simp only [hne, if_false, parseHeaderLine_ok kv.1 kv.2 hkv.1 hkv.2]
    rw [ih hrest g rest (by simp at hf; omega)]
    simp


theorem showHex_noLF (n : Nat) : LF ∉ showHex n := fun h => (showBase_plain 16 (by omega) (by omega) _ _ _ h).1 rfl
theorem showDec_noLF (n : Nat) : LF ∉ showDec n := fun h => (showBase_plain 10 (by omega) (by omega) _ _ _ h).1 rfl

def chunkedBody (ws : List Bytes) : Bytes := (ws.map chunkEnc).flatten

theorem parseChunked_ok (ws : List Bytes) : ∀ (f : Nat) (next : Bytes), ws.length < f →
    parseChunked f (chunkedBody ws ++ ([48] ++ CRLF) ++ CRLF ++ next) = some (ws.flatten, next) := by
  induction ws with
  | nil =>
    intro f next hf
    obtain ⟨g, rfl⟩ : ∃ g, f = g + 1 := ⟨f - 1, by omega⟩
    have e : chunkedBody [] ++ ([48] ++ CRLF) ++ CRLF ++ next = [48] ++ CRLF ++ (CRLF ++ next) := by simp [chunkedBody]
    rw [e]
    simp only [parseChunked]
    rw [takeLine_crlf [48] _ (by decide)]
    have h0 : parseBase 16 [48] = some 0 := by decide
    simp only [h0]
    have := parseHeaders_ok [] (by intro x hx; cases hx) ((CRLF ++ next).length + 1) next (by simp)
    simp only [List.map_nil, List.flatten_nil, List.nil_append] at this
    simp only [this, Option.map_some, List.flatten_nil]
  | cons b ws ih =>
    intro f next hf
    by_cases hb : b = []
    · subst hb
      have e : chunkedBody ([] :: ws) = chunkedBody ws := by simp [chunkedBody, chunkEnc]
      rw [e, ih f next (by simp at hf; omega)]
      simp
    · obtain ⟨g, rfl⟩ : ∃ g, f = g + 1 := ⟨f - 1, by omega⟩
      have e : chunkedBody (b :: ws) ++ ([48] ++ CRLF) ++ CRLF ++ next =
          showHex b.length ++ CRLF ++ (b ++ CRLF ++ (chunkedBody ws ++ ([48] ++ CRLF) ++ CRLF ++ next)) := by
        simp [chunkedBody, chunkEnc, hb, List.append_assoc]
      rw [e]
      simp only [parseChunked]
      rw [takeLine_crlf _ _ (showHex_noLF _)]
      dsimp only
      rw [parseHex_showHex]
      have hbl : b.length ≠ 0 := by simpa using hb
      obtain ⟨m, hm⟩ : ∃ m, b.length = m + 1 := ⟨b.length - 1, by omega⟩
      have hlen : ¬ (b ++ CRLF ++ (chunkedBody ws ++ ([48] ++ CRLF) ++ CRLF ++ next)).length < b.length + 2 := by
        simp [CRLF]
      have hdrop : (List.drop b.length (b ++ CRLF ++ (chunkedBody ws ++ ([48] ++ CRLF) ++ CRLF ++ next))).take 2 = CRLF := by
        simp [List.append_assoc, CRLF]
      have hdrop2 : List.drop (b.length + 2) (b ++ CRLF ++ (chunkedBody ws ++ ([48] ++ CRLF) ++ CRLF ++ next)) =
          chunkedBody ws ++ ([48] ++ CRLF) ++ CRLF ++ next := by
        rw [← List.drop_drop]
        simp [List.append_assoc, CRLF]
      have htake : List.take b.length (b ++ CRLF ++ (chunkedBody ws ++ ([48] ++ CRLF) ++ CRLF ++ next)) = b := by
        simp [List.append_assoc]
      rw [hm] at hlen hdrop hdrop2 htake ⊢
      simp only [hlen, if_false, hdrop, ne_eq, not_true_eq_false, hdrop2, htake]
      rw [ih g next (by simp at hf; omega)]
      simp

theorem showDec_1 (m : Nat) (h : m < 10) : showDec m = [digitChar m] := by
  simp [showDec, showBase, h]

theorem showBase_small (b f n : Nat) (h : n < b) : showBase b (f + 1) n = [digitChar n] := by
  simp [showBase, h]

theorem showBase_big (b f n : Nat) (h : ¬ n < b) : showBase b (f + 1) n = showBase b f (n / b) ++ [digitChar (n % b)] := by
  simp [showBase, h]

theorem showDec_3 (s : Nat) (h1 : 100 ≤ s) (h2 : s < 1000) :
    showDec s = [digitChar (s / 100), digitChar (s / 10 % 10), digitChar (s % 10)] := by
  obtain ⟨k, rfl⟩ : ∃ k, s = k + 2 := ⟨s - 2, by omega⟩
  unfold showDec
  rw [showBase_big 10 (k + 2) (k + 2) (by omega)]
  rw [show k + 2 = (k + 1) + 1 from rfl, showBase_big 10 (k + 1) ((k + 1 + 1) / 10) (by omega)]
  rw [show k + 1 = k + 1 from rfl, showBase_small 10 k ((k + 1 + 1) / 10 / 10) (by omega)]
  have : (k + 1 + 1) / 10 / 10 = (k + 1 + 1) / 100 := by omega
  simp [this]

theorem parseBase10_1 (d : Nat) (h : d < 10) : parseBase 10 [digitChar d] = some d := by
  have := digitVal_digitChar ⟨d, by omega⟩
  simp [parseBase, this, h]

theorem parseBase10_3 (a b c : Nat) (ha : a < 10) (hb : b < 10) (hc : c < 10) :
    parseBase 10 [digitChar a, digitChar b, digitChar c] = some (a * 100 + b * 10 + c) := by
  have h1 := digitVal_digitChar ⟨a, by omega⟩
  have h2 := digitVal_digitChar ⟨b, by omega⟩
  have h3 := digitVal_digitChar ⟨c, by omega⟩
  simp only [parseBase, List.cons_ne_nil, if_false, List.foldl_cons, List.foldl_nil] at *
  simp only [h1, h2, h3, ha, hb, hc, if_true]
  congr 1; omega

theorem parseStatusLine_ok (minor status : Nat) (hm : minor < 10) (h1 : 100 ≤ status) (h2 : status < 1000) :
    parseStatusLine (sHTTP1 ++ showDec minor ++ [SP] ++ showDec status ++ sOK) = some (minor, status) := by
  rw [showDec_1 minor hm, showDec_3 status h1 h2]
  simp only [sHTTP1, sOK, SP, List.cons_append, List.nil_append, parseStatusLine]
  rw [parseBase10_1 minor hm, parseBase10_3 _ _ _ (by omega) (by omega) (by omega)]
  simp
  omega


/-! ### the writer -/

def opOK : HOp → Prop
  | .setHeader k v => OkKey k ∧ OkVal v
  | .writeHeader c => 100 ≤ c ∧ c < 1000
  | _ => True

structure Inv (w : RW) : Prop where
  legacy : w.legacy10 = false
  notFinished : w.finished = false
  notCrashed : w.crashed = false
  minor : w.minor ≤ 1
  headerOK : OkHeaders w.header
  before : w.wroteHeader = false → w.out = [] ∧ w.body = []
  after : w.wroteHeader = true →
    100 ≤ w.status ∧ w.status < 1000 ∧ OkHeaders w.sent ∧ (w.minor = 0 → ∀ kv ∈ w.sent, kv.1 ≠ sTE) ∧
    w.chunked = decide (lookup w.sent sTE = sChunked) ∧
    ∃ ws : List Bytes, (∀ b ∈ ws, b ≠ []) ∧ w.body = ws.flatten ∧
      w.out = headBytes w.minor w.status w.sent ++ (if w.chunked then chunkedBody ws else ws.flatten)

theorem okServer : OkKey sServer ∧ OkVal sGoNetty := by
  refine ⟨⟨by decide, by decide, by decide⟩, ⟨by decide, ?_, ?_⟩⟩
  · intro c h; simp [sGoNetty] at h; subst h; exact ⟨by decide, by decide⟩
  · intro c h; simp [sGoNetty] at h; subst h; exact ⟨by decide, by decide⟩

theorem inv_init (minor : Nat) (hm : minor ≤ 1) (c : Bool) : Inv { minor := minor, reqClose := c } := by
  refine ⟨rfl, rfl, rfl, hm, ?_, fun _ => ⟨rfl, rfl⟩, fun h => by cases h⟩
  intro kv hkv
  simp at hkv; subst hkv
  exact okServer

theorem okHeaders_filter (hs : List (Bytes × Bytes)) (p : Bytes × Bytes → Bool) (h : OkHeaders hs) : OkHeaders (hs.filter p) :=
  fun kv hkv => h kv (List.mem_filter.1 hkv).1

theorem doHeader_wrote (w : RW) (c : Nat) : (w.doHeader c).wroteHeader = true := by
  unfold RW.doHeader
  by_cases hw : w.wroteHeader = true
  · simp [hw]
  · simp [hw]

theorem inv_doHeader (w : RW) (c : Nat) (hc : 100 ≤ c ∧ c < 1000) (h : Inv w) : Inv (w.doHeader c) := by
  unfold RW.doHeader
  by_cases hw : w.wroteHeader = true
  · simp only [hw, if_true]; exact h
  · have hw' : w.wroteHeader = false := by simpa using hw
    rw [if_neg hw]
    obtain ⟨ho, hb⟩ := h.before hw'
    have hok : OkHeaders (if w.minor = 0 ∧ (!w.legacy10) = true then w.header.filter (fun x => decide (x.1 ≠ sTE)) else w.header) := by
      split
      · exact okHeaders_filter _ _ h.headerOK
      · exact h.headerOK
    refine ⟨h.legacy, h.notFinished, h.notCrashed, h.minor, hok, (fun hh => nomatch hh), fun _ => ⟨hc.1, hc.2, hok, ?_, rfl, [], by simp, ?_, ?_⟩⟩
    · intro hm0 kv hkv
      have hm0' : w.minor = 0 := hm0
      simp only [hm0', h.legacy, Bool.not_false, and_self, if_true] at hkv
      have := (List.mem_filter.1 hkv).2
      simpa using this
    · simpa using hb
    · simp [ho, chunkedBody]

theorem chunkedBody_append (ws : List Bytes) (b : Bytes) : chunkedBody (ws ++ [b]) = chunkedBody ws ++ chunkEnc b := by
  simp [chunkedBody]

theorem inv_op (w : RW) (o : HOp) (ho : opOK o) (h : Inv w) : Inv (w.op o) := by
  cases o with
  | setHeader k v =>
    simp only [RW.op]
    refine ⟨h.legacy, h.notFinished, h.notCrashed, h.minor, ?_, h.before, h.after⟩
    intro kv hkv
    simp only [List.mem_append, List.mem_filter, List.mem_singleton] at hkv
    rcases hkv with hkv | hkv
    · exact h.headerOK kv hkv.1
    · subst hkv; exact ho
  | writeHeader c => exact inv_doHeader w c ho h
  | write b =>
    have h1 := inv_doHeader w 200 (by omega) h
    have hwr := doHeader_wrote w 200
    obtain ⟨s1, s2, s3, s4, s5, ws, hne, hbody, hout⟩ := h1.after hwr
    simp only [RW.op, h1.notFinished, Bool.false_eq_true, if_false]
    refine ⟨?_, ?_, ?_, ?_, ?_, ?_, ?_⟩
    · exact h1.legacy
    · rfl
    · exact h1.notCrashed
    · exact h1.minor
    · exact h1.headerOK
    · intro hh; exact absurd hwr (by simpa using hh)
    · intro _
      by_cases hb : b = []
      · subst hb
        refine ⟨s1, s2, s3, s4, s5, ws, hne, ?_, ?_⟩
        · simp [hbody]
        · show (w.doHeader 200).out ++ (if (w.doHeader 200).chunked then chunkEnc [] else []) = _
          rw [hout]
          split <;> simp [chunkEnc]
      · refine ⟨s1, s2, s3, s4, s5, ws ++ [b], ?_, ?_, ?_⟩
        · intro x hx
          simp only [List.mem_append, List.mem_singleton] at hx
          rcases hx with hx | hx
          · exact hne x hx
          · subst hx; exact hb
        · simp [hbody]
        · show (w.doHeader 200).out ++ (if (w.doHeader 200).chunked then chunkEnc b else b) = _
          rw [hout]
          split <;> simp [chunkedBody_append, List.append_assoc]
  | flush =>
    have h1 := inv_doHeader w 200 (by omega) h
    simp only [RW.op, h.notFinished, Bool.false_eq_true, if_false]
    exact ⟨h1.legacy, h1.notFinished, h1.notCrashed, h1.minor, h1.headerOK, h1.before, h1.after⟩

theorem inv_fold (prog : List HOp) (hp : ∀ o ∈ prog, opOK o) (w : RW) (h : Inv w) : Inv (prog.foldl RW.op w) := by
  induction prog generalizing w with
  | nil => exact h
  | cons o rest ih =>
    simp only [List.foldl_cons]
    exact ih (fun x hx => hp x (by simp [hx])) _ (inv_op w o (hp o (by simp)) h)


/-! ### reading a response back -/

theorem headerLines_length (hs : List (Bytes × Bytes)) : hs.length ≤ ((hs.map headerLine).flatten).length := by
  induction hs with
  | nil => simp
  | cons kv hs ih => simp [headerLine] at *; omega

theorem statusText_noLF (m s : Nat) : LF ∉ sHTTP1 ++ showDec m ++ [SP] ++ showDec s ++ sOK := by
  simp only [List.mem_append, not_or]
  exact ⟨⟨⟨⟨by decide, showDec_noLF m⟩, by decide⟩, showDec_noLF s⟩, by decide⟩

/-- status line and header block are read back; what remains is the body stage -/
theorem parseResp_head (m s : Nat) (hs : List (Bytes × Bytes)) (r2 : Bytes) (hm : m < 10) (h1 : 100 ≤ s) (h2 : s < 1000)
    (hok : OkHeaders hs) :
    parseResp (headBytes m s hs ++ r2) =
      (let hs' := if m = 0 then hs.filter (·.1 ≠ sTE) else hs
       if lookup hs' sTE = sChunked then
         (parseChunked (r2.length + 1) r2).map (fun (b, r3) => ({ minor := m, status := s, headers := hs', body := b }, r3))
       else if lookup hs' sCL ≠ [] then
         match parseBase 10 (lookup hs' sCL) with
         | none => none
         | some n => if r2.length < n then none else some ({ minor := m, status := s, headers := hs', body := r2.take n }, r2.drop n)
       else some ({ minor := m, status := s, headers := hs', body := r2 }, [])) := by
  have e : headBytes m s hs ++ r2 =
      (sHTTP1 ++ showDec m ++ [SP] ++ showDec s ++ sOK) ++ CRLF ++ ((hs.map headerLine).flatten ++ CRLF ++ r2) := by
    simp [headBytes, statusLine, List.append_assoc]
  unfold parseResp
  rw [e, takeLine_crlf _ _ (statusText_noLF m s)]
  dsimp only
  rw [parseStatusLine_ok m s hm h1 h2]
  dsimp only
  rw [parseHeaders_ok hs hok _ r2 (by have := headerLines_length hs; simp only [List.length_append]; omega)]
  rfl

def view (w : RW) : Resp := { minor := w.minor, status := w.status, headers := w.sent, body := w.body }

def selfDelimiting (w : RW) : Bool := w.chunked || decide (lookup w.sent sCL ≠ [])

/-- the handler kept an explicit Content-Length consistent with what it wrote, used no transfer coding
    other than chunked and announced no trailers -/
structure Consistent (w : RW) : Prop where
  length : w.chunked = false → lookup w.sent sCL ≠ [] → lookup w.sent sCL = showDec w.body.length
  coding : lookup w.sent sTE = [] ∨ lookup w.sent sTE = sChunked
  noTrailer : lookup w.sent sTrailer = []

theorem filter_noTE (hs : List (Bytes × Bytes)) (h : ∀ kv ∈ hs, kv.1 ≠ sTE) : hs.filter (fun x => decide (x.1 ≠ sTE)) = hs := by
  apply List.filter_eq_self.2
  intro kv hkv
  simpa using h kv hkv

theorem chunk_len (ws : List Bytes) (hne : ∀ b ∈ ws, b ≠ []) : ws.length ≤ (chunkedBody ws).length := by
  induction ws with
  | nil => simp
  | cons b ws ih =>
    have hb := hne b (by simp)
    have hbl : b.length ≠ 0 := by simpa using hb
    have := ih (fun x hx => hne x (by simp [hx]))
    simp only [chunkedBody, List.map_cons, List.flatten_cons, List.length_append, List.length_cons, chunkEnc, hb, if_false] at *
    omega

/-- **finish, then read back** — the core of C15 -/
theorem finish_roundtrip (w0 : RW) (h : Inv w0) (hcons : Consistent w0.finish) :
    (selfDelimiting w0.finish = true → ∀ next, parseResp (w0.finish.out ++ next) = some (view w0.finish, next)) ∧
    (selfDelimiting w0.finish = false → parseResp w0.finish.out = some (view w0.finish, [])) ∧
    w0.finish.markedClose = (w0.reqClose || !selfDelimiting w0.finish) ∧ w0.finish.flushed = w0.finish.out.length ∧
    w0.finish.finished = true ∧ w0.finish.crashed = false := by
  have h1 := inv_doHeader w0 200 (by omega) h
  have hwr := doHeader_wrote w0 200
  have hrc : (w0.doHeader 200).reqClose = w0.reqClose := by unfold RW.doHeader; split <;> rfl
  obtain ⟨s1, s2, s3, s4, s5, ws, hne, hbody, hout⟩ := h1.after hwr
  have hmin := h1.minor
  have hcr := h1.notCrashed
  obtain ⟨hlen, hcod, htr⟩ := hcons
  simp only [RW.finish, h.notFinished, Bool.false_eq_true, if_false] at hlen hcod htr ⊢
  generalize w0.doHeader 200 = w1 at *
  have hm10 : w1.minor < 10 := by omega
  have hs' : (if w1.minor = 0 then w1.sent.filter (fun x => decide (x.1 ≠ sTE)) else w1.sent) = w1.sent := by
    split
    · rename_i h0; exact filter_noTE _ (s4 h0)
    · rfl
  cases hch : w1.chunked with
  | true =>
    have hte : lookup w1.sent sTE = sChunked := by rw [hch] at s5; simpa using s5.symm
    have hout' : w1.out = headBytes w1.minor w1.status w1.sent ++ chunkedBody ws := by rw [hout, hch]; rfl
    refine ⟨?_, ?_, ?_, ?_, ?_, ?_⟩
    · intro _ next
      simp only [view, hch, if_true, htr]
      have e : w1.out ++ ([48] ++ CRLF ++ CRLF) ++ next =
          headBytes w1.minor w1.status w1.sent ++ (chunkedBody ws ++ ([48] ++ CRLF) ++ CRLF ++ next) := by
        rw [hout']; simp [List.append_assoc]
      rw [e, parseResp_head _ _ _ _ hm10 s1 s2 s3]
      simp only [hs', hte, if_true]
      rw [parseChunked_ok ws _ next (by have := chunk_len ws hne; simp only [List.length_append]; omega)]
      simp [hbody]
    · intro hh; simp [selfDelimiting, hch] at hh
    · simp [selfDelimiting, hch, hrc, hte, sChunked]
    · trivial
    · trivial
    · exact hcr
  | false =>
    have hte : lookup w1.sent sTE ≠ sChunked := by rw [hch] at s5; simpa using s5.symm
    have hte0 : lookup w1.sent sTE = [] := by rcases hcod with h | h; exact h; exact absurd h hte
    have hout' : w1.out = headBytes w1.minor w1.status w1.sent ++ w1.body := by rw [hout, hch, hbody]; rfl
    refine ⟨?_, ?_, ?_, ?_, ?_, ?_⟩
    · intro hsd next
      have hcl : lookup w1.sent sCL ≠ [] := by simpa [selfDelimiting, hch] using hsd
      have hl := hlen hch hcl
      simp only [view, hch, Bool.false_eq_true, if_false, List.append_nil]
      rw [hout', List.append_assoc, parseResp_head _ _ _ _ hm10 s1 s2 s3]
      simp only [hs', hte, if_false, hcl, ne_eq, not_false_eq_true, if_true, hl, parseDec_showDec]
      have hne' : showDec w1.body.length ≠ [] := showBase_ne_nil 10 _ _
      have hlt : ¬ (List.length w1.body + List.length next < List.length w1.body) := by omega
      simp [hne', hlt]
    · intro hsd
      have hcl : lookup w1.sent sCL = [] := by simpa [selfDelimiting, hch] using hsd
      simp only [view, hch, Bool.false_eq_true, if_false, List.append_nil]
      rw [hout', parseResp_head _ _ _ _ hm10 s1 s2 s3]
      simp only [hs']
      simp [hte, hcl]
    · by_cases hcl : lookup w1.sent sCL = [] <;> simp [selfDelimiting, hch, hrc, hte0, hcl]
    · trivial
    · trivial
    · exact hcr

theorem op_reqClose (w : RW) (o : HOp) : (w.op o).reqClose = w.reqClose ∧ (w.op o).minor = w.minor := by
  cases o <;> simp only [RW.op, RW.doHeader] <;> (repeat' split) <;> simp

theorem fold_reqClose (prog : List HOp) (w : RW) :
    (prog.foldl RW.op w).reqClose = w.reqClose ∧ (prog.foldl RW.op w).minor = w.minor := by
  induction prog generalizing w with
  | nil => simp
  | cons o rest ih =>
    simp only [List.foldl_cons]
    have := op_reqClose w o
    rw [(ih (w.op o)).1, (ih (w.op o)).2, this.1, this.2]
    simp

end NettyVerif.Http
