import NettyVerif.Model.Access
import NettyVerif.Proofs.HB
/-! A table of access sites that passes the policy check makes every trace built from instances of
    its sites conform to the induced protection policy. -/
namespace NettyVerif.Access
open NettyVerif.HB

def sitesOf (obj field : String) (sites : List Site) : List Site :=
  sites.filter (fun s => s.obj == obj && s.field == field && !s.ctor)

theorem mem_sitesOf {sites : List Site} {s : Site} (h : s ∈ sites) (hc : s.ctor = false) : s ∈ sitesOf s.obj s.field sites := by
  simp [sitesOf, h, hc]

theorem classify_immutable (P : Policy) (o f : String) (T : List Site) (h : classify P o f T = .immutable) :
    ∀ s ∈ sitesOf o f T, s.kind.isRead = true := by
  unfold classify at h
  simp only at h
  split at h
  · cases h
  · split at h
    · rename_i hall
      intro s hs
      exact List.all_eq_true.1 hall s hs
    · split at h
      · cases h
      · split at h
        · split at h <;> cases h
        · split at h
          · rename_i hnil
            intro s hs
            simp only [sitesOf] at hs
            rw [hnil] at hs; cases hs
          · split at h <;> cases h

theorem classify_atomic (P : Policy) (o f : String) (T : List Site) (h : classify P o f T = .atomic) :
    ∀ s ∈ sitesOf o f T, s.kind = .atomic := by
  unfold classify at h
  simp only at h
  split at h
  · cases h
  · split at h
    · cases h
    · split at h
      · rename_i hall
        intro s hs
        have := List.all_eq_true.1 hall s hs
        simpa using this
      · split at h
        · split at h <;> cases h
        · split at h
          · cases h
          · split at h <;> cases h

theorem classify_guarded (P : Policy) (o f : String) (T : List Site) (m : String) (h : classify P o f T = .guarded m) :
    ∀ s ∈ sitesOf o f T, guardOK m s = true := by
  unfold classify at h
  simp only at h
  split at h
  · cases h
  · split at h
    · cases h
    · split at h
      · cases h
      · split at h
        · split at h <;> cases h
        · split at h
          · cases h
          · split at h
            · rename_i m' hfind
              injection h with h; subst h
              have := List.find?_some hfind
              intro s hs
              exact List.all_eq_true.1 this s hs
            · cases h

theorem classify_owned (P : Policy) (o f : String) (T : List Site) (k : String) (h : classify P o f T = .owned k) :
    ∀ s ∈ sitesOf o f T, (s.kind.isRead = true ∨ s.kind = .write) := by
  unfold classify at h
  simp only at h
  split at h
  · cases h
  · split at h
    · cases h
    · split at h
      · cases h
      · split at h
        · split at h
          · rename_i hall
            intro s hs
            have := List.all_eq_true.1 hall s hs
            simp only [Bool.and_eq_true, Bool.or_eq_true, beq_iff_eq] at this
            exact this.2
          · cases h
        · split at h
          · cases h
          · split at h <;> cases h

/-- the locations the table speaks for: their field has a discipline and is not excluded by the property -/
def Covered (P : Policy) (T : List Site) (W : World) (x : Nat) : Prop :=
  classify P (W.fieldOf x).1 (W.fieldOf x).2 T ≠ .unprotected ∧ classify P (W.fieldOf x).1 (W.fieldOf x).2 T ≠ .excluded

/-- if every access event is an execution of some site of the table, and the functions that the
    policy allows to touch token-owned fields run only while their goroutine owns the token, then
    the trace conforms to the policy induced by the table -/
theorem table_conforms (P : Policy) (T : List Site) (W : World) (tr : Trace)
    (hinst : ∀ (i : Nat) (e : Ev) (x : Nat) (w a : Bool), tr[i]? = some e → e.op.access = some (x, w, a) →
      ∃ s ∈ T, InstanceOf W tr i e x w a s)
    (htok : ∀ (i : Nat) (e : Ev) (x : Nat) (w a : Bool) (k : String), tr[i]? = some e → e.op.access = some (x, w, a) → e.init = false →
      classify P (W.fieldOf x).1 (W.fieldOf x).2 T = .owned k → Owns tr e.tid (W.tokenOf x k) i) :
    Conforms tr (polOf P T W) (Covered P T W) := by
  intro i e x w a hS hi hinit hacc
  obtain ⟨s, hsT, hfld, hctor, hkind, hex, hsh⟩ := hinst i e x w a hi hacc
  have hsc : s.ctor = false := by rw [← hctor]; exact hinit
  have hmem := mem_sitesOf hsT hsc
  have ho : s.obj = (W.fieldOf x).1 := by rw [← hfld]
  have hf : s.field = (W.fieldOf x).2 := by rw [← hfld]
  rw [ho, hf] at hmem
  unfold polOf
  cases hcl : classify P (W.fieldOf x).1 (W.fieldOf x).2 T with
  | unprotected => exact absurd hcl hS.1
  | excluded => exact absurd hcl hS.2
  | immutable =>
    have hr := classify_immutable P _ _ T hcl s hmem
    simp only
    cases hk : s.kind with
    | read => rw [hk] at hkind; exact hkind
    | call m => rw [hk] at hkind; exact hkind
    | alias => rw [hk] at hkind; exact hkind
    | write => rw [hk] at hr; cases hr
    | atomic => rw [hk] at hr; cases hr
    | addr => rw [hk] at hr; cases hr
  | atomic =>
    have hr := classify_atomic P _ _ T hcl s hmem
    simp only
    rw [hr] at hkind; exact hkind
  | guarded m =>
    have hg := classify_guarded P _ _ T m hcl s hmem
    simp only
    unfold guardOK at hg
    cases hk : s.kind with
    | write =>
      rw [hk] at hkind hg
      exact ⟨hkind.2, Or.inl (hex m hg)⟩
    | read =>
      rw [hk] at hkind hg
      simp only [Bool.or_eq_true] at hg
      rcases hg with h | h
      · exact ⟨hkind.2, Or.inl (hex m h)⟩
      · exact ⟨hkind.2, Or.inr ⟨hkind.1, hsh m h⟩⟩
    | call c =>
      rw [hk] at hkind hg
      simp only [Bool.or_eq_true] at hg
      rcases hg with h | h
      · exact ⟨hkind.2, Or.inl (hex m h)⟩
      · exact ⟨hkind.2, Or.inr ⟨hkind.1, hsh m h⟩⟩
    | atomic => rw [hk] at hg; cases hg
    | addr => rw [hk] at hg; cases hg
    | alias => rw [hk] at hg; cases hg
  | owned k =>
    have hr := classify_owned P _ _ T k hcl s hmem
    simp only
    refine ⟨?_, htok i e x w a k hi hacc hinit hcl⟩
    cases hk : s.kind with
    | read => rw [hk] at hkind; exact hkind.2
    | call m => rw [hk] at hkind; exact hkind.2
    | alias => rw [hk] at hkind; exact hkind.2
    | write => rw [hk] at hkind; exact hkind.2
    | atomic => rw [hk] at hr; rcases hr with h | h <;> cases h
    | addr => rw [hk] at hr; rcases hr with h | h <;> cases h

/-- a table that passes the check leaves no field with an access site unprotected -/
theorem tableOK_site (P : Policy) (fields : List (String × String)) (T : List Site) (h : tableOK P fields T = true) :
    ∀ s ∈ T, classify P s.obj s.field T ≠ .unprotected := by
  intro s hs
  simp only [tableOK, Bool.and_eq_true] at h
  have h1 := List.all_eq_true.1 h.1 s hs
  have h2 := List.all_eq_true.1 h.2 (s.obj, s.field) (by simpa using h1)
  simpa using h2

end NettyVerif.Access
