import NettyVerif.Model.Panic
/-! Lemmas about the nested-reaction model (C07): projections of the trace onto one exception value. -/
namespace NettyVerif.Panic
open NettyVerif.Pipeline

/-- the chain of exception handlers from position i: positions, and whether the tail is reached -/
def chain : Nat → List PHandler → List Nat × Bool
  | _, [] => ([], true)
  | i, p :: rest =>
    if p.h.implements .exception then
      if p.h.forwards .exception then let r := chain (i+1) rest; (i :: r.1, r.2) else ([i], false)
    else chain (i+1) rest

theorem fireException_chain (hs : List PHandler) : fireException hs = chain 1 hs := by
  unfold fireException
  suffices h : ∀ (i : Nat) (l : List PHandler),
      ((deliverUpP .exception i (l.map (fun p => { p with pan := 0 }))).1,
       (deliverUpP .exception i (l.map (fun p => { p with pan := 0 }))).2 == .fin .close) = chain i l from h 1 hs
  intro i l
  induction l generalizing i with
  | nil => simp [deliverUpP, chain]
  | cons p rest ih =>
    simp only [List.map_cons, deliverUpP, chain, PHandler.panics]
    by_cases hi : p.h.implements .exception
    · simp only [hi, ite_true, Nat.zero_testBit, Bool.false_eq_true, ite_false]
      by_cases hf : p.h.forwards .exception
      · simp only [hf, ite_true]
        have := ih (i+1)
        rw [← this]
      · simp [hf]
    · simp only [hi, Bool.false_eq_true, ite_false]; exact ih (i+1)

@[simp] theorem excOf_nil (w : PVal) : excOf w [] = [] := rfl
@[simp] theorem excOf_append (w : PVal) (a b : List TEv) : excOf w (a ++ b) = excOf w a ++ excOf w b := by
  simp [excOf, List.filterMap_append]
@[simp] theorem excOf_cons_exc (w v : PVal) (p : Nat) (t : List TEv) :
    excOf w (.exc p v :: t) = (if v = w then [p] else []) ++ excOf w t := by
  by_cases h : v = w <;> simp [excOf, h]
theorem excOf_visits (w : PVal) (k : Kind) (l : List Nat) : excOf w (l.map (fun p => TEv.visit k p)) = [] := by
  induction l with
  | nil => rfl
  | cons a l ih => simpa [excOf] using ih
theorem excOf_excs (w v : PVal) (l : List Nat) :
    excOf w (l.map (fun p => TEv.exc p v)) = if v = w then l else [] := by
  induction l with
  | nil => simp
  | cons a l ih =>
    simp only [List.map_cons, excOf_cons_exc, ih]
    by_cases h : v = w <;> simp [h]

/-- positions of a chain started at i are ≥ i -/
theorem chain_ge (i : Nat) (l : List PHandler) : ∀ j ∈ (chain i l).1, i ≤ j := by
  induction l generalizing i with
  | nil => simp [chain]
  | cons p rest ih =>
    intro j hj
    simp only [chain] at hj
    by_cases hi : p.h.implements .exception
    · by_cases hf : p.h.forwards .exception
      · simp only [hi, hf, ite_true, List.mem_cons] at hj
        rcases hj with rfl | hj
        · exact Nat.le_refl _
        · exact Nat.le_of_succ_le (ih (i+1) j hj)
      · simp only [hi, hf, ite_true, Bool.false_eq_true, ite_false, List.mem_singleton] at hj
        omega
    · simp only [hi, Bool.false_eq_true, ite_false] at hj
      exact Nat.le_of_succ_le (ih (i+1) j hj)

/-- the pass with a reacting handler: the tail flag is that of the plain chain; the reaction takes
    place iff the reactor is on the chain; projected on a value `w`, the trace is the chain (when
    `w` is the travelling value) followed/interleaved by the reaction's own projection, once -/
theorem excReact_spec (v w : PVal) (r : Nat) (N : List TEv) (hN : excOf v N = []) (hvw : v ≠ w) (i : Nat) (l : List PHandler) :
    (excReact v r N i l).2.2 = (chain i l).2 ∧
    ((excReact v r N i l).2.1 = true ↔ r ∈ (chain i l).1) ∧
    excOf v (excReact v r N i l).1 = (chain i l).1 ∧
    excOf w (excReact v r N i l).1 = (if r ∈ (chain i l).1 then excOf w N else []) := by
  induction l generalizing i with
  | nil => simp [excReact, chain]
  | cons p rest ih =>
    have h := ih (i+1)
    have hge := chain_ge (i+1) rest
    simp only [excReact, chain]
    by_cases hi : p.h.implements .exception
    · by_cases hf : p.h.forwards .exception
      · simp only [hi, hf, ite_true, excOf_cons_exc, excOf_append, List.mem_cons, h.1, h.2.2.1, h.2.2.2, Bool.or_eq_true, beq_iff_eq]
        refine ⟨trivial, ?_, ?_, ?_⟩
        · rw [h.2.1]; constructor
          · rintro (h1 | h1); exact Or.inl h1.symm; exact Or.inr h1
          · rintro (h1 | h1); exact Or.inl h1.symm; exact Or.inr h1
        · by_cases hr : i = r
          · simp [hr, hN]
          · simp [hr]
        · by_cases hr : i = r
          · subst hr
            have : i ∉ (chain (i+1) rest).1 := fun hm => by have := hge i hm; omega
            simp [hvw, this]
          · have : ¬ r = i := fun h => hr h.symm
            simp [hr, hvw, this]
      · simp only [hi, hf, ite_true, Bool.false_eq_true, ite_false, excOf_cons_exc, List.mem_singleton, beq_iff_eq]
        refine ⟨trivial, ⟨fun h => h.symm, fun h => h.symm⟩, ?_, ?_⟩
        · by_cases hr : i = r <;> simp [hr, hN]
        · by_cases hr : i = r
          · simp [hr, hvw]
          · have : ¬ r = i := fun h => hr h.symm
            simp [hr, hvw, this]
    · simp only [hi, Bool.false_eq_true, ite_false]; exact h

/-- the reaction's own trace: visits, then (if its delivery panicked with `v2`) the whole chain with `v2` -/
theorem nestedInvoke_panic (hs : List PHandler) (hf : Option PVal) (k : Kind) (vis : List Nat) (pos : Nat) (v2 : PVal)
    (hp : deliverP hs hf k (if k = .write then hs.length + 1 else 0) = (vis, .panic pos v2)) (w : PVal) :
    excOf w (nestedInvoke hs hf k).1 = (if v2 = w then (chain 1 hs).1 else []) ∧
    (nestedInvoke hs hf k).2 = (if (chain 1 hs).2 || v2.isFatalNet then some v2 else none) := by
  simp only [nestedInvoke, hp, excPlain, fireException_chain, excOf_append, excOf_visits, excOf_excs, List.nil_append, and_self]

theorem nestedInvoke_fin (hs : List PHandler) (hf : Option PVal) (k : Kind) (vis : List Nat) (f : Final)
    (hp : deliverP hs hf k (if k = .write then hs.length + 1 else 0) = (vis, .fin f)) (w : PVal) :
    excOf w (nestedInvoke hs hf k).1 = [] ∧ (nestedInvoke hs hf k).2 = none := by
  simp only [nestedInvoke, hp, excOf_visits, and_self]

end NettyVerif.Panic

namespace NettyVerif.Panic
open NettyVerif.Pipeline

/-- without a reacting handler (position 0 is the head, never an exception handler of the list) the
    pass is the plain chain -/
theorem excReact_none (v : PVal) (N : List TEv) (i : Nat) (hi : 1 ≤ i) (l : List PHandler) :
    excReact v 0 N i l = ((chain i l).1.map (fun p => TEv.exc p v), false, (chain i l).2) := by
  induction l generalizing i with
  | nil => simp [excReact, chain]
  | cons p rest ih =>
    have h := ih (i+1) (by omega)
    have h0 : ¬ i = 0 := by omega
    simp only [excReact, chain]
    by_cases hx : p.h.implements .exception
    · by_cases hf : p.h.forwards .exception
      · simp [hx, hf, h, h0]
      · simp [hx, hf, h0]
    · simp only [hx, Bool.false_eq_true, ite_false]; exact h

end NettyVerif.Panic
