import NettyVerif.Model.Pipeline
/-! Pointer-level reasoning for the pipeline model: paths through `next`/`prev`, the frame
    lemma, well-formedness of the doubly linked list and its preservation by insertion. -/
namespace NettyVerif.Pipeline

@[simp] theorem upd_same {α} (f : Nat → α) (a : Nat) (v : α) : upd f a v a = v := by simp [upd]
theorem upd_other {α} (f : Nat → α) (a : Nat) (v : α) (x : Nat) (h : x ≠ a) : upd f a v x = f x := by simp [upd, h]

/-- `Path nx a xs b`: following `nx` from `a` visits exactly `xs` (starting with `a`) and ends at `b` -/
inductive Path (nx : Nat → Option Nat) : Nat → List Nat → Nat → Prop where
  | single (a : Nat) : Path nx a [a] a
  | cons {a b c : Nat} {xs : List Nat} : nx a = some b → Path nx b xs c → Path nx a (a :: xs) c

theorem Path.ne_nil {nx a xs b} (h : Path nx a xs b) : xs ≠ [] := by cases h <;> simp

theorem Path.head_eq {nx a x xs b} (h : Path nx a (x :: xs) b) : x = a := by cases h <;> rfl

theorem Path.head? {nx a xs b} (h : Path nx a xs b) : xs.head? = some a := by cases h <;> rfl

theorem Path.getLast {nx a xs b} (h : Path nx a xs b) : xs.getLast? = some b := by
  induction h with
  | single a => rfl
  | @cons a b c xs _ hp ih =>
    have := hp.ne_nil
    cases xs with
    | nil => exact absurd rfl this
    | cons y ys => simpa [List.getLast?_cons_cons] using ih

/-- frame lemma: a path only depends on the links of its nodes other than the last -/
theorem Path.congr {nx nx' a xs b} (h : Path nx a xs b) (hag : ∀ x ∈ xs.dropLast, nx' x = nx x) :
    Path nx' a xs b := by
  induction h with
  | single a => exact .single a
  | @cons a b c xs hn hp ih =>
    have hne := hp.ne_nil
    cases xs with
    | nil => exact absurd rfl hne
    | cons y ys =>
      refine .cons ?_ (ih ?_)
      · rw [hag a (by simp [List.dropLast])]; exact hn
      · intro x hx; exact hag x (by simp only [List.dropLast_cons_cons]; exact List.mem_cons_of_mem _ hx)

theorem Path.append {nx a xs b ys c} (h1 : Path nx a xs b) (h2 : Path nx b (b :: ys) c) :
    Path nx a (xs ++ ys) c := by
  induction h1 with
  | single a => simpa using h2
  | cons hn _ ih => exact .cons hn (ih h2)

theorem Path.split {nx a b c} : ∀ {xs ys : List Nat}, Path nx a (xs ++ c :: ys) b →
    Path nx a (xs ++ [c]) c ∧ Path nx c (c :: ys) b
  | [], ys, h => by
    have := h.head_eq; subst this
    exact ⟨.single _, h⟩
  | x :: xs, ys, h => by
    simp only [List.cons_append] at h ⊢
    generalize hl : xs ++ c :: ys = l at h
    cases h with
    | single => simp at hl
    | cons hn hp =>
      subst hl
      obtain ⟨p1, p2⟩ := Path.split (xs := xs) hp
      exact ⟨.cons hn p1, p2⟩

/-- first link of a path with at least two nodes -/
theorem Path.first {nx a y ys b} (h : Path nx a (a :: y :: ys) b) : nx a = some y := by
  cases h with
  | cons hn hp => have := hp.head_eq; subst this; exact hn

/-- the doubly linked list `L` (head … tail) is well formed in `p` -/
structure WF (p : Pipe) (L : List Nat) : Prop where
  fwd : Path p.next headA L tailA
  bwd : Path p.prev tailA L.reverse headA
  nodup : L.Nodup
  lt : ∀ a ∈ L, a < p.fresh
  size : p.size = L.length
  lenLe : L.length ≤ p.fresh
  tailNext : p.next tailA = none
  headPrev : p.prev headA = none

theorem wf_new : WF newPipe [headA, tailA] := by
  refine ⟨?_, ?_, by decide, ?_, rfl, by simp [newPipe], ?_, ?_⟩
  · exact .cons (by simp [newPipe, headA]) (.single _)
  · exact .cons (by simp [newPipe, tailA]) (.single _)
  · intro a ha; simp [headA, tailA] at ha; rcases ha with rfl | rfl <;> simp [newPipe]
  · simp [newPipe, upd, headA, tailA]
  · simp [newPipe, upd, headA, tailA]

/-- insertion after `c` (the common core of addFirst / addLast / AddHandler): if `L = xs ++ c :: o :: ys`
    then the four pointer writes yield the well-formed list `xs ++ c :: n :: o :: ys` with `n` fresh -/
theorem insertAfter_wf (p : Pipe) (xs ys : List Nat) (c o : Nat) (h : Handler)
    (hwf : WF p (xs ++ c :: o :: ys)) :
    ∃ p', insertAfter (p, c) h = some (p', p.fresh) ∧ WF p' (xs ++ c :: p.fresh :: o :: ys) ∧
      p'.hdl p.fresh = h ∧ (∀ a, a < p.fresh → p'.hdl a = p.hdl a) ∧ p'.fresh = p.fresh + 1 := by
  obtain ⟨fwd, bwd, nodup, lt, size, lenLe, tailNext, headPrev⟩ := hwf
  have ⟨f1, f2⟩ := Path.split fwd
  have hco : p.next c = some o := f2.first
  have hmem : ∀ a, a ∈ xs ∨ a = c ∨ a = o ∨ a ∈ ys → a < p.fresh := by
    intro a ha; apply lt; simp only [List.mem_append, List.mem_cons]
    rcases ha with h | h | h | h <;> simp [h]
  have hcn : c ≠ p.fresh := by have := hmem c (by simp); omega
  have hon : o ≠ p.fresh := by have := hmem o (by simp); omega
  -- facts from Nodup
  have hnd := nodup
  rw [List.nodup_append] at hnd
  obtain ⟨ndx, ndr, hdisj⟩ := hnd
  simp only [List.nodup_cons, List.mem_cons, not_or] at ndr
  obtain ⟨⟨hc_o, hc_ys⟩, ⟨ho_ys, ndys⟩⟩ := ndr
  have hx_c : ∀ x ∈ xs, x ≠ c := fun x hx => hdisj x hx c (by simp)
  have hx_o : ∀ x ∈ xs, x ≠ o := fun x hx => hdisj x hx o (by simp)
  have hx_ys : ∀ x ∈ xs, ∀ y ∈ ys, x ≠ y := fun x hx y hy => hdisj x hx y (by simp [hy])
  simp only [insertAfter, hco, alloc]
  refine ⟨_, rfl, ?_, by simp, ?_, rfl⟩
  · refine ⟨?_, ?_, ?_, ?_, ?_, ?_, ?_, ?_⟩
    · -- forward chain
      have g1 : Path (upd (upd p.next p.fresh (some o)) c (some p.fresh)) headA (xs ++ [c]) c := by
        apply f1.congr
        intro x hx
        have hx' : x ∈ xs := by simpa [List.dropLast_concat] using hx
        rw [upd_other _ _ _ _ (hx_c x hx'), upd_other _ _ _ _ (by have := hmem x (Or.inl hx'); omega)]
      have g2 : Path (upd (upd p.next p.fresh (some o)) c (some p.fresh)) o (o :: ys) tailA := by
        have f3 : Path p.next o (o :: ys) tailA := by
          cases f2 with
          | cons _ hp => have := hp.head_eq; subst this; exact hp
        apply f3.congr
        intro x hx
        have hx' : x = o ∨ x ∈ ys := by
          have := List.dropLast_subset _ hx; simpa using this
        have hxc : x ≠ c := by
          rcases hx' with rfl | h
          · exact fun e => hc_o e.symm
          · exact fun e => hc_ys (e ▸ h)
        have hxn : x ≠ p.fresh := by
          have := hmem x (by rcases hx' with h | h <;> simp [h]); omega
        rw [upd_other _ _ _ _ hxc, upd_other _ _ _ _ hxn]
      have g3 : Path (upd (upd p.next p.fresh (some o)) c (some p.fresh)) c (c :: p.fresh :: o :: ys) tailA := by
        refine .cons (by simp) (.cons ?_ g2)
        rw [upd_other _ _ _ _ (Ne.symm hcn)]; simp
      have := g1.append g3
      simpa using this
    · -- backward chain
      have hrev : (xs ++ c :: o :: ys).reverse = ys.reverse ++ o :: c :: xs.reverse := by simp
      rw [hrev] at bwd
      have ⟨b1, b2⟩ := Path.split bwd
      have hoc : p.prev o = some c := b2.first
      have hrev' : (xs ++ c :: p.fresh :: o :: ys).reverse = ys.reverse ++ o :: p.fresh :: c :: xs.reverse := by simp
      simp only [hrev']
      have g1 : Path (upd (upd p.prev p.fresh (some c)) o (some p.fresh)) tailA (ys.reverse ++ [o]) o := by
        apply b1.congr
        intro x hx
        have hx' : x ∈ ys := by simpa [List.dropLast_concat] using hx
        have hxo : x ≠ o := fun e => ho_ys (e ▸ hx')
        rw [upd_other _ _ _ _ hxo, upd_other _ _ _ _ (by have := hmem x (by simp [hx']); omega)]
      have g2 : Path (upd (upd p.prev p.fresh (some c)) o (some p.fresh)) c (c :: xs.reverse) headA := by
        have b3 : Path p.prev c (c :: xs.reverse) headA := by
          cases b2 with
          | cons _ hp => have := hp.head_eq; subst this; exact hp
        apply b3.congr
        intro x hx
        have hx' : x = c ∨ x ∈ xs := by
          have := List.dropLast_subset _ hx; simpa using this
        have hxo : x ≠ o := by
          rcases hx' with rfl | h
          · exact hc_o
          · exact hx_o x h
        have hxn : x ≠ p.fresh := by
          have := hmem x (by rcases hx' with h | h <;> simp [h]); omega
        rw [upd_other _ _ _ _ hxo, upd_other _ _ _ _ hxn]
      have g3 : Path (upd (upd p.prev p.fresh (some c)) o (some p.fresh)) o (o :: p.fresh :: c :: xs.reverse) headA := by
        refine .cons (by simp) (.cons ?_ g2)
        rw [upd_other _ _ _ _ (Ne.symm hon)]; simp
      have := g1.append g3
      simpa using this
    · -- nodup
      rw [List.nodup_append]
      refine ⟨ndx, ?_, ?_⟩
      · simp only [List.nodup_cons, List.mem_cons, not_or]
        refine ⟨⟨hcn, hc_o, hc_ys⟩, ⟨Ne.symm hon, ?_⟩, ⟨ho_ys, ndys⟩⟩
        intro hm; have := hmem _ (Or.inr (Or.inr (Or.inr hm))); omega
      · intro a ha b hb
        simp only [List.mem_cons] at hb
        rcases hb with rfl | rfl | rfl | hb
        · exact hx_c a ha
        · have := hmem a (Or.inl ha); omega
        · exact hx_o a ha
        · exact hx_ys a ha b hb
    · intro a ha
      simp only [List.mem_append, List.mem_cons] at ha
      have : a = p.fresh ∨ a < p.fresh := by
        rcases ha with h | h | h | h | h
        · exact Or.inr (hmem a (Or.inl h))
        · exact Or.inr (hmem a (by simp [h]))
        · exact Or.inl h
        · exact Or.inr (hmem a (by simp [h]))
        · exact Or.inr (hmem a (by simp [h]))
      show a < p.fresh + 1
      omega
    · show p.size + 1 = _
      rw [size]; simp; omega
    · show _ ≤ p.fresh + 1
      simp at lenLe ⊢; omega
    · -- tail.next stays none
      show upd (upd p.next p.fresh (some o)) c (some p.fresh) tailA = none
      have htc : tailA ≠ c := by
        intro e
        -- c has a successor o in the forward path, tail has none
        rw [← e, tailNext] at hco; simp at hco
      have htn : tailA ≠ p.fresh := by
        have : tailA ∈ xs ++ c :: o :: ys := by
          have := fwd.getLast
          exact List.mem_of_getLast? this
        have := lt _ this; omega
      rw [upd_other _ _ _ _ htc, upd_other _ _ _ _ htn]; exact tailNext
    · show upd (upd p.prev p.fresh (some c)) o (some p.fresh) headA = none
      have hrev : (xs ++ c :: o :: ys).reverse = ys.reverse ++ o :: c :: xs.reverse := by simp
      rw [hrev] at bwd
      have ⟨_, b2⟩ := Path.split bwd
      have hoc : p.prev o = some c := b2.first
      have hho : headA ≠ o := by
        intro e; rw [← e, headPrev] at hoc; simp at hoc
      have hhn : headA ≠ p.fresh := by
        have : headA ∈ xs ++ c :: o :: ys := by
          have := fwd.head?
          cases hL : xs ++ c :: o :: ys with
          | nil => simp at hL
          | cons z zs => rw [hL] at this; simp at this; simp [this]
        have := lt _ this; omega
      rw [upd_other _ _ _ _ hho, upd_other _ _ _ _ hhn]; exact headPrev
  · intro a ha
    show upd p.hdl p.fresh h a = p.hdl a
    rw [upd_other _ _ _ _ (by omega)]

end NettyVerif.Pipeline
