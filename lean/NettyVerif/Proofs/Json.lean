import NettyVerif.Model.Json
/-! The parser reads back what the encoder writes (string escapes, number literals, nesting), with
    fuel = length of the text. -/
namespace NettyVerif.Json

theorem hex_rt : ∀ n : Fin 128, hex4 '0' '0' (hexDigit (n.val / 16)) (hexDigit (n.val % 16)) = some n.val := by decide +kernel

theorem hex_rt' (n : Nat) (h : n < 128) : hex4 '0' '0' (hexDigit (n / 16)) (hexDigit (n % 16)) = some n := hex_rt ⟨n, h⟩

theorem pStr_escChar (c : Char) (f : Nat) (r acc : List Char) :
    pStr (f + 1) (escChar c ++ r) acc = pStr f r (c :: acc) := by
  unfold escChar
  split
  · rename_i h; subst h; simp [pStr]
  split
  · rename_i h; subst h; simp [pStr]
  split
  · rename_i h; subst h; simp [pStr]
  split
  · rename_i h; subst h; simp [pStr]
  split
  · rename_i h; subst h; simp [pStr]
  split
  · rename_i h; subst h; simp [pStr]
  split
  · rename_i h; subst h; simp [pStr]
  split
  · rename_i h1 h2 h3 h4 h5 h6 h7 h
    have hlt : c.toNat < 128 := by
      rcases h with h | h | h | h
      · omega
      · subst h; decide
      · subst h; decide
      · subst h; decide
    simp only [List.cons_append, List.nil_append, pStr]
    simp [hex_rt' c.toNat hlt, isSurrogate]
    intro h55; omega
  split
  · rename_i h; subst h; simp [pStr, hex4, hexVal, isSurrogate]
  split
  · rename_i h; subst h; simp [pStr, hex4, hexVal, isSurrogate]
  · rename_i h1 h2 h3 h4 h5 h6 h7 h8 h9 h10
    have : ¬ c.toNat < 32 := fun h => h8 (Or.inl h)
    simp [pStr, h1, h2, this]

theorem escChar_ne_nil (c : Char) : 1 ≤ (escChar c).length := by
  unfold escChar
  repeat' split
  all_goals simp

theorem escStr_length (s : List Char) : s.length ≤ (escStr s).length := by
  induction s with
  | nil => simp [escStr]
  | cons c s ih =>
    have := escChar_ne_nil c
    simp only [escStr, List.flatMap_cons, List.length_append, List.length_cons] at *
    omega

theorem pStr_escStr (s : List Char) : ∀ (n : Nat) (rest acc : List Char), s.length + 1 ≤ n →
    pStr n (escStr s ++ '"' :: rest) acc = some (acc.reverse ++ s, rest) := by
  induction s with
  | nil =>
    intro n rest acc hn
    obtain ⟨m, rfl⟩ : ∃ m, n = m + 1 := ⟨n - 1, by omega⟩
    simp [escStr, pStr]
  | cons c s ih =>
    intro n rest acc hn
    obtain ⟨m, rfl⟩ : ∃ m, n = m + 1 := ⟨n - 1, by omega⟩
    have : escStr (c :: s) ++ '"' :: rest = escChar c ++ (escStr s ++ '"' :: rest) := by simp [escStr]
    rw [this, pStr_escChar, ih m rest (c :: acc) (by simp at hn; omega)]
    simp

theorem pString_enc (s rest : List Char) : pString (escStr s ++ '"' :: rest) = some (s, rest) := by
  unfold pString
  rw [pStr_escStr s _ rest [] (by have := escStr_length s; simp; omega)]
  simp

def okRest (rest : List Char) : Prop := ∀ c, rest.head? = some c → isNumChar c = false

theorem takeWhile_num (l rest : List Char) (hl : l.all isNumChar = true) (hr : okRest rest) :
    (l ++ rest).takeWhile isNumChar = l ∧ (l ++ rest).dropWhile isNumChar = rest := by
  induction l with
  | nil =>
    cases rest with
    | nil => simp
    | cons c r => have := hr c rfl; simp [List.takeWhile, List.dropWhile, this]
  | cons c l ih =>
    simp only [List.all_cons, Bool.and_eq_true] at hl
    have := ih hl.2
    simp [List.takeWhile, List.dropWhile, hl.1, this]

theorem isNumLit_ne_nil (l : List Char) (h : isNumLit l = true) : ∃ c r, l = c :: r ∧ isNumChar c = true := by
  cases l with
  | nil => simp [isNumLit, grammarOK] at h
  | cons c r =>
    simp only [isNumLit, List.all_cons, Bool.and_eq_true] at h
    exact ⟨c, r, rfl, h.1.1⟩

/-- the first character of an encoded value: not whitespace, not a closing bracket -/
def headOK (c : Char) : Prop := isWs c = false ∧ c ≠ ']' ∧ c ≠ '}'

theorem numChar_headOK (c : Char) (h : isNumChar c = true) : headOK c ∧ c ≠ 'n' ∧ c ≠ 't' ∧ c ≠ 'f' ∧ c ≠ '"' ∧ c ≠ '[' ∧ c ≠ '{' := by
  unfold isNumChar isDigit at h
  simp only [Bool.or_eq_true, Bool.and_eq_true, decide_eq_true_eq] at h
  refine ⟨⟨?_, ?_, ?_⟩, ?_, ?_, ?_, ?_, ?_, ?_⟩ <;> (try unfold isWs) <;>
    (first
      | (intro hc; subst hc; revert h; decide)
      | (rcases h with ((((h | h) | h) | h) | h) | h <;> first | (subst h; decide) | (have h1 := h.1; have h2 := h.2; simp only [Bool.or_eq_false_iff, decide_eq_false_iff_not]; refine ⟨⟨⟨?_, ?_⟩, ?_⟩, ?_⟩ <;> intro hc <;> subst hc <;> revert h1 h2 <;> decide)))


theorem enc_head (v : JV) (h : v.wf = true) : ∃ c r, enc v = c :: r ∧ headOK c := by
  cases v with
  | null => exact ⟨'n', ['u', 'l', 'l'], by simp [enc], by decide, by decide, by decide⟩
  | bool b =>
    cases b
    · exact ⟨'f', ['a', 'l', 's', 'e'], by simp [enc], by decide, by decide, by decide⟩
    · exact ⟨'t', ['r', 'u', 'e'], by simp [enc], by decide, by decide, by decide⟩
  | num l =>
    obtain ⟨c, r, rfl, hc⟩ := isNumLit_ne_nil l (by simpa [JV.wf] using h)
    exact ⟨c, r, by simp [enc], (numChar_headOK c hc).1⟩
  | str s => exact ⟨'"', escStr s ++ ['"'], by simp [enc, encStr], by decide, by decide, by decide⟩
  | arr l => exact ⟨'[', encL l, by simp [enc], by decide, by decide, by decide⟩
  | obj m => exact ⟨'{', encM m, by simp [enc], by decide, by decide, by decide⟩

theorem encM_cons_head (k : List Char) (e : JV) (t : JM) : ∃ r', encM (.cons k e t) = '"' :: r' := by
  cases t <;> simp [encM, encStr]

theorem skipWs_enc (v : JV) (h : v.wf = true) (rest : List Char) : skipWs (enc v ++ rest) = enc v ++ rest := by
  obtain ⟨c, r, he, hc, _⟩ := enc_head v h
  rw [he]; simp [skipWs, hc]

theorem okRest_cons (c : Char) (r : List Char) (h : isNumChar c = false) : okRest (c :: r) := by
  intro d hd; simp at hd; subst hd; exact h

/-- only a number needs to know where it ends -/
def needRest (v : JV) (rest : List Char) : Prop :=
  match v with
  | .num _ => okRest rest
  | _ => True

theorem needRest_of_ok (v : JV) (rest : List Char) (h : okRest rest) : needRest v rest := by
  cases v <;> simp [needRest, h]

mutual
theorem pVal_enc (v : JV) (hw : v.wf = true) (n : Nat) (rest : List Char) (hn : v.sz ≤ n) (hr : needRest v rest) :
    pVal n (enc v ++ rest) = some (v, rest) := by
  match v, n with
  | .null, m+1 => simp [enc, pVal, skipWs, isWs]
  | .bool true, m+1 => simp [enc, pVal, skipWs, isWs]
  | .bool false, m+1 => simp [enc, pVal, skipWs, isWs]
  | .num l, m+1 =>
    have hl : isNumLit l = true := by simpa [JV.wf] using hw
    obtain ⟨c, r, rfl, hc⟩ := isNumLit_ne_nil l hl
    have hh := numChar_headOK c hc
    have hall : (c :: r).all isNumChar = true := by simp only [isNumLit, Bool.and_eq_true] at hl; exact hl.1
    have htw := takeWhile_num (c :: r) rest hall hr
    simp only [enc, pVal, List.cons_append, skipWs, hh.1.1, Bool.false_eq_true, if_false]
    simp only [hh.2.1, hh.2.2.1, hh.2.2.2.1, hh.2.2.2.2.1, hh.2.2.2.2.2.1, hh.2.2.2.2.2.2, if_false, hc, if_true]
    have e1 : (c :: (r ++ rest)) = (c :: r) ++ rest := rfl
    rw [e1, htw.1, htw.2]
    simp [hl]
  | .str s, m+1 =>
    simp only [enc, encStr, pVal, List.cons_append, skipWs]
    simp [isWs, List.append_assoc, pString_enc]
  | .arr .nil, m+1 => simp [enc, encL, pVal, skipWs, isWs]
  | .arr (.cons e t), m+1 =>
    have hw' : (JL.cons e t).wf = true := by simpa [JV.wf] using hw
    have hsz : (JL.cons e t).sz ≤ m := by simp [JV.sz] at hn; omega
    have ih := pElems_enc (.cons e t) (by simp) hw' m rest hsz
    have he : e.wf = true := by simp [JL.wf] at hw'; exact hw'.1
    obtain ⟨c, r, hce, hcok⟩ := enc_head e he
    have hskip : ∃ c' r', skipWs (encL (.cons e t) ++ rest) = c' :: r' ∧ c' ≠ ']' := by
      cases t with
      | nil => refine ⟨c, r ++ ([']'] ++ rest), ?_, hcok.2.1⟩; simp [encL, hce, skipWs, hcok.1]
      | cons e2 t2 => refine ⟨c, r ++ (',' :: encL (.cons e2 t2) ++ rest), ?_, hcok.2.1⟩; simp [encL, hce, skipWs, hcok.1]
    obtain ⟨c', r', hsk, hne⟩ := hskip
    simp only [enc, pVal, List.cons_append, skipWs]
    simp [isWs, hsk, hne, ih]
  | .obj .nil, m+1 => simp [enc, encM, pVal, skipWs, isWs]
  | .obj (.cons k e t), m+1 =>
    have hw' : (JM.cons k e t).wf = true := by simpa [JV.wf] using hw
    have hsz : (JM.cons k e t).sz ≤ m := by simp [JV.sz] at hn; omega
    have ih := pMembers_enc (.cons k e t) (by simp) hw' m rest hsz
    obtain ⟨r0, hr0⟩ := encM_cons_head k e t
    have hsk : skipWs (encM (.cons k e t) ++ rest) = '"' :: (r0 ++ rest) := by rw [hr0]; simp [skipWs, isWs]
    simp only [enc, pVal, List.cons_append, skipWs]
    simp [isWs, hsk, ih]
  | v, 0 =>
    have : 1 ≤ v.sz := by cases v <;> simp [JV.sz]
    omega
theorem pElems_enc (l : JL) (hne : l ≠ .nil) (hw : l.wf = true) (n : Nat) (rest : List Char) (hn : l.sz ≤ n) :
    pElems n (encL l ++ rest) = some (l, rest) := by
  match l, n with
  | .nil, _ => exact absurd rfl hne
  | .cons e .nil, m+1 =>
    have he : e.wf = true := by simp [JL.wf] at hw; exact hw
    have hsz : e.sz ≤ m := by simp [JL.sz] at hn; omega
    have := pVal_enc e he m (']' :: rest) hsz (needRest_of_ok _ _ (okRest_cons _ _ (by decide)))
    simp only [encL, pElems, List.append_assoc, List.singleton_append]
    simp [this, skipWs, isWs]
  | .cons e (.cons e2 t2), m+1 =>
    have hw2 : e.wf = true ∧ (JL.cons e2 t2).wf = true := by simpa [JL.wf] using hw
    have hsz : e.sz ≤ m ∧ (JL.cons e2 t2).sz ≤ m := by simp only [JL.sz] at hn ⊢; omega
    have h1 := pVal_enc e hw2.1 m (',' :: (encL (.cons e2 t2) ++ rest)) hsz.1 (needRest_of_ok _ _ (okRest_cons _ _ (by decide)))
    have h2 := pElems_enc (.cons e2 t2) (by simp) hw2.2 m rest hsz.2
    simp only [encL, pElems, List.append_assoc, List.cons_append]
    simp [h1, skipWs, isWs, h2]
  | .cons e t, 0 => simp [JL.sz] at hn
theorem pMembers_enc (l : JM) (hne : l ≠ .nil) (hw : l.wf = true) (n : Nat) (rest : List Char) (hn : l.sz ≤ n) :
    pMembers n (encM l ++ rest) = some (l, rest) := by
  match l, n with
  | .nil, _ => exact absurd rfl hne
  | .cons k e .nil, m+1 =>
    have he : e.wf = true := by simp [JM.wf] at hw; exact hw
    have hsz : e.sz ≤ m := by simp [JM.sz] at hn; omega
    have := pVal_enc e he m ('}' :: rest) hsz (needRest_of_ok _ _ (okRest_cons _ _ (by decide)))
    simp only [encM, encStr, pMembers, List.append_assoc, List.cons_append, List.singleton_append, skipWs]
    simp [isWs, pString_enc, skipWs, this]
  | .cons k e (.cons k2 e2 t2), m+1 =>
    have hw2 : e.wf = true ∧ (JM.cons k2 e2 t2).wf = true := by simpa [JM.wf] using hw
    have hsz : e.sz ≤ m ∧ (JM.cons k2 e2 t2).sz ≤ m := by simp only [JM.sz] at hn ⊢; omega
    have h1 := pVal_enc e hw2.1 m (',' :: (encM (.cons k2 e2 t2) ++ rest)) hsz.1 (needRest_of_ok _ _ (okRest_cons _ _ (by decide)))
    have h2 := pMembers_enc (.cons k2 e2 t2) (by simp) hw2.2 m rest hsz.2
    simp only [encM, encStr, pMembers, List.append_assoc, List.cons_append, skipWs]
    simp [isWs, pString_enc, skipWs, h1, h2]
  | .cons k e t, 0 => simp [JM.sz] at hn
end

/-! fuel: the length of the text suffices -/
mutual
theorem sz_le_enc (v : JV) (hw : v.wf = true) : v.sz ≤ (enc v).length := by
  match v with
  | .null => simp [JV.sz, enc]
  | .bool true => simp [JV.sz, enc]
  | .bool false => simp [JV.sz, enc]
  | .num l =>
    obtain ⟨c, r, rfl, _⟩ := isNumLit_ne_nil l (by simpa [JV.wf] using hw)
    simp [JV.sz, enc]
  | .str s => simp [JV.sz, enc, encStr]
  | .arr l =>
    have := szL_le_enc l (by simpa [JV.wf] using hw)
    simp only [JV.sz, enc, List.length_cons]; omega
  | .obj m =>
    have := szM_le_enc m (by simpa [JV.wf] using hw)
    simp only [JV.sz, enc, List.length_cons]; omega
theorem szL_le_enc (l : JL) (hw : l.wf = true) : l.sz ≤ (encL l).length := by
  match l with
  | .nil => simp [JL.sz, encL]
  | .cons e .nil =>
    have he : e.wf = true := by simp [JL.wf] at hw; exact hw
    have := sz_le_enc e he
    have h1 : 1 ≤ e.sz := by cases e <;> simp [JV.sz]
    simp only [JL.sz, encL, List.length_append, List.length_cons, List.length_nil]; omega
  | .cons e (.cons e2 t2) =>
    have hw2 : e.wf = true ∧ (JL.cons e2 t2).wf = true := by simpa [JL.wf] using hw
    have := sz_le_enc e hw2.1
    have := szL_le_enc (.cons e2 t2) hw2.2
    simp only [JL.sz, encL, List.length_append, List.length_cons] at *; omega
theorem szM_le_enc (l : JM) (hw : l.wf = true) : l.sz ≤ (encM l).length := by
  match l with
  | .nil => simp [JM.sz, encM]
  | .cons k e .nil =>
    have he : e.wf = true := by simp [JM.wf] at hw; exact hw
    have := sz_le_enc e he
    have h1 : 1 ≤ e.sz := by cases e <;> simp [JV.sz]
    simp only [JM.sz, encM, encStr, List.length_append, List.length_cons, List.length_nil]; omega
  | .cons k e (.cons k2 e2 t2) =>
    have hw2 : e.wf = true ∧ (JM.cons k2 e2 t2).wf = true := by simpa [JM.wf] using hw
    have := sz_le_enc e hw2.1
    have := szM_le_enc (.cons k2 e2 t2) hw2.2
    simp only [JM.sz, encM, encStr, List.length_append, List.length_cons] at *; omega
end

theorem parse_enc (v : JV) (hw : v.wf = true) (rest : List Char) (hr : needRest v rest) :
    parse (enc v ++ rest) = some (v, rest) := by
  unfold parse
  exact pVal_enc v hw _ rest (by have := sz_le_enc v hw; simp; omega) hr

/-- whatever the parser returns is well-formed (its numbers are JSON number literals) -/
theorem parser_wf : ∀ (n : Nat),
    (∀ cs v r, pVal n cs = some (v, r) → v.wf = true) ∧
    (∀ cs l r, pElems n cs = some (l, r) → l.wf = true) ∧
    (∀ cs m r, pMembers n cs = some (m, r) → m.wf = true) := by
  intro n
  induction n with
  | zero => simp [pVal, pElems, pMembers]
  | succ n ih =>
    obtain ⟨ihv, ihl, ihm⟩ := ih
    refine ⟨?_, ?_, ?_⟩
    · intro cs v r h
      simp only [pVal] at h
      split at h
      · cases h
      · repeat' split at h
        all_goals (try cases h)
        all_goals (try (simp at h; try (obtain ⟨a, b, hh, rfl, rfl⟩ := h); simp_all [JV.wf, JL.wf, JM.wf]))
        all_goals first
          | (simp [JV.wf, JL.wf, JM.wf]; done)
          | (simp only [JV.wf]; rename_i b; exact ihl _ _ _ b)
          | (simp only [JV.wf]; rename_i b; exact ihm _ _ _ b)
          | (simp only [JV.wf]; assumption)
          | (rename_i b; exact ihl _ _ _ b)
          | (rename_i b; exact ihm _ _ _ b)
    · intro cs l r h
      simp only [pElems] at h
      repeat' split at h
      all_goals (try cases h)
      all_goals (try (simp at h))
      · obtain ⟨a, ha, rfl⟩ := h
        simp only [JL.wf, Bool.and_eq_true]
        exact ⟨ihv _ _ _ (by assumption), ihl _ _ _ ha⟩
      · simp only [JL.wf, Bool.and_eq_true, and_true]
        exact ihv _ _ _ (by assumption)
    · intro cs m r h
      simp only [pMembers] at h
      repeat' split at h
      all_goals (try cases h)
      all_goals (try (simp at h))
      · obtain ⟨a, ha, rfl⟩ := h
        simp only [JM.wf, Bool.and_eq_true]
        exact ⟨ihv _ _ _ (by assumption), ihm _ _ _ ha⟩
      · simp only [JM.wf, Bool.and_eq_true, and_true]
        exact ihv _ _ _ (by assumption)

end NettyVerif.Json
