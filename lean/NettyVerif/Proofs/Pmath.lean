import NettyVerif.Gen.Pmath
import NettyVerif.Model.Pool
/-! Helper lemmas for C19's size-class arithmetic: the *generated* BitVec definitions
    (Gen/Pmath.lean, regenerated from utils/pool/internal/pmath/pmath.go on every run) are related
    to Nat-level specifications. Kernel-only (no bv_decide / native_decide). -/
namespace NettyVerif.Pmath
open Gen.Pmath
open NettyVerif.Pool (ceilNat floorNat)

def smear (k n : Nat) : Nat := n ||| (n >>> k)

theorem testBit_smear (k n i : Nat) : (smear k n).testBit i = (n.testBit i || n.testBit (i + k)) := by
  simp [smear, Nat.testBit_or, Nat.testBit_shiftRight, Nat.add_comm]

/-- x "covers window w of n": bit i of x is set iff some bit of n in [i, i+w) is set -/
def Covers (w n x : Nat) : Prop := ∀ i, x.testBit i = true ↔ ∃ d, d < w ∧ n.testBit (i + d) = true

theorem covers_one (n : Nat) : Covers 1 n n := by
  intro i; constructor
  · intro h; exact ⟨0, by omega, by simpa using h⟩
  · rintro ⟨d, hd, h⟩; have : d = 0 := by omega
    subst this; simpa using h

theorem covers_double (w n x : Nat) (h : Covers w n x) : Covers (2*w) n (smear w x) := by
  intro i
  rw [testBit_smear]
  simp only [Bool.or_eq_true]
  constructor
  · rintro (h1 | h1)
    · obtain ⟨d, hd, hb⟩ := (h i).1 h1
      exact ⟨d, by omega, hb⟩
    · obtain ⟨d, hd, hb⟩ := (h (i+w)).1 h1
      exact ⟨w + d, by omega, by simpa [Nat.add_assoc] using hb⟩
  · rintro ⟨d, hd, hb⟩
    by_cases hlt : d < w
    · exact Or.inl ((h i).2 ⟨d, hlt, hb⟩)
    · refine Or.inr ((h (i+w)).2 ⟨d - w, by omega, ?_⟩)
      have : i + w + (d - w) = i + d := by omega
      rw [this]; exact hb

def fillNat (n : Nat) : Nat := smear 32 (smear 16 (smear 8 (smear 4 (smear 2 (smear 1 n)))))

theorem covers_fill (n : Nat) : Covers 64 n (fillNat n) := by
  have h1 := covers_double 1 n n (covers_one n)
  have h2 := covers_double 2 n _ h1
  have h4 := covers_double 4 n _ h2
  have h8 := covers_double 8 n _ h4
  have h16 := covers_double 16 n _ h8
  have h32 := covers_double 32 n _ h16
  exact h32

theorem fillNat_eq (n : Nat) (h0 : 0 < n) (h : n < 2^64) : fillNat n = 2^(Nat.log2 n + 1) - 1 := by
  apply Nat.eq_of_testBit_eq
  intro i
  rw [Nat.testBit_two_pow_sub_one]
  have hc := covers_fill n i
  have hn : n ≠ 0 := by omega
  by_cases hi : i < Nat.log2 n + 1
  · have : (fillNat n).testBit i = true := by
      apply hc.2
      refine ⟨Nat.log2 n - i, ?_, ?_⟩
      · have : Nat.log2 n < 64 := by
          rw [Nat.log2_lt hn]; exact h
        omega
      · have : i + (Nat.log2 n - i) = Nat.log2 n := by omega
        rw [this]; exact Nat.testBit_log2 hn
    simp [this, hi]
  · have : (fillNat n).testBit i = false := by
      rcases hb : (fillNat n).testBit i with _ | _
      · rfl
      · obtain ⟨d, _, hd⟩ := hc.1 hb
        have := Nat.testBit_lt_two_pow (x := n) (i := i + d) (by
          have : n < 2^(Nat.log2 n + 1) := Nat.lt_log2_self
          exact Nat.lt_of_lt_of_le this (Nat.pow_le_pow_right (by omega) (by omega)))
        simp [this] at hd
    simp [this, hi]

/-- one `n |= n >> k` step on a non-negative 64-bit int is the Nat smear -/
theorem smear_step (n : I) (k : Nat) (h : n.toNat < 2^63) :
    (n ||| BitVec.sshiftRight n k).toNat = smear k n.toNat ∧ (n ||| BitVec.sshiftRight n k).toNat < 2^63 := by
  have hm : n.msb = false := by
    rw [BitVec.msb_eq_false_iff_two_mul_lt]; omega
  rw [BitVec.sshiftRight_eq_of_msb_false hm, BitVec.toNat_or, BitVec.toNat_ushiftRight]
  refine ⟨rfl, ?_⟩
  apply Nat.or_lt_two_pow h
  exact Nat.lt_of_le_of_lt (Nat.shiftRight_le _ _) h

theorem fillBits_toNat (n : I) (h : n.toNat < 2^63) :
    (fillBits n).toNat = fillNat n.toNat ∧ (fillBits n).toNat < 2^63 := by
  unfold fillBits fillNat
  have e1 : (1#64 : I).toNat = 1 := rfl
  have e2 : (2#64 : I).toNat = 2 := rfl
  have e4 : (4#64 : I).toNat = 4 := rfl
  have e8 : (8#64 : I).toNat = 8 := rfl
  have e16 : (16#64 : I).toNat = 16 := rfl
  have e32 : (32#64 : I).toNat = 32 := rfl
  simp only [e1, e2, e4, e8, e16, e32]
  obtain ⟨a1, b1⟩ := smear_step n 1 h
  obtain ⟨a2, b2⟩ := smear_step _ 2 b1
  obtain ⟨a3, b3⟩ := smear_step _ 4 b2
  obtain ⟨a4, b4⟩ := smear_step _ 8 b3
  obtain ⟨a5, b5⟩ := smear_step _ 16 b4
  obtain ⟨a6, b6⟩ := smear_step _ 32 b5
  refine ⟨?_, b6⟩
  rw [a6, a5, a4, a3, a2, a1]



theorem ceilNat_spec (n : Nat) (h : 2 < n) :
    n ≤ ceilNat n ∧ ceilNat n < 2 * n ∧ ceilNat n = 2^(Nat.log2 (n-1) + 1) := by
  have hm : n - 1 ≠ 0 := by omega
  have h1 := Nat.log2_self_le hm
  have h2 : n - 1 < 2^(Nat.log2 (n-1) + 1) := Nat.lt_log2_self
  have h3 : 2^(Nat.log2 (n-1) + 1) = 2 * 2^(Nat.log2 (n-1)) := by rw [Nat.pow_succ]; omega
  have hc : ceilNat n = 2^(Nat.log2 (n-1) + 1) := by
    simp only [ceilNat, show ¬ n ≤ 2 by omega, ite_false]
  rw [hc]
  refine ⟨by omega, by omega, rfl⟩

theorem floorNat_spec (n : Nat) (h : 2 < n) :
    floorNat n ≤ n ∧ n < 2 * floorNat n := by
  have hm : n ≠ 0 := by omega
  have h1 := Nat.log2_self_le hm
  have h2 : n < 2^(Nat.log2 n + 1) := Nat.lt_log2_self
  have h3 : 2^(Nat.log2 n + 1) = 2 * 2^(Nat.log2 n) := by rw [Nat.pow_succ]; omega
  have hc : floorNat n = 2^(Nat.log2 n) := by
    simp only [floorNat, show ¬ n ≤ 2 by omega, ite_false]
  rw [hc]
  refine ⟨by omega, by omega⟩

theorem toInt_cases (n : I) : (n.toNat < 2^63 ∧ n.toInt = n.toNat) ∨ (2^63 ≤ n.toNat ∧ n.toInt = (n.toNat : Int) - 2^64) := by
  rw [BitVec.toInt_eq_toNat_cond]
  have := n.isLt
  split <;> omega

theorem slt_def (a b : I) : BitVec.slt a b = decide (a.toInt < b.toInt) := rfl
theorem sle_def (a b : I) : BitVec.sle a b = decide (a.toInt ≤ b.toInt) := rfl

theorem ceil_small (n : I) (h : n.toInt ≤ 2) : CeilToPowerOfTwo n = some n := by
  unfold CeilToPowerOfTwo
  have h1 : BitVec.slt 4611686018427387904#64 n = false := by
    rw [slt_def]; simp; 
    have : (4611686018427387904#64 : I).toInt = 4611686018427387904 := by decide
    omega
  have h2 : BitVec.sle n 2#64 = true := by
    rw [sle_def]; simp
    have : (2#64 : I).toInt = 2 := by decide
    omega
  simp [h1, h2]

theorem log2_lt_of_lt (m k : Nat) (hm : m ≠ 0) (h : m < 2^k) : Nat.log2 m < k := by
  rw [Nat.log2_lt hm]; exact h

theorem ceil_eq (n : I) (h0 : 2 < n.toInt) (h : n.toInt ≤ 2^62) :
    ∃ r, CeilToPowerOfTwo n = some r ∧ r.toNat = ceilNat n.toNat ∧ r.toNat < 2^63 := by
  rcases toInt_cases n with ⟨hlt, heq⟩ | ⟨hge, heq⟩
  · have hn : 2 < n.toNat := by omega
    have hn62 : n.toNat ≤ 2^62 := by omega
    unfold CeilToPowerOfTwo
    have h1 : BitVec.slt 4611686018427387904#64 n = false := by
      rw [slt_def]; simp
      have : (4611686018427387904#64 : I).toInt = 4611686018427387904 := by decide
      omega
    have h2 : BitVec.sle n 2#64 = false := by
      rw [sle_def]; simp
      have : (2#64 : I).toInt = 2 := by decide
      omega
    simp only [h1, h2, Bool.and_false, Bool.false_eq_true, ite_false]
    refine ⟨_, rfl, ?_⟩
    have hsub : (n - 1#64).toNat = n.toNat - 1 := by
      rw [BitVec.toNat_sub_of_le]
      · rfl
      · rw [BitVec.le_def]; simp; omega
    have hsub63 : (n - 1#64).toNat < 2^63 := by omega
    obtain ⟨hf, _⟩ := fillBits_toNat (n - 1#64) hsub63
    have hfe := fillNat_eq (n.toNat - 1) (by omega) (by omega)
    have hlog : Nat.log2 (n.toNat - 1) < 62 := log2_lt_of_lt _ _ (by omega) (by omega)
    have hpow : 2^(Nat.log2 (n.toNat - 1) + 1) ≤ 2^62 := Nat.pow_le_pow_right (by omega) (by omega)
    have hpos : 0 < 2^(Nat.log2 (n.toNat - 1) + 1) := Nat.pow_pos (by omega)
    have hc := (ceilNat_spec n.toNat hn).2.2
    rw [BitVec.toNat_add, hf, hsub, hfe, hc]
    have : (1#64 : I).toNat = 1 := rfl
    rw [this]
    have : (2 ^ ((n.toNat - 1).log2 + 1) - 1 + 1) = 2 ^ ((n.toNat - 1).log2 + 1) := by omega
    rw [this, Nat.mod_eq_of_lt (by omega)]
    omega
  · omega

theorem ceil_panic (n : I) (h : 2^62 < n.toInt) : CeilToPowerOfTwo n = none := by
  rcases toInt_cases n with ⟨hlt, heq⟩ | ⟨hge, heq⟩
  · unfold CeilToPowerOfTwo
    have h1 : BitVec.slt 4611686018427387904#64 n = true := by
      rw [slt_def]; simp
      have : (4611686018427387904#64 : I).toInt = 4611686018427387904 := by decide
      omega
    have h2 : (n &&& 4611686018427387904#64) != 0#64 := by
      have hb : n.toNat.testBit 62 = true := by
        rw [Nat.testBit_eq_decide_div_mod_eq]; simp; omega
      simp only [bne_iff_ne, ne_eq]
      intro hz
      have := congrArg (fun x => x.getLsbD 62) hz
      have h62 : Nat.testBit 4611686018427387904 62 = true := by decide
      simp [BitVec.getLsbD, hb, h62] at this
    simp [h1, h2]
  · have := n.isLt; omega

theorem floor_small (n : I) (h : n.toInt ≤ 2) : FloorToPowerOfTwo n = n := by
  unfold FloorToPowerOfTwo
  have h2 : BitVec.sle n 2#64 = true := by
    rw [sle_def]; simp
    have : (2#64 : I).toInt = 2 := by decide
    omega
  simp [h2]


theorem floor_eq (n : I) (h0 : 2 < n.toInt) :
    (FloorToPowerOfTwo n).toNat = floorNat n.toNat := by
  rcases toInt_cases n with ⟨hlt, heq⟩ | ⟨hge, heq⟩
  · have hn : 2 < n.toNat := by omega
    unfold FloorToPowerOfTwo
    have h2 : BitVec.sle n 2#64 = false := by
      rw [sle_def]; simp
      have : (2#64 : I).toInt = 2 := by decide
      omega
    simp only [h2, Bool.false_eq_true, ite_false]
    obtain ⟨hf, hf63⟩ := fillBits_toNat n hlt
    have hfe := fillNat_eq n.toNat (by omega) (by omega)
    have hm : (fillBits n).msb = false := by
      rw [BitVec.msb_eq_false_iff_two_mul_lt]; omega
    have hlog : Nat.log2 n.toNat < 63 := log2_lt_of_lt _ _ (by omega) hlt
    have hpow : 2^(Nat.log2 n.toNat) ≤ 2^62 := Nat.pow_le_pow_right (by omega) (by omega)
    have hpos : 0 < 2^(Nat.log2 n.toNat) := Nat.pow_pos (by omega)
    have h3 : 2^(Nat.log2 n.toNat + 1) = 2 * 2^(Nat.log2 n.toNat) := by rw [Nat.pow_succ]; omega
    have hc : floorNat n.toNat = 2^(Nat.log2 n.toNat) := by
      simp only [floorNat, show ¬ n.toNat ≤ 2 by omega, ite_false]
    have e1 : (1#64 : I).toNat = 1 := rfl
    rw [BitVec.toNat_add, e1, BitVec.sshiftRight_eq_of_msb_false hm, BitVec.toNat_ushiftRight, hf, hfe, hc,
      Nat.shiftRight_eq_div_pow, h3]
    have : (2 * 2 ^ (BitVec.toNat n).log2 - 1) / 2 ^ 1 = 2 ^ (BitVec.toNat n).log2 - 1 := by omega
    rw [this, Nat.mod_eq_of_lt (by omega)]
    omega
  · omega

theorem testBit_top (x k : Nat) (h1 : 2^k ≤ x) (h2 : x < 2^(k+1)) : x.testBit k = true := by
  rw [Nat.testBit_eq_decide_div_mod_eq]
  have : x / 2^k = 1 := by
    apply Nat.div_eq_of_lt_le
    · simpa using h1
    · rw [Nat.pow_succ] at h2; omega
  simp [this]

/-- the bit trick `n & (n-1) == 0` characterises powers of two (and 0) on naturals -/
theorem and_pred_eq_zero_iff (n : Nat) (hn : 0 < n) : n &&& (n - 1) = 0 ↔ n = 2^(Nat.log2 n) := by
  have hne : n ≠ 0 := by omega
  have h1 := Nat.log2_self_le hne
  have h2 : n < 2^(Nat.log2 n + 1) := Nat.lt_log2_self
  constructor
  · intro hz
    by_cases heq : n = 2^(Nat.log2 n)
    · exact heq
    · exfalso
      have hb1 : n.testBit (Nat.log2 n) = true := testBit_top _ _ h1 h2
      have hb2 : (n-1).testBit (Nat.log2 n) = true := testBit_top _ _ (by omega) (by omega)
      have := congrArg (fun x => x.testBit (Nat.log2 n)) hz
      simp [Nat.testBit_and, hb1, hb2] at this
  · intro heq
    have : n - 1 = 2^(Nat.log2 n) - 1 := by omega
    rw [this, Nat.and_two_pow_sub_one_eq_mod]
    conv => lhs; lhs; rw [heq]
    exact Nat.mod_self _

theorem isPow2_iff (n : I) (h0 : 0 < n.toInt) :
    IsPowerOfTwo n = true ↔ n.toNat = 2^(Nat.log2 n.toNat) := by
  rcases toInt_cases n with ⟨hlt, heq⟩ | ⟨hge, heq⟩
  · have hn : 0 < n.toNat := by omega
    unfold IsPowerOfTwo
    have hsub : (n - 1#64).toNat = n.toNat - 1 := by
      rw [BitVec.toNat_sub_of_le]
      · rfl
      · rw [BitVec.le_def]; simp; omega
    rw [← and_pred_eq_zero_iff _ hn]
    simp only [beq_iff_eq]
    constructor
    · intro h; have := congrArg BitVec.toNat h
      simpa [BitVec.toNat_and, hsub] using this
    · intro h; apply BitVec.eq_of_toNat_eq
      simpa [BitVec.toNat_and, hsub] using h
  · omega

theorem max_spec (a b : I) : (Gen.Pmath.Max a b).toInt = max a.toInt b.toInt := by
  unfold Gen.Pmath.Max; rw [slt_def]; by_cases h : a.toInt < b.toInt <;> simp [h] <;> omega

theorem min_spec (a b : I) : (Gen.Pmath.Min a b).toInt = min a.toInt b.toInt := by
  unfold Gen.Pmath.Min; rw [slt_def]; by_cases h : a.toInt < b.toInt <;> simp [h] <;> omega

end NettyVerif.Pmath
