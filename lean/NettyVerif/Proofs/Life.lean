import NettyVerif.Model.Life
/-! Invariants of the lifecycle acceptor. -/
namespace NettyVerif.Life

theorem inv_init : Inv {} := by constructor <;> simp

theorem inv_step (s s' : St) (e : Ev) (h : Inv s) (hs : step s e = some s') : Inv s' := by
  obtain ⟨h1, h2, h3, h4, h5, h6, h7, h8, h9, h10, h11, h12, h13⟩ := h
  cases e <;> simp only [step] at hs <;> (repeat' split at hs) <;> (try cases hs) <;>
    constructor <;> simp_all <;> (try omega) <;> (try grind)

theorem inv_run : ∀ (es : List Ev) (s s' : St), Inv s → run s es = some s' → Inv s'
  | [], s, s', h, hr => by simp [run] at hr; subst hr; exact h
  | e :: es, s, s', h, hr => by
    simp only [run] at hr
    cases hs : step s e with
    | none => simp [hs] at hr
    | some s1 => simp [hs] at hr; exact inv_run es s1 s' (inv_step s s1 e h hs) hr

end NettyVerif.Life
