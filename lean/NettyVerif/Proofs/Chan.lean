import NettyVerif.Model.Chan
/-! The inductive invariant of the Chan LTS (write path), for every capacity, payload type, number
    of client goroutines and interleaving. -/
namespace NettyVerif.Chan
variable {α : Type}

structure WInv (s : St α) : Prop where
  fifo : s.broken = false → s.accepted = s.wire ++ s.batch ++ s.q
  owner : s.running = true ↔ (s.snd.isSome ∨ s.execPending = 1)
  execLe : s.execPending ≤ 1
  excl : ¬ (s.snd.isSome ∧ s.execPending = 1)
  idleClean : s.broken = false → s.running = false → s.batch = []
  idleFlushed : s.broken = false → s.running = false → s.lockHeld = false → s.flushed = s.wire.length
  heldFlushed : s.broken = false → s.lockHeld = true → s.syncWrote = false → s.flushed = s.wire.length
  storeReady : s.broken = false → s.snd = some .store → s.batch = [] ∧ s.flushed = s.wire.length
  flushReady : s.snd = some .flush → s.batch = []
  putReady : ∀ k, s.snd = some (.put k) → s.batch = []
  len1Ready : s.snd = some .len1 → s.batch = []
  noStrand : s.broken = false → s.q ≠ [] → s.running = true ∨ s.pendingCas > 0 ∨ s.lingering ≠ []
  flushedLe : s.flushed ≤ s.wire.length
  syncNoSender : s.sync = true → s.snd = none ∧ s.execPending = 0 ∧ s.pendingCas = 0 ∧ s.lingering = [] ∧ s.q = [] ∧ s.running = false
  asyncNoLock : s.sync = false → s.lockHeld = false ∧ s.syncWrote = false
  brokenMono : s.trClosed = true → s.broken = true
  noOwnerBatch : s.broken = false → s.snd = none → s.batch = []
  failedBroken : s.snd = some .failed ∨ s.snd = some .failedStore → s.broken = true
  writevBatch : s.snd = some .writev → s.batch ≠ []
  putPos : ∀ k, s.snd = some (.put k) → 0 < k
  qLe : s.q.length ≤ s.cap
  batchLe : s.batch.length ≤ batchCap s
  pollRoom : s.snd = some .poll → s.batch.length < batchCap s

theorem inv_init (sync : Bool) (cap : Nat) (untilW : Bool) :
    WInv ({ sync := sync, cap := cap, untilW := untilW } : St α) := by
  constructor <;> simp

macro "inv_close" : tactic => `(tactic| (constructor <;> simp_all [batchCap] <;> (try split) <;> (try simp_all [batchCap]) <;> (try omega)))

theorem inv_enqueue (s s' : St α) (p : α) (h : WInv s) (hs : step s (.enqueue p) = some s') : WInv s' := by
  obtain ⟨fifo, owner, execLe, excl, idleClean, idleFlushed, heldFlushed, storeReady, flushReady, putReady, len1Ready,
    noStrand, flushedLe, syncNoSender, asyncNoLock, brokenMono, noOwnerBatch, failedBroken, writevBatch, putPos, qLe, batchLe, pollRoom⟩ := h
  simp only [step] at hs
  split at hs <;> simp at hs
  subst hs
  inv_close

theorem inv_casWriter (s s' : St α) (h : WInv s) (hs : step s .casWriter = some s') : WInv s' := by
  obtain ⟨fifo, owner, execLe, excl, idleClean, idleFlushed, heldFlushed, storeReady, flushReady, putReady, len1Ready,
    noStrand, flushedLe, syncNoSender, asyncNoLock, brokenMono, noOwnerBatch, failedBroken, writevBatch, putPos, qLe, batchLe, pollRoom⟩ := h
  simp only [step] at hs
  split at hs
  · simp at hs
  · split at hs <;> simp at hs <;> subst hs <;> inv_close

theorem inv_exec (s s' : St α) (h : WInv s) (hs : step s .exec = some s') : WInv s' := by
  obtain ⟨fifo, owner, execLe, excl, idleClean, idleFlushed, heldFlushed, storeReady, flushReady, putReady, len1Ready,
    noStrand, flushedLe, syncNoSender, asyncNoLock, brokenMono, noOwnerBatch, failedBroken, writevBatch, putPos, qLe, batchLe, pollRoom⟩ := h
  simp only [step] at hs
  split at hs
  · simp at hs
  · split at hs <;> simp at hs
    subst hs
    inv_close

theorem inv_sndRecv (s s' : St α) (h : WInv s) (hs : step s .sndRecv = some s') : WInv s' := by
  obtain ⟨fifo, owner, execLe, excl, idleClean, idleFlushed, heldFlushed, storeReady, flushReady, putReady, len1Ready,
    noStrand, flushedLe, syncNoSender, asyncNoLock, brokenMono, noOwnerBatch, failedBroken, writevBatch, putPos, qLe, batchLe, pollRoom⟩ := h
  simp only [step] at hs
  split at hs <;> simp at hs
  subst hs
  inv_close

theorem inv_sndDefault (s s' : St α) (h : WInv s) (hs : step s .sndDefault = some s') : WInv s' := by
  obtain ⟨fifo, owner, execLe, excl, idleClean, idleFlushed, heldFlushed, storeReady, flushReady, putReady, len1Ready,
    noStrand, flushedLe, syncNoSender, asyncNoLock, brokenMono, noOwnerBatch, failedBroken, writevBatch, putPos, qLe, batchLe, pollRoom⟩ := h
  simp only [step] at hs
  split at hs <;> simp at hs
  subst hs
  inv_close

theorem inv_sndWritev (s s' : St α) (ok : Bool) (h : WInv s) (hs : step s (.sndWritev ok) = some s') : WInv s' := by
  obtain ⟨fifo, owner, execLe, excl, idleClean, idleFlushed, heldFlushed, storeReady, flushReady, putReady, len1Ready,
    noStrand, flushedLe, syncNoSender, asyncNoLock, brokenMono, noOwnerBatch, failedBroken, writevBatch, putPos, qLe, batchLe, pollRoom⟩ := h
  simp only [step] at hs
  split at hs
  · split at hs
    · simp at hs
    · split at hs
      · rename_i hne _
        have hpos : 0 < s.batch.length := List.length_pos_iff.2 hne
        simp at hs; subst hs; inv_close
      · split at hs <;> simp at hs
        subst hs; inv_close
  · simp at hs

theorem inv_sndPut (s s' : St α) (h : WInv s) (hs : step s .sndPut = some s') : WInv s' := by
  obtain ⟨fifo, owner, execLe, excl, idleClean, idleFlushed, heldFlushed, storeReady, flushReady, putReady, len1Ready,
    noStrand, flushedLe, syncNoSender, asyncNoLock, brokenMono, noOwnerBatch, failedBroken, writevBatch, putPos, qLe, batchLe, pollRoom⟩ := h
  simp only [step] at hs
  split at hs <;> simp at hs
  subst hs
  inv_close

theorem inv_sndLen1 (s s' : St α) (h : WInv s) (hs : step s .sndLen1 = some s') : WInv s' := by
  obtain ⟨fifo, owner, execLe, excl, idleClean, idleFlushed, heldFlushed, storeReady, flushReady, putReady, len1Ready,
    noStrand, flushedLe, syncNoSender, asyncNoLock, brokenMono, noOwnerBatch, failedBroken, writevBatch, putPos, qLe, batchLe, pollRoom⟩ := h
  simp only [step] at hs
  split at hs <;> simp at hs
  subst hs
  inv_close

theorem inv_sndFlush (s s' : St α) (ok : Bool) (h : WInv s) (hs : step s (.sndFlush ok) = some s') : WInv s' := by
  obtain ⟨fifo, owner, execLe, excl, idleClean, idleFlushed, heldFlushed, storeReady, flushReady, putReady, len1Ready,
    noStrand, flushedLe, syncNoSender, asyncNoLock, brokenMono, noOwnerBatch, failedBroken, writevBatch, putPos, qLe, batchLe, pollRoom⟩ := h
  simp only [step] at hs
  split at hs
  · split at hs <;> simp at hs <;> subst hs <;> inv_close
  · simp at hs

theorem inv_sndStore (s s' : St α) (h : WInv s) (hs : step s .sndStore = some s') : WInv s' := by
  obtain ⟨fifo, owner, execLe, excl, idleClean, idleFlushed, heldFlushed, storeReady, flushReady, putReady, len1Ready,
    noStrand, flushedLe, syncNoSender, asyncNoLock, brokenMono, noOwnerBatch, failedBroken, writevBatch, putPos, qLe, batchLe, pollRoom⟩ := h
  simp only [step] at hs
  split at hs <;> simp at hs
  subst hs
  inv_close

theorem inv_sndFailStore (s s' : St α) (h : WInv s) (hs : step s .sndFailStore = some s') : WInv s' := by
  obtain ⟨fifo, owner, execLe, excl, idleClean, idleFlushed, heldFlushed, storeReady, flushReady, putReady, len1Ready,
    noStrand, flushedLe, syncNoSender, asyncNoLock, brokenMono, noOwnerBatch, failedBroken, writevBatch, putPos, qLe, batchLe, pollRoom⟩ := h
  simp only [step] at hs
  split at hs <;> simp at hs
  subst hs
  inv_close

theorem inv_noSpace (s s' : St α) (h : WInv s) (hs : step s .noSpace = some s') : WInv s' := by
  obtain ⟨fifo, owner, execLe, excl, idleClean, idleFlushed, heldFlushed, storeReady, flushReady, putReady, len1Ready,
    noStrand, flushedLe, syncNoSender, asyncNoLock, brokenMono, noOwnerBatch, failedBroken, writevBatch, putPos, qLe, batchLe, pollRoom⟩ := h
  simp only [step] at hs
  split at hs <;> simp at hs
  subst hs; inv_close

theorem inv_parentCancel (s s' : St α) (h : WInv s) (hs : step s .parentCancel = some s') : WInv s' := by
  obtain ⟨fifo, owner, execLe, excl, idleClean, idleFlushed, heldFlushed, storeReady, flushReady, putReady, len1Ready,
    noStrand, flushedLe, syncNoSender, asyncNoLock, brokenMono, noOwnerBatch, failedBroken, writevBatch, putPos, qLe, batchLe, pollRoom⟩ := h
  simp only [step] at hs; simp at hs
  subst hs; inv_close

theorem inv_beginWrite (s s' : St α) (h : WInv s) (hs : step s .beginWrite = some s') : WInv s' := by
  obtain ⟨fifo, owner, execLe, excl, idleClean, idleFlushed, heldFlushed, storeReady, flushReady, putReady, len1Ready,
    noStrand, flushedLe, syncNoSender, asyncNoLock, brokenMono, noOwnerBatch, failedBroken, writevBatch, putPos, qLe, batchLe, pollRoom⟩ := h
  simp only [step] at hs
  split at hs <;> simp at hs
  subst hs; inv_close

theorem inv_rejectWrite (s s' : St α) (h : WInv s) (hs : step s .rejectWrite = some s') : WInv s' := by
  simp only [step] at hs
  split at hs <;> simp at hs
  subst hs; exact h

theorem inv_sndFailMark (s s' : St α) (h : WInv s) (hs : step s .sndFailMark = some s') : WInv s' := by
  obtain ⟨fifo, owner, execLe, excl, idleClean, idleFlushed, heldFlushed, storeReady, flushReady, putReady, len1Ready,
    noStrand, flushedLe, syncNoSender, asyncNoLock, brokenMono, noOwnerBatch, failedBroken, writevBatch, putPos, qLe, batchLe, pollRoom⟩ := h
  simp only [step] at hs
  split at hs <;> simp at hs
  subst hs; inv_close

theorem inv_closeLen (s s' : St α) (h : WInv s) (hs : step s .closeLen = some s') : WInv s' := by
  obtain ⟨fifo, owner, execLe, excl, idleClean, idleFlushed, heldFlushed, storeReady, flushReady, putReady, len1Ready,
    noStrand, flushedLe, syncNoSender, asyncNoLock, brokenMono, noOwnerBatch, failedBroken, writevBatch, putPos, qLe, batchLe, pollRoom⟩ := h
  simp only [step] at hs
  split at hs
  · split at hs <;> simp at hs <;> subst hs <;> inv_close
  · simp at hs

theorem inv_abortCtx (s s' : St α) (h : WInv s) (hs : step s .abortCtx = some s') : WInv s' := by
  obtain ⟨fifo, owner, execLe, excl, idleClean, idleFlushed, heldFlushed, storeReady, flushReady, putReady, len1Ready,
    noStrand, flushedLe, syncNoSender, asyncNoLock, brokenMono, noOwnerBatch, failedBroken, writevBatch, putPos, qLe, batchLe, pollRoom⟩ := h
  simp only [step] at hs
  split at hs <;> simp at hs
  subst hs; inv_close

theorem inv_abortClosed (s s' : St α) (h : WInv s) (hs : step s .abortClosed = some s') : WInv s' := by
  obtain ⟨fifo, owner, execLe, excl, idleClean, idleFlushed, heldFlushed, storeReady, flushReady, putReady, len1Ready,
    noStrand, flushedLe, syncNoSender, asyncNoLock, brokenMono, noOwnerBatch, failedBroken, writevBatch, putPos, qLe, batchLe, pollRoom⟩ := h
  simp only [step] at hs
  split at hs <;> simp at hs
  subst hs; inv_close

theorem inv_lingLen (s s' : St α) (i : Nat) (h : WInv s) (hs : step s (.lingLen i) = some s') : WInv s' := by
  obtain ⟨fifo, owner, execLe, excl, idleClean, idleFlushed, heldFlushed, storeReady, flushReady, putReady, len1Ready,
    noStrand, flushedLe, syncNoSender, asyncNoLock, brokenMono, noOwnerBatch, failedBroken, writevBatch, putPos, qLe, batchLe, pollRoom⟩ := h
  simp only [step] at hs
  split at hs
  · split at hs <;> simp at hs <;> subst hs <;> inv_close
  · simp at hs

theorem inv_lingCas (s s' : St α) (i : Nat) (h : WInv s) (hs : step s (.lingCas i) = some s') : WInv s' := by
  obtain ⟨fifo, owner, execLe, excl, idleClean, idleFlushed, heldFlushed, storeReady, flushReady, putReady, len1Ready,
    noStrand, flushedLe, syncNoSender, asyncNoLock, brokenMono, noOwnerBatch, failedBroken, writevBatch, putPos, qLe, batchLe, pollRoom⟩ := h
  simp only [step] at hs
  split at hs
  · split at hs
    · simp at hs; subst hs; inv_close
    · split at hs <;> simp at hs
      have hsy : s.sync = false := by
        cases hsync : s.sync with
        | false => rfl
        | true => have := syncNoSender hsync; simp_all
      subst hs; inv_close
  · simp at hs

theorem inv_lock (s s' : St α) (h : WInv s) (hs : step s .lock = some s') : WInv s' := by
  obtain ⟨fifo, owner, execLe, excl, idleClean, idleFlushed, heldFlushed, storeReady, flushReady, putReady, len1Ready,
    noStrand, flushedLe, syncNoSender, asyncNoLock, brokenMono, noOwnerBatch, failedBroken, writevBatch, putPos, qLe, batchLe, pollRoom⟩ := h
  simp only [step] at hs
  split at hs <;> simp at hs
  subst hs; inv_close

theorem inv_syncWrite (s s' : St α) (p : α) (ok : Bool) (h : WInv s) (hs : step s (.syncWrite p ok) = some s') : WInv s' := by
  obtain ⟨fifo, owner, execLe, excl, idleClean, idleFlushed, heldFlushed, storeReady, flushReady, putReady, len1Ready,
    noStrand, flushedLe, syncNoSender, asyncNoLock, brokenMono, noOwnerBatch, failedBroken, writevBatch, putPos, qLe, batchLe, pollRoom⟩ := h
  simp only [step] at hs
  split at hs
  · split at hs
    · simp at hs; subst hs; inv_close
    · split at hs <;> simp at hs
      subst hs; inv_close
  · simp at hs

theorem inv_syncFlush (s s' : St α) (h : WInv s) (hs : step s .syncFlush = some s') : WInv s' := by
  obtain ⟨fifo, owner, execLe, excl, idleClean, idleFlushed, heldFlushed, storeReady, flushReady, putReady, len1Ready,
    noStrand, flushedLe, syncNoSender, asyncNoLock, brokenMono, noOwnerBatch, failedBroken, writevBatch, putPos, qLe, batchLe, pollRoom⟩ := h
  simp only [step] at hs
  split at hs <;> simp at hs
  subst hs; inv_close

theorem inv_closeCas (s s' : St α) (h : WInv s) (hs : step s .closeCas = some s') : WInv s' := by
  simp only [step] at hs
  split at hs
  · simp at hs; subst hs; exact h
  · split at hs <;> simp at hs
    subst hs
    obtain ⟨fifo, owner, execLe, excl, idleClean, idleFlushed, heldFlushed, storeReady, flushReady, putReady, len1Ready,
      noStrand, flushedLe, syncNoSender, asyncNoLock, brokenMono, noOwnerBatch, failedBroken, writevBatch, putPos, qLe, batchLe, pollRoom⟩ := h
    inv_close

theorem inv_closeLoad (s s' : St α) (h : WInv s) (hs : step s .closeLoad = some s') : WInv s' := by
  obtain ⟨fifo, owner, execLe, excl, idleClean, idleFlushed, heldFlushed, storeReady, flushReady, putReady, len1Ready,
    noStrand, flushedLe, syncNoSender, asyncNoLock, brokenMono, noOwnerBatch, failedBroken, writevBatch, putPos, qLe, batchLe, pollRoom⟩ := h
  simp only [step] at hs
  split at hs
  · split at hs <;> simp at hs <;> subst hs <;> inv_close
  · simp at hs

theorem inv_closeSleep (s s' : St α) (h : WInv s) (hs : step s .closeSleep = some s') : WInv s' := by
  obtain ⟨fifo, owner, execLe, excl, idleClean, idleFlushed, heldFlushed, storeReady, flushReady, putReady, len1Ready,
    noStrand, flushedLe, syncNoSender, asyncNoLock, brokenMono, noOwnerBatch, failedBroken, writevBatch, putPos, qLe, batchLe, pollRoom⟩ := h
  simp only [step] at hs
  split at hs <;> simp at hs
  subst hs; inv_close

theorem inv_closeSetErr (s s' : St α) (h : WInv s) (hs : step s .closeSetErr = some s') : WInv s' := by
  obtain ⟨fifo, owner, execLe, excl, idleClean, idleFlushed, heldFlushed, storeReady, flushReady, putReady, len1Ready,
    noStrand, flushedLe, syncNoSender, asyncNoLock, brokenMono, noOwnerBatch, failedBroken, writevBatch, putPos, qLe, batchLe, pollRoom⟩ := h
  simp only [step] at hs
  split at hs <;> simp at hs
  subst hs; inv_close

theorem inv_closeTr (s s' : St α) (h : WInv s) (hs : step s .closeTr = some s') : WInv s' := by
  obtain ⟨fifo, owner, execLe, excl, idleClean, idleFlushed, heldFlushed, storeReady, flushReady, putReady, len1Ready,
    noStrand, flushedLe, syncNoSender, asyncNoLock, brokenMono, noOwnerBatch, failedBroken, writevBatch, putPos, qLe, batchLe, pollRoom⟩ := h
  simp only [step] at hs
  split at hs <;> simp at hs
  subst hs; inv_close

theorem inv_closeCancel (s s' : St α) (h : WInv s) (hs : step s .closeCancel = some s') : WInv s' := by
  obtain ⟨fifo, owner, execLe, excl, idleClean, idleFlushed, heldFlushed, storeReady, flushReady, putReady, len1Ready,
    noStrand, flushedLe, syncNoSender, asyncNoLock, brokenMono, noOwnerBatch, failedBroken, writevBatch, putPos, qLe, batchLe, pollRoom⟩ := h
  simp only [step] at hs
  split at hs <;> simp at hs
  subst hs; inv_close

theorem inv_closeFire (s s' : St α) (h : WInv s) (hs : step s .closeFire = some s') : WInv s' := by
  obtain ⟨fifo, owner, execLe, excl, idleClean, idleFlushed, heldFlushed, storeReady, flushReady, putReady, len1Ready,
    noStrand, flushedLe, syncNoSender, asyncNoLock, brokenMono, noOwnerBatch, failedBroken, writevBatch, putPos, qLe, batchLe, pollRoom⟩ := h
  simp only [step] at hs
  split at hs <;> simp at hs
  subst hs; inv_close

/-- the invariant is inductive: preserved by every action of the LTS -/
theorem inv_step (s s' : St α) (a : Act α) (h : WInv s) (hs : step s a = some s') : WInv s' := by
  cases a with
  | enqueue p => exact inv_enqueue s s' p h hs
  | noSpace => exact inv_noSpace s s' h hs
  | parentCancel => exact inv_parentCancel s s' h hs
  | beginWrite => exact inv_beginWrite s s' h hs
  | rejectWrite => exact inv_rejectWrite s s' h hs
  | abortCtx => exact inv_abortCtx s s' h hs
  | abortClosed => exact inv_abortClosed s s' h hs
  | casWriter => exact inv_casWriter s s' h hs
  | exec => exact inv_exec s s' h hs
  | sndRecv => exact inv_sndRecv s s' h hs
  | sndDefault => exact inv_sndDefault s s' h hs
  | sndWritev ok => exact inv_sndWritev s s' ok h hs
  | sndPut => exact inv_sndPut s s' h hs
  | sndLen1 => exact inv_sndLen1 s s' h hs
  | sndFlush ok => exact inv_sndFlush s s' ok h hs
  | sndStore => exact inv_sndStore s s' h hs
  | sndFailMark => exact inv_sndFailMark s s' h hs
  | sndFailStore => exact inv_sndFailStore s s' h hs
  | lingLen i => exact inv_lingLen s s' i h hs
  | lingCas i => exact inv_lingCas s s' i h hs
  | lock => exact inv_lock s s' h hs
  | syncWrite p ok => exact inv_syncWrite s s' p ok h hs
  | syncFlush => exact inv_syncFlush s s' h hs
  | closeCas => exact inv_closeCas s s' h hs
  | closeLen => exact inv_closeLen s s' h hs
  | closeLoad => exact inv_closeLoad s s' h hs
  | closeSleep => exact inv_closeSleep s s' h hs
  | closeSetErr => exact inv_closeSetErr s s' h hs
  | closeTr => exact inv_closeTr s s' h hs
  | closeCancel => exact inv_closeCancel s s' h hs
  | closeFire => exact inv_closeFire s s' h hs

/-- … hence holds in every reachable state, for every schedule (list of actions) -/
theorem inv_run : ∀ (acts : List (Act α)) (s s' : St α), WInv s → run s acts = some s' → WInv s'
  | [], s, s', h, hr => by simp [run] at hr; subst hr; exact h
  | a :: as, s, s', h, hr => by
    simp only [run] at hr
    cases hs : step s a with
    | none => simp [hs] at hr
    | some s1 => simp [hs] at hr; exact inv_run as s1 s' (inv_step s s1 a h hs) hr

end NettyVerif.Chan
