import NettyVerif.Model.Wire
/-! Invariant of the message-lock discipline: the wire is a sequence of whole messages followed by
    a prefix of the message of the current lock holder. -/
namespace NettyVerif.Wire
variable {α : Type}

theorem tagged_append (a b : List (Msg α)) : tagged (a ++ b) = tagged a ++ tagged b := by
  simp [tagged, List.flatMap_append]

theorem tagged_single (m : Msg α) : tagged [m] = m.chunks.map (fun c => (m.id, c)) := by
  simp [tagged]

theorem wireBytes_append (a b : List (Nat × List α)) : wireBytes (a ++ b) = wireBytes a ++ wireBytes b := by
  simp [wireBytes]

theorem wireBytes_tagged_single (m : Msg α) : wireBytes (m.chunks.map (fun c => (m.id, c))) = m.bytes := by
  simp [wireBytes, Msg.bytes, List.map_map, Function.comp_def]

theorem wireBytes_tagged (ms : List (Msg α)) : wireBytes (tagged ms) = (ms.map Msg.bytes).flatten := by
  induction ms with
  | nil => simp [tagged, wireBytes]
  | cons m ms ih =>
    have : tagged (m :: ms) = tagged [m] ++ tagged ms := by rw [← tagged_append]; rfl
    rw [this, wireBytes_append, ih, tagged_single, wireBytes_tagged_single]
    simp

def Inv (s : St α) : Prop :=
  s.useLock = true ∧
  ((s.cur = [] ∧ s.holder = none ∧ s.wire = tagged s.order) ∨
   (∃ t m rest pre sent, s.cur = [(t, m, rest)] ∧ s.holder = some t ∧ s.order = pre ++ [m] ∧ m.chunks = sent ++ rest ∧
      s.wire = tagged pre ++ sent.map (fun c => (m.id, c))))

theorem inv_init : Inv ({} : St α) := ⟨rfl, Or.inl ⟨rfl, rfl, rfl⟩⟩

theorem inv_step (s s' : St α) (a : Act α) (h : Inv s) (hs : step s a = some s') : Inv s' := by
  obtain ⟨hl, hcase⟩ := h
  cases a with
  | start t m =>
    simp only [step] at hs
    split at hs
    · cases hs
    · split at hs
      · cases hs
      · rename_i hany hblocked
        injection hs with hs; subst hs
        rcases hcase with ⟨hc, hh, hw⟩ | ⟨t', m', rest, pre, sent, hc, hh, _⟩
        · refine ⟨hl, Or.inr ⟨t, m, m.chunks, s.order, [], ?_, ?_, rfl, rfl, ?_⟩⟩
          · simp [hc]
          · simp [hl]
          · simp [hw]
        · simp [hl, hh] at hblocked
  | chunk t =>
    simp only [step] at hs
    rcases hcase with ⟨hc, _, _⟩ | ⟨t', m, rest, pre, sent, hc, hh, ho, hm, hw⟩
    · simp [hc] at hs
    · rw [hc] at hs
      by_cases htt : t' = t
      · subst htt
        simp only [List.find?_cons, beq_self_eq_true] at hs
        cases rest with
        | nil => simp at hs
        | cons c rest' =>
          simp only at hs
          injection hs with hs; subst hs
          refine ⟨hl, Or.inr ⟨t', m, rest', pre, sent ++ [c], ?_, hh, ho, ?_, ?_⟩⟩
          · simp
          · simp [hm]
          · simp [hw]
      · have : ((t', m, rest).1 == t) = false := by simpa using htt
        simp [List.find?_cons, this] at hs
  | finish t =>
    simp only [step] at hs
    rcases hcase with ⟨hc, _, _⟩ | ⟨t', m, rest, pre, sent, hc, hh, ho, hm, hw⟩
    · simp [hc] at hs
    · rw [hc] at hs
      by_cases htt : t' = t
      · subst htt
        simp only [List.find?_cons, beq_self_eq_true] at hs
        cases rest with
        | cons c rest' => simp at hs
        | nil =>
          simp only at hs
          injection hs with hs; subst hs
          refine ⟨hl, Or.inl ⟨?_, ?_, ?_⟩⟩
          · simp [hc]
          · simp [hl]
          · simp only [ho, tagged_append, tagged_single, hw]
            simp at hm
            rw [hm]
      · have : ((t', m, rest).1 == t) = false := by simpa using htt
        simp [List.find?_cons, this] at hs

theorem inv_run : ∀ (acts : List (Act α)) (s s' : St α), Inv s → run s acts = some s' → Inv s'
  | [], s, s', h, hr => by simp [run] at hr; subst hr; exact h
  | a :: as, s, s', h, hr => by
    simp only [run] at hr
    cases hs : step s a with
    | none => simp [hs] at hr
    | some s1 => simp [hs] at hr; exact inv_run as s1 s' (inv_step s s1 a h hs) hr

end NettyVerif.Wire
