import NettyVerif.Proofs.Pmath
/-! Lemmas about the pool model (Model/Pool.lean): configuration well-formedness, size classes,
    shard-index injectivity, the shard invariant. -/
namespace NettyVerif.Pool
open NettyVerif.Pmath

def IsPow2 (n : Nat) : Prop := ∃ k, n = 2^k

theorem ceilNat_pow2 (n : Nat) (h : 1 ≤ n) : IsPow2 (ceilNat n) := by
  unfold ceilNat
  split
  · rename_i h2
    rcases (show n = 1 ∨ n = 2 by omega) with rfl | rfl
    · exact ⟨0, rfl⟩
    · exact ⟨1, rfl⟩
  · exact ⟨_, rfl⟩

theorem ceilNat_ge (n : Nat) : n ≤ ceilNat n := by
  by_cases h : n ≤ 2
  · simp [ceilNat, h]
  · exact (ceilNat_spec n (by omega)).1

theorem ceilNat_two_pow (k : Nat) : ceilNat (2^k) = 2^k := by
  unfold ceilNat
  split
  · rfl
  · rename_i h
    have hk : 2 ≤ k := by
      rcases k with _ | _ | k
      · simp at h
      · simp at h
      · omega
    have hpos : 0 < 2^(k-1) := Nat.pow_pos (by omega)
    have h2 : 2^k = 2 * 2^(k-1) := by
      rw [show k = (k-1)+1 by omega, Nat.pow_succ]; simp; omega
    have : Nat.log2 (2^k - 1) = k - 1 := by
      rw [Nat.log2_eq_iff (by omega)]
      constructor
      · omega
      · rw [show k - 1 + 1 = k by omega]; omega
    rw [this, show k - 1 + 1 = k by omega]

/-- `pool.New`: the step is a power of two and step × shards is exactly the (ceiled) maximum -/
theorem mkCfg_wf (mx : Int) :
    IsPow2 (mkCfg mx).step ∧ 1 ≤ (mkCfg mx).shards ∧ (mkCfg mx).shards ≤ 64 ∧
    (mkCfg mx).step * (mkCfg mx).shards = ceilNat (if mx < 1 then 1 else mx.toNat) := by
  have hm : 1 ≤ (if mx < 1 then 1 else mx.toNat) := by split <;> omega
  obtain ⟨k, hk⟩ := ceilNat_pow2 _ hm
  unfold mkCfg
  simp only [hk]
  by_cases h6 : k ≤ 6
  · have hle : 2^k ≤ 64 := by
      have := Nat.pow_le_pow_right (show 0 < 2 by omega) h6; simpa using this
    have hpos : 0 < 2^k := Nat.pow_pos (by omega)
    have e1 : max 1 (min (2^k) 64) = 2^k := by omega
    simp only [e1, Nat.div_self hpos]
    have : ceilNat 1 = 1 := rfl
    simp only [this, Nat.one_mul, Nat.lt_irrefl, ite_false]
    exact ⟨⟨0, rfl⟩, hpos, hle, trivial⟩
  · have hk6 : 6 ≤ k := by omega
    have hge : 64 ≤ 2^k := by
      have := Nat.pow_le_pow_right (show 0 < 2 by omega) hk6; simpa using this
    have e1 : max 1 (min (2^k) 64) = 64 := by omega
    have e2 : 2^k / 64 = 2^(k-6) := by
      have := Nat.pow_div hk6 (show 0 < 2 by omega); simpa using this
    have e3 : 2^(k-6) * 64 = 2^k := by
      have : (64:Nat) = 2^6 := rfl
      rw [this, ← Nat.pow_add, show k - 6 + 6 = k by omega]
    simp only [e1, e2, ceilNat_two_pow, e3, Nat.lt_irrefl, ite_false]
    exact ⟨⟨_, rfl⟩, by omega, by omega, trivial⟩

/-- well-formed configurations (what `New` produces) -/
structure Cfg.WF (c : Cfg) : Prop where
  pow2 : IsPow2 c.step

theorem Cfg.WF.pos {c : Cfg} (h : c.WF) : 0 < c.step := by
  obtain ⟨k, hk⟩ := h.pow2; rw [hk]; exact Nat.pow_pos (by omega)

theorem mkCfg_WF (mx : Int) : (mkCfg mx).WF := ⟨(mkCfg_wf mx).1⟩

/-- every class is at least the request, at least one step, and a multiple of the step -/
theorem size_spec (c : Cfg) (h : c.WF) (i : Int) :
    i ≤ (c.size i : Int) ∧ c.step ≤ c.size i ∧ c.step ∣ c.size i := by
  unfold Cfg.size
  split
  · rename_i hle; exact ⟨hle, Nat.le_refl _, Nat.dvd_refl _⟩
  · rename_i hgt
    have hi : (c.step : Int) < i := by omega
    have hn : c.step < i.toNat := by omega
    have hge := ceilNat_ge i.toNat
    refine ⟨by omega, by omega, ?_⟩
    obtain ⟨s, hs⟩ := h.pow2
    obtain ⟨k, hk⟩ := ceilNat_pow2 i.toNat (by omega)
    rw [hs, hk]
    apply Nat.pow_dvd_pow
    have : 2^s < 2^k := by rw [← hs, ← hk]; omega
    have := (Nat.pow_lt_pow_iff_right (show 1 < 2 by omega)).1 this
    omega

/-- applying `size` to a class gives the class back -/
theorem size_idem (c : Cfg) (_h : c.WF) (i : Int) : c.size (c.size i) = c.size i := by
  unfold Cfg.size
  split
  · simp
  · rename_i hgt
    have hn : c.step < i.toNat := by omega
    have hge := ceilNat_ge i.toNat
    obtain ⟨k, hk⟩ := ceilNat_pow2 i.toNat (by omega)
    have : ¬ ((ceilNat i.toNat : Nat) : Int) ≤ (c.step : Int) := by omega
    simp only [this, ite_false, Int.toNat_natCast]
    rw [hk, ceilNat_two_pow]

/-- two positive multiples of the step in the same shard are equal -/
theorem idx_inj (step a b : Nat) (hs : 0 < step) (ha : step ∣ a) (hb : step ∣ b)
    (ha0 : 0 < a) (hb0 : 0 < b) (h : (a - 1) / step = (b - 1) / step) : a = b := by
  obtain ⟨x, rfl⟩ := ha
  obtain ⟨y, rfl⟩ := hb
  have hx : 0 < x := Nat.pos_of_mul_pos_left ha0
  have hy : 0 < y := Nat.pos_of_mul_pos_left hb0
  have e : ∀ z, 0 < z → (step * z - 1) / step = z - 1 := by
    intro z hz
    have : step * z - 1 = step * (z - 1) + (step - 1) := by
      have : step * z = step * (z - 1) + step := by
        rw [← Nat.mul_succ]; congr 1; omega
      omega
    rw [this, Nat.mul_add_div hs, Nat.div_eq_of_lt (by omega)]; simp
  rw [e x hx, e y hy] at h
  have : x = y := by omega
  rw [this]

/-- shard invariant of the repaired pool: every pooled item sits in the shard of its own
    capacity, and that capacity is exactly a size class -/
def PInv (s : St) : Prop :=
  ∀ i it, (i, it) ∈ s.items → s.cfg.size it.cap = it.cap ∧ (it.cap - 1) / s.cfg.step = i

theorem step_cfg (pi : Cfg → Nat → Option Nat) (s s' : St) (o : Op) (h : step pi s o = some s') : s'.cfg = s.cfg := by
  cases o with
  | get size res fresh =>
    simp only [step] at h
    split at h
    · split at h <;> simp at h; subst h; rfl
    · split at h
      · simp at h
      · split at h <;> simp at h; subst h; rfl
  | put it =>
    simp only [step] at h
    split at h <;> simp at h <;> subst h <;> rfl
  | drop i => simp only [step] at h; simp at h; subst h; rfl

theorem pinv_step (s s' : St) (o : Op) (hI : PInv s) (h : step Cfg.putIdx s o = some s') : PInv s' := by
  cases o with
  | get size res fresh =>
    simp only [step] at h
    split at h
    · split at h <;> simp at h; subst h; exact hI
    · split at h
      · simp at h
      · split at h <;> simp at h
        subst h
        intro i it hm
        exact hI i it (List.mem_of_mem_erase hm)
  | put it =>
    simp only [step] at h
    split at h
    · simp at h; subst h; exact hI
    · rename_i i hp
      simp at h; subst h
      intro j jt hm
      simp only [List.mem_cons] at hm
      rcases hm with heq | hm
      · injection heq with h1 h2; subst h1; subst h2
        simp only [Cfg.putIdx] at hp
        split at hp
        · simp at hp
        · split at hp
          · split at hp
            · rename_i hsz; simp at hp; exact ⟨hsz, hp⟩
            · simp at hp
          · simp at hp
      · exact hI j jt hm
  | drop i =>
    simp only [step] at h; simp at h; subst h
    intro j jt hm
    exact hI j jt (List.mem_of_mem_eraseIdx hm)

end NettyVerif.Pool
