import NettyVerif.Model.ExactReader
import NettyVerif.Proofs.Frame
namespace NettyVerif.ExactR
open NettyVerif.Frame

theorem srcRead_flat (cs : List Bytes) (k : Nat) :
    (srcRead cs k).1 ++ (srcRead cs k).2.1.flatten = cs.flatten := by
  cases cs with
  | nil => simp [srcRead]
  | cons c cs =>
    simp only [srcRead, takeK_eq]
    by_cases h : (c.drop k).isEmpty
    · simp only [h, ite_true, List.flatten_cons]
      have : c.drop k = [] := List.isEmpty_iff.1 h
      have h2 : c.take k = c := by
        have := List.take_append_drop k c
        rw [‹c.drop k = []›, List.append_nil] at this
        exact this
      rw [h2]
    · simp only [h, List.flatten_cons]
      simp [← List.append_assoc]

theorem srcRead_len (cs : List Bytes) (k : Nat) : (srcRead cs k).1.length ≤ k := by
  cases cs with
  | nil => simp [srcRead]
  | cons c cs => simp only [srcRead, takeK_eq, List.length_take]; omega

theorem srcRead_end (cs : List Bytes) (k : Nat) (h : (srcRead cs k).2.2 = true) :
    cs = [] ∧ (srcRead cs k).1 = [] ∧ (srcRead cs k).2.1 = [] := by
  cases cs with
  | nil => simp [srcRead]
  | cons c cs => simp [srcRead] at h

/-- the invariant of one `Read`: the counter and the stream move together, never past zero -/
theorem read_step (n : Int) (plen : Nat) (cs : List Bytes) (fin : RErr) :
    (read n plen cs fin).1.data ++ (read n plen cs fin).2.2.flatten = cs.flatten ∧
    (read n plen cs fin).2.1 = n - (read n plen cs fin).1.data.length ∧
    (0 ≤ n → 0 ≤ (read n plen cs fin).2.1) ∧ (read n plen cs fin).1.data.length ≤ plen := by
  unfold read
  by_cases hn : n ≤ 0
  · simp only [hn, ite_true]
    refine ⟨by simp, by simp, fun h => h, by simp⟩
  · simp only [hn, ite_false]
    by_cases hp : (plen : Int) > n
    · simp only [hp, ite_true]
      have := srcRead_len cs n.toNat
      refine ⟨srcRead_flat _ _, trivial, fun _ => by omega, by omega⟩
    · simp only [hp, ite_false]
      have := srcRead_len cs plen
      refine ⟨srcRead_flat _ _, trivial, fun _ => by omega, by omega⟩

/-- a clean end (`io.EOF`) is reported only when the counter has reached zero -/
theorem read_eof (n : Int) (plen : Nat) (cs : List Bytes) (fin : RErr)
    (h : (read n plen cs fin).1.err = some .eof) : (read n plen cs fin).2.1 ≤ 0 := by
  unfold read at h ⊢
  by_cases hn : n ≤ 0
  · simp only [hn, ite_true]
  · simp only [hn, ite_false] at h ⊢
    generalize (srcRead cs (if (plen : Int) > n then n.toNat else plen)) = r at h ⊢
    by_cases hp : n - (r.1.length : Int) > 0
    · exfalso
      by_cases he : r.2.2 = true
      · by_cases hf : fin = .eof
        · simp [he, hf] at h
          omega
        · simp [he, hf] at h
      · simp [he] at h
    · omega

/-- every consumer, whatever buffer sizes it uses: what it has when it stops, plus what is left in the
    source, is the stream; the counter has moved by what was delivered and never below zero; and if it
    was stopped by a clean `io.EOF` the counter is at zero -/
theorem consume_inv (fin : RErr) : ∀ (ps : List Nat) (acc : Bytes) (n : Int) (cs : List Bytes),
    let r := consume read fin ps acc n cs
    r.1 ++ r.2.2.1.flatten = acc ++ cs.flatten ∧
    r.2.1 + r.1.length = n + acc.length ∧
    (0 ≤ n → 0 ≤ r.2.1) ∧
    (r.2.2.2 = some .eof → r.2.1 ≤ 0)
  | [], acc, n, cs => by simp [consume]
  | p :: ps, acc, n, cs => by
    have hs := read_step n p cs fin
    have he := read_eof n p cs fin
    obtain ⟨h1, h2, h3, _⟩ := hs
    simp only [consume]
    cases herr : (read n p cs fin).1.err with
    | some e =>
      simp only
      refine ⟨?_, ?_, h3, ?_⟩
      · rw [List.append_assoc, h1]
      · simp only [List.length_append]; omega
      · intro h; injection h with h; subst h; exact he herr
    | none =>
      simp only
      have ih := consume_inv fin ps (acc ++ (read n p cs fin).1.data) (read n p cs fin).2.1 (read n p cs fin).2.2
      obtain ⟨i1, i2, i3, i4⟩ := ih
      refine ⟨?_, ?_, fun h => i3 (h3 h), i4⟩
      · rw [i1, List.append_assoc, h1]
      · rw [i2]; simp only [List.length_append]; omega

/-- an error other than the clean end comes from the exhausted source, with the counter still positive -/
theorem read_err (n : Int) (plen : Nat) (cs : List Bytes) (fin : RErr) (e : RErr)
    (h : (read n plen cs fin).1.err = some e) (hne : e ≠ .eof) :
    cs = [] ∧ (read n plen cs fin).1.data = [] ∧ (read n plen cs fin).2.2 = [] ∧ 0 < n ∧
    e = (if fin = .eof then .unexpectedEOF else fin) := by
  unfold read at h ⊢
  by_cases hn : n ≤ 0
  · simp only [hn, ite_true] at h
    injection h with h
    exact absurd h.symm hne
  · simp only [hn, ite_false] at h ⊢
    have hend := srcRead_end cs (if (plen : Int) > n then n.toNat else plen)
    generalize (srcRead cs (if (plen : Int) > n then n.toNat else plen)) = r at h hend ⊢
    by_cases he : r.2.2 = true
    · obtain ⟨h1, h2, h2'⟩ := hend he
      refine ⟨h1, h2, h2', by omega, ?_⟩
      by_cases hf : fin = .eof
      · have hp : ((r.1.length : Nat) : Int) < n := by rw [h2]; simp; omega
        simp [he, hf] at h
        rw [if_pos hp] at h
        injection h with h
        simp [hf, ← h]
      · simp [he, hf] at h
        subst h
        simp [hf]
    · simp [he] at h

/-- when a consumer's loop is ended by an error, what it has is what the frame-level summary says:
    the first `n` bytes and a clean end, or everything there was and the premature-end error -/
theorem consume_outcome (fin : RErr) : ∀ (ps : List Nat) (acc : Bytes) (n : Int) (cs : List Bytes) (e : RErr),
    (consume read fin ps acc n cs).2.2.2 = some e → e ≠ .eof →
    (consume read fin ps acc n cs).2.2.1 = [] ∧ 0 < (consume read fin ps acc n cs).2.1 ∧
    e = (if fin = .eof then .unexpectedEOF else fin)
  | [], acc, n, cs, e => by simp [consume]
  | p :: ps, acc, n, cs, e => by
    intro h hne
    simp only [consume] at h ⊢
    cases herr : (read n p cs fin).1.err with
    | some e' =>
      simp only [herr] at h ⊢
      injection h with h
      subst h
      obtain ⟨h1, h2, h2', h3, h4⟩ := read_err n p cs fin e' herr hne
      have hs := (read_step n p cs fin)
      refine ⟨h2', ?_, h4⟩
      rw [hs.2.1, h2]; simpa using h3
    | none =>
      simp only [herr] at h ⊢
      exact consume_outcome fin ps _ _ _ e h hne

/-- progress of the underlying read: with room for at least one byte a non-exhausted source gets smaller
    (one chunk less, or fewer bytes in its first chunk) -/
theorem srcRead_progress (cs : List Bytes) (k : Nat) (hk : 0 < k) (h : (srcRead cs k).2.2 = false) :
    (srcRead cs k).2.1.length + (srcRead cs k).2.1.flatten.length < cs.length + cs.flatten.length := by
  cases cs with
  | nil => simp [srcRead] at h
  | cons c cs =>
    simp only [srcRead, takeK_eq]
    by_cases he : (c.drop k).isEmpty
    · simp only [he, ite_true, List.length_cons, List.flatten_cons, List.length_append]; omega
    · simp only [he, List.length_cons, List.flatten_cons, List.length_append, List.length_drop]
      have : c.length > k := by
        have h1 : c.drop k ≠ [] := by simpa [List.isEmpty_iff] using he
        have h2 : (c.drop k).length ≠ 0 := fun h0 => h1 (List.eq_nil_of_length_eq_zero h0)
        simp only [List.length_drop] at h2
        omega
      simp only [Bool.false_eq_true, ite_false, List.length_cons, List.flatten_cons, List.length_append, List.length_drop]
      omega

/-- a `Read` that reports no error has made the source smaller (positive buffer) -/
theorem read_progress (n : Int) (plen : Nat) (hp : 0 < plen) (cs : List Bytes) (fin : RErr)
    (h : (read n plen cs fin).1.err = none) :
    (read n plen cs fin).2.2.length + (read n plen cs fin).2.2.flatten.length < cs.length + cs.flatten.length := by
  unfold read at h ⊢
  by_cases hn : n ≤ 0
  · simp [hn] at h
  · simp only [hn, ite_false] at h ⊢
    have hask : 0 < (if (plen : Int) > n then n.toNat else plen) := by split <;> omega
    have hpr := srcRead_progress cs (if (plen : Int) > n then n.toNat else plen) hask
    generalize (srcRead cs (if (plen : Int) > n then n.toNat else plen)) = r at h hpr ⊢
    by_cases he : r.2.2 = true
    · exfalso
      by_cases hf : fin = .eof <;> simp [he, hf] at h
      split at h <;> simp at h
    · exact hpr (by simpa using he)

/-- **termination**: a consumer that keeps calling `Read` with non-empty buffers is stopped by an error
    after at most (number of chunks + number of bytes in the source) successful calls -/
theorem consume_terminates (fin : RErr) : ∀ (ps : List Nat) (acc : Bytes) (n : Int) (cs : List Bytes),
    (∀ p ∈ ps, 0 < p) → cs.length + cs.flatten.length < ps.length →
    (consume read fin ps acc n cs).2.2.2 ≠ none
  | [], acc, n, cs => by intro _ h; simp at h
  | p :: ps, acc, n, cs => by
    intro hpos hlen
    simp only [consume]
    cases herr : (read n p cs fin).1.err with
    | some e => simp
    | none =>
      simp only
      apply consume_terminates fin ps
      · intro q hq; exact hpos q (List.mem_cons_of_mem _ hq)
      · have := read_progress n p (hpos p (List.mem_cons_self ..)) cs fin herr
        simp only [List.length_cons] at hlen
        omega

end NettyVerif.ExactR
