import NettyVerif.Proofs.Chan
/-! Invariants of the Close path of the Chan LTS (single closer, phases of Close, graceful close). -/
namespace NettyVerif.Chan
variable {α : Type}

structure CInv (s : St α) : Prop where
  open_ : s.closed = false → s.closer = none ∧ s.trClosed = false ∧ s.ctxDone = false ∧ s.closeErrSet = false ∧ s.closeCount = 0
  cnt : s.closeCount = (if s.trClosed then 1 else 0)
  waitPh : ∀ pc, s.closer = some pc → pc.waiting = true → s.trClosed = false ∧ s.closeErrSet = false ∧ s.ctxDone = false
  trPh : s.closer = some .trClose → s.closeErrSet = true ∧ s.trClosed = false ∧ s.ctxDone = false
  cancelPh : s.closer = some .cancel → s.closeErrSet = true ∧ s.trClosed = true ∧ s.ctxDone = false
  firePh : s.closer = some .fire → s.closeErrSet = true ∧ s.trClosed = true ∧ s.ctxDone = true
  donePh : s.closed = true → s.closer = none → s.closeErrSet = true ∧ s.trClosed = true ∧ s.ctxDone = true
  closerClosed : s.closer.isSome = true → s.closed = true
  loadPh : ∀ n, s.closer = some (.load n) → s.broken = false →
    s.accAtLen ≤ s.wire.length + s.batch.length ∧ (s.running = false → s.accAtLen ≤ s.flushed)
  gracePh : s.graceful = true → s.broken = false → (s.closer = some .setErr ∨ s.closer = some .trClose) → s.accAtLen ≤ s.flushed
  failedSend : s.sendFailed = true → s.broken = true
  untilGrace : s.untilW = true → s.sync = false → (s.closer = some .setErr ∨ s.closer = some .trClose) → s.graceful = true
  gracefulOnly : s.graceful = true → s.closed = true
  graceNotLoop : s.graceful = true → ∀ n, s.closer ≠ some (.len n) ∧ s.closer ≠ some (.load n) ∧ s.closer ≠ some (.sleep n)
  loopAsync : ∀ n, (s.closer = some (.len n) ∨ s.closer = some (.load n) ∨ s.closer = some (.sleep n)) → s.sync = false

theorem cinv_init (sync : Bool) (cap : Nat) (untilW : Bool) :
    CInv ({ sync := sync, cap := cap, untilW := untilW } : St α) := by
  constructor <;> simp

macro "cinv_close" : tactic =>
  `(tactic| (constructor <;> simp_all [CPc.waiting] <;> (try split) <;> (try simp_all [CPc.waiting]) <;> (try omega) <;>
      (try (intros; simp_all [CPc.waiting])) <;> (try omega)))

theorem cinv_parentCancel (s s' : St α)  (hw : WInv s) (h : CInv s) (hs : step s (.parentCancel ) = some s') : CInv s' := by
  obtain ⟨open_, cnt, waitPh, trPh, cancelPh, firePh, donePh, closerClosed, loadPh, gracePh, failedSend, untilGrace, gracefulOnly, graceNotLoop, loopAsync⟩ := h
  have hfifo := hw.fifo
  have hidleC := hw.idleClean
  have hidleF := hw.idleFlushed
  have hstore := hw.storeReady
  have hfle := hw.flushedLe
  have hnob := hw.noOwnerBatch
  have hlen1 := hw.len1Ready
  have hasync := hw.asyncNoLock
  have hsync := hw.syncNoSender
  have hfb := hw.failedBroken
  simp only [step] at hs; simp at hs; subst hs; cinv_close

theorem cinv_beginWrite (s s' : St α)  (hw : WInv s) (h : CInv s) (hs : step s (.beginWrite ) = some s') : CInv s' := by
  obtain ⟨open_, cnt, waitPh, trPh, cancelPh, firePh, donePh, closerClosed, loadPh, gracePh, failedSend, untilGrace, gracefulOnly, graceNotLoop, loopAsync⟩ := h
  have hfifo := hw.fifo
  have hidleC := hw.idleClean
  have hidleF := hw.idleFlushed
  have hstore := hw.storeReady
  have hfle := hw.flushedLe
  have hnob := hw.noOwnerBatch
  have hlen1 := hw.len1Ready
  have hasync := hw.asyncNoLock
  have hsync := hw.syncNoSender
  have hfb := hw.failedBroken
  simp only [step] at hs; split at hs <;> simp at hs; subst hs; cinv_close

theorem cinv_rejectWrite (s s' : St α)  (hw : WInv s) (h : CInv s) (hs : step s (.rejectWrite ) = some s') : CInv s' := by
  obtain ⟨open_, cnt, waitPh, trPh, cancelPh, firePh, donePh, closerClosed, loadPh, gracePh, failedSend, untilGrace, gracefulOnly, graceNotLoop, loopAsync⟩ := h
  have hfifo := hw.fifo
  have hidleC := hw.idleClean
  have hidleF := hw.idleFlushed
  have hstore := hw.storeReady
  have hfle := hw.flushedLe
  have hnob := hw.noOwnerBatch
  have hlen1 := hw.len1Ready
  have hasync := hw.asyncNoLock
  have hsync := hw.syncNoSender
  have hfb := hw.failedBroken
  simp only [step] at hs; split at hs <;> simp at hs; subst hs; cinv_close

theorem cinv_enqueue (s s' : St α) (p : α) (hw : WInv s) (h : CInv s) (hs : step s (.enqueue p) = some s') : CInv s' := by
  obtain ⟨open_, cnt, waitPh, trPh, cancelPh, firePh, donePh, closerClosed, loadPh, gracePh, failedSend, untilGrace, gracefulOnly, graceNotLoop, loopAsync⟩ := h
  have hfifo := hw.fifo
  have hidleC := hw.idleClean
  have hidleF := hw.idleFlushed
  have hstore := hw.storeReady
  have hfle := hw.flushedLe
  have hnob := hw.noOwnerBatch
  have hlen1 := hw.len1Ready
  have hasync := hw.asyncNoLock
  have hsync := hw.syncNoSender
  have hfb := hw.failedBroken
  simp only [step] at hs; split at hs <;> simp at hs; subst hs; cinv_close

theorem cinv_noSpace (s s' : St α)  (hw : WInv s) (h : CInv s) (hs : step s (.noSpace ) = some s') : CInv s' := by
  obtain ⟨open_, cnt, waitPh, trPh, cancelPh, firePh, donePh, closerClosed, loadPh, gracePh, failedSend, untilGrace, gracefulOnly, graceNotLoop, loopAsync⟩ := h
  have hfifo := hw.fifo
  have hidleC := hw.idleClean
  have hidleF := hw.idleFlushed
  have hstore := hw.storeReady
  have hfle := hw.flushedLe
  have hnob := hw.noOwnerBatch
  have hlen1 := hw.len1Ready
  have hasync := hw.asyncNoLock
  have hsync := hw.syncNoSender
  have hfb := hw.failedBroken
  simp only [step] at hs; split at hs <;> simp at hs; subst hs; cinv_close

theorem cinv_abortCtx (s s' : St α)  (hw : WInv s) (h : CInv s) (hs : step s (.abortCtx ) = some s') : CInv s' := by
  obtain ⟨open_, cnt, waitPh, trPh, cancelPh, firePh, donePh, closerClosed, loadPh, gracePh, failedSend, untilGrace, gracefulOnly, graceNotLoop, loopAsync⟩ := h
  have hfifo := hw.fifo
  have hidleC := hw.idleClean
  have hidleF := hw.idleFlushed
  have hstore := hw.storeReady
  have hfle := hw.flushedLe
  have hnob := hw.noOwnerBatch
  have hlen1 := hw.len1Ready
  have hasync := hw.asyncNoLock
  have hsync := hw.syncNoSender
  have hfb := hw.failedBroken
  simp only [step] at hs; split at hs <;> simp at hs; subst hs; cinv_close

theorem cinv_abortClosed (s s' : St α)  (hw : WInv s) (h : CInv s) (hs : step s (.abortClosed ) = some s') : CInv s' := by
  obtain ⟨open_, cnt, waitPh, trPh, cancelPh, firePh, donePh, closerClosed, loadPh, gracePh, failedSend, untilGrace, gracefulOnly, graceNotLoop, loopAsync⟩ := h
  have hfifo := hw.fifo
  have hidleC := hw.idleClean
  have hidleF := hw.idleFlushed
  have hstore := hw.storeReady
  have hfle := hw.flushedLe
  have hnob := hw.noOwnerBatch
  have hlen1 := hw.len1Ready
  have hasync := hw.asyncNoLock
  have hsync := hw.syncNoSender
  have hfb := hw.failedBroken
  simp only [step] at hs; split at hs <;> simp at hs; subst hs; cinv_close

theorem cinv_casWriter (s s' : St α)  (hw : WInv s) (h : CInv s) (hs : step s (.casWriter ) = some s') : CInv s' := by
  obtain ⟨open_, cnt, waitPh, trPh, cancelPh, firePh, donePh, closerClosed, loadPh, gracePh, failedSend, untilGrace, gracefulOnly, graceNotLoop, loopAsync⟩ := h
  have hfifo := hw.fifo
  have hidleC := hw.idleClean
  have hidleF := hw.idleFlushed
  have hstore := hw.storeReady
  have hfle := hw.flushedLe
  have hnob := hw.noOwnerBatch
  have hlen1 := hw.len1Ready
  have hasync := hw.asyncNoLock
  have hsync := hw.syncNoSender
  have hfb := hw.failedBroken
  simp only [step] at hs
  split at hs
  · simp at hs
  · split at hs <;> simp at hs <;> subst hs <;> cinv_close

theorem cinv_exec (s s' : St α)  (hw : WInv s) (h : CInv s) (hs : step s (.exec ) = some s') : CInv s' := by
  obtain ⟨open_, cnt, waitPh, trPh, cancelPh, firePh, donePh, closerClosed, loadPh, gracePh, failedSend, untilGrace, gracefulOnly, graceNotLoop, loopAsync⟩ := h
  have hfifo := hw.fifo
  have hidleC := hw.idleClean
  have hidleF := hw.idleFlushed
  have hstore := hw.storeReady
  have hfle := hw.flushedLe
  have hnob := hw.noOwnerBatch
  have hlen1 := hw.len1Ready
  have hasync := hw.asyncNoLock
  have hsync := hw.syncNoSender
  have hfb := hw.failedBroken
  simp only [step] at hs
  split at hs
  · simp at hs
  · split at hs <;> simp at hs
    subst hs; cinv_close

theorem cinv_sndRecv (s s' : St α)  (hw : WInv s) (h : CInv s) (hs : step s (.sndRecv ) = some s') : CInv s' := by
  obtain ⟨open_, cnt, waitPh, trPh, cancelPh, firePh, donePh, closerClosed, loadPh, gracePh, failedSend, untilGrace, gracefulOnly, graceNotLoop, loopAsync⟩ := h
  have hfifo := hw.fifo
  have hidleC := hw.idleClean
  have hidleF := hw.idleFlushed
  have hstore := hw.storeReady
  have hfle := hw.flushedLe
  have hnob := hw.noOwnerBatch
  have hlen1 := hw.len1Ready
  have hasync := hw.asyncNoLock
  have hsync := hw.syncNoSender
  have hfb := hw.failedBroken
  simp only [step] at hs; split at hs <;> simp at hs; subst hs; cinv_close

theorem cinv_sndDefault (s s' : St α)  (hw : WInv s) (h : CInv s) (hs : step s (.sndDefault ) = some s') : CInv s' := by
  obtain ⟨open_, cnt, waitPh, trPh, cancelPh, firePh, donePh, closerClosed, loadPh, gracePh, failedSend, untilGrace, gracefulOnly, graceNotLoop, loopAsync⟩ := h
  have hfifo := hw.fifo
  have hidleC := hw.idleClean
  have hidleF := hw.idleFlushed
  have hstore := hw.storeReady
  have hfle := hw.flushedLe
  have hnob := hw.noOwnerBatch
  have hlen1 := hw.len1Ready
  have hasync := hw.asyncNoLock
  have hsync := hw.syncNoSender
  have hfb := hw.failedBroken
  simp only [step] at hs; split at hs <;> simp at hs; subst hs; cinv_close

theorem cinv_sndWritev (s s' : St α) (ok : Bool) (hw : WInv s) (h : CInv s) (hs : step s (.sndWritev ok) = some s') : CInv s' := by
  obtain ⟨open_, cnt, waitPh, trPh, cancelPh, firePh, donePh, closerClosed, loadPh, gracePh, failedSend, untilGrace, gracefulOnly, graceNotLoop, loopAsync⟩ := h
  have hfifo := hw.fifo
  have hidleC := hw.idleClean
  have hidleF := hw.idleFlushed
  have hstore := hw.storeReady
  have hfle := hw.flushedLe
  have hnob := hw.noOwnerBatch
  have hlen1 := hw.len1Ready
  have hasync := hw.asyncNoLock
  have hsync := hw.syncNoSender
  have hfb := hw.failedBroken
  simp only [step] at hs
  split at hs
  · split at hs
    · simp at hs
    · split at hs
      · simp at hs; subst hs; cinv_close
      · split at hs <;> simp at hs
        subst hs; cinv_close
  · simp at hs

theorem cinv_sndPut (s s' : St α)  (hw : WInv s) (h : CInv s) (hs : step s (.sndPut ) = some s') : CInv s' := by
  obtain ⟨open_, cnt, waitPh, trPh, cancelPh, firePh, donePh, closerClosed, loadPh, gracePh, failedSend, untilGrace, gracefulOnly, graceNotLoop, loopAsync⟩ := h
  have hfifo := hw.fifo
  have hidleC := hw.idleClean
  have hidleF := hw.idleFlushed
  have hstore := hw.storeReady
  have hfle := hw.flushedLe
  have hnob := hw.noOwnerBatch
  have hlen1 := hw.len1Ready
  have hasync := hw.asyncNoLock
  have hsync := hw.syncNoSender
  have hfb := hw.failedBroken
  simp only [step] at hs; split at hs <;> simp at hs; subst hs; cinv_close

theorem cinv_sndLen1 (s s' : St α)  (hw : WInv s) (h : CInv s) (hs : step s (.sndLen1 ) = some s') : CInv s' := by
  obtain ⟨open_, cnt, waitPh, trPh, cancelPh, firePh, donePh, closerClosed, loadPh, gracePh, failedSend, untilGrace, gracefulOnly, graceNotLoop, loopAsync⟩ := h
  have hfifo := hw.fifo
  have hidleC := hw.idleClean
  have hidleF := hw.idleFlushed
  have hstore := hw.storeReady
  have hfle := hw.flushedLe
  have hnob := hw.noOwnerBatch
  have hlen1 := hw.len1Ready
  have hasync := hw.asyncNoLock
  have hsync := hw.syncNoSender
  have hfb := hw.failedBroken
  simp only [step] at hs; split at hs <;> simp at hs; subst hs; cinv_close

theorem cinv_sndFlush (s s' : St α) (ok : Bool) (hw : WInv s) (h : CInv s) (hs : step s (.sndFlush ok) = some s') : CInv s' := by
  obtain ⟨open_, cnt, waitPh, trPh, cancelPh, firePh, donePh, closerClosed, loadPh, gracePh, failedSend, untilGrace, gracefulOnly, graceNotLoop, loopAsync⟩ := h
  have hfifo := hw.fifo
  have hidleC := hw.idleClean
  have hidleF := hw.idleFlushed
  have hstore := hw.storeReady
  have hfle := hw.flushedLe
  have hnob := hw.noOwnerBatch
  have hlen1 := hw.len1Ready
  have hasync := hw.asyncNoLock
  have hsync := hw.syncNoSender
  have hfb := hw.failedBroken
  simp only [step] at hs
  split at hs
  · split at hs <;> simp at hs <;> subst hs <;> cinv_close
  · simp at hs

theorem cinv_sndStore (s s' : St α)  (hw : WInv s) (h : CInv s) (hs : step s (.sndStore ) = some s') : CInv s' := by
  obtain ⟨open_, cnt, waitPh, trPh, cancelPh, firePh, donePh, closerClosed, loadPh, gracePh, failedSend, untilGrace, gracefulOnly, graceNotLoop, loopAsync⟩ := h
  have hfifo := hw.fifo
  have hidleC := hw.idleClean
  have hidleF := hw.idleFlushed
  have hstore := hw.storeReady
  have hfle := hw.flushedLe
  have hnob := hw.noOwnerBatch
  have hlen1 := hw.len1Ready
  have hasync := hw.asyncNoLock
  have hsync := hw.syncNoSender
  have hfb := hw.failedBroken
  simp only [step] at hs; split at hs <;> simp at hs; subst hs; cinv_close

theorem cinv_sndFailMark (s s' : St α)  (hw : WInv s) (h : CInv s) (hs : step s (.sndFailMark ) = some s') : CInv s' := by
  obtain ⟨open_, cnt, waitPh, trPh, cancelPh, firePh, donePh, closerClosed, loadPh, gracePh, failedSend, untilGrace, gracefulOnly, graceNotLoop, loopAsync⟩ := h
  have hfifo := hw.fifo
  have hidleC := hw.idleClean
  have hidleF := hw.idleFlushed
  have hstore := hw.storeReady
  have hfle := hw.flushedLe
  have hnob := hw.noOwnerBatch
  have hlen1 := hw.len1Ready
  have hasync := hw.asyncNoLock
  have hsync := hw.syncNoSender
  have hfb := hw.failedBroken
  simp only [step] at hs; split at hs <;> simp at hs; subst hs; cinv_close

theorem cinv_sndFailStore (s s' : St α)  (hw : WInv s) (h : CInv s) (hs : step s (.sndFailStore ) = some s') : CInv s' := by
  obtain ⟨open_, cnt, waitPh, trPh, cancelPh, firePh, donePh, closerClosed, loadPh, gracePh, failedSend, untilGrace, gracefulOnly, graceNotLoop, loopAsync⟩ := h
  have hfifo := hw.fifo
  have hidleC := hw.idleClean
  have hidleF := hw.idleFlushed
  have hstore := hw.storeReady
  have hfle := hw.flushedLe
  have hnob := hw.noOwnerBatch
  have hlen1 := hw.len1Ready
  have hasync := hw.asyncNoLock
  have hsync := hw.syncNoSender
  have hfb := hw.failedBroken
  simp only [step] at hs; split at hs <;> simp at hs; subst hs; cinv_close

theorem cinv_lingLen (s s' : St α) (i : Nat) (hw : WInv s) (h : CInv s) (hs : step s (.lingLen i) = some s') : CInv s' := by
  obtain ⟨open_, cnt, waitPh, trPh, cancelPh, firePh, donePh, closerClosed, loadPh, gracePh, failedSend, untilGrace, gracefulOnly, graceNotLoop, loopAsync⟩ := h
  have hfifo := hw.fifo
  have hidleC := hw.idleClean
  have hidleF := hw.idleFlushed
  have hstore := hw.storeReady
  have hfle := hw.flushedLe
  have hnob := hw.noOwnerBatch
  have hlen1 := hw.len1Ready
  have hasync := hw.asyncNoLock
  have hsync := hw.syncNoSender
  have hfb := hw.failedBroken
  simp only [step] at hs
  split at hs
  · split at hs <;> simp at hs <;> subst hs <;> cinv_close
  · simp at hs

theorem cinv_lingCas (s s' : St α) (i : Nat) (hw : WInv s) (h : CInv s) (hs : step s (.lingCas i) = some s') : CInv s' := by
  obtain ⟨open_, cnt, waitPh, trPh, cancelPh, firePh, donePh, closerClosed, loadPh, gracePh, failedSend, untilGrace, gracefulOnly, graceNotLoop, loopAsync⟩ := h
  have hfifo := hw.fifo
  have hidleC := hw.idleClean
  have hidleF := hw.idleFlushed
  have hstore := hw.storeReady
  have hfle := hw.flushedLe
  have hnob := hw.noOwnerBatch
  have hlen1 := hw.len1Ready
  have hasync := hw.asyncNoLock
  have hsync := hw.syncNoSender
  have hfb := hw.failedBroken
  simp only [step] at hs
  split at hs
  · split at hs
    · simp at hs; subst hs; cinv_close
    · split at hs <;> simp at hs
      subst hs; cinv_close
  · simp at hs

theorem cinv_lock (s s' : St α)  (hw : WInv s) (h : CInv s) (hs : step s (.lock ) = some s') : CInv s' := by
  obtain ⟨open_, cnt, waitPh, trPh, cancelPh, firePh, donePh, closerClosed, loadPh, gracePh, failedSend, untilGrace, gracefulOnly, graceNotLoop, loopAsync⟩ := h
  have hfifo := hw.fifo
  have hidleC := hw.idleClean
  have hidleF := hw.idleFlushed
  have hstore := hw.storeReady
  have hfle := hw.flushedLe
  have hnob := hw.noOwnerBatch
  have hlen1 := hw.len1Ready
  have hasync := hw.asyncNoLock
  have hsync := hw.syncNoSender
  have hfb := hw.failedBroken
  simp only [step] at hs; split at hs <;> simp at hs; subst hs; cinv_close

theorem cinv_syncWrite (s s' : St α) (p : α) (ok : Bool) (hw : WInv s) (h : CInv s) (hs : step s (.syncWrite p ok) = some s') : CInv s' := by
  obtain ⟨open_, cnt, waitPh, trPh, cancelPh, firePh, donePh, closerClosed, loadPh, gracePh, failedSend, untilGrace, gracefulOnly, graceNotLoop, loopAsync⟩ := h
  have hfifo := hw.fifo
  have hidleC := hw.idleClean
  have hidleF := hw.idleFlushed
  have hstore := hw.storeReady
  have hfle := hw.flushedLe
  have hnob := hw.noOwnerBatch
  have hlen1 := hw.len1Ready
  have hasync := hw.asyncNoLock
  have hsync := hw.syncNoSender
  have hfb := hw.failedBroken
  simp only [step] at hs
  split at hs
  · split at hs
    · simp at hs; subst hs; cinv_close
    · split at hs <;> simp at hs
      subst hs; cinv_close
  · simp at hs

theorem cinv_syncFlush (s s' : St α)  (hw : WInv s) (h : CInv s) (hs : step s (.syncFlush ) = some s') : CInv s' := by
  obtain ⟨open_, cnt, waitPh, trPh, cancelPh, firePh, donePh, closerClosed, loadPh, gracePh, failedSend, untilGrace, gracefulOnly, graceNotLoop, loopAsync⟩ := h
  have hfifo := hw.fifo
  have hidleC := hw.idleClean
  have hidleF := hw.idleFlushed
  have hstore := hw.storeReady
  have hfle := hw.flushedLe
  have hnob := hw.noOwnerBatch
  have hlen1 := hw.len1Ready
  have hasync := hw.asyncNoLock
  have hsync := hw.syncNoSender
  have hfb := hw.failedBroken
  simp only [step] at hs; split at hs <;> simp at hs; subst hs; cinv_close

theorem cinv_closeCas (s s' : St α)  (hw : WInv s) (h : CInv s) (hs : step s (.closeCas ) = some s') : CInv s' := by
  obtain ⟨open_, cnt, waitPh, trPh, cancelPh, firePh, donePh, closerClosed, loadPh, gracePh, failedSend, untilGrace, gracefulOnly, graceNotLoop, loopAsync⟩ := h
  have hfifo := hw.fifo
  have hidleC := hw.idleClean
  have hidleF := hw.idleFlushed
  have hstore := hw.storeReady
  have hfle := hw.flushedLe
  have hnob := hw.noOwnerBatch
  have hlen1 := hw.len1Ready
  have hasync := hw.asyncNoLock
  have hsync := hw.syncNoSender
  have hfb := hw.failedBroken
  simp only [step] at hs
  split at hs
  · simp at hs; subst hs
    exact ⟨open_, cnt, waitPh, trPh, cancelPh, firePh, donePh, closerClosed, loadPh, gracePh, failedSend, untilGrace, gracefulOnly, graceNotLoop, loopAsync⟩
  · split at hs <;> simp at hs
    subst hs; cinv_close

theorem cinv_closeLen (s s' : St α)  (hw : WInv s) (h : CInv s) (hs : step s (.closeLen ) = some s') : CInv s' := by
  obtain ⟨open_, cnt, waitPh, trPh, cancelPh, firePh, donePh, closerClosed, loadPh, gracePh, failedSend, untilGrace, gracefulOnly, graceNotLoop, loopAsync⟩ := h
  have hfifo := hw.fifo
  have hidleC := hw.idleClean
  have hidleF := hw.idleFlushed
  have hstore := hw.storeReady
  have hfle := hw.flushedLe
  have hnob := hw.noOwnerBatch
  have hlen1 := hw.len1Ready
  have hasync := hw.asyncNoLock
  have hsync := hw.syncNoSender
  have hfb := hw.failedBroken
  simp only [step] at hs
  split at hs
  · split at hs <;> simp at hs <;> subst hs <;> cinv_close
  · simp at hs

theorem cinv_closeLoad (s s' : St α)  (hw : WInv s) (h : CInv s) (hs : step s (.closeLoad ) = some s') : CInv s' := by
  obtain ⟨open_, cnt, waitPh, trPh, cancelPh, firePh, donePh, closerClosed, loadPh, gracePh, failedSend, untilGrace, gracefulOnly, graceNotLoop, loopAsync⟩ := h
  have hfifo := hw.fifo
  have hidleC := hw.idleClean
  have hidleF := hw.idleFlushed
  have hstore := hw.storeReady
  have hfle := hw.flushedLe
  have hnob := hw.noOwnerBatch
  have hlen1 := hw.len1Ready
  have hasync := hw.asyncNoLock
  have hsync := hw.syncNoSender
  have hfb := hw.failedBroken
  simp only [step] at hs
  split at hs
  · split at hs <;> simp at hs <;> subst hs <;> cinv_close
  · simp at hs

theorem cinv_closeSleep (s s' : St α)  (hw : WInv s) (h : CInv s) (hs : step s (.closeSleep ) = some s') : CInv s' := by
  obtain ⟨open_, cnt, waitPh, trPh, cancelPh, firePh, donePh, closerClosed, loadPh, gracePh, failedSend, untilGrace, gracefulOnly, graceNotLoop, loopAsync⟩ := h
  have hfifo := hw.fifo
  have hidleC := hw.idleClean
  have hidleF := hw.idleFlushed
  have hstore := hw.storeReady
  have hfle := hw.flushedLe
  have hnob := hw.noOwnerBatch
  have hlen1 := hw.len1Ready
  have hasync := hw.asyncNoLock
  have hsync := hw.syncNoSender
  have hfb := hw.failedBroken
  simp only [step] at hs; split at hs <;> simp at hs; subst hs; cinv_close

theorem cinv_closeSetErr (s s' : St α)  (hw : WInv s) (h : CInv s) (hs : step s (.closeSetErr ) = some s') : CInv s' := by
  obtain ⟨open_, cnt, waitPh, trPh, cancelPh, firePh, donePh, closerClosed, loadPh, gracePh, failedSend, untilGrace, gracefulOnly, graceNotLoop, loopAsync⟩ := h
  have hfifo := hw.fifo
  have hidleC := hw.idleClean
  have hidleF := hw.idleFlushed
  have hstore := hw.storeReady
  have hfle := hw.flushedLe
  have hnob := hw.noOwnerBatch
  have hlen1 := hw.len1Ready
  have hasync := hw.asyncNoLock
  have hsync := hw.syncNoSender
  have hfb := hw.failedBroken
  simp only [step] at hs; split at hs <;> simp at hs; subst hs; cinv_close

theorem cinv_closeTr (s s' : St α)  (hw : WInv s) (h : CInv s) (hs : step s (.closeTr ) = some s') : CInv s' := by
  obtain ⟨open_, cnt, waitPh, trPh, cancelPh, firePh, donePh, closerClosed, loadPh, gracePh, failedSend, untilGrace, gracefulOnly, graceNotLoop, loopAsync⟩ := h
  have hfifo := hw.fifo
  have hidleC := hw.idleClean
  have hidleF := hw.idleFlushed
  have hstore := hw.storeReady
  have hfle := hw.flushedLe
  have hnob := hw.noOwnerBatch
  have hlen1 := hw.len1Ready
  have hasync := hw.asyncNoLock
  have hsync := hw.syncNoSender
  have hfb := hw.failedBroken
  simp only [step] at hs; split at hs <;> simp at hs; subst hs; cinv_close

theorem cinv_closeCancel (s s' : St α)  (hw : WInv s) (h : CInv s) (hs : step s (.closeCancel ) = some s') : CInv s' := by
  obtain ⟨open_, cnt, waitPh, trPh, cancelPh, firePh, donePh, closerClosed, loadPh, gracePh, failedSend, untilGrace, gracefulOnly, graceNotLoop, loopAsync⟩ := h
  have hfifo := hw.fifo
  have hidleC := hw.idleClean
  have hidleF := hw.idleFlushed
  have hstore := hw.storeReady
  have hfle := hw.flushedLe
  have hnob := hw.noOwnerBatch
  have hlen1 := hw.len1Ready
  have hasync := hw.asyncNoLock
  have hsync := hw.syncNoSender
  have hfb := hw.failedBroken
  simp only [step] at hs; split at hs <;> simp at hs; subst hs; cinv_close

theorem cinv_closeFire (s s' : St α)  (hw : WInv s) (h : CInv s) (hs : step s (.closeFire ) = some s') : CInv s' := by
  obtain ⟨open_, cnt, waitPh, trPh, cancelPh, firePh, donePh, closerClosed, loadPh, gracePh, failedSend, untilGrace, gracefulOnly, graceNotLoop, loopAsync⟩ := h
  have hfifo := hw.fifo
  have hidleC := hw.idleClean
  have hidleF := hw.idleFlushed
  have hstore := hw.storeReady
  have hfle := hw.flushedLe
  have hnob := hw.noOwnerBatch
  have hlen1 := hw.len1Ready
  have hasync := hw.asyncNoLock
  have hsync := hw.syncNoSender
  have hfb := hw.failedBroken
  simp only [step] at hs; split at hs <;> simp at hs; subst hs; cinv_close

theorem cinv_step (s s' : St α) (a : Act α) (hw : WInv s) (h : CInv s) (hs : step s a = some s') : CInv s' := by
  cases a with
  | parentCancel  => exact cinv_parentCancel s s'  hw h hs
  | beginWrite  => exact cinv_beginWrite s s'  hw h hs
  | rejectWrite  => exact cinv_rejectWrite s s'  hw h hs
  | enqueue p => exact cinv_enqueue s s' p hw h hs
  | noSpace  => exact cinv_noSpace s s'  hw h hs
  | abortCtx  => exact cinv_abortCtx s s'  hw h hs
  | abortClosed  => exact cinv_abortClosed s s'  hw h hs
  | casWriter  => exact cinv_casWriter s s'  hw h hs
  | exec  => exact cinv_exec s s'  hw h hs
  | sndRecv  => exact cinv_sndRecv s s'  hw h hs
  | sndDefault  => exact cinv_sndDefault s s'  hw h hs
  | sndWritev ok => exact cinv_sndWritev s s' ok hw h hs
  | sndPut  => exact cinv_sndPut s s'  hw h hs
  | sndLen1  => exact cinv_sndLen1 s s'  hw h hs
  | sndFlush ok => exact cinv_sndFlush s s' ok hw h hs
  | sndStore  => exact cinv_sndStore s s'  hw h hs
  | sndFailMark  => exact cinv_sndFailMark s s'  hw h hs
  | sndFailStore  => exact cinv_sndFailStore s s'  hw h hs
  | lingLen i => exact cinv_lingLen s s' i hw h hs
  | lingCas i => exact cinv_lingCas s s' i hw h hs
  | lock  => exact cinv_lock s s'  hw h hs
  | syncWrite p ok => exact cinv_syncWrite s s' p ok hw h hs
  | syncFlush  => exact cinv_syncFlush s s'  hw h hs
  | closeCas  => exact cinv_closeCas s s'  hw h hs
  | closeLen  => exact cinv_closeLen s s'  hw h hs
  | closeLoad  => exact cinv_closeLoad s s'  hw h hs
  | closeSleep  => exact cinv_closeSleep s s'  hw h hs
  | closeSetErr  => exact cinv_closeSetErr s s'  hw h hs
  | closeTr  => exact cinv_closeTr s s'  hw h hs
  | closeCancel  => exact cinv_closeCancel s s'  hw h hs
  | closeFire  => exact cinv_closeFire s s'  hw h hs

/-- both invariants hold in every reachable state -/
theorem invs_run : ∀ (acts : List (Act α)) (s s' : St α), WInv s → CInv s → run s acts = some s' → WInv s' ∧ CInv s'
  | [], s, s', hw, hc, hr => by simp [run] at hr; subst hr; exact ⟨hw, hc⟩
  | a :: as, s, s', hw, hc, hr => by
    simp only [run] at hr
    cases hs : step s a with
    | none => simp [hs] at hr
    | some s1 => simp [hs] at hr; exact invs_run as s1 s' (inv_step s s1 a hw hs) (cinv_step s s1 a hw hc hs) hr

end NettyVerif.Chan
