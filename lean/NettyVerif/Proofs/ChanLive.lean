import NettyVerif.Proofs.Chan
/-! Liveness of the write path: the framework's own steps terminate (lexicographic measure), and
    when they are exhausted with all write calls returned, nothing is left to run. -/
namespace NettyVerif.Chan
variable {α : Type}

/-- the framework's own steps: the executor starting the sender, the owner's steps, the released
    sender's re-check — everything that happens without a client doing anything -/
def Act.framework : Act α → Bool
  | .exec | .sndRecv | .sndDefault | .sndWritev _ | .sndPut | .sndLen1 | .sndFlush _ | .sndStore
  | .sndFailMark | .sndFailStore | .lingLen _ | .lingCas _ => true
  | _ => false

/-- how many steps a control token can still take while the queue keeps its size -/
def rSnd (qEmpty : Bool) (batch : Nat) : SPc → Nat
  | .poll => if qEmpty then batch + 6 else 0
  | .writev => if qEmpty then batch + 5 else batch + 3
  | .put k => if qEmpty then k + 4 else k + 1
  | .len1 => if qEmpty then 4 else 1
  | .flush => if qEmpty then 3 else 4
  | .store => if qEmpty then 2 else 3
  | .failed => 2
  | .failedStore => 1

def rLing (qEmpty : Bool) : LPc → Nat
  | .len2 => if qEmpty then 1 else 2
  | .cas => if qEmpty then 7 else 1

def rExec (qEmpty : Bool) : Nat := if qEmpty then 7 else 1

def pot (s : St α) : Nat :=
  (match s.snd with | some x => rSnd s.q.isEmpty s.batch.length x | none => 0) +
  s.execPending * rExec s.q.isEmpty + ((s.lingering.map (rLing s.q.isEmpty)).sum)

theorem sum_eraseIdx (f : LPc → Nat) : ∀ (l : List LPc) (i : Nat) (x : LPc), l[i]? = some x →
    ((l.eraseIdx i).map f).sum + f x = (l.map f).sum
  | [], i, x, h => by simp at h
  | y :: l, 0, x, h => by simp at h; subst h; simp; omega
  | y :: l, i+1, x, h => by
    simp at h
    have := sum_eraseIdx f l i x h
    simp only [List.eraseIdx, List.map_cons, List.sum_cons]; omega

theorem sum_set (f : LPc → Nat) : ∀ (l : List LPc) (i : Nat) (x y : LPc), l[i]? = some x →
    ((l.set i y).map f).sum + f x = (l.map f).sum + f y
  | [], i, x, y, h => by simp at h
  | z :: l, 0, x, y, h => by simp at h; subst h; simp; omega
  | z :: l, i+1, x, y, h => by
    simp at h
    have := sum_set f l i x y h
    simp only [List.set, List.map_cons, List.sum_cons]; omega


theorem fw_decreases (s s' : St α) (a : Act α) (ha : a.framework = true) (hs : step s a = some s') :
    s'.q.length < s.q.length ∨ (s'.q = s.q ∧ pot s' < pot s) := by
  cases a <;> simp only [Act.framework] at ha <;> (try cases ha)
  case exec =>
    simp only [step] at hs
    split at hs
    · cases hs
    · split at hs
      · cases hs
      · rename_i hne hsnd
        injection hs with hs; subst hs
        right; refine ⟨rfl, ?_⟩
        obtain ⟨k, hk⟩ : ∃ k, s.execPending = k + 1 := ⟨s.execPending - 1, by omega⟩
        simp only [pot, hsnd, hk, Nat.add_sub_cancel, List.length_nil]
        cases s.q.isEmpty <;> simp [rSnd, rExec] <;> omega
  case sndRecv =>
    simp only [step] at hs
    split at hs
    · rename_i p rest hsnd hq
      injection hs with hs; subst hs
      left; simp [hq]
    · cases hs
  case sndDefault =>
    simp only [step] at hs
    split at hs
    · rename_i hsnd hq
      injection hs with hs; subst hs
      right; refine ⟨rfl, ?_⟩
      simp only [pot, hsnd, hq, List.isEmpty_nil]
      split <;> simp [rSnd] <;> omega
    · cases hs
  case sndWritev ok =>
    simp only [step] at hs
    split at hs
    · rename_i hsnd
      split at hs
      · cases hs
      · split at hs
        · injection hs with hs; subst hs
          right; refine ⟨rfl, ?_⟩
          simp only [pot, hsnd, List.length_nil]
          cases s.q.isEmpty <;> simp [rSnd] <;> omega
        · split at hs
          · injection hs with hs; subst hs
            right; refine ⟨rfl, ?_⟩
            simp only [pot, hsnd]
            cases s.q.isEmpty <;> simp [rSnd] <;> omega
          · cases hs
    · cases hs
  case sndPut =>
    simp only [step] at hs
    split at hs
    · rename_i k hsnd
      injection hs with hs; subst hs
      right; refine ⟨rfl, ?_⟩
      simp only [pot, hsnd]
      split <;> cases s.q.isEmpty <;> simp_all [rSnd] <;> omega
    · cases hs
  case sndLen1 =>
    simp only [step] at hs
    split at hs
    · rename_i hsnd
      injection hs with hs; subst hs
      right; refine ⟨rfl, ?_⟩
      simp only [pot, hsnd, List.length_nil]
      cases hq : s.q with
      | nil => simp [rSnd]
      | cons x r => simp [rSnd]
    · cases hs
  case sndFlush ok =>
    simp only [step] at hs
    split at hs
    · rename_i hsnd
      split at hs <;> (injection hs with hs; subst hs; right; refine ⟨rfl, ?_⟩; simp only [pot, hsnd]; cases s.q.isEmpty <;> simp [rSnd])
    · cases hs
  case sndStore =>
    simp only [step] at hs
    split at hs
    · rename_i hsnd
      injection hs with hs; subst hs
      right; refine ⟨rfl, ?_⟩
      simp only [pot, hsnd, List.map_append, List.sum_append, List.map_cons, List.map_nil, List.sum_cons, List.sum_nil]
      cases s.q.isEmpty <;> simp [rSnd, rLing] <;> omega
    · cases hs
  case sndFailMark =>
    simp only [step] at hs
    split at hs
    · rename_i hsnd
      injection hs with hs; subst hs
      right; refine ⟨rfl, ?_⟩
      simp [pot, hsnd, rSnd]
    · cases hs
  case sndFailStore =>
    simp only [step] at hs
    split at hs
    · rename_i hsnd
      injection hs with hs; subst hs
      right; refine ⟨rfl, ?_⟩
      simp [pot, hsnd, rSnd]
    · cases hs
  case lingLen i =>
    simp only [step] at hs
    split at hs
    · rename_i hl
      split at hs
      · rename_i hq
        injection hs with hs; subst hs
        right; refine ⟨rfl, ?_⟩
        have hne : s.q.isEmpty = false := by cases hqq : s.q <;> simp_all
        have := sum_set (rLing s.q.isEmpty) s.lingering i .len2 .cas hl
        simp only [pot, hne] at this ⊢
        have h2 : rLing false .len2 = 2 := rfl
        have h1 : rLing false .cas = 1 := rfl
        rw [h2, h1] at this
        omega
      · injection hs with hs; subst hs
        right; refine ⟨rfl, ?_⟩
        have := sum_eraseIdx (rLing s.q.isEmpty) s.lingering i .len2 hl
        simp only [pot]
        cases hqe : s.q.isEmpty <;> simp [rLing, hqe] at this ⊢ <;> omega
    · cases hs
  case lingCas i =>
    simp only [step] at hs
    split at hs
    · rename_i hl
      have hsum := sum_eraseIdx (rLing s.q.isEmpty) s.lingering i .cas hl
      split at hs
      · injection hs with hs; subst hs
        right; refine ⟨rfl, ?_⟩
        simp only [pot]
        cases hqe : s.q.isEmpty <;> simp [rLing, hqe] at hsum ⊢ <;> omega
      · split at hs
        · cases hs
        · rename_i hsnd
          injection hs with hs; subst hs
          right; refine ⟨rfl, ?_⟩
          simp only [pot, hsnd, List.length_nil]
          cases hqe : s.q.isEmpty <;> simp [rLing, rSnd, hqe] at hsum ⊢ <;> omega
    · cases hs


/-- one framework step (any of them, transport calls succeeding or failing) -/
def FwStep (s' s : St α) : Prop := ∃ a : Act α, a.framework = true ∧ step s a = some s'

/-- **termination**: the framework's own steps cannot go on for ever. Lexicographic measure: the
    length of the queue, then the number of steps the control tokens (owner, pending executor action,
    released senders) can take while the queue keeps its size. -/
theorem fw_wellFounded : WellFounded (FwStep (α := α)) := by
  let m : St α → Nat × Nat := fun s => (s.q.length, pot s)
  have wf := (invImage m (Prod.lex Nat.lt_wfRel Nat.lt_wfRel)).wf
  refine Subrelation.wf ?_ wf
  intro s' s ⟨a, ha, hs⟩
  rcases fw_decreases s s' a ha hs with h | ⟨hq, hp⟩
  · exact Prod.Lex.left _ _ h
  · show Prod.Lex _ _ (s'.q.length, pot s') (s.q.length, pot s)
    rw [hq]
    exact Prod.Lex.right _ hp


theorem run_append : ∀ (a b : List (Act α)) (s : St α), run s (a ++ b) = (run s a).bind (run · b)
  | [], b, s => by simp [run]
  | x :: a, b, s => by
    simp only [List.cons_append, run]
    cases step s x with
    | none => simp
    | some s1 => simp [run_append a b s1]

/-- framework steps in which the transport does not fail -/
def Act.frameworkOk : Act α → Bool
  | .sndWritev false | .sndFlush false => false
  | a => a.framework

/-- the clients are done and nobody is closing: every write call has returned -/
def St.clientsDone (s : St α) : Prop :=
  s.pendingCas = 0 ∧ s.inflight = 0 ∧ s.closer = none ∧ s.lockHeld = false ∧ s.broken = false

theorem fwOk_preserves (s s' : St α) (a : Act α) (ha : a.frameworkOk = true) (hs : step s a = some s') (hd : s.clientsDone) :
    s'.clientsDone := by
  obtain ⟨h1, h2, h3, h4, h5⟩ := hd
  have fin : ∀ t : St α, t.pendingCas = s.pendingCas → t.inflight = s.inflight → t.closer = s.closer → t.lockHeld = s.lockHeld →
      t.broken = s.broken → t.clientsDone := fun t a b c d e => ⟨a ▸ h1, b ▸ h2, c ▸ h3, d ▸ h4, e ▸ h5⟩
  cases a with
  | sndWritev ok =>
    cases ok
    · simp [Act.frameworkOk] at ha
    · simp only [step] at hs
      (repeat' split at hs) <;> (try cases hs) <;> (try simp_all)
      all_goals (first | exact fin _ rfl rfl rfl rfl rfl | (injection hs with hs; subst hs; exact fin _ rfl rfl rfl rfl rfl))
  | sndFlush ok =>
    cases ok
    · simp [Act.frameworkOk] at ha
    · simp only [step] at hs
      (repeat' split at hs) <;> (try cases hs) <;> (try simp_all)
      all_goals (first | exact fin _ rfl rfl rfl rfl rfl | (injection hs with hs; subst hs; exact fin _ rfl rfl rfl rfl rfl))
  | exec | sndRecv | sndDefault | sndPut | sndLen1 | sndStore | sndFailMark | sndFailStore | lingLen _ | lingCas _ =>
    simp only [step] at hs
    (repeat' split at hs) <;> (try cases hs)
    all_goals (first | exact fin _ rfl rfl rfl rfl rfl | (injection hs with hs; subst hs; exact fin _ rfl rfl rfl rfl rfl))
  | _ => simp [Act.frameworkOk, Act.framework] at ha


theorem fwOk_run_preserves : ∀ (acts : List (Act α)) (s s' : St α), (∀ a ∈ acts, a.frameworkOk = true) → run s acts = some s' →
    s.clientsDone → s'.clientsDone
  | [], s, s', _, hr, hd => by simp [run] at hr; subst hr; exact hd
  | a :: as, s, s', hfw, hr, hd => by
    simp only [run] at hr
    cases hs : step s a with
    | none => simp [hs] at hr
    | some s1 =>
      simp [hs] at hr
      exact fwOk_run_preserves as s1 s' (fun x hx => hfw x (by simp [hx])) hr (fwOk_preserves s s1 a (hfw a (by simp)) hs hd)

/-- when the clients are done, the channel is healthy and no framework step is enabled, nothing is left to run -/
theorem stuck_is_quiescent (s : St α) (hinv : WInv s) (hd : s.clientsDone)
    (hmax : ∀ a : Act α, a.frameworkOk = true → step s a = none) : s.quiescent = true := by
  obtain ⟨h1, h2, h3, h4, h5⟩ := hd
  have htc : s.trClosed = false := by
    cases h : s.trClosed with
    | false => rfl
    | true => have := hinv.brokenMono h; simp [h5] at this
  -- no owner
  have hsnd : s.snd = none := by
    cases hs : s.snd with
    | none => rfl
    | some pc =>
      exfalso
      cases pc with
      | poll =>
        cases hq : s.q with
        | nil => have := hmax .sndDefault rfl; simp [step, hs, hq] at this
        | cons p rest => have := hmax .sndRecv rfl; simp [step, hs, hq] at this
      | writev =>
        have hb := hinv.writevBatch hs
        have := hmax (.sndWritev true) rfl; simp [step, hs, hb, htc] at this
      | put k =>
        have := hinv.putPos k hs
        obtain ⟨k', rfl⟩ : ∃ k', k = k' + 1 := ⟨k - 1, by omega⟩
        have := hmax .sndPut rfl; simp [step, hs] at this
      | len1 => have := hmax .sndLen1 rfl; simp [step, hs] at this
      | flush => have := hmax (.sndFlush true) rfl; simp [step, hs] at this
      | store => have := hmax .sndStore rfl; simp [step, hs] at this
      | failed => have := hmax .sndFailMark rfl; simp [step, hs] at this
      | failedStore => have := hmax .sndFailStore rfl; simp [step, hs] at this
  have hexec : s.execPending = 0 := by
    cases he : s.execPending with
    | zero => rfl
    | succ n =>
      have := hmax .exec rfl
      simp [step, hsnd, he] at this
  have hling : s.lingering = [] := by
    cases hl : s.lingering with
    | nil => rfl
    | cons l ls =>
      exfalso
      cases l with
      | len2 =>
        have := hmax (.lingLen 0) rfl
        simp only [step, hl] at this
        simp at this
        split at this <;> simp at this
      | cas =>
        have := hmax (.lingCas 0) rfl
        simp only [step, hl] at this
        simp at this
        cases hrun : s.running with
        | true => simp [hrun] at this
        | false => simp [hrun, hsnd] at this
  simp [St.quiescent, h1, h2, h3, h4, hsnd, hexec, hling]

end NettyVerif.Chan
