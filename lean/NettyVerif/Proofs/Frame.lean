import NettyVerif.Model.Frame
/-! Reader algebra: every reading primitive of the codec model depends only on the flattened
    stream (fragmentation independence), plus arithmetic of the wire integers. -/
namespace NettyVerif.Frame

theorem takeK_eq : ∀ (c : Bytes) (k : Nat), takeK c k = (c.take k, c.drop k, k - c.length)
  | [], k => by simp [takeK]
  | b :: c, 0 => by simp [takeK]
  | b :: c, k+1 => by
    simp only [takeK, takeK_eq c k, List.take_succ_cons, List.drop_succ_cons, List.length_cons]
    congr 2; omega

/-- `readN` returns the first `k` bytes of the flattened stream … -/
theorem readN_fst : ∀ (cs : List Bytes) (k : Nat), (readN cs k).1 = cs.flatten.take k
  | cs, 0 => by simp [readN]
  | [], k+1 => by simp [readN]
  | c :: cs, k+1 => by
    simp only [readN, takeK_eq]
    by_cases h : (c.drop (k+1)).isEmpty
    · simp only [h, ite_true]
      rw [readN_fst cs (k + 1 - c.length)]
      have hl : c.length ≤ k + 1 := by
        have := List.isEmpty_iff.1 h
        exact List.drop_eq_nil_iff.1 this
      simp only [List.flatten_cons, List.take_append, List.take_of_length_le hl]
    · simp only [h, Bool.false_eq_true, ite_false]
      have hl : k + 1 < c.length := by
        rcases Nat.lt_or_ge (k+1) c.length with h' | h'
        · exact h'
        · exact absurd (List.isEmpty_iff.2 (List.drop_eq_nil_iff.2 h')) h
      simp only [List.flatten_cons, List.take_append]
      have : k + 1 - c.length = 0 := by omega
      simp [this]

/-- … and leaves a source whose flattened stream is the rest -/
theorem readN_snd : ∀ (cs : List Bytes) (k : Nat), (readN cs k).2.flatten = cs.flatten.drop k
  | cs, 0 => by simp [readN]
  | [], k+1 => by simp [readN]
  | c :: cs, k+1 => by
    simp only [readN, takeK_eq]
    by_cases h : (c.drop (k+1)).isEmpty
    · simp only [h, ite_true]
      rw [readN_snd cs (k + 1 - c.length)]
      have hl : c.length ≤ k + 1 := List.drop_eq_nil_iff.1 (List.isEmpty_iff.1 h)
      simp only [List.flatten_cons, List.drop_append]
      rw [List.drop_eq_nil_iff.2 hl]; simp
    · simp only [h, Bool.false_eq_true, ite_false]
      have hl : k + 1 < c.length := by
        rcases Nat.lt_or_ge (k+1) c.length with h' | h'
        · exact h'
        · exact absurd (List.isEmpty_iff.2 (List.drop_eq_nil_iff.2 h')) h
      simp only [List.flatten_cons, List.drop_append]
      have : k + 1 - c.length = 0 := by omega
      simp [this]

/-- **fragmentation independence of the primitive**: two chunkings of the same bytes give the same
    data and leave the same remaining stream -/
theorem readN_frag (cs cs' : List Bytes) (k : Nat) (h : cs.flatten = cs'.flatten) :
    (readN cs k).1 = (readN cs' k).1 ∧ (readN cs k).2.flatten = (readN cs' k).2.flatten := by
  simp [readN_fst, readN_snd, h]

theorem readN_len (cs : List Bytes) (k : Nat) : (readN cs k).1.length = min k cs.flatten.length := by
  rw [readN_fst, List.length_take]

/-- reading `k` bytes when the stream starts with (at least) `k` bytes -/
theorem readN_append (cs : List Bytes) (a tail : Bytes) (h : cs.flatten = a ++ tail) :
    (readN cs a.length).1 = a ∧ (readN cs a.length).2.flatten = tail := by
  rw [readN_fst, readN_snd, h]; simp

theorem readFull_ok (cs : List Bytes) (fin : RErr) (a tail : Bytes) (h : cs.flatten = a ++ tail) :
    ∃ rest, readFull cs fin a.length = (.ok a, rest) ∧ rest.flatten = tail := by
  obtain ⟨h1, h2⟩ := readN_append cs a tail h
  refine ⟨(readN cs a.length).2, ?_, h2⟩
  simp [readFull, h1]

theorem readFull_short (cs : List Bytes) (fin : RErr) (k : Nat) (h : cs.flatten.length < k) :
    ∃ e, readFull cs fin k = (.error e, (readN cs k).2) := by
  have := readN_len cs k
  have hne : (readN cs k).1.length ≠ k := by omega
  exact ⟨shortErr fin (readN cs k).1.length, by simp [readFull, hne]⟩

theorem drainExact_ok (f : FrameR) (cs : List Bytes) (fin : RErr) (a tail : Bytes)
    (h : cs.flatten = a ++ tail) (hl : f.lim = a.length) :
    ∃ rest, drainExact f cs fin = (.msg (f.pre ++ a), rest) ∧ rest.flatten = tail := by
  obtain ⟨h1, h2⟩ := readN_append cs a tail h
  refine ⟨(readN cs a.length).2, ?_, h2⟩
  simp [drainExact, hl, h1]

theorem drainExact_short (f : FrameR) (cs : List Bytes) (fin : RErr) (h : cs.flatten.length < f.lim) :
    ∃ e, drainExact f cs fin = (.raise e, (readN cs f.lim).2) := by
  have := readN_len cs f.lim
  have hne : (readN cs f.lim).1.length ≠ f.lim := by omega
  exact ⟨(if fin = .eof then .unexpectedEOF else fin), by simp [drainExact, hne]⟩

/-- what a successful exact drain means: the message is the in-memory prefix plus exactly `lim`
    bytes of the stream -/
theorem drainExact_msg (f : FrameR) (cs : List Bytes) (fin : RErr) (m : Bytes) (rest : List Bytes)
    (h : drainExact f cs fin = (.msg m, rest)) :
    m = f.pre ++ cs.flatten.take f.lim ∧ f.lim ≤ cs.flatten.length ∧ rest.flatten = cs.flatten.drop f.lim := by
  simp only [drainExact] at h
  split at h
  · rename_i hl
    injection h with h1 h2
    injection h1 with h1
    have := readN_len cs f.lim
    refine ⟨by rw [← h1, readN_fst], by omega, by rw [← h2, readN_snd]⟩
  · injection h with h1 _; cases h1


theorem packBE_length : ∀ (n v : Nat), (packBE n v).length = n
  | 0, _ => rfl
  | n+1, v => by simp [packBE, packBE_length n v]

theorem unpackBE_packBE : ∀ (n v : Nat), unpackBE (packBE n v) = v % 256 ^ n
  | 0, v => by simp [packBE, unpackBE, Nat.mod_one]
  | n+1, v => by
    simp only [packBE, unpackBE, packBE_length, unpackBE_packBE n v, UInt8.toNat_ofNat']
    have e : (2:Nat)^8 = 256 := by decide
    rw [e, Nat.pow_succ, @Nat.mod_mul (256^n) 256 v, Nat.mul_comm, Nat.add_comm]

theorem unpack_pack (big : Bool) (n v : Nat) (h : v < 256 ^ n) : unpack big (pack big n v) = v := by
  unfold unpack pack
  cases big <;> simp [unpackBE_packBE, Nat.mod_eq_of_lt h]

theorem pack_length (big : Bool) (n v : Nat) : (pack big n v).length = n := by
  unfold pack; cases big <;> simp [packBE_length]

theorem wrap64_small (x : Int) (h0 : 0 ≤ x) (h1 : x < 2^63) : wrap64 x = x := by
  unfold wrap64
  have : x % (2^64 : Int) = x := Int.emod_eq_of_lt h0 (by omega)
  simp only [this]
  split <;> omega


theorem wrap64_id (x : Int) (h0 : -(2^63) ≤ x) (h1 : x < 2^63) : wrap64 x = x := by
  unfold wrap64
  simp only
  split <;> omega

theorem fieldMax_lt (n : Int) (h : n = 1 ∨ n = 2 ∨ n = 4 ∨ n = 8) (v : Int) (h0 : 0 ≤ v) (hv : v ≤ fieldMax n) :
    v.toNat < 256 ^ n.toNat ∧ v < 2^63 := by
  rcases h with rfl | rfl | rfl | rfl <;> simp [fieldMax] at hv ⊢ <;> omega

theorem valid_fl {c : LFCfg} (h : c.valid = true) :
    (c.fieldLen = 1 ∨ c.fieldLen = 2 ∨ c.fieldLen = 4 ∨ c.fieldLen = 8) ∧ 0 < c.max ∧ 0 ≤ c.offset ∧ 0 ≤ c.strip := by
  simp [LFCfg.valid] at h
  omega


/-- **length-field round trip** (one frame): the prepender's output, followed by anything, under any
    chunking, decodes to exactly the frame minus the stripped bytes and leaves exactly the rest -/
theorem lf_roundtrip (c : LFCfg) (pc : PrepCfg) (body enc tail : Bytes) (cs : List Bytes) (fin : RErr)
    (hv : c.valid = true) (hoff : c.offset = 0) (hbig : pc.big = c.big) (hfl : pc.fieldLen = c.fieldLen)
    (_hadj : -(2^62) < c.adj ∧ c.adj < 2^62) (hmax62 : c.max < 2^62)
    (hpair : c.adj + pc.adj + (if pc.incl then c.fieldLen else 0) = 0)
    (henc : encodePrep pc body = some enc)
    (hmax : c.fieldLen + body.length ≤ c.max) (hstrip : c.strip ≤ c.fieldLen + body.length)
    (hflat : cs.flatten = enc ++ tail) :
    ∃ rest, stepRead true (.lf c) cs fin = .msg (enc.drop c.strip.toNat) rest ∧ rest.flatten = tail := by
  obtain ⟨hfls, hmaxpos, _, hstrip0⟩ := valid_fl hv
  -- the encoder's output
  obtain ⟨L, hLdef, hL0, hLm, henc⟩ : ∃ L : Int, (body.length : Int) + pc.adj + (if pc.incl then pc.fieldLen else 0) = L ∧
      0 ≤ L ∧ L ≤ fieldMax pc.fieldLen ∧ pack pc.big pc.fieldLen.toNat L.toNat ++ body = enc := by
    refine ⟨_, rfl, ?_⟩
    simp only [encodePrep] at henc
    generalize (body.length : Int) + pc.adj + (if pc.incl then pc.fieldLen else 0) = L at henc ⊢
    by_cases h : L < 0 ∨ L > fieldMax pc.fieldLen
    · simp [h] at henc
    · simp only [h, ite_false] at henc
      injection henc with henc
      exact ⟨by omega, by omega, henc⟩
  · obtain ⟨hLlt, hL63⟩ := fieldMax_lt pc.fieldLen (hfl ▸ hfls) L hL0 hLm
    have hflnat : (c.fieldLen.toNat : Int) = c.fieldLen := by omega
    obtain ⟨hdr, hhdr⟩ : ∃ hdr, hdr = pack pc.big pc.fieldLen.toNat L.toNat := ⟨_, rfl⟩
    rw [← hhdr] at henc
    have hhl : hdr.length = c.fieldLen.toNat := by rw [hhdr, pack_length, hfl]
    have hflat' : cs.flatten = hdr ++ (body ++ tail) := by rw [hflat, ← henc]; simp
    -- header read
    have hend : (c.offset + c.fieldLen).toNat = hdr.length := by rw [hoff, hhl]; simp
    obtain ⟨rest1, hrf, hrest1⟩ := readFull_ok cs fin hdr (body ++ tail) hflat'
    have hraw : unpack c.big (hdr.drop c.offset.toNat) = L.toNat := by
      rw [hoff]; simp only [Int.toNat_zero, List.drop_zero]
      rw [hhdr, hbig]; exact unpack_pack _ _ _ hLlt
    have hLnat : ((L.toNat : Nat) : Int) = L := by omega
    have hw0 : wrap64 ((L.toNat : Nat) : Int) = L := by rw [hLnat]; exact wrap64_id L (by omega) hL63
    have hsum : L + (c.adj + (c.offset + c.fieldLen)) = c.fieldLen + body.length := by
      rw [hoff]; rw [← hLdef]; rw [hfl]; omega
    have hw1 : wrap64 (c.adj + (c.offset + c.fieldLen)) = c.adj + (c.offset + c.fieldLen) := by
      apply wrap64_id <;> rw [hoff] <;> omega
    have hw2 : wrap64 (L + (c.adj + (c.offset + c.fieldLen))) = c.fieldLen + body.length := by
      rw [hsum]; apply wrap64_id <;> omega
    have hbodylen : ((c.fieldLen + (body.length : Int)) - (c.offset + c.fieldLen)).toNat = body.length := by
      rw [hoff]; omega
    simp only [stepRead, Codec.decode, decodeLF, hend, hrf, hraw, hw0, hw1, hw2]
    have n1 : ¬ L < 0 := by omega
    have n2 : ¬ (c.fieldLen + (body.length : Int) < c.offset + c.fieldLen) := by rw [hoff]; omega
    have n3 : ¬ (c.fieldLen + (body.length : Int) > c.max) := by omega
    have n4 : ¬ (c.strip > c.fieldLen + (body.length : Int)) := by omega
    simp only [n1, n2, n3, n4, ite_false, hbodylen]
    by_cases hs : c.strip ≤ c.offset + c.fieldLen
    · simp only [hs, ite_true]
      obtain ⟨rest2, hd, hrest2⟩ := drainExact_ok { pre := hdr.drop c.strip.toNat, lim := body.length } rest1 fin body tail hrest1 rfl
      simp only [hd]
      refine ⟨rest2, ?_, hrest2⟩
      congr 1
      rw [← henc]
      have : c.strip.toNat ≤ hdr.length := by rw [hhl]; rw [hoff] at hs; omega
      rw [List.drop_append_of_le_length this]
    · simp only [hs, ite_false]
      have hneed : (c.strip - (c.offset + c.fieldLen)).toNat ≤ body.length := by rw [hoff]; omega
      generalize hnd : (c.strip - (c.offset + c.fieldLen)).toNat = need at hneed
      have hsplit : rest1.flatten = body.take need ++ (body.drop need ++ tail) := by
        rw [hrest1, ← List.append_assoc, List.take_append_drop]
      have hlenTake : (body.take need).length = need := by rw [List.length_take]; omega
      obtain ⟨hr1, hr2⟩ := readN_append rest1 (body.take need) (body.drop need ++ tail) hsplit
      rw [hlenTake] at hr1 hr2
      have : (readN rest1 need).1.length = need := by rw [hr1, hlenTake]
      simp only [this, ite_true]
      obtain ⟨rest3, hd, hrest3⟩ := drainExact_ok { pre := [], lim := body.length - need } (readN rest1 need).2 fin
        (body.drop need) tail hr2 (by simp)
      simp only [hd]
      refine ⟨rest3, ?_, hrest3⟩
      congr 1
      rw [← henc]
      have hsn : c.strip.toNat = hdr.length + need := by rw [hhl, ← hnd, hoff]; rw [hoff] at hs; omega
      rw [hsn, List.drop_append]
      simp


theorem readN_one (cs : List Bytes) (b : UInt8) (tl : Bytes) (h : cs.flatten = b :: tl) :
    ∃ rest, readN cs 1 = ([b], rest) ∧ rest.flatten = tl := by
  obtain ⟨h1, h2⟩ := readN_append cs [b] tl (by simpa using h)
  exact ⟨(readN cs 1).2, Prod.ext h1 rfl, h2⟩

theorem readN_one_nil (cs : List Bytes) (h : cs.flatten = []) : ∃ rest, readN cs 1 = ([], rest) := by
  have := readN_fst cs 1
  rw [h] at this
  exact ⟨(readN cs 1).2, Prod.ext (by simpa using this) rfl⟩

theorem putUvarint_unfold (n : Nat) :
    putUvarint n = if n < 128 then [UInt8.ofNat n] else UInt8.ofNat (n % 128 + 128) :: putUvarint (n / 128) := by
  rw [putUvarint]; split <;> rfl

/-- binary.ReadUvarint ∘ binary.PutUvarint = id (values below 2^63, i.e. every Go `int` length) -/
theorem readUvarintAux_put : ∀ (k fuel i x s n : Nat) (cs : List Bytes) (tl : Bytes),
    n < 128 ^ (k+1) → k + 1 ≤ fuel → i + k + 1 ≤ 9 → cs.flatten = putUvarint n ++ tl →
    ∃ rest, readUvarintAux fuel i x s cs = .ok (x + n * 2 ^ s) rest ∧ rest.flatten = tl
  | k, 0, _, _, _, _, _, _, _, hf, _, _ => by omega
  | k, fuel+1, i, x, s, n, cs, tl, hn, hf, hi, hflat => by
    rw [putUvarint_unfold] at hflat
    by_cases h128 : n < 128
    · simp only [h128, ite_true, List.singleton_append] at hflat
      obtain ⟨rest, hr, hrest⟩ := readN_one cs _ tl hflat
      have hb : (UInt8.ofNat n).toNat = n := by rw [UInt8.toNat_ofNat']; omega
      simp only [readUvarintAux, hr, hb, h128, ite_true]
      have : ¬ (i = 9 ∧ n > 1) := by omega
      simp only [this, ite_false]
      exact ⟨rest, rfl, hrest⟩
    · simp only [h128, ite_false, List.cons_append] at hflat
      obtain ⟨rest, hr, hrest⟩ := readN_one cs _ _ hflat
      have hb : (UInt8.ofNat (n % 128 + 128)).toNat = n % 128 + 128 := by rw [UInt8.toNat_ofNat']; omega
      have hnb : ¬ (n % 128 + 128 < 128) := by omega
      simp only [readUvarintAux, hr, hb, hnb, ite_false]
      have hk : 1 ≤ k := by
        rcases k with _ | k
        · simp at hn; omega
        · omega
      obtain ⟨k', rfl⟩ : ∃ k', k = k' + 1 := ⟨k - 1, by omega⟩
      have hn' : n / 128 < 128 ^ (k' + 1) := by
        rw [Nat.div_lt_iff_lt_mul (by omega)]
        rw [Nat.pow_succ] at hn; exact hn
      obtain ⟨rest', hr', hrest'⟩ := readUvarintAux_put k' fuel (i+1) (x + (n % 128 + 128 - 128) * 2 ^ s) (s+7) (n / 128) rest tl
        hn' (by omega) (by omega) hrest
      refine ⟨rest', ?_, hrest'⟩
      rw [hr']
      congr 1
      have e1 : n % 128 + 128 - 128 = n % 128 := by omega
      have e2 : 2 ^ (s + 7) = 128 * 2 ^ s := by rw [Nat.pow_add]; rw [Nat.mul_comm]
      rw [e1, e2, Nat.add_assoc, ← Nat.mul_assoc, ← Nat.add_mul]
      have e3 : n % 128 + n / 128 * 128 = n := by omega
      rw [e3]

theorem readUvarint_put (n : Nat) (cs : List Bytes) (tl : Bytes) (hn : n < 2^63)
    (hflat : cs.flatten = putUvarint n ++ tl) :
    ∃ rest, readUvarint cs = .ok n rest ∧ rest.flatten = tl := by
  have h : n < 128 ^ (8+1) := by
    have : (128:Nat)^9 = 2^63 := by decide
    omega
  obtain ⟨rest, hr, hrest⟩ := readUvarintAux_put 8 10 0 0 0 n cs tl h (by omega) (by omega) hflat
  exact ⟨rest, by simpa [readUvarint] using hr, hrest⟩


theorem varint_roundtrip (max : Int) (body enc tail : Bytes) (cs : List Bytes) (fin : RErr)
    (hlen : body.length < 2^63) (henc : encodeVarint max body = some enc) (hflat : cs.flatten = enc ++ tail) :
    ∃ rest, stepRead true (.varint max) cs fin = .msg body rest ∧ rest.flatten = tail := by
  simp only [encodeVarint] at henc
  split at henc
  · cases henc
  · rename_i hmax
    injection henc with henc
    have hflat' : cs.flatten = putUvarint body.length ++ (body ++ tail) := by rw [hflat, ← henc]; simp
    obtain ⟨rest1, hr, hrest1⟩ := readUvarint_put body.length cs (body ++ tail) hlen hflat'
    have hmod : body.length % 2^64 = body.length := Nat.mod_eq_of_lt (by omega)
    have hle : ¬ (body.length > max.toNat) := by omega
    simp only [stepRead, Codec.decode, decodeVarint, hr, hmod, hle, ite_false]
    obtain ⟨rest2, hd, hrest2⟩ := drainExact_ok { pre := [], lim := body.length } rest1 fin body tail hrest1 rfl
    simp only [hd]
    exact ⟨rest2, by simp, hrest2⟩

theorem fixed_roundtrip (n : Int) (body tail : Bytes) (cs : List Bytes) (fin : RErr)
    (hlen : body.length = n.toNat) (hflat : cs.flatten = body ++ tail) :
    ∃ rest, stepRead true (.fixed n) cs fin = .msg body rest ∧ rest.flatten = tail := by
  obtain ⟨rest2, hd, hrest2⟩ := drainExact_ok { pre := [], lim := n.toNat } cs fin body tail hflat hlen.symm
  simp only [stepRead, Codec.decode, decodeFixed, hd]
  exact ⟨rest2, by simp, hrest2⟩

/-- the delimiter contract: in `body ++ delim` the delimiter occurs for the first time at the very end -/
def delimAdmissible (delim body : Bytes) : Bool :=
  !delim.isEmpty &&
  (List.range (body ++ delim).length).all (fun j => j == 0 || !(delim.reverse.isPrefixOf ((body ++ delim).take j).reverse))

theorem scanDelim_ok (drev : Bytes) (frame : Bytes) : ∀ (rem acc : Bytes) (fuel : Nat) (cs : List Bytes) (tl : Bytes),
    frame = acc ++ rem → rem ≠ [] → rem.length ≤ fuel → cs.flatten = rem ++ tl →
    (∀ j, acc.length < j → j < frame.length → drev.isPrefixOf (frame.take j).reverse = false) →
    drev.isPrefixOf frame.reverse = true →
    ∃ rest, scanDelim drev fuel acc.reverse cs = (some frame, rest) ∧ rest.flatten = tl
  | [], _, _, _, _, _, hne, _, _, _, _ => absurd rfl hne
  | b :: rem', acc, 0, _, _, _, _, hf, _, _, _ => by simp at hf
  | b :: rem', acc, fuel+1, cs, tl, hfr, _, hf, hflat, hno, hyes => by
    obtain ⟨rest, hr, hrest⟩ := readN_one cs b (rem' ++ tl) (by simpa using hflat)
    have hacc' : (b :: acc.reverse) = (acc ++ [b]).reverse := by simp
    simp only [scanDelim, hr]
    by_cases hlast : rem' = []
    · subst hlast
      have hfr' : frame = acc ++ [b] := hfr
      have : drev.isPrefixOf (b :: acc.reverse) = true := by rw [hacc', ← hfr']; exact hyes
      simp only [this, ite_true]
      refine ⟨rest, ?_, by simpa using hrest⟩
      rw [hacc', List.reverse_reverse, hfr']
    · have hj := hno (acc.length + 1) (by omega) (by rw [hfr]; simp; cases rem' with | nil => exact absurd rfl hlast | cons _ _ => simp)
      have htake : frame.take (acc.length + 1) = acc ++ [b] := by
        rw [hfr]; simp [List.take_append, List.take_of_length_le]
      rw [htake, ← hacc'] at hj
      simp only [hj, Bool.false_eq_true, ite_false]
      rw [hacc']
      exact scanDelim_ok drev frame rem' (acc ++ [b]) fuel rest tl (by rw [hfr]; simp) hlast (by simpa using hf) hrest
        (fun j h1 h2 => hno j (by simp at h1; omega) h2) hyes

theorem delim_roundtrip (delim : Bytes) (max : Int) (strip : Bool) (body tail : Bytes) (cs : List Bytes) (fin : RErr)
    (hadm : delimAdmissible delim body = true) (hmax : ((body ++ delim).length : Int) ≤ max)
    (hflat : cs.flatten = encodeDelim delim body ++ tail) :
    ∃ rest, stepRead true (.delim delim max strip) cs fin =
      .msg (if strip then body else body ++ delim) rest ∧ rest.flatten = tail := by
  simp only [delimAdmissible, Bool.and_eq_true, Bool.not_eq_true', List.all_eq_true, List.mem_range,
    Bool.or_eq_true, beq_iff_eq] at hadm
  obtain ⟨hne, hall⟩ := hadm
  have hdne : delim ≠ [] := by intro h; simp [h] at hne
  have hfne : body ++ delim ≠ [] := by simp [hdne]
  have hyes : delim.reverse.isPrefixOf (body ++ delim).reverse = true := by
    rw [List.reverse_append]; simp
  obtain ⟨rest, hs, hrest⟩ := scanDelim_ok delim.reverse (body ++ delim) (body ++ delim) [] max.toNat cs tail
    (by simp) hfne (by omega) (by simpa [encodeDelim] using hflat)
    (fun j h1 h2 => by
      rcases hall j h2 with h | h
      · simp at h1; omega
      · exact h) hyes
  simp only [List.reverse_nil] at hs
  obtain ⟨rest2, hd, hrest2⟩ := drainExact_ok { pre := if strip then (body ++ delim).take ((body ++ delim).length - delim.length) else body ++ delim, lim := 0 }
    rest fin [] tail (by simpa using hrest) rfl
  simp only [stepRead, Codec.decode, decodeDelim, hs, hd]
  refine ⟨rest2, ?_, hrest2⟩
  cases strip <;> simp


/-- the read loop over a concatenation of frames delivers exactly the frames' messages, in order,
    and then raises (end of stream) -/
theorem readLoop_frames (c : Codec) (fin : RErr) : ∀ (frames : List (Bytes × Bytes)) (cs : List Bytes) (fuel : Nat),
    (∀ fm ∈ frames, ∀ (cs : List Bytes) (tl : Bytes), cs.flatten = fm.1 ++ tl →
        ∃ rest, stepRead true c cs fin = .msg fm.2 rest ∧ rest.flatten = tl) →
    (∀ cs : List Bytes, cs.flatten = [] → ∃ rest, stepRead true c cs fin = .raise rest) →
    cs.flatten = (frames.map (·.1)).flatten → frames.length < fuel →
    ∃ rest, readLoop true c fuel cs fin = (frames.map (·.2), some rest)
  | [], cs, fuel+1, _, hend, hflat, _ => by
    obtain ⟨rest, hr⟩ := hend cs (by simpa using hflat)
    exact ⟨rest, by simp [readLoop, hr]⟩
  | fm :: frames, cs, fuel+1, hstep, hend, hflat, hf => by
    obtain ⟨rest, hr, hrest⟩ := hstep fm (by simp) cs ((frames.map (·.1)).flatten) (by simpa using hflat)
    obtain ⟨rest', hl⟩ := readLoop_frames c fin frames rest fuel (fun f hf' => hstep f (by simp [hf'])) hend hrest (by simpa using hf)
    exact ⟨rest', by simp [readLoop, hr, hl]⟩
  | _, _, 0, _, _, _, hf => by simp at hf

theorem readN_snd_len (cs : List Bytes) (k : Nat) : (readN cs k).2.flatten.length = cs.flatten.length - k := by
  rw [readN_snd, List.length_drop]

/-- at end of stream every (valid) decoder raises: the exception that closes the channel -/
theorem step_eof_raises (c : Codec) (hv : c.valid = true) (fin : RErr) (cs : List Bytes) (h : cs.flatten = []) :
    ∃ rest, stepRead true c cs fin = .raise rest := by
  cases c with
  | lf c =>
    obtain ⟨hfls, _, hoff, _⟩ := valid_fl hv
    have : cs.flatten.length < (c.offset + c.fieldLen).toNat := by rw [h]; simp; omega
    obtain ⟨e, he⟩ := readFull_short cs fin _ this
    exact ⟨(readN cs (c.offset + c.fieldLen).toNat).2, by simp [stepRead, Codec.decode, decodeLF, he]⟩
  | varint m =>
    obtain ⟨rest, hr⟩ := readN_one_nil cs h
    exact ⟨rest, by simp [stepRead, Codec.decode, decodeVarint, readUvarint, readUvarintAux, hr]⟩
  | delim d m s =>
    simp only [Codec.valid, Bool.and_eq_true, decide_eq_true_eq] at hv
    obtain ⟨k, hk⟩ : ∃ k, m.toNat = k + 1 := ⟨m.toNat - 1, by omega⟩
    obtain ⟨rest, hr⟩ := readN_one_nil cs h
    exact ⟨rest, by simp [stepRead, Codec.decode, decodeDelim, hk, scanDelim, hr]⟩
  | fixed n =>
    simp only [Codec.valid, decide_eq_true_eq] at hv
    have : cs.flatten.length < n.toNat := by rw [h]; simp; omega
    obtain ⟨e, he⟩ := drainExact_short { pre := [], lim := n.toNat } cs fin this
    exact ⟨(readN cs n.toNat).2, by simp [stepRead, Codec.decode, decodeFixed, he]⟩


theorem readN_split (cs : List Bytes) (k : Nat) : cs.flatten = (readN cs k).1 ++ (readN cs k).2.flatten := by
  rw [readN_fst, readN_snd, List.take_append_drop]

theorem readFull_ok_inv (cs : List Bytes) (fin : RErr) (k : Nat) (hdr : Bytes) (rest : List Bytes)
    (h : readFull cs fin k = (.ok hdr, rest)) :
    cs.flatten = hdr ++ rest.flatten ∧ hdr.length = k := by
  simp only [readFull] at h
  split at h
  · rename_i hl
    injection h with h1 h2
    injection h1 with h1
    rw [← h1, ← h2]
    exact ⟨readN_split cs k, hl⟩
  · injection h with h1 _; cases h1

theorem drainExact_msg_inv (f : FrameR) (cs : List Bytes) (fin : RErr) (m : Bytes) (rest : List Bytes)
    (h : drainExact f cs fin = (.msg m, rest)) :
    ∃ d, m = f.pre ++ d ∧ d.length = f.lim ∧ cs.flatten = d ++ rest.flatten := by
  simp only [drainExact] at h
  split at h
  · rename_i hl
    injection h with h1 h2
    injection h1 with h1
    exact ⟨(readN cs f.lim).1, h1.symm, hl, by rw [← h2]; exact readN_split cs f.lim⟩
  · injection h with h1 _; cases h1

theorem readUvarintAux_inv : ∀ (fuel i x s : Nat) (cs : List Bytes) (v : Nat) (rest : List Bytes),
    readUvarintAux fuel i x s cs = .ok v rest →
    ∃ hdr, cs.flatten = hdr ++ rest.flatten ∧ 1 ≤ hdr.length ∧ hdr.length ≤ fuel
  | 0, _, _, _, _, _, _, h => by simp [readUvarintAux] at h
  | fuel+1, i, x, s, cs, v, rest, h => by
    simp only [readUvarintAux] at h
    have hsp := readN_split cs 1
    generalize hr : readN cs 1 = r at h hsp
    obtain ⟨d, rest1⟩ := r
    match d, h with
    | [b], h =>
      simp only at h hsp
      split at h
      · split at h
        · cases h
        · injection h with _ h2
          subst h2
          exact ⟨[b], hsp, by simp, by simp⟩
      · obtain ⟨hdr, h1, h2, h3⟩ := readUvarintAux_inv fuel _ _ _ rest1 v rest h
        refine ⟨b :: hdr, ?_, by simp, by simp; omega⟩
        rw [hsp, h1]; simp
    | [], h => simp at h
    | _ :: _ :: _, h => simp at h

theorem scanDelim_inv (drev : Bytes) : ∀ (fuel : Nat) (racc : Bytes) (cs : List Bytes) (f : Bytes) (rest : List Bytes),
    scanDelim drev fuel racc cs = (some f, rest) →
    ∃ d, cs.flatten = d ++ rest.flatten ∧ f = racc.reverse ++ d ∧ 1 ≤ d.length ∧ d.length ≤ fuel ∧
      drev.isPrefixOf f.reverse = true
  | 0, _, _, _, _, h => by simp [scanDelim] at h
  | fuel+1, racc, cs, f, rest, h => by
    simp only [scanDelim] at h
    have hsp := readN_split cs 1
    generalize hr : readN cs 1 = r at h hsp
    obtain ⟨d, rest1⟩ := r
    match d, h with
    | [b], h =>
      simp only at h hsp
      split at h
      · rename_i hp
        injection h with h1 h2
        injection h1 with h1
        subst h2
        refine ⟨[b], hsp, by rw [← h1]; simp, by simp, by simp, ?_⟩
        rw [← h1, List.reverse_reverse]; exact hp
      · obtain ⟨d', h1, h2, h3, h4, h5⟩ := scanDelim_inv drev fuel (b :: racc) rest1 f rest h
        refine ⟨b :: d', ?_, ?_, by simp, by simp; omega, h5⟩
        · rw [hsp, h1]; simp
        · rw [h2]; simp
    | [], h => simp at h
    | _ :: _ :: _, h => simp at h


/-- upper bound on the bytes one delivered frame pulls from the source -/
def Codec.bound : Codec → Nat
  | .lf c => c.max.toNat
  | .varint m => m.toNat + 10
  | .delim _ m _ => m.toNat
  | .fixed n => n.toNat

/-- message `m` is a complete frame made of exactly the bytes `consumed` -/
def FrameOK : Codec → Bytes → Bytes → Prop
  | .lf c, consumed, m => m = consumed.drop c.strip.toNat
  | .varint mx, consumed, m => ∃ hdr, consumed = hdr ++ m ∧ hdr.length ≤ 10 ∧ m.length ≤ mx.toNat
  | .delim d _ strip, consumed, m =>
      d.reverse.isPrefixOf consumed.reverse = true ∧
      m = (if strip then consumed.take (consumed.length - d.length) else consumed)
  | .fixed n, consumed, m => m = consumed ∧ m.length = n.toNat

theorem step_msg_sound_varint (mx : Int) (cs : List Bytes) (fin : RErr) (m : Bytes) (rest : List Bytes)
    (h : stepRead true (.varint mx) cs fin = .msg m rest) :
    ∃ consumed, cs.flatten = consumed ++ rest.flatten ∧ 1 ≤ consumed.length ∧
      consumed.length ≤ (Codec.varint mx).bound ∧ FrameOK (.varint mx) consumed m := by
  simp only [stepRead, Codec.decode, decodeVarint] at h
  cases hu : readUvarint cs with
  | err r => simp [hu] at h
  | ok v rest1 =>
    simp only [hu] at h
    by_cases hgt : v % 2^64 > mx.toNat
    · simp [hgt] at h
    · simp only [hgt, ite_false, ite_true] at h
      cases hd : drainExact { pre := [], lim := v % 2^64 } rest1 fin with
      | mk dr rest2 =>
        simp only [hd] at h
        cases dr with
        | raise e => simp at h
        | msg m' =>
          simp only at h
          injection h with h1 h2
          subst h1; subst h2
          obtain ⟨d, hm, hdl, hfl⟩ := drainExact_msg_inv _ _ _ _ _ hd
          obtain ⟨hdr, h1, h2, h3⟩ := readUvarintAux_inv 10 0 0 0 cs v rest1 (by simpa [readUvarint] using hu)
          simp only [List.nil_append] at hm
          subst hm
          have hdl' : m'.length = v % 2^64 := hdl
          refine ⟨hdr ++ m', by rw [h1, hfl]; simp, by simp; omega, ?_, hdr, rfl, h3, by omega⟩
          simp [Codec.bound]; omega

theorem step_msg_sound_fixed (n : Int) (hv : n > 0) (cs : List Bytes) (fin : RErr) (m : Bytes) (rest : List Bytes)
    (h : stepRead true (.fixed n) cs fin = .msg m rest) :
    ∃ consumed, cs.flatten = consumed ++ rest.flatten ∧ 1 ≤ consumed.length ∧
      consumed.length ≤ (Codec.fixed n).bound ∧ FrameOK (.fixed n) consumed m := by
  simp only [stepRead, Codec.decode, decodeFixed] at h
  cases hd : drainExact { pre := [], lim := n.toNat } cs fin with
  | mk dr rest2 =>
    simp only [hd, ite_true] at h
    cases dr with
    | raise e => simp at h
    | msg m' =>
      simp only at h
      injection h with h1 h2
      subst h1; subst h2
      obtain ⟨d, hm, hdl, hfl⟩ := drainExact_msg_inv _ _ _ _ _ hd
      simp only [List.nil_append] at hm
      subst hm
      have hdl' : m'.length = n.toNat := hdl
      exact ⟨m', hfl, by omega, by simp [Codec.bound]; omega, rfl, hdl'⟩

theorem step_msg_sound_delim (d : Bytes) (mx : Int) (strip : Bool) (cs : List Bytes) (fin : RErr) (m : Bytes) (rest : List Bytes)
    (h : stepRead true (.delim d mx strip) cs fin = .msg m rest) :
    ∃ consumed, cs.flatten = consumed ++ rest.flatten ∧ 1 ≤ consumed.length ∧
      consumed.length ≤ (Codec.delim d mx strip).bound ∧ FrameOK (.delim d mx strip) consumed m := by
  simp only [stepRead, Codec.decode, decodeDelim] at h
  cases hs : scanDelim d.reverse mx.toNat [] cs with
  | mk fo rest1 =>
    simp only [hs] at h
    cases fo with
    | none => simp at h
    | some f =>
      simp only [ite_true] at h
      obtain ⟨c, h1, h2, h3, h4, h5⟩ := scanDelim_inv _ _ _ _ _ _ hs
      simp only [List.reverse_nil, List.nil_append] at h2
      subst h2
      cases hd : drainExact { pre := if strip then f.take (f.length - d.length) else f, lim := 0 } rest1 fin with
      | mk dr rest2 =>
        simp only [hd] at h
        cases dr with
        | raise e => simp at h
        | msg m' =>
          simp only at h
          injection h with h6 h7
          subst h6; subst h7
          obtain ⟨dd, hm, hdl, hfl⟩ := drainExact_msg_inv _ _ _ _ _ hd
          have : dd = [] := List.eq_nil_of_length_eq_zero hdl
          subst this
          simp only [List.append_nil, List.nil_append] at hm hfl
          refine ⟨f, by rw [h1, hfl], h3, by simpa [Codec.bound] using h4, h5, hm⟩


theorem step_msg_sound_lf (c : LFCfg) (hv : c.valid = true) (cs : List Bytes) (fin : RErr) (m : Bytes) (rest : List Bytes)
    (h : stepRead true (.lf c) cs fin = .msg m rest) :
    ∃ consumed, cs.flatten = consumed ++ rest.flatten ∧ 1 ≤ consumed.length ∧
      consumed.length ≤ (Codec.lf c).bound ∧ FrameOK (.lf c) consumed m := by
  obtain ⟨hfls, hmaxpos, hoff0, hstrip0⟩ := valid_fl hv
  simp only [stepRead, Codec.decode, decodeLF] at h
  cases hrf : readFull cs fin (c.offset + c.fieldLen).toNat with
  | mk r rest1 =>
    simp only [hrf] at h
    cases r with
    | error e => simp at h
    | ok hdr =>
      simp only at h
      obtain ⟨hsp1, hhl⟩ := readFull_ok_inv _ _ _ _ _ hrf
      generalize wrap64 ((unpack c.big (hdr.drop c.offset.toNat) : Nat) : Int) = fl0 at h
      by_cases h0 : fl0 < 0
      · simp [h0] at h
      · simp only [h0, ite_false] at h
        generalize wrap64 (fl0 + wrap64 (c.adj + (c.offset + c.fieldLen))) = fl at h
        by_cases h1 : fl < c.offset + c.fieldLen
        · simp [h1] at h
        · by_cases h2 : fl > c.max
          · simp [h1, h2] at h
          · by_cases h3 : c.strip > fl
            · simp [h1, h2, h3] at h
            · simp only [h1, h2, h3, ite_false] at h
              by_cases hs : c.strip ≤ c.offset + c.fieldLen
              · simp only [hs, ite_true] at h
                cases hd : drainExact { pre := hdr.drop c.strip.toNat, lim := (fl - (c.offset + c.fieldLen)).toNat } rest1 fin with
                | mk dr rest2 =>
                  simp only [hd] at h
                  cases dr with
                  | raise e => simp at h
                  | msg m' =>
                    simp only at h
                    injection h with e1 e2
                    subst e1; subst e2
                    obtain ⟨d, hm, hdl, hfl⟩ := drainExact_msg_inv _ _ _ _ _ hd
                    have hdl' : d.length = (fl - (c.offset + c.fieldLen)).toNat := hdl
                    have hm' : m' = hdr.drop c.strip.toNat ++ d := hm
                    refine ⟨hdr ++ d, by rw [hsp1, hfl]; simp, by simp; omega, ?_, ?_⟩
                    · simp [Codec.bound]; omega
                    · show m' = (hdr ++ d).drop c.strip.toNat
                      rw [hm', List.drop_append_of_le_length (by omega)]
              · simp only [hs, ite_false] at h
                generalize hnd : (c.strip - (c.offset + c.fieldLen)).toNat = need at h
                by_cases hn : (readN rest1 need).1.length = need
                · simp only [hn, ite_true] at h
                  cases hd : drainExact { pre := [], lim := (fl - (c.offset + c.fieldLen)).toNat - need } (readN rest1 need).2 fin with
                  | mk dr rest2 =>
                    simp only [hd] at h
                    cases dr with
                    | raise e => simp at h
                    | msg m' =>
                      simp only at h
                      injection h with e1 e2
                      subst e1; subst e2
                      obtain ⟨d, hm, hdl, hfl⟩ := drainExact_msg_inv _ _ _ _ _ hd
                      have hdl' : d.length = (fl - (c.offset + c.fieldLen)).toNat - need := hdl
                      have hm' : m' = d := by simpa using hm
                      have hsp2 := readN_split rest1 need
                      refine ⟨hdr ++ (readN rest1 need).1 ++ d, by rw [hsp1, hsp2, hfl]; simp, by simp; omega, ?_, ?_⟩
                      · simp [Codec.bound]; omega
                      · show m' = (hdr ++ (readN rest1 need).1 ++ d).drop c.strip.toNat
                        have : c.strip.toNat = (hdr ++ (readN rest1 need).1).length := by simp; omega
                        rw [this, List.drop_left, hm']
                · simp [hn] at h

/-- **C08 core**: whenever a (valid) decoder delivers a message, that message is a complete frame
    made of exactly the bytes consumed from the stream — at least one, at most the configured bound -/
theorem step_msg_sound (c : Codec) (hv : c.valid = true) (cs : List Bytes) (fin : RErr) (m : Bytes) (rest : List Bytes)
    (h : stepRead true c cs fin = .msg m rest) :
    ∃ consumed, cs.flatten = consumed ++ rest.flatten ∧ 1 ≤ consumed.length ∧
      consumed.length ≤ c.bound ∧ FrameOK c consumed m := by
  cases c with
  | lf c => exact step_msg_sound_lf c hv cs fin m rest h
  | varint mx => exact step_msg_sound_varint mx cs fin m rest h
  | delim d mx s => exact step_msg_sound_delim d mx s cs fin m rest h
  | fixed n => exact step_msg_sound_fixed n (by simpa [Codec.valid] using hv) cs fin m rest h

/-- the read loop terminates: with fuel exceeding the stream length it always ends in an exception -/
theorem readLoop_terminates (c : Codec) (hv : c.valid = true) (fin : RErr) : ∀ (fuel : Nat) (cs : List Bytes),
    cs.flatten.length < fuel → ∃ rest, (readLoop true c fuel cs fin).2 = some rest
  | 0, _, h => by simp at h
  | fuel+1, cs, h => by
    simp only [readLoop]
    cases hs : stepRead true c cs fin with
    | raise rest => exact ⟨rest, rfl⟩
    | msg m rest =>
      obtain ⟨consumed, h1, h2, _, _⟩ := step_msg_sound c hv cs fin m rest hs
      have hl : rest.flatten.length < fuel := by
        have : cs.flatten.length = consumed.length + rest.flatten.length := by rw [h1, List.length_append]
        omega
      obtain ⟨r, hr⟩ := readLoop_terminates c hv fin fuel rest hl
      exact ⟨r, hr⟩

end NettyVerif.Frame
