import NettyVerif.Model.Heap
/-! Ownership invariant of the queued write path: a buffer the channel owns holds its call-time snapshot. -/
namespace NettyVerif.Heap

structure HInv (s : St) : Prop where
  owned : ∀ id ∈ s.q ++ s.batch, s.owner id = .chan ∧ s.heap id = s.snap id
  recyc : ∀ id ∈ s.recycle, s.owner id = .chan
  nodup : (s.q ++ s.batch ++ s.recycle).Nodup
  fifo : s.accepted = s.wire ++ s.batch.map s.snap ++ s.q.map s.snap

theorem hinv_init : HInv {} := by constructor <;> simp

theorem upd_same {β : Type} (f : Nat → β) (i : Nat) (v : β) : upd f i v i = v := by simp [upd]
theorem upd_other {β : Type} (f : Nat → β) (i j : Nat) (v : β) (h : j ≠ i) : upd f i v j = f j := by simp [upd, h]

theorem map_upd_of_not_mem {β : Type} (f : Nat → β) (i : Nat) (v : β) (l : List Nat) (h : i ∉ l) : l.map (upd f i v) = l.map f := by
  apply List.map_congr_left
  intro x hx
  exact upd_other f i x v (fun e => h (e ▸ hx))

theorem hinv_step (s s' : St) (a : Act) (ha : a.sound = true) (h : HInv s) (hs : step s a = some s') : HInv s' := by
  obtain ⟨ho, hr, hn, hf⟩ := h
  cases a with
  | scribble o id v =>
    simp only [step] at hs
    split at hs
    all_goals (try cases hs)
    all_goals (
      split at hs
      · rename_i howner
        injection hs with hs; subst hs
        have hnotin : id ∉ s.q ++ s.batch := fun hm => by have := (ho id hm).1; rw [howner] at this; cases this
        refine ⟨?_, hr, hn, hf⟩
        intro j hj
        have hji : j ≠ id := fun e => hnotin (e ▸ hj)
        simp only [upd_other _ _ _ _ hji]
        exact ho j hj
      · cases hs)
  | poolGet u id =>
    simp only [step] at hs
    split at hs
    · rename_i howner
      injection hs with hs; subst hs
      have hnotin : id ∉ s.q ++ s.batch := fun hm => by have := (ho id hm).1; rw [howner] at this; cases this
      have hnotr : id ∉ s.recycle := fun hm => by have := hr id hm; rw [howner] at this; cases this
      refine ⟨?_, ?_, hn, hf⟩
      · intro j hj
        have hji : j ≠ id := fun e => hnotin (e ▸ hj)
        simp only [upd_other _ _ _ _ hji]; exact ho j hj
      · intro j hj
        have hji : j ≠ id := fun e => hnotr (e ▸ hj)
        simp only [upd_other _ _ _ _ hji]; exact hr j hj
    · cases hs
  | poolPut u id =>
    simp only [step] at hs
    split at hs
    · rename_i howner
      injection hs with hs; subst hs
      have hnotin : id ∉ s.q ++ s.batch := fun hm => by have := (ho id hm).1; rw [howner] at this; cases this
      have hnotr : id ∉ s.recycle := fun hm => by have := hr id hm; rw [howner] at this; cases this
      refine ⟨?_, ?_, hn, hf⟩
      · intro j hj
        have hji : j ≠ id := fun e => hnotin (e ▸ hj)
        simp only [upd_other _ _ _ _ hji]; exact ho j hj
      · intro j hj
        have hji : j ≠ id := fun e => hnotr (e ▸ hj)
        simp only [upd_other _ _ _ _ hji]; exact hr j hj
    · cases hs
  | write c src id clone =>
    have hcl : clone = true := by simpa [Act.sound] using ha
    subst hcl
    simp only [step] at hs
    split at hs
    · cases hs
    · simp only [if_true] at hs
      split at hs
      · rename_i hsrc howner
        injection hs with hs; subst hs
        have hnotin : id ∉ s.q ++ s.batch := fun hm => by have := (ho id hm).1; rw [howner] at this; cases this
        have hnotq : id ∉ s.q := fun hm => hnotin (by simp [hm])
        have hnotb : id ∉ s.batch := fun hm => hnotin (by simp [hm])
        have hnotr : id ∉ s.recycle := fun hm => by have := hr id hm; rw [howner] at this; cases this
        refine ⟨?_, ?_, ?_, ?_⟩
        · intro j hj
          by_cases hji : j = id
          · subst hji; simp [upd_same]
          · simp only [upd_other _ _ _ _ hji]
            have : j ∈ s.q ++ s.batch := by
              simp only [List.mem_append, List.mem_singleton] at hj ⊢
              rcases hj with (hj | hj) | hj
              · exact Or.inl hj
              · exact absurd hj hji
              · exact Or.inr hj
            exact ho j this
        · intro j hj
          have hji : j ≠ id := fun e => hnotr (e ▸ hj)
          simp only [upd_other _ _ _ _ hji]; exact hr j hj
        · simp only [List.nodup_append, List.nodup_cons, List.mem_append, List.mem_singleton, List.nodup_nil, List.not_mem_nil] at hn ⊢
          grind
        · simp only [List.map_append, List.map_cons, List.map_nil, upd_same]
          rw [map_upd_of_not_mem _ _ _ _ hnotb, map_upd_of_not_mem _ _ _ _ hnotq, hf]
          simp [List.append_assoc]
      · cases hs
  | recv =>
    simp only [step] at hs
    split at hs
    · rename_i id rest hq
      injection hs with hs; subst hs
      rw [hq] at ho hn hf
      refine ⟨?_, hr, ?_, ?_⟩
      · intro j hj
        apply ho j
        simp only [List.mem_append, List.mem_cons, List.mem_singleton] at hj ⊢
        simp only [List.not_mem_nil, or_false] at hj
        rcases hj with hj | hj | hj
        · exact Or.inl (Or.inr hj)
        · exact Or.inr hj
        · exact Or.inl (Or.inl hj)
      · simp only [List.nodup_append, List.nodup_cons, List.mem_append, List.mem_cons, List.mem_singleton, List.nodup_nil, List.not_mem_nil] at hn ⊢
        grind
      · simp only [List.map_append, List.map_cons, List.map_nil] at hf ⊢
        rw [hf]; simp [List.append_assoc]
    · cases hs
  | writev =>
    simp only [step] at hs
    split at hs
    · cases hs
    · injection hs with hs; subst hs
      refine ⟨?_, ?_, ?_, ?_⟩
      · intro j hj
        apply ho j
        simp only [List.append_nil, List.mem_append] at hj ⊢
        exact Or.inl hj
      · intro j hj
        simp only [List.mem_append] at hj
        rcases hj with hj | hj
        · exact hr j hj
        · exact (ho j (by simp [hj])).1
      · simp only [List.nodup_append, List.mem_append, List.append_nil, List.nodup_nil] at hn ⊢
        grind
      · have hheap : s.batch.map s.heap = s.batch.map s.snap := by
          apply List.map_congr_left
          intro j hj
          exact (ho j (by simp [hj])).2
        simp only [List.map_nil, List.append_nil]
        rw [hf, hheap]
  | put early =>
    have he : early = false := by simpa [Act.sound] using ha
    subst he
    simp only [step, Bool.false_eq_true, if_false] at hs
    split at hs
    · rename_i id rest hrec
      injection hs with hs; subst hs
      rw [hrec] at hn hr
      have hnotin : id ∉ s.q ++ s.batch := by
        simp only [List.nodup_append, List.nodup_cons, List.mem_append, List.mem_cons] at hn
        intro hm
        simp only [List.mem_append] at hm
        grind
      have hnotrest : id ∉ rest := by
        simp only [List.nodup_append, List.nodup_cons] at hn
        exact hn.2.1.1
      refine ⟨?_, ?_, ?_, hf⟩
      · intro j hj
        have hji : j ≠ id := fun e => hnotin (e ▸ hj)
        simp only [upd_other _ _ _ _ hji]; exact ho j hj
      · intro j hj
        have hji : j ≠ id := fun e => hnotrest (e ▸ hj)
        simp only [upd_other _ _ _ _ hji]; exact hr j (by simp [hj])
      · simp only [List.nodup_append, List.nodup_cons, List.mem_append, List.mem_cons] at hn ⊢
        grind
    · cases hs

theorem hinv_run : ∀ (acts : List Act) (s s' : St), (∀ a ∈ acts, a.sound = true) → HInv s → run s acts = some s' → HInv s'
  | [], s, s', _, h, hr => by simp [run] at hr; subst hr; exact h
  | a :: as, s, s', hsd, h, hr => by
    simp only [run] at hr
    cases hs : step s a with
    | none => simp [hs] at hr
    | some s1 =>
      simp [hs] at hr
      exact hinv_run as s1 s' (fun x hx => hsd x (by simp [hx])) (hinv_step s s1 a (hsd a (by simp)) h hs) hr

end NettyVerif.Heap
