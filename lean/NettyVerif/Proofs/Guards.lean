import NettyVerif.Proofs.Frame
import NettyVerif.Gen.Guards
/-!
Meaning of the extracted integer skeleton of the frame codecs (`Gen/Guards.lean`, regenerated from
codec/frame/*.go on every run) in terms of the guards of the hand model (`Model/Frame.lean`).

Two steps per function: (1) the generated statement list equals the expectation written here
(decided by the kernel; in `Props/C04.lean`, `Props/C08.lean`); (2) running the expectation under
Go's 64-bit semantics (`Guards.run`) raises exactly when the model raises and computes the frame
length the model computes (proved here, for every configuration and every input value).
-/
namespace NettyVerif.Guards
open NettyVerif.Frame

def I64 (x : Int) : Prop := -(2^63) ≤ x ∧ x < 2^63

@[simp] theorem b2i_ne_zero (b : Bool) : (b2i b ≠ 0) = (b = true) := by cases b <;> simp [b2i]
@[simp] theorem b2i_eq_zero (b : Bool) : (b2i b = 0) = (b = false) := by cases b <;> simp [b2i]

@[simp] theorem binOp_add (a b : Int) : binOp "+" a b = wrap64 (a + b) := by simp [binOp]
@[simp] theorem binOp_sub (a b : Int) : binOp "-" a b = wrap64 (a - b) := by simp [binOp]
@[simp] theorem binOp_lt (a b : Int) : binOp "<" a b = b2i (a < b) := by simp [binOp]
@[simp] theorem binOp_gt (a b : Int) : binOp ">" a b = b2i (a > b) := by simp [binOp]
@[simp] theorem binOp_le (a b : Int) : binOp "<=" a b = b2i (a ≤ b) := by simp [binOp]
@[simp] theorem binOp_ge (a b : Int) : binOp ">=" a b = b2i (a ≥ b) := by simp [binOp]
@[simp] theorem binOp_eq (a b : Int) : binOp "==" a b = b2i (a = b) := by simp [binOp]
@[simp] theorem binOp_ne (a b : Int) : binOp "!=" a b = b2i (a ≠ b) := by simp [binOp]
@[simp] theorem binOp_and (a b : Int) : binOp "&&" a b = b2i (a ≠ 0 ∧ b ≠ 0) := by simp [binOp]
@[simp] theorem binOp_or (a b : Int) : binOp "||" a b = b2i (a ≠ 0 ∨ b ≠ 0) := by simp [binOp]
@[simp] theorem convTo_int64 (v : Int) : convTo "int64" v = wrap64 v := by simp [convTo]
@[simp] theorem convTo_int (v : Int) : convTo "int" v = wrap64 v := by simp [convTo]
@[simp] theorem convTo_uint64 (v : Int) : convTo "uint64" v = v % (2^64 : Int) := by simp [convTo]

theorem run_assert (c : GE) (rest : List GS) (env : Env) :
    run (.assert (.lit 1) c :: rest) env = if c.eval env ≠ 0 then none else run rest env := by
  simp only [run, GS.step, GE.eval]
  by_cases h : GE.eval env c = 0 <;> simp [h]

theorem run_nil (env : Env) : run [] env = some env := rfl

/-- the statements that have a meaning here (everything but `.other`) -/
def guardsOf (l : List GS) : List GS :=
  l.filter (fun s => match s with | .other _ _ => false | _ => true)

theorem run_guardsOf (l : List GS) (env : Env) : run l env = run (guardsOf l) env := by
  induction l generalizing env with
  | nil => rfl
  | cons s ss ih =>
    cases s with
    | other g src => simp [guardsOf, run, GS.step] at *; exact ih env
    | assign g x op e =>
      simp only [guardsOf, List.filter, run] at *
      cases h : GS.step env (.assign g x op e) with
      | none => rfl
      | some env' => exact ih env'
    | assert g c =>
      simp only [guardsOf, List.filter, run] at *
      cases h : GS.step env (.assert g c) with
      | none => rfl
      | some env' => exact ih env'
    | check g x =>
      simp only [guardsOf, List.filter, run] at *
      cases h : GS.step env (.check g x) with
      | none => rfl
      | some env' => exact ih env'

/-! ### constructors -/

def expLengthFieldCodec : List GS := [
  .assert (.lit 1) (.bin "<=" (.var "maxFrameLength") (.lit 0)),
  .assert (.lit 1) (.bin "<" (.var "lengthFieldOffset") (.lit 0)),
  .assert (.lit 1) (.bin "<" (.var "initialBytesToStrip") (.lit 0)),
  .assert (.lit 1) (.bin "&&" (.bin "&&" (.bin "&&" (.bin "!=" (.var "lengthFieldLength") (.lit 1)) (.bin "!=" (.var "lengthFieldLength") (.lit 2))) (.bin "!=" (.var "lengthFieldLength") (.lit 4))) (.bin "!=" (.var "lengthFieldLength") (.lit 8))),
  .assert (.lit 1) (.bin ">" (.var "lengthFieldOffset") (.bin "-" (.var "maxFrameLength") (.var "lengthFieldLength")))]

/-- the environment of a length-field codec: parameters / receiver fields by name -/
def LFEnv (c : LFCfg) (env : Env) : Prop :=
  env.var "maxFrameLength" = c.max ∧ env.var "lengthFieldOffset" = c.offset ∧
  env.var "lengthFieldLength" = c.fieldLen ∧ env.var "lengthAdjustment" = c.adj ∧
  env.var "initialBytesToStrip" = c.strip

theorem expLengthFieldCodec_sem (c : LFCfg) (env : Env) (he : LFEnv c env) (hm : I64 c.max) (hf : I64 c.fieldLen) :
    (run expLengthFieldCodec env).isSome = c.valid := by
  obtain ⟨h1, h2, h3, h4, h5⟩ := he
  unfold I64 at hm hf
  simp only [expLengthFieldCodec, run_assert, run_nil, GE.eval, binOp_sub, binOp_lt, binOp_gt, binOp_le, binOp_ne, binOp_and, b2i_ne_zero, h1, h2, h3, h5, LFCfg.valid]
  by_cases a1 : c.max ≤ 0
  · have : ¬ (0 < c.max) := by omega
    simp [a1, this]
  have a1' : 0 < c.max := by omega
  by_cases a2 : c.offset < 0
  · have : ¬ (0 ≤ c.offset) := by omega
    simp [a1, a2, this]
  have a2' : 0 ≤ c.offset := by omega
  by_cases a3 : c.strip < 0
  · have : ¬ (0 ≤ c.strip) := by omega
    simp [a1, a2, a3, this]
  have a3' : 0 ≤ c.strip := by omega
  by_cases a4 : c.fieldLen = 1 ∨ c.fieldLen = 2 ∨ c.fieldLen = 4 ∨ c.fieldLen = 8
  · have hw : wrap64 (c.max - c.fieldLen) = c.max - c.fieldLen := by
      apply wrap64_id <;> omega
    rw [hw]
    rcases a4 with h | h | h | h <;> simp [a1, a2, a3, a1', a2', a3', h] <;> split <;> simp_all
  · have b1 : c.fieldLen ≠ 1 := fun h => a4 (Or.inl h)
    have b2 : c.fieldLen ≠ 2 := fun h => a4 (Or.inr (Or.inl h))
    have b3 : c.fieldLen ≠ 4 := fun h => a4 (Or.inr (Or.inr (Or.inl h)))
    have b4 : c.fieldLen ≠ 8 := fun h => a4 (Or.inr (Or.inr (Or.inr h)))
    simp [a1, a2, a3, a1', a2', a3', b1, b2, b3, b4]

/-! ### lengthFieldCodec.HandleRead: from the header read to the last guard -/

theorem wrap64_range (x : Int) : -(2^63) ≤ wrap64 x ∧ wrap64 x < 2^63 := by
  unfold wrap64
  simp only
  split <;> omega

theorem wrap64_idem (x : Int) : wrap64 (wrap64 x) = wrap64 x :=
  wrap64_id _ (wrap64_range x).1 (wrap64_range x).2

@[simp] theorem set_var (env : Env) (x y : String) (v : Int) :
    (env.set x v).var y = if y = x then v else env.var y := rfl
@[simp] theorem set_len (env : Env) (x : String) (v : Int) : (env.set x v).len = env.len := rfl
@[simp] theorem set_opq (env : Env) (x : String) (v : Int) : (env.set x v).opq = env.opq := rfl

theorem run_assign (x op : String) (e : GE) (rest : List GS) (env : Env) :
    run (.assign (.lit 1) x op e :: rest) env =
      run rest (env.set x (if op = "+=" then wrap64 (env.var x + e.eval env)
                           else if op = "-=" then wrap64 (env.var x - e.eval env) else e.eval env)) := by
  simp [run, GS.step, GE.eval]

theorem run_other (g : GE) (src : String) (rest : List GS) (env : Env) :
    run (.other g src :: rest) env = run rest env := by
  simp [run, GS.step]

theorem run_assert_g (g c : GE) (rest : List GS) (env : Env) :
    run (.assert g c :: rest) env = if g.eval env ≠ 0 ∧ c.eval env ≠ 0 then none else run rest env := by
  by_cases h : (g.eval env ≠ 0 ∧ c.eval env ≠ 0) <;> simp [run, GS.step, h]

theorem run_check_g (g : GE) (x : String) (rest : List GS) (env : Env) :
    run (.check g x :: rest) env = if g.eval env ≠ 0 ∧ env.opq x ≠ 0 then none else run rest env := by
  by_cases h : (g.eval env ≠ 0 ∧ env.opq x ≠ 0) <;> simp [run, GS.step, h]

theorem run_assign_g (g : GE) (x op : String) (e : GE) (rest : List GS) (env : Env) :
    run (.assign g x op e :: rest) env =
      if g.eval env = 0 then run rest env else
      run rest (env.set x (if op = "+=" then wrap64 (env.var x + e.eval env)
                           else if op = "-=" then wrap64 (env.var x - e.eval env) else e.eval env)) := by
  by_cases h : g.eval env = 0 <;> simp [run, GS.step, h]

def unpackCall : String := "unpackFieldLength(l.byteOrder, l.lengthFieldLength, lengthFieldBuff)"

def expLFReadGuards : List GS := [
  .assign (.lit 1) "reader" "=" (.opaque "utils.MustToReader(message)"),
  .assign (.lit 1) "lengthFieldEndOffset" "=" (.bin "+" (.var "lengthFieldOffset") (.var "lengthFieldLength")),
  .assign (.lit 1) "headerBuffer" "=" (.opaque "make([]byte, lengthFieldEndOffset)"),
  .other (.lit 1) "n, err := io.ReadFull(reader, headerBuffer)",
  .assert (.lit 1) (.bin "||" (.bin "!=" (.var "n") (.len "headerBuffer")) (.bin "!=" (.var "nil") (.var "err"))),
  .assign (.lit 1) "lengthFieldBuff" "=" (.opaque "headerBuffer[l.lengthFieldOffset:lengthFieldEndOffset]"),
  .assign (.lit 1) "frameLength" "=" (.opaque unpackCall),
  .assert (.lit 1) (.bin "<" (.var "frameLength") (.lit 0)),
  .assign (.lit 1) "frameLength" "+=" (.conv "int64" (.bin "+" (.var "lengthAdjustment") (.var "lengthFieldEndOffset"))),
  .assert (.lit 1) (.bin "<" (.var "frameLength") (.conv "int64" (.var "lengthFieldEndOffset"))),
  .assert (.lit 1) (.bin ">" (.var "frameLength") (.conv "int64" (.var "maxFrameLength"))),
  .assert (.lit 1) (.bin ">" (.conv "int64" (.var "initialBytesToStrip")) (.var "frameLength"))]

/-- what follows the guards: the frame reader, the strip, the hand-over (no guard on the length) -/
def expLFReadRest : List GS := [
  .assign (.lit 1) "frameReader" "=" (.opaque "io.MultiReader( bytes.NewReader(headerBuffer), utils.ExactReader(reader, frameLength-int64(lengthFieldEndOffset)), )"),
  .other (.bin ">" (.var "initialBytesToStrip") (.lit 0)) "n, err := io.CopyN(ioutil.Discard, frameReader, int64(l.initialBytesToStrip))",
  .assert (.bin ">" (.var "initialBytesToStrip") (.lit 0)) (.bin "||" (.bin "!=" (.var "nil") (.var "err")) (.bin "!=" (.conv "int64" (.var "initialBytesToStrip")) (.var "n"))),
  .other (.lit 1) "ctx.HandleRead(frameReader)"]

/-- the guards of `decodeLF` on the unpacked length field `fl0` (as an int64): the adjusted frame length, or `none` = raise -/
def lfFrameLength (c : LFCfg) (fl0 : Int) : Option Int :=
  let endOff := c.offset + c.fieldLen
  if fl0 < 0 then none else
  let fl := wrap64 (fl0 + wrap64 (c.adj + endOff))
  if fl < endOff then none
  else if fl > c.max then none
  else if c.strip > fl then none
  else some fl

theorem expLFReadGuards_sem (c : LFCfg) (env : Env) (he : LFEnv c env) (hv : c.valid = true)
    (hm : I64 c.max) (hs : I64 c.strip)
    (hio : env.var "n" = env.len "headerBuffer" ∧ env.var "nil" = env.var "err")
    (fl0 : Int) (hfl : env.opq unpackCall = fl0) :
    (run expLFReadGuards env).map (fun e => e.var "frameLength") = lfFrameLength c fl0 := by
  obtain ⟨h1, h2, h3, h4, h5⟩ := he
  obtain ⟨hn, hnil⟩ := hio
  unfold I64 at hm hs
  simp only [LFCfg.valid, Bool.and_eq_true, decide_eq_true_eq, Bool.not_eq_true', decide_eq_false_iff_not, Bool.or_eq_true, beq_iff_eq] at hv
  obtain ⟨⟨⟨⟨v1, v2⟩, v3⟩, v4⟩, v5⟩ := hv
  have hend : wrap64 (c.offset + c.fieldLen) = c.offset + c.fieldLen := by
    apply wrap64_id <;> omega
  have hmax : wrap64 c.max = c.max := wrap64_id _ hm.1 hm.2
  have hstrip : wrap64 c.strip = c.strip := wrap64_id _ hs.1 hs.2
  simp [expLFReadGuards, run_assign, run_other, run_assert, run_nil, GE.eval, h1, h2, h3, h4, h5, hn, hnil, hfl,
    hend, hmax, hstrip, wrap64_idem, lfFrameLength]
  repeat' split
  all_goals simp

/-- `decodeLF` is: read the header, apply exactly these guards to the unpacked field, then strip -/
theorem decodeLF_guards (c : LFCfg) (cs : List Bytes) (fin : RErr) :
    decodeLF c cs fin =
      match readFull cs fin (c.offset + c.fieldLen).toNat with
      | (.error _, rest) => .raise rest
      | (.ok hdr, rest) =>
        match lfFrameLength c (wrap64 ((unpack c.big (hdr.drop c.offset.toNat) : Nat) : Int)) with
        | none => .raise rest
        | some fl =>
          if c.strip ≤ c.offset + c.fieldLen then
            .frame { pre := hdr.drop c.strip.toNat, lim := (fl - (c.offset + c.fieldLen)).toNat } rest
          else
            if (readN rest (c.strip - (c.offset + c.fieldLen)).toNat).1.length = (c.strip - (c.offset + c.fieldLen)).toNat then
              .frame { pre := [], lim := (fl - (c.offset + c.fieldLen)).toNat - (c.strip - (c.offset + c.fieldLen)).toNat }
                (readN rest (c.strip - (c.offset + c.fieldLen)).toNat).2
            else .raise (readN rest (c.strip - (c.offset + c.fieldLen)).toNat).2 := by
  unfold decodeLF lfFrameLength
  simp only
  generalize readFull cs fin (c.offset + c.fieldLen).toNat = r
  obtain ⟨r1, rest⟩ := r
  cases r1 with
  | error e => rfl
  | ok hdr =>
    simp only
    repeat' split
    all_goals simp_all

/-! ### packFieldLength and the prepender -/

def expPackFieldLength : List GS := [
  .assert (.lit 1) (.bin "<" (.var "dataLen") (.lit 0)),
  .assign (.lit 1) "lengthBuff" "=" (.opaque "make([]byte, fieldLen)"),
  .assert (.bin "==" (.var "fieldLen") (.lit 1)) (.bin ">" (.var "dataLen") (.lit 255)),
  .other (.bin "==" (.var "fieldLen") (.lit 1)) "lengthBuff[0] = byte(dataLen)",
  .assert (.bin "==" (.var "fieldLen") (.lit 2)) (.bin ">" (.var "dataLen") (.lit 65535)),
  .other (.bin "==" (.var "fieldLen") (.lit 2)) "byteOrder.PutUint16(lengthBuff, uint16(dataLen))",
  .assert (.bin "==" (.var "fieldLen") (.lit 4)) (.bin ">" (.var "dataLen") (.lit 4294967295)),
  .other (.bin "==" (.var "fieldLen") (.lit 4)) "byteOrder.PutUint32(lengthBuff, uint32(dataLen))",
  .other (.bin "==" (.var "fieldLen") (.lit 8)) "byteOrder.PutUint64(lengthBuff, uint64(dataLen))",
  .check (.opaque "default") "fmt.Errorf(\"should not reach here\")",
  .other (.lit 1) "return lengthBuff"]

/-- packFieldLength raises exactly when the model's encoder refuses: negative, or beyond what the field carries -/
theorem expPackFieldLength_sem (fieldLen dataLen : Int) (env : Env)
    (hf : fieldLen = 1 ∨ fieldLen = 2 ∨ fieldLen = 4 ∨ fieldLen = 8) (hd : I64 dataLen)
    (h1 : env.var "fieldLen" = fieldLen) (h2 : env.var "dataLen" = dataLen) (h3 : env.opq "default" = 0) :
    (run expPackFieldLength env).isSome = !decide (dataLen < 0 ∨ dataLen > fieldMax fieldLen) := by
  unfold I64 at hd
  rcases hf with h | h | h | h <;> subst h <;>
    simp [expPackFieldLength, run_assert_g, run_check_g, run_assign_g, run_other, run_nil, GE.eval, h1, h2, h3, fieldMax] <;>
    (repeat' split) <;> simp_all <;> omega

def expPrepHandleWrite : List GS := [
  .assign (.lit 1) "bodyBytes" "=" (.opaque "utils.MustToBytes(message)"),
  .assign (.lit 1) "length" "=" (.bin "+" (.len "bodyBytes") (.var "lengthAdjustment")),
  .assign (.var "lengthIncludesLengthFieldLength") "length" "+=" (.var "lengthFieldLength"),
  .assign (.lit 1) "lengthBuff" "=" (.opaque "packFieldLength(l.byteOrder, l.lengthFieldLength, int64(length))"),
  .other (.lit 1) "ctx.HandleWrite([][]byte{lengthBuff, bodyBytes})"]

/-- the length the prepender hands to packFieldLength is the model's (no 64-bit overflow assumed) -/
theorem expPrepHandleWrite_sem (pc : PrepCfg) (n : Nat) (env : Env)
    (h1 : env.var "lengthAdjustment" = pc.adj) (h2 : env.var "lengthFieldLength" = pc.fieldLen)
    (h3 : env.var "lengthIncludesLengthFieldLength" = b2i pc.incl) (h4 : env.len "bodyBytes" = n)
    (ha : I64 (n + pc.adj)) (hb : I64 (n + pc.adj + pc.fieldLen)) :
    (run expPrepHandleWrite env).map (fun e => e.var "length") =
      some ((n : Int) + pc.adj + (if pc.incl then pc.fieldLen else 0)) := by
  unfold I64 at ha hb
  have w1 : wrap64 (n + pc.adj) = n + pc.adj := wrap64_id _ ha.1 ha.2
  have w2 : wrap64 (n + pc.adj + pc.fieldLen) = n + pc.adj + pc.fieldLen := wrap64_id _ hb.1 hb.2
  cases hi : pc.incl <;>
    simp [expPrepHandleWrite, run_assign_g, run_other, run_nil, GE.eval, h1, h2, h3, h4, hi, w1, w2, b2i]

/-! ### varint codec, fixed / delimiter / variable-length constructors -/

def expVarintHandleRead : List GS := [
  .assign (.lit 1) "reader" "=" (.opaque "utils.MustToReader(message)"),
  .other (.lit 1) "frameLength, err := binary.ReadUvarint(utils.NewByteReader(reader))",
  .check (.lit 1) "err",
  .assert (.lit 1) (.bin ">" (.var "frameLength") (.conv "uint64" (.var "maxFrameLength"))),
  .other (.lit 1) "ctx.HandleRead(utils.ExactReader(reader, int64(frameLength)))"]

theorem expVarintHandleRead_sem (max v : Int) (env : Env) (hm : 0 < max ∧ max < 2^63)
    (h1 : env.var "maxFrameLength" = max) (h2 : env.var "frameLength" = v) (h3 : env.opq "err" = 0) :
    (run expVarintHandleRead env).isSome = !decide (v > max) := by
  have : max % (2^64 : Int) = max := Int.emod_eq_of_lt (by omega) (by omega)
  have this' : max % 18446744073709551616 = max := this
  simp [expVarintHandleRead, run_assert_g, run_check_g, run_assign_g, run_other, run_nil, GE.eval, h1, h2, h3, this']
  split <;> simp_all

def expVarintHandleWrite : List GS := [
  .assign (.lit 1) "bodyBytes" "=" (.opaque "utils.MustToBytes(message)"),
  .assert (.lit 1) (.bin ">" (.len "bodyBytes") (.var "maxFrameLength")),
  .assign (.lit 1) "head" "=" (.opaque "[binary.MaxVarintLen64]byte{}"),
  .assign (.lit 1) "n" "=" (.opaque "binary.PutUvarint(head[:], uint64(len(bodyBytes)))"),
  .other (.lit 1) "ctx.HandleWrite([][]byte{ head[:n], bodyBytes, })"]

theorem expVarintHandleWrite_sem (max : Int) (n : Nat) (env : Env)
    (h1 : env.var "maxFrameLength" = max) (h2 : env.len "bodyBytes" = n) :
    (run expVarintHandleWrite env).isSome = !decide ((n : Int) > max) := by
  simp [expVarintHandleWrite, run_assert_g, run_assign_g, run_other, run_nil, GE.eval, h1, h2]
  split <;> simp_all

def expPositive (name : String) : List GS := [.assert (.lit 1) (.bin "<=" (.var name) (.lit 0))]

theorem expPositive_sem (name : String) (v : Int) (env : Env) (h : env.var name = v) :
    (run (expPositive name) env).isSome = decide (v > 0) := by
  simp [expPositive, run_assert_g, run_nil, GE.eval, h]
  split <;> simp_all <;> omega

def expDelimiterCodec : List GS := [
  .assert (.lit 1) (.bin "<=" (.var "maxFrameLength") (.lit 0)),
  .assert (.lit 1) (.bin "<=" (.len "delimiter") (.lit 0))]

theorem expDelimiterCodec_sem (d : Bytes) (m : Int) (s : Bool) (env : Env)
    (h1 : env.var "maxFrameLength" = m) (h2 : env.len "delimiter" = d.length) :
    (run expDelimiterCodec env).isSome = (Codec.delim d m s).valid := by
  simp [expDelimiterCodec, run_assert_g, run_nil, GE.eval, h1, h2, Codec.valid]
  cases d <;> (repeat' split) <;> simp_all <;> omega

/-! ### utils.exactReader.Read (the frame body every length-based decoder hands out) -/

def expExactRead : List GS := [
  .other (.bin "<=" (.var "e.n") (.lit 0)) "return 0, io.EOF",
  .assign (.bin ">" (.conv "int64" (.len "p")) (.var "e.n")) "p" "=" (.opaque "p[0:e.n]"),
  .other (.lit 1) "n, err = e.r.Read(p)",
  .assign (.lit 1) "e.n" "-=" (.conv "int64" (.var "n")),
  .assign (.bin "&&" (.bin "==" (.var "err") (.opaque "io.EOF")) (.bin ">" (.var "e.n") (.lit 0))) "err" "=" (.opaque "io.ErrUnexpectedEOF"),
  .other (.lit 1) "return"]

/-- the four decisions of `exactReader.Read`, read off the extracted statements, are those of the model
    `ExactR.read`: (a) it answers (0, io.EOF) at once iff the counter is not positive; (b) it shortens the
    buffer iff the buffer is longer than the counter; (c) after the underlying Read returned `k` bytes and
    the error code `errc` the counter is `n - k` and (d) the error is turned into ErrUnexpectedEOF iff it
    is io.EOF and the counter is still positive -/
theorem expExactRead_sem (n : Int) (plen : Nat) (env : Env)
    (h1 : env.var "e.n" = n) (h2 : env.len "p" = plen) (hp : (plen : Int) < 2^63) :
    (GE.eval env (.bin "<=" (.var "e.n") (.lit 0)) ≠ 0 ↔ n ≤ 0) ∧
    (GE.eval env (.bin ">" (.conv "int64" (.len "p")) (.var "e.n")) ≠ 0 ↔ (plen : Int) > n) ∧
    (∀ (k errc eofc ueofc : Int) (env' : Env), env'.var "e.n" = n → env'.var "n" = k → env'.var "err" = errc →
      env'.opq "io.EOF" = eofc → env'.opq "io.ErrUnexpectedEOF" = ueofc → I64 k → I64 (n - k) →
      (run (expExactRead.drop 3) env').map (fun e => (e.var "e.n", e.var "err")) =
        some (n - k, if errc = eofc ∧ n - k > 0 then ueofc else errc)) := by
  have hw : wrap64 (plen : Int) = plen := wrap64_id _ (by omega) hp
  refine ⟨?_, ?_, ?_⟩
  · simp [GE.eval, h1]
  · simp [GE.eval, h1, h2, hw]
  · intro k errc eofc ueofc env' e1 e2 e3 e4 e5 hk hnk
    unfold I64 at hk hnk
    have w1 : wrap64 k = k := wrap64_id _ hk.1 hk.2
    have w2 : wrap64 (n - k) = n - k := wrap64_id _ hnk.1 hnk.2
    simp [expExactRead, run_assign_g, run_other, run_nil, GE.eval, e1, e2, e3, e4, e5, w1, w2]
    by_cases hc : errc = eofc
    · subst hc
      by_cases hk' : n ≤ k
      · have : ¬ (k < n) := by omega
        have : ¬ (0 < n - k) := by omega
        simp [hk', *]
      · have : k < n := by omega
        have : 0 < n - k := by omega
        simp [hk', *]
    · simp [hc, e3]

end NettyVerif.Guards
