import NettyVerif.Model.HB
/-! Lock and token disciplines order conflicting accesses by happens-before; the policy theorem. -/
namespace NettyVerif.HB

theorem relOp_not_access (s : Bool) (l : Nat) : (relOp s l).access = none := by
  cases s <;> rfl

/-- two critical sections of one lock, not both shared, by different goroutines: the earlier
    access happens-before the later one -/
theorem held_ordered (tr : Trace) (hwf : WF tr) (l i j : Nat) (ei ej : Ev) (s1 s2 : Bool)
    (hij : i < j) (hi : tr[i]? = some ei) (hj : tr[j]? = some ej)
    (hacc : ei.op.access ≠ none) (hne : ei.tid ≠ ej.tid) (hs : ¬(s1 = true ∧ s2 = true))
    (h1 : Held tr ei.tid l s1 i) (h2 : Held tr ej.tid l s2 j) : HB tr i j := by
  obtain ⟨a1, e1, ha1i, ha1, ht1, ho1, hno1⟩ := h1
  obtain ⟨a2, e2, ha2j, ha2, ht2, ho2, hno2⟩ := h2
  have hne12 : a1 ≠ a2 := by
    intro h; subst h; rw [ha1] at ha2; injection ha2 with h; subst h
    exact hne (ht1.symm.trans ht2)
  by_cases hlt : a2 < a1
  · obtain ⟨r, er, har, hra, hr, hrt, hro⟩ := hwf.lock a2 a1 e2 e1 l s2 s1 hlt ha2 ha1 ho2 ho1 (fun h => hs ⟨h.2, h.1⟩)
    exact absurd ⟨hrt.trans ht2, hro⟩ (hno2 r er har (by omega) hr)
  · have hlt' : a1 < a2 := by omega
    obtain ⟨r, er, har, hra, hr, hrt, hro⟩ := hwf.lock a1 a2 e1 e2 l s1 s2 hlt' ha1 ha2 ho1 ho2 hs
    have hri : i < r := by
      rcases Nat.lt_trichotomy r i with h | h | h
      · exact absurd ⟨hrt.trans ht1, hro⟩ (hno1 r er har h hr)
      · subst h; rw [hi] at hr; injection hr with h; subst h
        exact absurd (hro ▸ relOp_not_access s1 l) hacc
      · exact h
    have s1' : HB tr i r := .step hri hi hr (Or.inl (hrt.trans ht1).symm)
    have s2' : HB tr r a2 := .step hra hr ha2 (Or.inr (Or.inl ⟨l, s1, s2, hro, ho2, hs⟩))
    have s3' : HB tr a2 j := .step ha2j ha2 hj (Or.inl ht2)
    exact .trans (.trans s1' s2') s3'

/-- two ownership periods of one token by different goroutines -/
theorem owns_ordered (tr : Trace) (hwf : WF tr) (k i j : Nat) (ei ej : Ev)
    (hij : i < j) (hi : tr[i]? = some ei) (hj : tr[j]? = some ej)
    (hacc : ei.op.access ≠ none) (hne : ei.tid ≠ ej.tid)
    (h1 : Owns tr ei.tid k i) (h2 : Owns tr ej.tid k j) : HB tr i j := by
  obtain ⟨a1, e1, ha1i, ha1, ho1, hno1⟩ := h1
  obtain ⟨a2, e2, ha2j, ha2, ho2, hno2⟩ := h2
  have hne12 : a1 ≠ a2 := by
    intro h; subst h; rw [ha1] at ha2; injection ha2 with h; subst h
    rw [ho1] at ho2; injection ho2 with _ h; exact hne h
  by_cases hlt : a2 < a1
  · obtain ⟨r, er, har, hra, hr, hrt, hro⟩ := hwf.token a2 a1 e2 e1 k _ _ hlt ha2 ha1 ho2 ho1
    exact absurd ⟨hrt, hro⟩ (hno2 r er har (by omega) hr)
  · have hlt' : a1 < a2 := by omega
    obtain ⟨r, er, har, hra, hr, hrt, hro⟩ := hwf.token a1 a2 e1 e2 k _ _ hlt' ha1 ha2 ho1 ho2
    have hri : i < r := by
      rcases Nat.lt_trichotomy r i with h | h | h
      · exact absurd ⟨hrt, hro⟩ (hno1 r er har h hr)
      · subst h; rw [hi] at hr; injection hr with h; subst h
        exact absurd (by rw [hro]; rfl) hacc
      · exact h
    have s1' : HB tr i r := .step hri hi hr (Or.inl hrt.symm)
    have s2' : HB tr r a2 := .step hra hr ha2 (Or.inr (Or.inr (Or.inl ⟨k, _, hro, ho2⟩)))
    have s3' : HB tr a2 j := .step ha2j ha2 hj (Or.inr (Or.inr (Or.inr (Or.inr ⟨k, ho2⟩))))
    exact .trans (.trans s1' s2') s3'

/-- **policy ⇒ race freedom**: in every well-formed trace whose accesses obey a protection policy
    and whose objects are safely published, any two conflicting accesses are ordered by
    happens-before -/
theorem policy_race_free (tr : Trace) (pol : Nat → Disc) (S : Nat → Prop) (hwf : WF tr) (hc : Conforms tr pol S)
    (hinit : InitFirst tr) : ∀ x i j, S x → ¬ RaceOn tr x i j := by
  intro x i j hS ⟨hij, ei, ej, wi, ai, wj, aj, hi, hj, hai, haj, hne, hw, hat, hnhb⟩
  apply hnhb
  have hacc : ei.op.access ≠ none := by rw [hai]; simp
  cases hii : ei.init with
  | true =>
    cases hji : ej.init with
    | true => exact absurd (hinit.single i j ei ej x wi ai wj aj hi hj hai haj hii hji) hne
    | false => exact (hinit.before i j ei ej x wi ai wj aj hi hj hai haj hii hji).2
  | false =>
    cases hji : ej.init with
    | true =>
      have := (hinit.before j i ej ei x wj aj wi ai hj hi haj hai hji hii).1
      omega
    | false =>
      have c1 := hc i ei x wi ai hS hi hii hai
      have c2 := hc j ej x wj aj hS hj hji haj
      cases hp : pol x with
      | immutable =>
        rw [hp] at c1 c2; simp only at c1 c2
        rcases hw with h | h
        · rw [c1.1] at h; cases h
        · rw [c2.1] at h; cases h
      | atomic =>
        rw [hp] at c1 c2; simp only at c1 c2
        exact absurd ⟨c1, c2⟩ hat
      | guarded l =>
        rw [hp] at c1 c2; simp only at c1 c2
        rcases c1.2 with g1 | ⟨w1, g1⟩ <;> rcases c2.2 with g2 | ⟨w2, g2⟩
        · exact held_ordered tr hwf l i j ei ej false false hij hi hj hacc hne (by simp) g1 g2
        · exact held_ordered tr hwf l i j ei ej false true hij hi hj hacc hne (by simp) g1 g2
        · exact held_ordered tr hwf l i j ei ej true false hij hi hj hacc hne (by simp) g1 g2
        · rcases hw with h | h
          · rw [w1] at h; cases h
          · rw [w2] at h; cases h
      | owned k =>
        rw [hp] at c1 c2; simp only at c1 c2
        exact owns_ordered tr hwf k i j ei ej hij hi hj hacc hne c1.2 c2.2

end NettyVerif.HB
