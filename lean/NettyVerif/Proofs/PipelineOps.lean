import NettyVerif.Proofs.Pipeline
/-! Refinement of the pointer-level pipeline operations to the handler-list specification. -/
namespace NettyVerif.Pipeline

/-- concrete pipe `p` with user contexts `addrs` (between head and tail) represents list `s` -/
structure Refines (p : Pipe) (addrs : List Nat) (s : Spec) : Prop where
  wf : WF p (headA :: addrs ++ [tailA])
  abs : addrs.map p.hdl = s
  hh : p.hdl headA = headH
  ht : p.hdl tailA = tailH

theorem refines_new : Refines newPipe [] [] :=
  ⟨by simpa using wf_new, rfl, by simp [newPipe, upd, headA, tailA], by simp [newPipe, tailA]⟩

/-- sequential insertion: each new node is inserted after the previous one -/
theorem foldInsert_wf : ∀ (hs : List Handler) (p : Pipe) (xs ys : List Nat) (c o : Nat),
    WF p (xs ++ c :: o :: ys) →
    ∃ p' ns last, foldOpt insertAfter (p, c) hs = some (p', last) ∧
      WF p' (xs ++ c :: ns ++ o :: ys) ∧ ns.map p'.hdl = hs ∧
      (∀ a, a < p.fresh → p'.hdl a = p.hdl a) ∧ p.fresh ≤ p'.fresh
  | [], p, xs, ys, c, o, hwf => ⟨p, [], c, rfl, by simpa using hwf, rfl, fun _ _ => rfl, Nat.le_refl _⟩
  | h :: hs, p, xs, ys, c, o, hwf => by
    obtain ⟨p1, hi, hwf1, hh1, hold1, hfr1⟩ := insertAfter_wf p xs ys c o h hwf
    have hwf1' : WF p1 ((xs ++ [c]) ++ p.fresh :: o :: ys) := by simpa using hwf1
    obtain ⟨p', ns, last, hf, hwf', hmap, hold', hfr'⟩ := foldInsert_wf hs p1 (xs ++ [c]) ys p.fresh o hwf1'
    refine ⟨p', p.fresh :: ns, last, ?_, by simpa using hwf', ?_, ?_, by omega⟩
    · simp only [foldOpt, hi, Option.bind_some]; exact hf
    · simp only [List.map_cons, hmap]
      rw [hold' p.fresh (by omega), hh1]
    · intro a ha
      rw [hold' a (by omega), hold1 a ha]

theorem addFirst1_eq (p : Pipe) (h : Handler) :
    addFirst1 p h = (insertAfter (p, headA) h).map (·.1) := by
  simp only [addFirst1, insertAfter]
  cases p.next headA <;> rfl

theorem addFirst1_refines (p : Pipe) (addrs : List Nat) (s : Spec) (h : Handler) (hr : Refines p addrs s) :
    ∃ p', addFirst1 p h = some p' ∧ Refines p' (p.fresh :: addrs) (h :: s) := by
  obtain ⟨wf, abs, hh, ht⟩ := hr
  have hlt := wf.lt
  -- L = [] ++ head :: o :: ys
  obtain ⟨o, ys, hL⟩ : ∃ o ys, addrs ++ [tailA] = o :: ys := by
    cases addrs with
    | nil => exact ⟨tailA, [], rfl⟩
    | cons a as => exact ⟨a, as ++ [tailA], rfl⟩
  have wf0 : WF p ([] ++ headA :: o :: ys) := by simpa [hL] using wf
  obtain ⟨p', hi, hwf', hh', hold, _⟩ := insertAfter_wf p [] ys headA o h wf0
  refine ⟨p', by rw [addFirst1_eq, hi]; rfl, ?_, ?_, ?_, ?_⟩
  · have : headA :: (p.fresh :: addrs) ++ [tailA] = [] ++ headA :: p.fresh :: o :: ys := by
      simp [← hL]
    rw [this]; exact hwf'
  · simp only [List.map_cons, hh']
    congr 1
    rw [← abs]
    apply List.map_congr_left
    intro a ha
    exact hold a (hlt a (by simp [ha]))
  · rw [hold _ (hlt headA (by simp))]; exact hh
  · rw [hold _ (hlt tailA (by simp))]; exact ht

theorem foldAddFirst_refines : ∀ (hs : List Handler) (p : Pipe) (addrs : List Nat) (s : Spec),
    Refines p addrs s → ∃ p' addrs', foldOpt addFirst1 p hs = some p' ∧ Refines p' addrs' (hs.reverse ++ s)
  | [], p, addrs, s, hr => ⟨p, addrs, rfl, by simpa using hr⟩
  | h :: hs, p, addrs, s, hr => by
    obtain ⟨p1, h1, hr1⟩ := addFirst1_refines p addrs s h hr
    obtain ⟨p', addrs', hf, hr'⟩ := foldAddFirst_refines hs p1 _ _ hr1
    refine ⟨p', addrs', ?_, by simpa using hr'⟩
    simp only [foldOpt, h1, Option.bind_some]; exact hf

/-- the last user context (or head) precedes the tail in both directions -/
theorem addLast1_refines (p : Pipe) (addrs : List Nat) (s : Spec) (h : Handler) (hr : Refines p addrs s) :
    ∃ p', addLast1 p h = some p' ∧ Refines p' (addrs ++ [p.fresh]) (s ++ [h]) := by
  obtain ⟨wf, abs, hh, ht⟩ := hr
  have hlt := wf.lt
  -- headA :: addrs = xs ++ [c]
  obtain ⟨xs, c, hxc⟩ : ∃ xs c, headA :: addrs = xs ++ [c] := by
    rcases List.eq_nil_or_concat addrs with rfl | ⟨as, a, rfl⟩
    · exact ⟨[], headA, rfl⟩
    · exact ⟨headA :: as, a, by simp⟩
  have hL : headA :: addrs ++ [tailA] = xs ++ c :: tailA :: [] := by
    rw [show headA :: addrs ++ [tailA] = (headA :: addrs) ++ [tailA] by simp, hxc]; simp
  have wf0 : WF p (xs ++ c :: tailA :: []) := by rw [← hL]; exact wf
  obtain ⟨p', hi, hwf', hh', hold, _⟩ := insertAfter_wf p xs [] c tailA h wf0
  -- the code reads tail.prev instead of c.next: equal under well-formedness
  have hprev : p.prev tailA = some c := by
    have hb := wf0.bwd
    have : (xs ++ [c, tailA]).reverse = [] ++ tailA :: c :: xs.reverse := by simp
    rw [this] at hb
    exact (Path.split hb).2.first
  have hnext : p.next c = some tailA := (Path.split wf0.fwd).2.first
  have heq : addLast1 p h = some p' := by
    simp only [insertAfter, hnext, alloc] at hi
    simp only [addLast1, hprev, alloc]
    injection hi with hi
    injection hi with hi _
    rw [← hi]
  refine ⟨p', heq, ?_, ?_, ?_, ?_⟩
  · have : headA :: (addrs ++ [p.fresh]) ++ [tailA] = xs ++ c :: p.fresh :: tailA :: [] := by
      rw [show headA :: (addrs ++ [p.fresh]) ++ [tailA] = (headA :: addrs) ++ [p.fresh, tailA] by simp, hxc]; simp
    rw [this]; exact hwf'
  · simp only [List.map_append, List.map_cons, List.map_nil, hh']
    congr 1
    rw [← abs]
    apply List.map_congr_left
    intro a ha
    exact hold a (hlt a (by simp [ha]))
  · rw [hold _ (hlt headA (by simp))]; exact hh
  · rw [hold _ (hlt tailA (by simp))]; exact ht

theorem foldAddLast_refines : ∀ (hs : List Handler) (p : Pipe) (addrs : List Nat) (s : Spec),
    Refines p addrs s → ∃ p' addrs', foldOpt addLast1 p hs = some p' ∧ Refines p' addrs' (s ++ hs)
  | [], p, addrs, s, hr => ⟨p, addrs, rfl, by simpa using hr⟩
  | h :: hs, p, addrs, s, hr => by
    obtain ⟨p1, h1, hr1⟩ := addLast1_refines p addrs s h hr
    obtain ⟨p', addrs', hf, hr'⟩ := foldAddLast_refines hs p1 _ _ hr1
    refine ⟨p', addrs', ?_, by simpa using hr'⟩
    simp only [foldOpt, h1, Option.bind_some]; exact hf

/-- walking `k` links along a path reaches its `k`-th node -/
theorem walkNext_path {p : Pipe} : ∀ {L : List Nat} {a b : Nat} (k : Nat), Path p.next a L b →
    (hk : k < L.length) → walkNext p k a = some L[k]
  | _, _, _, 0, hp, _ => by
    cases hp <;> rfl
  | _, _, _, k+1, hp, hk => by
    cases hp with
    | single a => simp at hk
    | cons hn hp' =>
      simp only [walkNext, hn, Option.bind_some]
      have := walkNext_path k hp' (by simpa using hk)
      simpa using this


theorem walkNext_split {p : Pipe} : ∀ {xs : List Nat} {a b c : Nat} {rest : List Nat},
    Path p.next a (xs ++ c :: rest) b → walkNext p xs.length a = some c
  | [], _, _, _, _, hp => by have := hp.head_eq; subst this; rfl
  | x :: xs, _, _, _, _, hp => by
    simp only [List.cons_append] at hp
    generalize hl : xs ++ _ :: _ = l at hp
    cases hp with
    | single => simp at hl
    | cons hn hp' =>
      subst hl
      simp only [List.length_cons, walkNext, hn, Option.bind_some]
      exact walkNext_split hp'

theorem refines_size {p addrs s} (hr : Refines p addrs s) : p.size = s.length + 2 := by
  have := hr.wf.size
  rw [this, ← hr.abs]; simp

theorem addFirst_refines (p : Pipe) (addrs : List Nat) (s : Spec) (hs : List Handler) (hr : Refines p addrs s) :
    match Spec.addFirst s hs with
    | none => addFirst p hs = .panic
    | some s' => ∃ p' addrs', addFirst p hs = .ok p' ∧ Refines p' addrs' s' := by
  unfold Spec.addFirst addFirst
  by_cases ha : admissible hs
  · simp only [ha, ite_true, Bool.not_true, Bool.false_eq_true, ite_false]
    obtain ⟨p', addrs', hf, hr'⟩ := foldAddFirst_refines hs p addrs s hr
    exact ⟨p', addrs', by simp [hf], hr'⟩
  · simp [ha]

theorem addLast_refines (p : Pipe) (addrs : List Nat) (s : Spec) (hs : List Handler) (hr : Refines p addrs s) :
    match Spec.addLast s hs with
    | none => addLast p hs = .panic
    | some s' => ∃ p' addrs', addLast p hs = .ok p' ∧ Refines p' addrs' s' := by
  unfold Spec.addLast addLast
  by_cases ha : admissible hs
  · simp only [ha, ite_true, Bool.not_true, Bool.false_eq_true, ite_false]
    obtain ⟨p', addrs', hf, hr'⟩ := foldAddLast_refines hs p addrs s hr
    exact ⟨p', addrs', by simp [hf], hr'⟩
  · simp [ha]

theorem addHandler_refines (p : Pipe) (addrs : List Nat) (s : Spec) (pos : Int) (hs : List Handler)
    (hr : Refines p addrs s) :
    match Spec.addHandler s pos hs with
    | none => addHandler p pos hs = .panic
    | some s' => ∃ p' addrs', addHandler p pos hs = .ok p' ∧ Refines p' addrs' s' := by
  have hsize := refines_size hr
  have hlen : addrs.length = s.length := by rw [← hr.abs]; simp
  unfold Spec.addHandler addHandler
  by_cases ha : admissible hs
  · simp only [ha, Bool.not_true, Bool.false_eq_true, ite_false]
    by_cases h1 : pos ≥ (s.length : Int) + 2
    · have : pos ≥ (p.size : Int) := by omega
      simp [h1, this]
    · have h1' : ¬ pos ≥ (p.size : Int) := by omega
      simp only [h1, h1', ite_false]
      by_cases h2 : pos = -1 ∨ pos = (s.length : Int) + 1
      · have h2' : pos = -1 ∨ pos = (p.size : Int) - 1 := by omega
        simp only [h2, h2', ite_true]
        have := addLast_refines p addrs s hs hr
        simp only [Spec.addLast, ha, ite_true] at this
        exact this
      · have h2' : ¬ (pos = -1 ∨ pos = (p.size : Int) - 1) := by omega
        simp only [h2, h2', ite_false]
        -- k ≤ |addrs|
        have hk : pos.toNat ≤ addrs.length := by omega
        generalize pos.toNat = k at hk ⊢
        obtain ⟨wf, abs, hh, ht⟩ := hr
        obtain ⟨xs, c, hxc⟩ : ∃ xs c, headA :: addrs.take k = xs ++ [c] := by
          rcases List.eq_nil_or_concat (addrs.take k) with h | ⟨as, a, h⟩
          · exact ⟨[], headA, by rw [h]; rfl⟩
          · exact ⟨headA :: as, a, by rw [h]; simp⟩
        obtain ⟨o, ys, hoy⟩ : ∃ o ys, addrs.drop k ++ [tailA] = o :: ys := by
          cases hd : addrs.drop k with
          | nil => exact ⟨tailA, [], rfl⟩
          | cons a as => exact ⟨a, as ++ [tailA], rfl⟩
        have hL : headA :: addrs ++ [tailA] = xs ++ c :: o :: ys := by
          calc headA :: addrs ++ [tailA]
              = (headA :: addrs.take k) ++ (addrs.drop k ++ [tailA]) := by
                simp only [List.cons_append, ← List.append_assoc, List.take_append_drop]
            _ = xs ++ c :: o :: ys := by rw [hxc, hoy]; simp
        have wf0 : WF p (xs ++ c :: o :: ys) := by rw [← hL]; exact wf
        have hxl : xs.length = k := by
          have := congrArg List.length hxc
          simp [List.length_take, Nat.min_eq_left hk] at this; omega
        have hw : walkNext p k headA = some c := by
          rw [← hxl]; exact walkNext_split wf0.fwd
        obtain ⟨p', ns, last, hf, hwf', hmap, hold, _⟩ := foldInsert_wf hs p xs ys c o wf0
        simp only [hw, hf]
        have hlt := wf.lt
        refine ⟨p', addrs.take k ++ ns ++ addrs.drop k, rfl, ?_, ?_, ?_, ?_⟩
        · have : headA :: (addrs.take k ++ ns ++ addrs.drop k) ++ [tailA] = xs ++ c :: ns ++ o :: ys := by
            calc headA :: (addrs.take k ++ ns ++ addrs.drop k) ++ [tailA]
                = (headA :: addrs.take k) ++ ns ++ (addrs.drop k ++ [tailA]) := by simp
              _ = xs ++ c :: ns ++ o :: ys := by rw [hxc, hoy]; simp
          rw [this]; exact hwf'
        · have hmapold : ∀ l : List Nat, (∀ a ∈ l, a ∈ addrs) → l.map p'.hdl = l.map p.hdl := by
            intro l hl
            apply List.map_congr_left
            intro a ha'
            exact hold a (hlt a (by simp [hl a ha']))
          simp only [List.map_append, hmap]
          rw [hmapold _ (fun a h => List.mem_of_mem_take h), hmapold _ (fun a h => List.mem_of_mem_drop h),
            ← abs, List.map_take, List.map_drop]
        · rw [hold _ (hlt headA (by simp))]; exact hh
        · rw [hold _ (hlt tailA (by simp))]; exact ht
  · simp [ha]


/-- IndexOf's loop along a `next`-path that ends in a node without successor -/
theorem indexOfFrom_path {p : Pipe} (pred : Handler → Bool) : ∀ (L : List Nat) (a b : Nat) (fuel i : Nat),
    Path p.next a L b → p.next b = none → L.length ≤ fuel →
    indexOfFrom p pred fuel a i =
      match (L.map p.hdl).findIdx? pred with | some j => ((i + j : Nat) : Int) | none => -1
  | L, a, b, 0, _, hp, _, hf => by cases hp <;> simp at hf
  | L, a, b, fuel+1, i, hp, hb, hf => by
    cases hp with
    | single =>
      cases h : pred (p.hdl a) <;> simp [indexOfFrom, List.findIdx?_cons, hb, h]
    | @cons _ c _ xs hn hp' =>
      have ih := indexOfFrom_path pred xs c b fuel (i+1) hp' hb (by simpa using hf)
      cases h : pred (p.hdl a)
      · simp only [indexOfFrom, h, Bool.false_eq_true, ite_false, hn, ih, List.map_cons, List.findIdx?_cons]
        cases (List.map p.hdl xs).findIdx? pred with
        | none => simp
        | some j => simp; ac_rfl
      · simp [indexOfFrom, List.findIdx?_cons, h]

theorem lastIndexOfFrom_path {p : Pipe} (pred : Handler → Bool) : ∀ (L : List Nat) (a b : Nat) (fuel : Nat) (i : Int),
    Path p.prev a L b → p.prev b = none → L.length ≤ fuel →
    lastIndexOfFrom p pred fuel a i =
      match (L.map p.hdl).findIdx? pred with | some j => i - (j : Int) | none => -1
  | L, a, b, 0, _, hp, _, hf => by cases hp <;> simp at hf
  | L, a, b, fuel+1, i, hp, hb, hf => by
    cases hp with
    | single =>
      cases h : pred (p.hdl a) <;> simp [lastIndexOfFrom, List.findIdx?_cons, hb, h]
    | @cons _ c _ xs hn hp' =>
      have ih := lastIndexOfFrom_path pred xs c b fuel (i-1) hp' hb (by simpa using hf)
      cases h : pred (p.hdl a)
      · simp only [lastIndexOfFrom, h, Bool.false_eq_true, ite_false, hn, ih, List.map_cons, List.findIdx?_cons]
        cases (List.map p.hdl xs).findIdx? pred with
        | none => simp
        | some j => simp; rw [Int.sub_sub, Int.add_comm]
      · simp [lastIndexOfFrom, List.findIdx?_cons, h]

theorem refines_all {p addrs s} (hr : Refines p addrs s) :
    (headA :: addrs ++ [tailA]).map p.hdl = s.all := by
  simp [Spec.all, hr.abs, hr.hh, hr.ht]

theorem indexOf_refines {p addrs s} (hr : Refines p addrs s) (pred : Handler → Bool) :
    indexOf p pred = s.indexOf pred := by
  unfold indexOf Spec.indexOf
  rw [indexOfFrom_path pred _ _ _ (p.fresh + 1) 0 hr.wf.fwd hr.wf.tailNext (by have := hr.wf.lenLe; omega), refines_all hr]
  cases s.all.findIdx? pred <;> simp

theorem lastIndexOf_refines {p addrs s} (hr : Refines p addrs s) (pred : Handler → Bool) :
    lastIndexOf p pred = s.lastIndexOf pred := by
  unfold lastIndexOf Spec.lastIndexOf
  rw [lastIndexOfFrom_path pred _ _ _ (p.fresh + 1) _ hr.wf.bwd hr.wf.headPrev
    (by have := hr.wf.lenLe; simp at this ⊢; omega), List.map_reverse, refines_all hr]
  have : (p.size : Int) = s.all.length := by rw [refines_size hr]; simp [Spec.all]; omega
  cases s.all.reverse.findIdx? pred <;> simp [this] <;> omega

/-- ContextAt returns the context at that position of the list (nil for -1 and beyond the end) -/
theorem contextAt_refines {p addrs s} (hr : Refines p addrs s) (pos : Int) :
    (pos = -1 ∨ pos ≥ (s.length : Int) + 2 → contextAt p pos = .ok none) ∧
    (¬ (pos = -1 ∨ pos ≥ (s.length : Int) + 2) →
      ∃ a, contextAt p pos = .ok (some a) ∧ (headA :: addrs ++ [tailA])[pos.toNat]? = some a ∧
        s.all[pos.toNat]? = some (p.hdl a)) := by
  have hsize := refines_size hr
  constructor
  · intro h
    have : pos = -1 ∨ pos ≥ (p.size : Int) := by omega
    simp [contextAt, this]
  · intro h
    have h' : ¬ (pos = -1 ∨ pos ≥ (p.size : Int)) := by omega
    have hlen : (headA :: addrs ++ [tailA]).length = s.length + 2 := by rw [← hr.abs]; simp
    have hk : pos.toNat < (headA :: addrs ++ [tailA]).length := by omega
    have hw := walkNext_path pos.toNat hr.wf.fwd hk
    refine ⟨(headA :: addrs ++ [tailA])[pos.toNat], by simp only [contextAt, h', ite_false, hw], by simp, ?_⟩
    rw [← refines_all hr, List.getElem?_map, List.getElem?_eq_getElem hk]
    rfl


/-- list-level routing over the contexts that follow the starting context in travel direction -/
def deliverL (p : Pipe) (k : Kind) : List Nat → List Nat × Final
  | [] => ([], .dropped)
  | b :: rest =>
    if (p.hdl b).implements k then
      if b = headA then ([b], .chanWrite)
      else if b = tailA then ([b], .close)
      else if (p.hdl b).forwards k then ((b :: (deliverL p k rest).1), (deliverL p k rest).2)
      else ([b], .stopped)
    else deliverL p k rest

theorem deliverL_skip (p : Pipe) (k : Kind) : ∀ (pre : List Nat) (rest : List Nat),
    (∀ x ∈ pre, (p.hdl x).implements k = false) → deliverL p k (pre ++ rest) = deliverL p k rest
  | [], _, _ => rfl
  | x :: pre, rest, h => by
    have hx := h x (by simp)
    simp only [List.cons_append, deliverL, hx, Bool.false_eq_true, ite_false]
    exact deliverL_skip p k pre rest (fun y hy => h y (by simp [hy]))

/-- the per-interface forwarding loop finds the first implementer along the path -/
theorem findImpl_path (p : Pipe) (dir : Pipe → Nat → Option Nat) (k : Kind) :
    ∀ (rest : List Nat) (a e fuel : Nat), Path (dir p) a (a :: rest) e → dir p e = none → rest.length < fuel →
    (findImpl p dir k fuel a = none ∧ ∀ x ∈ rest, (p.hdl x).implements k = false) ∨
    (∃ pre b post, rest = pre ++ b :: post ∧ (∀ x ∈ pre, (p.hdl x).implements k = false) ∧
      (p.hdl b).implements k = true ∧ findImpl p dir k fuel a = some b)
  | [], a, e, fuel+1, hp, he, _ => by
    cases hp with
    | single => left; simp [findImpl, he]
    | cons hn hp' => exact absurd rfl hp'.ne_nil
  | x :: rest, a, e, fuel+1, hp, he, hf => by
    cases hp with
    | cons hn hp' =>
      have hx := hp'.head_eq; subst hx
      simp only [findImpl, hn]
      cases hi : (p.hdl x).implements k
      · simp only [Bool.false_eq_true, ite_false]
        rcases findImpl_path p dir k rest x e fuel hp' he (by simpa using hf) with ⟨h1, h2⟩ | ⟨pre, b, post, h1, h2, h3, h4⟩
        · left; refine ⟨h1, ?_⟩
          intro y hy; rcases List.mem_cons.1 hy with rfl | hy
          · exact hi
          · exact h2 y hy
        · right; refine ⟨x :: pre, b, post, by simp [h1], ?_, h3, h4⟩
          intro y hy; rcases List.mem_cons.1 hy with rfl | hy
          · exact hi
          · exact h2 y hy
      · right; exact ⟨[], x, rest, rfl, by simp, hi, by simp⟩

/-- **routing, pointer level = list level**: delivering from context `a` invokes exactly what the
    list-level scan over the contexts after `a` (in travel direction) says -/
theorem deliver_eq (p : Pipe) (k : Kind) : ∀ (fuel : Nat) (rest : List Nat) (a e : Nat),
    Path (dirOf k p) a (a :: rest) e → dirOf k p e = none → rest.length < fuel → rest.length < p.fresh + 1 →
    deliver p k fuel a = deliverL p k rest
  | 0, _, _, _, _, _, hf, _ => by simp at hf
  | fuel+1, rest, a, e, hp, he, hf, hfr => by
    simp only [deliver]
    rcases findImpl_path p (dirOf k) k rest a e (p.fresh + 1) hp he hfr with ⟨h1, h2⟩ | ⟨pre, b, post, h1, h2, h3, h4⟩
    · rw [h1]
      have := deliverL_skip p k rest [] h2
      simp only [List.append_nil] at this
      rw [this]; rfl
    · rw [h4, h1, deliverL_skip p k pre (b :: post) h2]
      simp only [deliverL, h3, ite_true]
      by_cases hb : b = headA
      · simp [hb]
      · by_cases ht : b = tailA
        · simp [ht]
        · simp only [hb, ht, ite_false]
          by_cases hfw : (p.hdl b).forwards k
          · have hp2 : Path (dirOf k p) b (b :: post) e := by
              have : a :: rest = (a :: pre) ++ b :: post := by simp [h1]
              rw [this] at hp
              exact (Path.split hp).2
            have hlen : post.length < fuel := by
              have := congrArg List.length h1; simp at this; omega
            have hlen2 : post.length < p.fresh + 1 := by
              have := congrArg List.length h1; simp at this; omega
            rw [deliver_eq p k fuel post b e hp2 he hlen hlen2]
          · simp [hfw]


theorem nodup_getElem_inj : ∀ (l : List Nat) (i j : Nat) (hi : i < l.length) (hj : j < l.length),
    l.Nodup → l[i] = l[j] → i = j
  | [], _, _, hi, _, _, _ => by simp at hi
  | x :: xs, 0, 0, _, _, _, _ => rfl
  | x :: xs, 0, j+1, _, hj, hn, h => by
    simp only [List.getElem_cons_zero, List.getElem_cons_succ] at h
    have hj' : j < xs.length := by simpa using hj
    have hm : xs[j] ∈ xs := List.getElem_mem hj'
    rw [← h] at hm
    exact absurd hm (List.nodup_cons.1 hn).1
  | x :: xs, i+1, 0, hi, _, hn, h => by
    simp only [List.getElem_cons_zero, List.getElem_cons_succ] at h
    have hi' : i < xs.length := by simpa using hi
    have hm : xs[i] ∈ xs := List.getElem_mem hi'
    rw [h] at hm
    exact absurd hm (List.nodup_cons.1 hn).1
  | x :: xs, i+1, j+1, hi, hj, hn, h => by
    simp only [List.getElem_cons_succ] at h
    have := nodup_getElem_inj xs i j (by simpa using hi) (by simpa using hj) (List.nodup_cons.1 hn).2 h
    omega

/-- list level = handler-list level, travelling towards the tail -/
theorem deliverL_up (p : Pipe) (k : Kind) (L : List Nat) (hnd : L.Nodup) (hlen : 2 ≤ L.length)
    (h0 : L[0]? = some headA) (hl : L[L.length - 1]? = some tailA) :
    ∀ (as : List Nat) (i : Nat), L.drop i = as →
      deliverL p k as = (((Spec.deliverUp k (L.length - 1) i (as.map p.hdl)).1.map (fun j => L.getD j 0)),
        (Spec.deliverUp k (L.length - 1) i (as.map p.hdl)).2)
  | [], i, _ => by simp [deliverL, Spec.deliverUp]
  | a :: rest, i, h => by
    have hi : i < L.length := by
      rcases Nat.lt_or_ge i L.length with h' | h'
      · exact h'
      · rw [List.drop_eq_nil_of_le h'] at h; simp at h
    rw [List.drop_eq_getElem_cons hi] at h
    injection h with ha hr
    have ih := deliverL_up p k L hnd hlen h0 hl rest (i+1) hr
    have hh : a = headA ↔ i = 0 := by
      have e0 : L[0] = headA := by
        have := List.getElem?_eq_getElem (l := L) (i := 0) (by omega); rw [this] at h0; injection h0
      constructor
      · intro e; exact nodup_getElem_inj L i 0 hi (by omega) hnd (by rw [ha, e, e0])
      · intro e; subst e; rw [← ha, e0]
    have ht : a = tailA ↔ i = L.length - 1 := by
      have e1 : L[L.length - 1] = tailA := by
        have := List.getElem?_eq_getElem (l := L) (i := L.length - 1) (by omega); rw [this] at hl; injection hl
      constructor
      · intro e; exact nodup_getElem_inj L i (L.length - 1) hi (by omega) hnd (by rw [ha, e, e1])
      · intro e; subst e; rw [← ha, e1]
    have hget : L.getD i 0 = a := by simp [List.getD, List.getElem?_eq_getElem hi, ha]
    simp only [deliverL, List.map_cons, Spec.deliverUp]
    by_cases hi1 : (p.hdl a).implements k
    · simp only [hi1, ite_true]
      by_cases e0 : i = 0
      · have hah : a = headA := hh.2 e0
        subst e0
        simp [hah, h0]
      · have na : a ≠ headA := fun e => e0 (hh.1 e)
        simp only [na, e0, ite_false]
        by_cases e1 : i = L.length - 1
        · have hat : a = tailA := ht.2 e1
          subst e1
          simp [hat, hl]
        · have nt : a ≠ tailA := fun e => e1 (ht.1 e)
          simp only [nt, e1, ite_false]
          by_cases hfw : (p.hdl a).forwards k
          · have hg' : L[i]?.getD 0 = a := by simp [List.getElem?_eq_getElem hi, ha]
            simp [hfw, ih, hg']
          · have hg' : L[i]?.getD 0 = a := by simp [List.getElem?_eq_getElem hi, ha]
            simp [hfw, hg']
    · simp only [hi1, Bool.false_eq_true, ite_false]
      exact ih


/-- list level = handler-list level, travelling towards the head -/
theorem deliverL_down (p : Pipe) (k : Kind) (L : List Nat) (hnd : L.Nodup) (hlen : 2 ≤ L.length)
    (h0 : L[0]? = some headA) (hl : L[L.length - 1]? = some tailA) :
    ∀ (as : List Nat) (n : Nat), n ≤ L.length → (L.take n).reverse = as →
      deliverL p k as = (((Spec.deliverDown k (L.length - 1) n (as.map p.hdl)).1.map (fun j => L.getD j 0)),
        (Spec.deliverDown k (L.length - 1) n (as.map p.hdl)).2)
  | [], n, _, _ => by simp [deliverL, Spec.deliverDown]
  | a :: rest, n, hn, h => by
    have hn1 : 1 ≤ n := by
      rcases Nat.lt_or_ge 0 n with h' | h'
      · exact h'
      · have : n = 0 := by omega
        subst this; simp at h
    have hi : n - 1 < L.length := by omega
    have htk : L.take n = L.take (n - 1) ++ [L[n-1]] := by
      have := List.take_add_one (l := L) (i := n - 1)
      rw [show n - 1 + 1 = n by omega, List.getElem?_eq_getElem hi] at this
      simpa using this
    rw [htk, List.reverse_append] at h
    simp only [List.reverse_cons, List.reverse_nil, List.nil_append, List.singleton_append] at h
    injection h with ha hr
    have ih := deliverL_down p k L hnd hlen h0 hl rest (n-1) (by omega) hr
    have hh : a = headA ↔ n - 1 = 0 := by
      have e0 : L[0] = headA := by
        have := List.getElem?_eq_getElem (l := L) (i := 0) (by omega); rw [this] at h0; injection h0
      constructor
      · intro e; exact nodup_getElem_inj L (n-1) 0 hi (by omega) hnd (by rw [ha, e, e0])
      · intro e; rw [← ha]; simp only [e]; exact e0
    have ht : a = tailA ↔ n - 1 = L.length - 1 := by
      have e1 : L[L.length - 1] = tailA := by
        have := List.getElem?_eq_getElem (l := L) (i := L.length - 1) (by omega); rw [this] at hl; injection hl
      constructor
      · intro e; exact nodup_getElem_inj L (n-1) (L.length - 1) hi (by omega) hnd (by rw [ha, e, e1])
      · intro e; rw [← ha]; simp only [e]; exact e1
    have hg' : L[n-1]?.getD 0 = a := by simp [List.getElem?_eq_getElem hi, ha]
    simp only [deliverL, List.map_cons, Spec.deliverDown]
    by_cases hi1 : (p.hdl a).implements k
    · simp only [hi1, ite_true]
      by_cases e0 : n - 1 = 0
      · have hah : a = headA := hh.2 e0
        simp [e0, hah, h0]
      · have na : a ≠ headA := fun e => e0 (hh.1 e)
        simp only [na, e0, ite_false]
        by_cases e1 : n - 1 = L.length - 1
        · have hat : a = tailA := ht.2 e1
          simp [e1, hat, hl]
        · have nt : a ≠ tailA := fun e => e1 (ht.1 e)
          simp only [nt, e1, ite_false]
          by_cases hfw : (p.hdl a).forwards k
          · simp [hfw, ih, hg']
          · simp [hfw, hg']
    · simp only [hi1, Bool.false_eq_true, ite_false]
      exact ih


theorem dirOf_write (p : Pipe) : dirOf .write p = p.prev := by funext a; simp [dirOf]
theorem dirOf_ne (p : Pipe) (k : Kind) (h : k ≠ .write) : dirOf k p = p.next := by funext a; simp [dirOf, h]

/-- **routing refinement**: delivering an event of kind `k` from the context at position `i`
    (pointer walk with the per-interface loops of context.go) invokes exactly the contexts at the
    positions the handler-list specification computes, in that order, and ends the same way -/
theorem route_refines {p : Pipe} {addrs : List Nat} {s : Spec} (hr : Refines p addrs s) (k : Kind) (i : Nat)
    (hi : i < s.length + 2) :
    deliver p k (p.fresh + 1) ((headA :: addrs ++ [tailA]).getD i 0) =
      ((s.deliver k i).1.map (fun j => (headA :: addrs ++ [tailA]).getD j 0), (s.deliver k i).2) := by
  have hlen : (headA :: addrs ++ [tailA]).length = s.length + 2 := by rw [← hr.abs]; simp
  generalize hL : headA :: addrs ++ [tailA] = L at hlen
  have wf := hr.wf; rw [hL] at wf
  have hall : L.map p.hdl = s.all := by rw [← hL]; exact refines_all hr
  have hiL : i < L.length := by omega
  have h0 : L[0]? = some headA := by rw [← hL]; rfl
  have hl : L[L.length - 1]? = some tailA := by
    have := wf.fwd.getLast
    rw [List.getLast?_eq_getElem?] at this; exact this
  have hget : L.getD i 0 = L[i] := by simp [List.getD, List.getElem?_eq_getElem hiL]
  have hsplit : L = L.take i ++ L[i] :: L.drop (i+1) := by
    rw [List.getElem_cons_drop hiL, List.take_append_drop]
  have hlast : L.length - 1 = s.length + 1 := by omega
  rw [hget]
  by_cases hk : k = .write
  · subst hk
    have hb := wf.bwd
    have hrev : L.reverse = (L.drop (i+1)).reverse ++ L[i] :: (L.take i).reverse := by
      conv => lhs; rw [hsplit]
      simp
    rw [hrev] at hb
    have hp := (Path.split hb).2
    rw [← dirOf_write] at hp
    have := deliver_eq p .write (p.fresh + 1) ((L.take i).reverse) L[i] headA hp
      (by rw [dirOf_write]; exact wf.headPrev)
      (by have := wf.lenLe; simp [List.length_take]; omega)
      (by have := wf.lenLe; simp [List.length_take]; omega)
    rw [this, deliverL_down p .write L wf.nodup (by omega) h0 hl _ i (by omega) rfl]
    simp only [Spec.deliver, ite_true, hlast]
    rw [List.map_reverse, List.map_take, hall]
  · have hf := wf.fwd
    rw [hsplit] at hf
    have hp := (Path.split hf).2
    rw [← dirOf_ne p k hk] at hp
    have := deliver_eq p k (p.fresh + 1) (L.drop (i+1)) L[i] tailA hp
      (by rw [dirOf_ne p k hk]; exact wf.tailNext)
      (by have := wf.lenLe; simp [List.length_drop]; omega)
      (by have := wf.lenLe; simp [List.length_drop]; omega)
    rw [this, deliverL_up p k L wf.nodup (by omega) h0 hl _ (i+1) rfl]
    simp only [Spec.deliver, hk, ite_false, hlast]
    rw [List.map_drop, hall]

end NettyVerif.Pipeline
