import NettyVerif.Model.Boot
/-! Inductive invariants of the bootstrap LTSs (Model/Boot.lean), one lemma per action. -/
namespace NettyVerif.Boot
set_option maxRecDepth 4000

structure LInv (s : LSt) : Prop where
  pcListened : s.pc ≠ .idle → s.listened = true
  regListened : s.reg = true → s.listened = true
  rangeCtx : s.rangeStarted = true → s.ctxDone = true
  doneStarted : s.rangeDone = true → s.rangeStarted = true
  notReg : s.reg = false → s.listened = true → s.mark = true
  unregMark : s.unregPending > 0 → s.mark = true
  liveU : s.pc = .accepting → s.acc = .open → s.mark = false →
      (s.ctxDone = false ∨ (s.rangeStarted = false ∧ s.reg = true) ∨ (s.inRange = true ∧ s.visited = false ∧ s.rangeDone = false))
  liveM : s.pc = .accepting → s.acc = .open → s.mark = true → s.closePending > 0
  createdOpen : s.pc = .created → s.acc = .open
  returnedNotOpen : ∀ b, s.pc = .returned b → s.acc ≠ .open
  returnedTrue : ∀ b, s.pc = .returned b → b = true
  accClosed : s.acc = .closed → (s.mark = true ∨ s.ctxDone = true)
  failedClosed : s.pc = .failed → s.acc = .closed
  pendingMark : s.closePending > 0 → s.mark = true
  unpublishedNoPending : (s.pc = .idle ∨ s.pc = .checked ∨ s.pc = .created) → s.closePending = 0
  visitedMark : s.visited = true → s.mark = true
  idleNone : (s.pc = .idle ∨ s.pc = .checked) → s.acc = .none
  pubAcc : (s.pc = .accepting ∨ s.pc = .failed) → s.acc ≠ .none
  pubPc : s.pub = true → (s.pc ≠ .idle ∧ s.pc ≠ .checked ∧ s.pc ≠ .created)
  pcPub : (s.pc = .accepting ∨ s.pc = .failed) → s.pub = true
  unpubPending : s.pub = false → s.closePending = 0

theorem linv_listen (s s' : LSt) (h : LInv s) (hs : lstep s .listen = some s') : LInv s' := by
  obtain ⟨h1, h2, h3, h4, h5, h6, h7, h8, h9, h10, h11, h12, h13, h14, h15, h16, h17, h18, h19, h20, h21⟩ := h
  simp only [lstep] at hs; split at hs <;> simp at hs; subst hs
  constructor <;> (first | (simp_all; done) | grind)
theorem linv_cancel (s s' : LSt) (h : LInv s) (hs : lstep s .cancel = some s') : LInv s' := by
  obtain ⟨h1, h2, h3, h4, h5, h6, h7, h8, h9, h10, h11, h12, h13, h14, h15, h16, h17, h18, h19, h20, h21⟩ := h
  simp only [lstep] at hs
  simp at hs; subst hs
  constructor <;> (first | (simp_all; done) | grind)
theorem linv_rangeStart (s s' : LSt) (h : LInv s) (hs : lstep s .rangeStart = some s') : LInv s' := by
  obtain ⟨h1, h2, h3, h4, h5, h6, h7, h8, h9, h10, h11, h12, h13, h14, h15, h16, h17, h18, h19, h20, h21⟩ := h
  simp only [lstep] at hs
  split at hs <;> simp at hs; subst hs
  constructor <;> (first | (simp_all; done) | grind)
theorem linv_rangeEnd (s s' : LSt) (h : LInv s) (hs : lstep s .rangeEnd = some s') : LInv s' := by
  obtain ⟨h1, h2, h3, h4, h5, h6, h7, h8, h9, h10, h11, h12, h13, h14, h15, h16, h17, h18, h19, h20, h21⟩ := h
  simp only [lstep] at hs
  split at hs <;> simp at hs; subst hs
  constructor <;> (first | (simp_all; done) | grind)
theorem linv_closeMark (s s' : LSt) (b : Bool) (h : LInv s) (hs : lstep s (.closeMark b) = some s') : LInv s' := by
  obtain ⟨h1, h2, h3, h4, h5, h6, h7, h8, h9, h10, h11, h12, h13, h14, h15, h16, h17, h18, h19, h20, h21⟩ := h
  simp only [lstep] at hs
  split at hs <;> simp at hs; subst hs
  constructor <;> (first | (simp_all; done) | grind)
theorem linv_closeUnreg (s s' : LSt) (h : LInv s) (hs : lstep s .closeUnreg = some s') : LInv s' := by
  obtain ⟨h1, h2, h3, h4, h5, h6, h7, h8, h9, h10, h11, h12, h13, h14, h15, h16, h17, h18, h19, h20, h21⟩ := h
  simp only [lstep] at hs
  split at hs <;> simp at hs; subst hs
  constructor <;> (first | (simp_all; done) | grind)
theorem linv_closeAcc (s s' : LSt) (h : LInv s) (hs : lstep s .closeAcc = some s') : LInv s' := by
  obtain ⟨h1, h2, h3, h4, h5, h6, h7, h8, h9, h10, h11, h12, h13, h14, h15, h16, h17, h18, h19, h20, h21⟩ := h
  simp only [lstep] at hs
  split at hs <;> simp at hs; subst hs
  constructor <;> (first | (simp_all; done) | grind)
theorem linv_syncCheck (s s' : LSt) (h : LInv s) (hs : lstep s .syncCheck = some s') : LInv s' := by
  obtain ⟨h1, h2, h3, h4, h5, h6, h7, h8, h9, h10, h11, h12, h13, h14, h15, h16, h17, h18, h19, h20, h21⟩ := h
  simp only [lstep] at hs
  split at hs <;> simp at hs; subst hs
  constructor <;> (first | (simp_all; done) | grind)
theorem linv_syncListen (s s' : LSt) (h : LInv s) (hs : lstep s .syncListen = some s') : LInv s' := by
  obtain ⟨h1, h2, h3, h4, h5, h6, h7, h8, h9, h10, h11, h12, h13, h14, h15, h16, h17, h18, h19, h20, h21⟩ := h
  simp only [lstep] at hs
  split at hs <;> simp at hs; subst hs
  constructor <;> (first | (simp_all; done) | grind)
theorem linv_syncListenFail (s s' : LSt) (h : LInv s) (hs : lstep s .syncListenFail = some s') : LInv s' := by
  obtain ⟨h1, h2, h3, h4, h5, h6, h7, h8, h9, h10, h11, h12, h13, h14, h15, h16, h17, h18, h19, h20, h21⟩ := h
  simp only [lstep] at hs
  split at hs <;> simp at hs; subst hs
  constructor <;> (first | (simp_all; done) | grind)
theorem linv_syncDecide (s s' : LSt) (h : LInv s) (hs : lstep s .syncDecide = some s') : LInv s' := by
  obtain ⟨h1, h2, h3, h4, h5, h6, h7, h8, h9, h10, h11, h12, h13, h14, h15, h16, h17, h18, h19, h20, h21⟩ := h
  simp only [lstep] at hs
  split at hs
  · split at hs <;> simp at hs <;> subst hs <;> constructor <;> (first | (simp_all; done) | grind)
  · simp at hs
theorem linv_acceptWake (s s' : LSt) (h : LInv s) (hs : lstep s .acceptWake = some s') : LInv s' := by
  obtain ⟨h1, h2, h3, h4, h5, h6, h7, h8, h9, h10, h11, h12, h13, h14, h15, h16, h17, h18, h19, h20, h21⟩ := h
  simp only [lstep] at hs
  split at hs <;> simp at hs; subst hs
  constructor <;> (first | (simp_all; done) | grind)
theorem linv_syncFail (s s' : LSt) (h : LInv s) (hs : lstep s .syncFail = some s') : LInv s' := by
  obtain ⟨h1, h2, h3, h4, h5, h6, h7, h8, h9, h10, h11, h12, h13, h14, h15, h16, h17, h18, h19, h20, h21⟩ := h
  simp only [lstep] at hs
  split at hs <;> simp at hs; subst hs
  constructor <;> (first | (simp_all; done) | grind)

theorem linv_init : LInv {} := by constructor <;> simp

theorem linv_step (s s' : LSt) (a : LAct) (h : LInv s) (hs : lstep s a = some s') : LInv s' := by
  cases a with
  | listen => exact linv_listen s s' h hs
  | cancel => exact linv_cancel s s' h hs
  | rangeStart => exact linv_rangeStart s s' h hs
  | rangeEnd => exact linv_rangeEnd s s' h hs
  | closeMark b => exact linv_closeMark s s' b h hs
  | closeUnreg => exact linv_closeUnreg s s' h hs
  | closeAcc => exact linv_closeAcc s s' h hs
  | syncCheck => exact linv_syncCheck s s' h hs
  | syncListen => exact linv_syncListen s s' h hs
  | syncDecide => exact linv_syncDecide s s' h hs
  | acceptWake => exact linv_acceptWake s s' h hs
  | syncFail => exact linv_syncFail s s' h hs
  | syncListenFail => exact linv_syncListenFail s s' h hs

theorem linv_run : ∀ (acts : List LAct) (s s' : LSt), LInv s → lrun s acts = some s' → LInv s'
  | [], s, s', h, hr => by simp [lrun] at hr; subst hr; exact h
  | a :: as, s, s', h, hr => by
    simp only [lrun] at hr
    cases hs : lstep s a with
    | none => simp [hs] at hr
    | some s1 => simp [hs] at hr; exact linv_run as s1 s' (linv_step s s1 a h hs) hr

/-! ### channels -/

structure CInv (s : CSt) : Prop where
  swapCtx : s.swapped = true → s.ctxDone = true
  doneSwapped : s.closeAllDone = true → s.swapped = true
  loopIn : (s.pc = .activating ∨ s.pc = .loopTop ∨ s.pc = .reading) → s.loc ≠ .notIn
  activatingCur : s.pc = .activating → s.loc = .cur → s.swapped = false
  earlyOut : (s.pc = .none ∨ s.pc = .accepted ∨ s.pc = .started) → s.loc = .notIn
  readingCur : s.pc = .reading → s.loc = .cur → s.swapped = false
  oldSwapped : s.loc = .old → s.swapped = true
  doneOld : s.closeAllDone = true → s.loc = .old → s.pc = .closed
  once : s.closes ≤ 1 ∧ s.inactives + (if s.firePending then 1 else 0) = s.closes
  closedIff : s.pc = .closed ↔ s.closes = 1

theorem cinv_init : CInv {} := by constructor <;> simp

theorem cinv_step (s s' : CSt) (a : CAct) (h : CInv s) (hs : cstep s a = some s') : CInv s' := by
  obtain ⟨h1, h2, h3, h3b, h4, h5, h6, h7, h8, h9⟩ := h
  cases a <;> simp only [cstep] at hs <;> (repeat' split at hs) <;> simp at hs <;> (try subst hs) <;>
    constructor <;> (first | (simp_all; done) | grind)

theorem cinv_run : ∀ (acts : List CAct) (s s' : CSt), CInv s → crun s acts = some s' → CInv s'
  | [], s, s', h, hr => by simp [crun] at hr; subst hr; exact h
  | a :: as, s, s', h, hr => by
    simp only [crun] at hr
    cases hs : cstep s a with
    | none => simp [hs] at hr
    | some s1 => simp [hs] at hr; exact cinv_run as s1 s' (cinv_step s s1 a h hs) hr

end NettyVerif.Boot
