import NettyVerif.Proofs.Chan
/-! # C10 — Write snapshot semantics

In the Chan LTS a payload is a *value* fixed at the acceptance step (copy-on-enqueue; the sync path
hands the caller's bytes to the transport inside the call).  The theorems say that, this being so,
nothing that happens later — in particular nothing a caller does after its call returned — can
change what is transmitted: the wire only ever consists of accepted values, in order.  That the real
code really takes the snapshot (copies before enqueueing, recycles pooled buffers only after the
transport write) is what the tie checks: callers overwrite their buffers right after every call and
the property predicate compares the transport bytes with the call-time payload. -/
namespace NettyVerif.C10
open NettyVerif.Chan
variable {α : Type}

/-- what is on the wire was accepted, with the value it had at acceptance time, in that order -/
theorem C10_wire_is_snapshot (sync : Bool) (cap : Nat) (untilW : Bool) (acts : List (Act α)) (s : St α)
    (hr : run ({ sync := sync, cap := cap, untilW := untilW } : St α) acts = some s) (hb : s.broken = false) :
    s.wire <+: s.accepted ∧ s.accepted = s.wire ++ s.batch ++ s.q := by
  have hinv := inv_run acts _ s (inv_init sync cap untilW) hr
  have := hinv.fifo hb
  refine ⟨?_, this⟩
  rw [this, List.append_assoc]; exact List.prefix_append _ _

/-- no step other than an acceptance step changes `accepted`; no step rewrites an accepted value -/
theorem C10_accepted_immutable (s s' : St α) (a : Act α) (h : step s a = some s') : s.accepted <+: s'.accepted := by
  cases a <;> simp only [step] at h <;> (repeat' split at h) <;> simp at h <;> subst h <;> simp

end NettyVerif.C10

#print axioms NettyVerif.C10.C10_wire_is_snapshot
#print axioms NettyVerif.C10.C10_accepted_immutable
