import NettyVerif.Proofs.Chan
import NettyVerif.Proofs.Heap
/-! # C10 — Write snapshot semantics

In the Chan LTS a payload is a *value* fixed at the acceptance step (copy-on-enqueue; the sync path
hands the caller's bytes to the transport inside the call).  The theorems say that, this being so,
nothing that happens later — in particular nothing a caller does after its call returned — can
change what is transmitted: the wire only ever consists of accepted values, in order.  Why the
value is fixed is the subject of the heap model (Model/Heap.lean): buffers with owners, callers and
pool users scribbling on what they own, copy-on-enqueue into a pooled buffer, recycling after the
transport write.  The tie runs callers that overwrite their buffers right after every call and a
foreign pool user that obtains, scribbles on and returns buffers of every size class. -/
namespace NettyVerif.C10
open NettyVerif.Chan
variable {α : Type}

/-- what is on the wire was accepted, with the value it had at acceptance time, in that order -/
theorem C10_wire_is_snapshot (sync : Bool) (cap : Nat) (untilW : Bool) (acts : List (Act α)) (s : St α)
    (hr : run ({ sync := sync, cap := cap, untilW := untilW } : St α) acts = some s) (hb : s.broken = false) :
    s.wire <+: s.accepted ∧ s.accepted = s.wire ++ s.batch ++ s.q := by
  have hinv := inv_run acts _ s (inv_init sync cap untilW) hr
  have := hinv.fifo hb
  refine ⟨?_, this⟩
  rw [this, List.append_assoc]; exact List.prefix_append _ _

/-- no step other than an acceptance step changes `accepted`; no step rewrites an accepted value -/
theorem C10_accepted_immutable (s s' : St α) (a : Act α) (h : step s a = some s') : s.accepted <+: s'.accepted := by
  cases a <;> simp only [step] at h <;> (repeat' split at h) <;> simp at h <;> subst h <;> simp

/-! ## why the value is fixed: buffer ownership -/
open NettyVerif.Heap in
/-- **snapshot semantics over a heap**: callers overwrite their buffers whenever they like, other
    goroutines obtain pooled buffers, scribble on them and return them, in any interleaving with
    the write calls and the sender; as long as every write copies into a pooled buffer and the
    sender returns buffers only after the transport write, what reaches the transport is exactly
    the call-time payloads, in acceptance order, and every buffer the channel holds still has its
    call-time content -/
theorem C10_heap_snapshot (acts : List Heap.Act) (s : Heap.St) (hsound : ∀ a ∈ acts, a.sound = true)
    (hr : Heap.run {} acts = some s) :
    s.wire <+: s.accepted ∧ s.accepted = s.wire ++ s.batch.map s.snap ++ s.q.map s.snap ∧
    ∀ id ∈ s.q ++ s.batch, s.heap id = s.snap id := by
  have h := Heap.hinv_run acts {} s hsound Heap.hinv_init hr
  refine ⟨?_, h.fifo, fun id hid => (h.owned id hid).2⟩
  rw [h.fifo, List.append_assoc]; exact List.prefix_append _ _

namespace Witness
open NettyVerif.Heap

/-- buffer 0 belongs to caller 1 and holds [1, 2]; everything else is idle in the pool -/
def st0 : Heap.St := { heap := upd (fun _ => []) 0 [1, 2], owner := upd (fun _ => .pool) 0 (.caller 1) }

/-- copy-on-enqueue: the caller scribbles right after its call, the transport still gets [1, 2] -/
theorem copy_protects :
    (Heap.run st0 [.write 1 0 5 true, .scribble (.caller 1) 0 [9, 9], .recv, .writev]).map (fun s => (s.wire, s.accepted)) =
      some ([[1, 2]], [[1, 2]]) := by decide

/-- without the copy the caller's later bytes are sent -/
theorem C10_no_copy_sends_later_bytes :
    (Heap.run st0 [.write 1 0 5 false, .scribble (.caller 1) 0 [9, 9], .recv, .writev]).map (fun s => (s.wire, s.accepted)) =
      some ([[9, 9]], [[1, 2]]) := by decide

/-- a buffer returned to the pool before the transport write is handed to somebody else who overwrites it -/
theorem C10_early_recycle_corrupts :
    (Heap.run st0 [.write 1 0 5 true, .recv, .put true, .poolGet 7 5, .scribble (.user 7) 5 [9], .writev]).map
      (fun s => (s.wire, s.accepted)) = some ([[9]], [[1, 2]]) := by decide
end Witness

end NettyVerif.C10

#print axioms NettyVerif.C10.C10_wire_is_snapshot
#print axioms NettyVerif.C10.C10_accepted_immutable
#print axioms NettyVerif.C10.C10_heap_snapshot
#print axioms NettyVerif.C10.Witness.C10_no_copy_sends_later_bytes
#print axioms NettyVerif.C10.Witness.C10_early_recycle_corrupts
