import NettyVerif.Proofs.Frame
import NettyVerif.Proofs.Guards
import NettyVerif.Props.C01
import NettyVerif.Props.C02
/-! # C04 — Frame codecs round-trip or reject; boundaries exact under any fragmentation

Property theorems only. Model: Model/Frame.lean (the codecs of codec/frame/*.go over a chunked
transport source; every `cs : List Bytes` is one fragmentation of the byte stream
`cs.flatten`, so `∀ cs, cs.flatten = … → …` quantifies over all fragmentations). -/
namespace NettyVerif.C04
open NettyVerif.Frame

/-- **fragmentation independence** of the one primitive every decoder reads through: any two
    chunkings of the same byte stream yield the same data and leave the same remaining stream -/
theorem C04_fragmentation_independent (cs cs' : List Bytes) (k : Nat) (h : cs.flatten = cs'.flatten) :
    (readN cs k).1 = (readN cs' k).1 ∧ (readN cs k).2.flatten = (readN cs' k).2.flatten :=
  readN_frag cs cs' k h

/-- **encoder soundness** (repaired prepender, also the encoder built into LengthFieldCodec): it
    either raises or emits `header ++ body` where the header, read the way the decoder reads it,
    is exactly the configured length value, which fits the field -/
theorem C04_encoder_sound (pc : PrepCfg) (hfl : pc.fieldLen = 1 ∨ pc.fieldLen = 2 ∨ pc.fieldLen = 4 ∨ pc.fieldLen = 8)
    (body enc : Bytes) (h : encodePrep pc body = some enc) :
    ∃ L : Int, L = body.length + pc.adj + (if pc.incl then pc.fieldLen else 0) ∧ 0 ≤ L ∧ L ≤ fieldMax pc.fieldLen ∧
      enc = pack pc.big pc.fieldLen.toNat L.toNat ++ body ∧
      (unpack pc.big (enc.take pc.fieldLen.toNat) : Int) = L := by
  simp only [encodePrep] at h
  refine ⟨_, rfl, ?_⟩
  generalize (body.length : Int) + pc.adj + (if pc.incl then pc.fieldLen else 0) = L at h ⊢
  by_cases hr : L < 0 ∨ L > fieldMax pc.fieldLen
  · simp [hr] at h
  · simp only [hr, ite_false] at h
    injection h with h
    obtain ⟨hlt, _⟩ := fieldMax_lt pc.fieldLen hfl L (by omega) (by omega)
    refine ⟨by omega, by omega, h.symm, ?_⟩
    rw [← h, List.take_left' (pack_length _ _ _), unpack_pack _ _ _ hlt]
    omega

/-- pinned code (negation witness, replayed on the implementation by the harness before the fix):
    a 300-byte body with a 1-byte big-endian field is emitted with header 44 = 300 mod 256 -/
theorem C04_encoder_pinned_unsound :
    (encodePrepPinned { big := true, fieldLen := 1, adj := 0, incl := false } (List.replicate 300 0)).head? = some 44 := by
  decide +kernel

/-- length-field round trip, one frame: the built-in encoder or a stand-alone prepender paired with
    the matching decoder parameters (`adjD + adjP + (incl ? fieldLen : 0) = 0`, offset 0) -/
theorem C04_lf_roundtrip (c : LFCfg) (pc : PrepCfg) (body enc tail : Bytes) (cs : List Bytes) (fin : RErr)
    (hv : c.valid = true) (hoff : c.offset = 0) (hbig : pc.big = c.big) (hfl : pc.fieldLen = c.fieldLen)
    (hadj : -(2^62) < c.adj ∧ c.adj < 2^62) (hmax62 : c.max < 2^62)
    (hpair : c.adj + pc.adj + (if pc.incl then c.fieldLen else 0) = 0)
    (henc : encodePrep pc body = some enc)
    (hmax : c.fieldLen + body.length ≤ c.max) (hstrip : c.strip ≤ c.fieldLen + body.length)
    (hflat : cs.flatten = enc ++ tail) :
    ∃ rest, stepRead true (.lf c) cs fin = .msg (enc.drop c.strip.toNat) rest ∧ rest.flatten = tail :=
  lf_roundtrip c pc body enc tail cs fin hv hoff hbig hfl hadj hmax62 hpair henc hmax hstrip hflat

theorem C04_varint_roundtrip (max : Int) (body enc tail : Bytes) (cs : List Bytes) (fin : RErr)
    (hlen : body.length < 2^63) (henc : encodeVarint max body = some enc) (hflat : cs.flatten = enc ++ tail) :
    ∃ rest, stepRead true (.varint max) cs fin = .msg body rest ∧ rest.flatten = tail :=
  varint_roundtrip max body enc tail cs fin hlen henc hflat

/-- delimiter: admissible = the first occurrence of the delimiter in `body ++ delim` ends at the
    end (stronger than "body does not contain it") and the frame fits the maximum -/
theorem C04_delim_roundtrip (delim : Bytes) (max : Int) (strip : Bool) (body tail : Bytes) (cs : List Bytes) (fin : RErr)
    (hadm : delimAdmissible delim body = true) (hmax : ((body ++ delim).length : Int) ≤ max)
    (hflat : cs.flatten = encodeDelim delim body ++ tail) :
    ∃ rest, stepRead true (.delim delim max strip) cs fin =
      .msg (if strip then body else body ++ delim) rest ∧ rest.flatten = tail :=
  delim_roundtrip delim max strip body tail cs fin hadm hmax hflat

theorem C04_fixed_roundtrip (n : Int) (body tail : Bytes) (cs : List Bytes) (fin : RErr)
    (hlen : body.length = n.toNat) (hflat : cs.flatten = body ++ tail) :
    ∃ rest, stepRead true (.fixed n) cs fin = .msg body rest ∧ rest.flatten = tail :=
  fixed_roundtrip n body tail cs fin hlen hflat

/-- **whole streams**: for every list of admissible payloads and every fragmentation of the
    concatenated encodings, the read loop delivers exactly the payloads in order (each consuming
    exactly its frame) and then ends with the end-of-stream exception. Stated once, generically:
    `frames` pairs each wire frame with its expected message; the four codecs are instances. -/
theorem C04_stream (c : Codec) (hv : c.valid = true) (fin : RErr) (frames : List (Bytes × Bytes)) (cs : List Bytes)
    (hstep : ∀ fm ∈ frames, ∀ (cs : List Bytes) (tl : Bytes), cs.flatten = fm.1 ++ tl →
        ∃ rest, stepRead true c cs fin = .msg fm.2 rest ∧ rest.flatten = tl)
    (hflat : cs.flatten = (frames.map (·.1)).flatten) :
    ∃ rest, readLoop true c (frames.length + 1) cs fin = (frames.map (·.2), some rest) :=
  readLoop_frames c fin frames cs (frames.length + 1) hstep (step_eof_raises c hv fin) hflat (by omega)

/-- instance: varint codec, any payload list, any fragmentation -/
theorem C04_stream_varint (max : Int) (hmax : max > 0) (fin : RErr) (ps : List Bytes) (cs : List Bytes)
    (hadm : ∀ p ∈ ps, (p.length : Int) ≤ max ∧ p.length < 2^63)
    (hflat : cs.flatten = (ps.map (fun p => putUvarint p.length ++ p)).flatten) :
    ∃ rest, readLoop true (.varint max) (ps.length + 1) cs fin = (ps, some rest) := by
  have := C04_stream (.varint max) (by simpa [Codec.valid] using hmax) fin (ps.map (fun p => (putUvarint p.length ++ p, p))) cs
    (by
      intro fm hfm cs' tl hfl
      obtain ⟨p, hp, rfl⟩ := List.mem_map.1 hfm
      obtain ⟨h1, h2⟩ := hadm p hp
      exact varint_roundtrip max p _ tl cs' fin h2 (by simp [encodeVarint]; omega) hfl)
    (by simpa [List.map_map, Function.comp_def] using hflat)
  simpa [List.map_map, Function.comp_def] using this

/-- instance: fixed-length codec -/
theorem C04_stream_fixed (n : Int) (hn : n > 0) (fin : RErr) (ps : List Bytes) (cs : List Bytes)
    (hadm : ∀ p ∈ ps, p.length = n.toNat) (hflat : cs.flatten = ps.flatten) :
    ∃ rest, readLoop true (.fixed n) (ps.length + 1) cs fin = (ps, some rest) := by
  have := C04_stream (.fixed n) (by simpa [Codec.valid] using hn) fin (ps.map (fun p => (p, p))) cs
    (by
      intro fm hfm cs' tl hfl
      obtain ⟨p, hp, rfl⟩ := List.mem_map.1 hfm
      exact fixed_roundtrip n p tl cs' fin (hadm p hp) hfl)
    (by simpa [List.map_map, Function.comp_def] using hflat)
  simpa [List.map_map, Function.comp_def] using this

/-- non-vacuity: concrete admissible inputs, fragmented inside header and delimiter -/
example : stepRead true (.lf { big := true, max := 64, offset := 0, fieldLen := 2, adj := 0, strip := 2 })
    [[0], [3, 97], [98, 99, 0], [1, 120]] .eof = .msg [97, 98, 99] [[0], [1, 120]] := by decide
example : delimAdmissible [97, 97] [120] = true ∧ delimAdmissible [97, 97] [120, 97] = false := by decide
example : stepRead true (.delim [13, 10] 16 true) [[104, 105, 13], [10, 106]] .eof = .msg [104, 105] [[106]] := by decide
example : encodePrep { big := false, fieldLen := 1, adj := 0, incl := false } (List.replicate 300 0) = none := by decide +kernel

/-! ### The guards as the code states them (T3: `Gen/Guards.lean` is regenerated from codec/frame/*.go on every run)

`Guards.run` executes the extracted statement list (assignments, `utils.AssertIf`, `utils.Assert`, in
source order) under Go's 64-bit integer semantics; `none` = the codec raises. The theorems below are
about the *generated* lists: a change of a guard, of its order or of the length arithmetic in the
source changes the list and the proof no longer checks. -/
section Guards
open NettyVerif.Guards

/-- the constructor of LengthFieldCodec accepts exactly the configurations the model calls valid -/
theorem C04_guards_lf_constructor (c : LFCfg) (env : Env) (he : LFEnv c env) (hm : I64 c.max) (hf : I64 c.fieldLen) :
    (run Gen.Guards.LengthFieldCodec env).isSome = c.valid := by
  rw [run_guardsOf, show guardsOf Gen.Guards.LengthFieldCodec = expLengthFieldCodec from rfl]
  exact expLengthFieldCodec_sem c env he hm hf

/-- packFieldLength raises exactly for the lengths the model's encoder refuses (negative, or
    beyond what a field of 1 / 2 / 4 / 8 bytes carries) -/
theorem C04_guards_pack_field_length (fieldLen dataLen : Int) (env : Env)
    (hf : fieldLen = 1 ∨ fieldLen = 2 ∨ fieldLen = 4 ∨ fieldLen = 8) (hd : I64 dataLen)
    (h1 : env.var "fieldLen" = fieldLen) (h2 : env.var "dataLen" = dataLen) (h3 : env.opq "default" = 0) :
    (run Gen.Guards.packFieldLength env).isSome = !decide (dataLen < 0 ∨ dataLen > fieldMax fieldLen) := by
  rw [run_guardsOf, show guardsOf Gen.Guards.packFieldLength = guardsOf expPackFieldLength from rfl, ← run_guardsOf]
  exact expPackFieldLength_sem fieldLen dataLen env hf hd h1 h2 h3

/-- the length the prepender writes into the field is body + adjustment (+ field width if asked),
    as in `encodePrep`; its constructor accepts the four field widths only -/
theorem C04_guards_prepender (pc : PrepCfg) (n : Nat) (env : Env)
    (h1 : env.var "lengthAdjustment" = pc.adj) (h2 : env.var "lengthFieldLength" = pc.fieldLen)
    (h3 : env.var "lengthIncludesLengthFieldLength" = b2i pc.incl) (h4 : env.len "bodyBytes" = n)
    (ha : I64 (n + pc.adj)) (hb : I64 (n + pc.adj + pc.fieldLen)) :
    (run Gen.Guards.lengthFieldPrepender_HandleWrite env).map (fun e => e.var "length") =
        some ((n : Int) + pc.adj + (if pc.incl then pc.fieldLen else 0)) ∧
    guardsOf Gen.Guards.LengthFieldPrepender =
        [.assert (.lit 1) (.bin "&&" (.bin "&&" (.bin "&&" (.bin "!=" (.var "lengthFieldLength") (.lit 1)) (.bin "!=" (.var "lengthFieldLength") (.lit 2))) (.bin "!=" (.var "lengthFieldLength") (.lit 4))) (.bin "!=" (.var "lengthFieldLength") (.lit 8)))] := by
  refine ⟨?_, rfl⟩
  rw [run_guardsOf, show guardsOf Gen.Guards.lengthFieldPrepender_HandleWrite = guardsOf expPrepHandleWrite from rfl, ← run_guardsOf]
  exact expPrepHandleWrite_sem pc n env h1 h2 h3 h4 ha hb

/-- the varint encoder refuses exactly the bodies longer than the maximum (`encodeVarint`) -/
theorem C04_guards_varint_write (max : Int) (n : Nat) (env : Env)
    (h1 : env.var "maxFrameLength" = max) (h2 : env.len "bodyBytes" = n) :
    (run Gen.Guards.varintLengthFieldCodec_HandleWrite env).isSome = !decide ((n : Int) > max) := by
  rw [run_guardsOf, show guardsOf Gen.Guards.varintLengthFieldCodec_HandleWrite = guardsOf expVarintHandleWrite from rfl, ← run_guardsOf]
  exact expVarintHandleWrite_sem max n env h1 h2

-- premises satisfiable: a valid configuration with its environment
example : LFEnv { big := true, max := 1024, offset := 2, fieldLen := 2, adj := 0, strip := 4 }
    { var := fun n => if n = "maxFrameLength" then 1024 else if n = "lengthFieldOffset" then 2 else
                      if n = "lengthFieldLength" then 2 else if n = "lengthAdjustment" then 0 else
                      if n = "initialBytesToStrip" then 4 else 0, len := fun _ => 0, opq := fun _ => 0 } := by
  simp [LFEnv]

end Guards

/-! ### End to end: codec ∘ channel ∘ transport wrapper ∘ any fragmentation ∘ decoder

The three models compose through their observable interfaces only: what the encoder emits is what
the channel accepts (payload type `Bytes`), what the channel hands to the transport is what the
wrapper is given (`written ops`), what the wrapper passes to the connection is what the peer's decoder
reads, in whatever chunks. -/
section EndToEnd

/-- **end to end**: frames accepted by a channel (synchronous or queued, any capacity, any wait mode,
    any number of writers and any schedule: `acts` is any run of the Chan LTS) whose run has come to
    rest on a healthy transport, carried by any grouping of Write / Writev calls through any of the
    transport wrappers found in the current source and flushed, and read by the peer under *any*
    fragmentation, are decoded to exactly the messages, in acceptance order, each consuming exactly
    its frame; the loop then ends with the end-of-stream exception.
    (C02 quiescence ⇒ wire = accepted; C17 ⇒ connection = written; C04 ⇒ decoding is exact.) -/
theorem C04_end_to_end (c : Codec) (hv : c.valid = true) (fin : RErr) (frames : List (Bytes × Bytes))
    (hstep : ∀ fm ∈ frames, ∀ (cs : List Bytes) (tl : Bytes), cs.flatten = fm.1 ++ tl →
        ∃ rest, stepRead true c cs fin = .msg fm.2 rest ∧ rest.flatten = tl)
    (sync : Bool) (cap : Nat) (untilW : Bool) (acts : List (Chan.Act Bytes)) (s : Chan.St Bytes)
    (hr : Chan.run (NettyVerif.C02.init sync cap untilW) acts = some s)
    (hb : s.broken = false) (hq : s.quiescent = true)
    (hacc : s.accepted = frames.map (·.1))
    (r : Transport.Route) (hroute : r ∈ Gen.Routing.routes) (size : Nat) (ops : List Transport.Op)
    (hops : Transport.written ops = s.wire.flatten)
    (cs : List Bytes) (hflat : cs.flatten = (Transport.run r { size := size } (ops ++ [.flush])).conn) :
    ∃ rest, readLoop true c (frames.length + 1) cs fin = (frames.map (·.2), some rest) := by
  have hwire : s.wire = s.accepted := (NettyVerif.C02.C02_quiescent_clean sync cap untilW acts s hr hb hq).2.2.1
  have hgood : r.good = true := List.all_eq_true.1 NettyVerif.C17.C17_routing_extracted_ok.1 r hroute
  have hconn := NettyVerif.C17.C17_after_flush r hgood ops size
  apply C04_stream c hv fin frames cs hstep
  rw [hflat, hconn, hops, hwire, hacc]

/-- instance: any list of admissible payloads through the varint codec -/
theorem C04_end_to_end_varint (max : Int) (hmax : max > 0) (fin : RErr) (ps : List Bytes)
    (hadm : ∀ p ∈ ps, (p.length : Int) ≤ max ∧ p.length < 2^63)
    (sync : Bool) (cap : Nat) (untilW : Bool) (acts : List (Chan.Act Bytes)) (s : Chan.St Bytes)
    (hr : Chan.run (NettyVerif.C02.init sync cap untilW) acts = some s)
    (hb : s.broken = false) (hq : s.quiescent = true)
    (hacc : s.accepted = ps.map (fun p => putUvarint p.length ++ p))
    (r : Transport.Route) (hroute : r ∈ Gen.Routing.routes) (size : Nat) (ops : List Transport.Op)
    (hops : Transport.written ops = s.wire.flatten)
    (cs : List Bytes) (hflat : cs.flatten = (Transport.run r { size := size } (ops ++ [.flush])).conn) :
    ∃ rest, readLoop true (.varint max) (ps.length + 1) cs fin = (ps, some rest) := by
  have hwire : s.wire = s.accepted := (NettyVerif.C02.C02_quiescent_clean sync cap untilW acts s hr hb hq).2.2.1
  have hgood : r.good = true := List.all_eq_true.1 NettyVerif.C17.C17_routing_extracted_ok.1 r hroute
  have hconn := NettyVerif.C17.C17_after_flush r hgood ops size
  apply C04_stream_varint max hmax fin ps cs hadm
  rw [hflat, hconn, hops, hwire, hacc]

/-- instance: the length-field codec with its built-in encoder or a matching stand-alone prepender; each frame
    is what `encodePrep` emits for some admissible body, each message that frame minus the stripped bytes -/
theorem C04_end_to_end_lf (c : LFCfg) (pc : PrepCfg) (fin : RErr) (frames : List (Bytes × Bytes))
    (hv : c.valid = true) (hoff : c.offset = 0) (hbig : pc.big = c.big) (hfl : pc.fieldLen = c.fieldLen)
    (hadj : -(2^62) < c.adj ∧ c.adj < 2^62) (hmax62 : c.max < 2^62)
    (hpair : c.adj + pc.adj + (if pc.incl then c.fieldLen else 0) = 0)
    (hframes : ∀ fm ∈ frames, ∃ body, encodePrep pc body = some fm.1 ∧ fm.2 = fm.1.drop c.strip.toNat ∧
        c.fieldLen + body.length ≤ c.max ∧ c.strip ≤ c.fieldLen + body.length)
    (sync : Bool) (cap : Nat) (untilW : Bool) (acts : List (Chan.Act Bytes)) (s : Chan.St Bytes)
    (hr : Chan.run (NettyVerif.C02.init sync cap untilW) acts = some s)
    (hb : s.broken = false) (hq : s.quiescent = true)
    (hacc : s.accepted = frames.map (·.1))
    (r : Transport.Route) (hroute : r ∈ Gen.Routing.routes) (size : Nat) (ops : List Transport.Op)
    (hops : Transport.written ops = s.wire.flatten)
    (cs : List Bytes) (hflat : cs.flatten = (Transport.run r { size := size } (ops ++ [.flush])).conn) :
    ∃ rest, readLoop true (.lf c) (frames.length + 1) cs fin = (frames.map (·.2), some rest) := by
  apply C04_end_to_end (.lf c) (by simpa [Codec.valid] using hv) fin frames _ sync cap untilW acts s hr hb hq hacc r hroute size ops hops cs hflat
  intro fm hfm cs' tl hfl'
  obtain ⟨body, henc, hmsg, hmax, hstrip⟩ := hframes fm hfm
  rw [hmsg]
  exact C04_lf_roundtrip c pc body fm.1 tl cs' fin hv hoff hbig hfl hadj hmax62 hpair henc hmax hstrip hfl'

-- premises satisfiable: a queued channel (capacity 2) that accepted one varint frame and came to rest
example : (Chan.run (NettyVerif.C02.init (α := Bytes) false 2 true)
      [.beginWrite, .enqueue [2, 1, 7], .casWriter, .exec, .sndRecv, .sndDefault, .sndWritev true, .sndPut, .sndLen1,
       .sndFlush true, .sndStore, .lingLen 0]).map (fun s => (s.quiescent, s.broken, s.accepted, s.wire)) =
    some (true, false, [[2, 1, 7]], [[2, 1, 7]]) := by decide

end EndToEnd

end NettyVerif.C04

#print axioms NettyVerif.C04.C04_fragmentation_independent
#print axioms NettyVerif.C04.C04_encoder_sound
#print axioms NettyVerif.C04.C04_encoder_pinned_unsound
#print axioms NettyVerif.C04.C04_lf_roundtrip
#print axioms NettyVerif.C04.C04_varint_roundtrip
#print axioms NettyVerif.C04.C04_delim_roundtrip
#print axioms NettyVerif.C04.C04_fixed_roundtrip
#print axioms NettyVerif.C04.C04_stream
#print axioms NettyVerif.C04.C04_stream_varint
#print axioms NettyVerif.C04.C04_stream_fixed
#print axioms NettyVerif.C04.C04_guards_lf_constructor
#print axioms NettyVerif.C04.C04_guards_pack_field_length
#print axioms NettyVerif.C04.C04_guards_prepender
#print axioms NettyVerif.C04.C04_guards_varint_write
#print axioms NettyVerif.C04.C04_end_to_end
#print axioms NettyVerif.C04.C04_end_to_end_varint
#print axioms NettyVerif.C04.C04_end_to_end_lf
