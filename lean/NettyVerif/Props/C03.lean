import NettyVerif.Proofs.PipelineOps
/-! # C03 — Pipeline order and event routing match the handler-list model

Property theorems only. The concrete model (Model/Pipeline.lean) is the pointer structure of
pipeline.go/context.go: `next` and `prev` links updated separately, a size counter, loops that
walk the links. The specification is a plain `List Handler` between a fixed head and tail.
`Refines p addrs s` says pipe `p`, whose user contexts are at addresses `addrs`, represents `s`
(both link directions spell head :: addrs ++ [tail], size agrees, handlers agree). -/
namespace NettyVerif.C03
open NettyVerif.Pipeline

/-- every building operation refines its list specification: AddFirst prepends (reversing a
    multi-handler call, as the code does), AddLast appends, AddHandler inserts after position `pos`
    (-1 and size-1 append); inadmissible handlers and positions ≥ size panic and change nothing. -/
theorem C03_build_step (p : Pipe) (addrs : List Nat) (s : Spec) (o : BuildOp) (hr : Refines p addrs s) :
    match applyS s o with
    | none => applyC p o = .panic
    | some s' => ∃ p' addrs', applyC p o = .ok p' ∧ Refines p' addrs' s' := by
  cases o with
  | addFirst hs => exact addFirst_refines p addrs s hs hr
  | addLast hs => exact addLast_refines p addrs s hs hr
  | addHandler pos hs => exact addHandler_refines p addrs s pos hs hr

/-- **after any sequence of AddFirst/AddLast/AddHandler calls** (any length, any positions, multi-
    handler calls, repeated instances, failing calls in between) the pointer structure represents
    exactly the list the operations define -/
theorem C03_build : ∀ (ops : List BuildOp) (p : Pipe) (addrs : List Nat) (s : Spec), Refines p addrs s →
    ∃ addrs', Refines (runC p ops) addrs' (runS s ops)
  | [], p, addrs, s, hr => ⟨addrs, hr⟩
  | o :: ops, p, addrs, s, hr => by
    have h := C03_build_step p addrs s o hr
    simp only [runC, runS]
    cases hs : applyS s o with
    | none => rw [hs] at h; simp only [h]; exact C03_build ops p addrs s hr
    | some s' =>
      rw [hs] at h
      obtain ⟨p', addrs', hc, hr'⟩ := h
      simp only [hc]
      exact C03_build ops p' addrs' s' hr'

theorem C03_build_from_new (ops : List BuildOp) : ∃ addrs, Refines (runC newPipe ops) addrs (runS [] ops) :=
  C03_build ops newPipe [] [] refines_new

/-- Size, IndexOf (from the head), LastIndexOf (from the tail, counting down from size-1) and
    ContextAt agree with the list, from both ends -/
theorem C03_queries {p : Pipe} {addrs : List Nat} {s : Spec} (hr : Refines p addrs s) :
    p.size = s.length + 2 ∧
    (∀ pred, indexOf p pred = s.indexOf pred) ∧
    (∀ pred, lastIndexOf p pred = s.lastIndexOf pred) ∧
    (∀ pos : Int, (pos = -1 ∨ pos ≥ (s.length : Int) + 2 → contextAt p pos = .ok none) ∧
      (¬ (pos = -1 ∨ pos ≥ (s.length : Int) + 2) →
        ∃ a, contextAt p pos = .ok (some a) ∧ (headA :: addrs ++ [tailA])[pos.toNat]? = some a ∧
          s.all[pos.toNat]? = some (p.hdl a))) :=
  ⟨refines_size hr, indexOf_refines hr, lastIndexOf_refines hr, contextAt_refines hr⟩

/-- both link directions spell the same list: forward chain from head = reverse of backward chain -/
theorem C03_both_directions {p : Pipe} {addrs : List Nat} {s : Spec} (hr : Refines p addrs s) :
    Path p.next headA (headA :: addrs ++ [tailA]) tailA ∧
    Path p.prev tailA (headA :: addrs ++ [tailA]).reverse headA ∧
    (headA :: addrs ++ [tailA]).map p.hdl = s.all :=
  ⟨hr.wf.fwd, hr.wf.bwd, refines_all hr⟩

/-- **routing**: an event of kind `k` delivered from the context at position `i` — `ctx.HandleX`
    forwarding, `ctx.Write`, `ctx.Trigger` — invokes exactly the contexts at the positions computed by
    the list specification (implementers of the matching interface reached by forwarding; towards the
    tail for the five inbound kinds, towards the head for writes), each with the context of its own
    position, and ends the same way (stopped / dropped / written to the channel by the head /
    channel closed by the tail). -/
theorem C03_routing {p : Pipe} {addrs : List Nat} {s : Spec} (hr : Refines p addrs s) (k : Kind) (i : Nat)
    (hi : i < s.length + 2) :
    deliver p k (p.fresh + 1) ((headA :: addrs ++ [tailA]).getD i 0) =
      ((s.deliver k i).1.map (fun j => (headA :: addrs ++ [tailA]).getD j 0), (s.deliver k i).2) :=
  route_refines hr k i hi

/-- pipeline.Fire*: inbound events enter at the head (position 0), writes at the tail -/
theorem C03_fire {p : Pipe} {addrs : List Nat} {s : Spec} (hr : Refines p addrs s) (k : Kind) :
    fire p k =
      ((s.deliver k (if k = .write then s.length + 1 else 0)).1.map (fun j => (headA :: addrs ++ [tailA]).getD j 0),
       (s.deliver k (if k = .write then s.length + 1 else 0)).2) := by
  have hlen : addrs.length = s.length := by rw [← hr.abs]; simp
  unfold fire
  by_cases hk : k = .write
  · have := route_refines hr k (s.length + 1) (by omega)
    simp only [hk, ite_true] at this ⊢
    rw [← this]
    congr 1
    simp [List.getD, ← hlen]
  · have := route_refines hr k 0 (by omega)
    simp only [hk, ite_false] at this ⊢
    rw [← this]
    rfl

/-- non-vacuity / sanity of the specification on a concrete pipeline:
    handlers 10 (inbound+outbound, forwards), 11 (inbound only, forwards), 12 (outbound+exception, stops) -/
def hA : Handler := { id := 10, impl := 6, fwd := 6 }
def hB : Handler := { id := 11, impl := 2, fwd := 2 }
def hC : Handler := { id := 12, impl := 12, fwd := 0 }
def demoOps : List BuildOp := [.addLast [hA, hC], .addHandler 1 [hB], .addHandler 9 [hB], .addFirst []]

example : runS [] demoOps = [hA, hB, hC] := by decide
example : ∃ addrs, Refines (runC newPipe demoOps) addrs [hA, hB, hC] := by
  have := C03_build_from_new demoOps
  rwa [show runS [] demoOps = [hA, hB, hC] by decide] at this
-- a read visits positions 1 (hA) and 2 (hB) and then falls off the end; a write from the tail stops at hC;
-- an exception from the head visits hC and stops; an exception from hC's position reaches the tail: close
example : Spec.deliver [hA, hB, hC] .read 0 = ([1, 2], .dropped) := by decide
example : Spec.deliver [hA, hB, hC] .write 4 = ([3], .stopped) := by decide
example : Spec.deliver [hA, hB, hC] .write 3 = ([1, 0], .chanWrite) := by decide
example : Spec.deliver [hA, hB, hC] .exception 3 = ([4], .close) := by decide

end NettyVerif.C03

#print axioms NettyVerif.C03.C03_build_step
#print axioms NettyVerif.C03.C03_build
#print axioms NettyVerif.C03.C03_build_from_new
#print axioms NettyVerif.C03.C03_queries
#print axioms NettyVerif.C03.C03_both_directions
#print axioms NettyVerif.C03.C03_routing
#print axioms NettyVerif.C03.C03_fire
