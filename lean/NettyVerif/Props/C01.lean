import NettyVerif.Proofs.Chan
import NettyVerif.Props.C17
/-! # C01 — Accepted writes reach the transport exactly once, in order, intact

Over the Chan LTS (Model/Chan.lean): `accepted` is the ghost list of payloads in acceptance order
(appended by the enqueue step of an async write call, by the transport write of a sync one),
`wire` the packets handed to the transport.  Every theorem quantifies over the channel kind, the
queue capacity (any `cap`, blocking or not), the payload type, and *all* action lists — i.e. any
number of concurrent writer goroutines and every interleaving with the sender(s) and the executor. -/
namespace NettyVerif.C01
open NettyVerif.Chan
variable {α : Type}

def init (sync : Bool) (cap : Nat) (untilW : Bool) : St α := { sync := sync, cap := cap, untilW := untilW }

/-- **FIFO invariant**: as long as the transport accepts writes, what was accepted is exactly what
    is on the wire, followed by the batch being assembled, followed by the queue -/
theorem C01_fifo (sync : Bool) (cap : Nat) (untilW : Bool) (acts : List (Act α)) (s : St α)
    (hr : run (init sync cap untilW) acts = some s) (hb : s.broken = false) :
    s.accepted = s.wire ++ s.batch ++ s.q :=
  (inv_run acts _ s (inv_init sync cap untilW) hr).fifo hb

/-- hence at every moment the wire is a prefix of the accepted payloads in acceptance order: each
    payload appears at most once, whole and unmodified, never out of order, and nothing else does -/
theorem C01_wire_is_prefix (sync : Bool) (cap : Nat) (untilW : Bool) (acts : List (Act α)) (s : St α)
    (hr : run (init sync cap untilW) acts = some s) (hb : s.broken = false) :
    s.wire <+: s.accepted := by
  rw [C01_fifo sync cap untilW acts s hr hb, List.append_assoc]
  exact List.prefix_append _ _

/-- synchronous channel: accepted = wire, always -/
theorem C01_sync_exact (cap : Nat) (untilW : Bool) (acts : List (Act α)) (s : St α)
    (hr : run (init true cap untilW) acts = some s) (hb : s.broken = false) : s.wire = s.accepted := by
  have hinv := inv_run acts _ s (inv_init true cap untilW) hr
  have hsync : s.sync = true := by
    have : ∀ (acts : List (Act α)) (a b : St α), run a acts = some b → b.sync = a.sync := by
      intro acts
      induction acts with
      | nil => intro a b h; simp [run] at h; subst h; rfl
      | cons x xs ih =>
        intro a b h
        simp only [run] at h
        cases hs : step a x with
        | none => simp [hs] at h
        | some a1 =>
          simp [hs] at h
          rw [ih a1 b h]
          cases x <;> simp only [step] at hs <;> (repeat' split at hs) <;> simp at hs <;> subst hs <;> rfl
    exact this acts _ s hr
  obtain ⟨_, _, _, _, hq, hrun⟩ := hinv.syncNoSender hsync
  have hbatch := hinv.idleClean hb hrun
  rw [hinv.fifo hb, hbatch, hq]; simp

/-- acceptance order is real-time order: a payload accepted by a later step is appended behind every
    payload accepted before (so a call that returned before another began precedes it, and one
    goroutine's payloads keep their call order) -/
theorem C01_acceptance_appends (s s' : St α) (p : α) (h : step s (.enqueue p) = some s') :
    s'.accepted = s.accepted ++ [p] ∧ s'.wire = s.wire := by
  simp only [step] at h
  split at h <;> simp at h
  subst h; simp

/-- only acceptance steps extend `accepted`, and only the owner's Writev / a sync write extends the wire -/
theorem C01_wire_only_grows (s s' : St α) (a : Act α) (h : step s a = some s') : s.wire <+: s'.wire := by
  cases a <;> simp only [step] at h <;> (repeat' split at h) <;> simp at h <;> subst h <;> simp

/-- non-vacuity: two writers, capacity 1, the second enqueue happens while the sender is mid-batch -/
example : (run (init false 1 true : St Nat)
    [.beginWrite, .beginWrite, .enqueue 1, .casWriter, .exec, .sndRecv, .enqueue 2, .casWriter, .sndWritev true, .sndPut, .sndLen1, .sndRecv, .sndWritev true]).map
      (fun s => (s.wire, s.accepted, s.q)) = some ([1, 2], [1, 2], []) := by decide

/-! ## down to the connection: the transport wrappers of transport/buffered.go

The channel hands its packets to a `transport.Transport`; with read / write buffering configured
that is one of the four wrappers of buffered.go. Whatever sequence of Write / Writev / Flush calls
the channel issues, the bytes reaching the connection are a prefix of the bytes written, in call
order — for every wrapper the extractor finds in the current source (T3, `Gen/Routing.lean`). -/
open NettyVerif.Transport in
theorem C01_connection_gets_a_prefix (r : Route) (hr : r ∈ Gen.Routing.routes) (size : Nat) (ops : List Op) :
    (Transport.run r { size := size } ops).conn <+: written ops := by
  have hgood : r.good = true := by
    have := NettyVerif.C17.C17_routing_extracted_ok.1
    exact List.all_eq_true.1 this r hr
  have h := (NettyVerif.C17.C17_write_stream r hgood ops { size := size } (fun _ => rfl)).1
  simp only [List.nil_append] at h
  exact ⟨_, h⟩

end NettyVerif.C01

#print axioms NettyVerif.C01.C01_fifo
#print axioms NettyVerif.C01.C01_wire_is_prefix
#print axioms NettyVerif.C01.C01_sync_exact
#print axioms NettyVerif.C01.C01_acceptance_appends
#print axioms NettyVerif.C01.C01_wire_only_grows
#print axioms NettyVerif.C01.C01_connection_gets_a_prefix
