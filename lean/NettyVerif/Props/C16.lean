import NettyVerif.Proofs.Json
import NettyVerif.Props.C14
/-! # C16 — text and JSON codecs round-trip and reject malformed frames

JSON: values are trees over null / bool / number literal / string / array / object; `enc` is
encoding/json's encoder for them (compact, HTML-safe escapes), `parse` a recursive-descent parser
with the decoder's semantics (Model/Json.lean, both validated against encoding/json by the tie);
`decodeFrame` is the codec's read side: the first value of the frame must be an object.
Text: the codec moves bytes between a string and a carrier without transformation. -/
namespace NettyVerif.C16
open NettyVerif.Json

/-- **JSON round trip**: every object — any nesting, any keys and strings (every Unicode scalar
    value, incl. quotes, control characters, `<>&`, U+2028), any number literal (integers beyond
    2^53, fractions, exponents) — written by the encoder is read back as the identical object,
    whatever follows it in the frame -/
theorem C16_json_roundtrip (m : JM) (hw : m.wf = true) (trailing : List Char) :
    decodeFrame false (enc (.obj m) ++ trailing) = .deliver (.obj m) := by
  have hp := parse_enc (.obj m) (by simpa [JV.wf] using hw) trailing (by simp [needRest])
  simp [decodeFrame, hp]

/-- the same for every value inside a frame: the parser inverts the encoder (a bare number needs
    to be followed by something that cannot continue it) -/
theorem C16_json_value_roundtrip (v : JV) (hw : v.wf = true) (rest : List Char) (hr : needRest v rest) :
    parse (enc v ++ rest) = some (v, rest) := parse_enc v hw rest hr

/-- **only objects are delivered**: a message is delivered exactly when the frame begins (after
    whitespace) with one complete valid JSON value and that value is an object; `null`, arrays,
    numbers, strings, truncated or otherwise malformed text raise — and the codec never delivers
    a nil map -/
theorem C16_json_delivers_only_objects (frame : List Char) :
    (∀ v, decodeFrame false frame = .deliver v → ∃ m rest, parse frame = some (.obj m, rest) ∧ v = .obj m) ∧
    decodeFrame false frame ≠ .deliverNil ∧
    ((∀ m rest, parse frame ≠ some (.obj m, rest)) → decodeFrame false frame = .raise) := by
  unfold decodeFrame
  refine ⟨?_, ?_, ?_⟩
  · intro v h
    split at h
    · rename_i m rest hp; injection h with h; exact ⟨m, rest, hp, h.symm⟩
    · simp at h
    · cases h
  · split <;> simp
  · intro hno
    split
    · rename_i m rest hp; exact absurd hp (hno m rest)
    · simp
    · rfl

/-- what is delivered is a well-formed object that encodes and parses back to itself -/
theorem C16_json_delivered_is_stable (frame : List Char) (v : JV) (h : decodeFrame false frame = .deliver v) :
    v.wf = true ∧ decodeFrame false (enc v) = .deliver v := by
  obtain ⟨m, rest, hp, rfl⟩ := (C16_json_delivers_only_objects frame).1 v h
  have hw : (JV.obj m).wf = true := (parser_wf _).1 _ _ _ hp
  refine ⟨hw, ?_⟩
  have := C16_json_roundtrip m (by simpa [JV.wf] using hw) []
  simpa using this

/-- the pinned codec delivered a nil map for the frame `null` (also ` null `, `nullx`); the repaired
    one raises -/
theorem C16_pinned_null_delivers_nil :
    (match decodeFrame true "null".toList with | .deliverNil => true | _ => false) = true ∧
    (match decodeFrame true " null x".toList with | .deliverNil => true | _ => false) = true ∧
    (match decodeFrame false "null".toList with | .raise => true | _ => false) = true := by decide

/-- malformed frames raise (instances of the rejection theorem, evaluated in the kernel) -/
theorem C16_json_rejects_examples :
    ["", " ", "[1,2]", "12", "\"s\"", "true", "{", "{\"a\":1", "{\"a\":01}", "{\"a\":1,}", "{\"a\" 1}", "{a:1}", "{\"a\":\"\\x\"}", "{\"a\":tru}", "{\"a\":1e}", "{\"a\":\"\n\"}"].all
      (fun f => match decodeFrame false f.toList with | .raise => true | _ => false) = true := by decide +kernel

/-- … and frames that begin with a complete object are delivered whatever follows -/
theorem C16_json_accepts_examples :
    ["{}", " {\"a\":1}", "{\"a\":[1,2,{\"b\":null}]}}}", "{\"k\":\"\\u00e9\\ud83d\\ude00\"} trailing", "{\"n\":-1.5e+10}{", "\t{\r\n}"].all
      (fun f => match decodeFrame false f.toList with | .deliver _ => true | _ => false) = true := by decide +kernel

/-! ## text codec -/
open NettyVerif.Carrier

/-- textCodec.HandleWrite: a string goes down as a strings.Reader over its bytes -/
def textWrite (s : Bytes) : Msg := .bytesReader s
/-- textCodec.HandleRead: utils.MustToBytes of whatever carrier arrives, converted to a string -/
def textRead (m : Msg) : Except Unit Bytes := toBytes m

/-- **text identity**: the bytes that reach the wire for a string are exactly its bytes, and a
    carrier holding those bytes is read back as the identical string — every byte value, any length;
    nothing is transformed, trimmed or re-encoded -/
theorem C16_text_identity (s : Bytes) :
    (textWrite s).content = some s ∧
    (∀ m : Msg, m.content = some s → ∀ b, textRead m = .ok b → b = s) ∧
    textRead (.bytes s) = .ok s ∧ textRead (.bytesReader s) = .ok s ∧ textRead (.str s) = .ok s ∧
    (∀ script, scriptError script = none → scriptContent script = s → textRead (.reader script) = .ok s) := by
  refine ⟨rfl, ?_, rfl, rfl, rfl, ?_⟩
  · intro m hm b hb
    have := NettyVerif.C14.C14_toBytes_exact m
    unfold textRead at hb
    rw [hb] at this
    simp only at this
    rw [hm] at this
    exact (Option.some.inj this).symm
  · intro script he hc
    simp [textRead, toBytes, he, hc]

end NettyVerif.C16

#print axioms NettyVerif.C16.C16_json_roundtrip
#print axioms NettyVerif.C16.C16_json_value_roundtrip
#print axioms NettyVerif.C16.C16_json_delivers_only_objects
#print axioms NettyVerif.C16.C16_json_delivered_is_stable
#print axioms NettyVerif.C16.C16_pinned_null_delivers_nil
#print axioms NettyVerif.C16.C16_json_rejects_examples
#print axioms NettyVerif.C16.C16_json_accepts_examples
#print axioms NettyVerif.C16.C16_text_identity
