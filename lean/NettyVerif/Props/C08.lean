import NettyVerif.Proofs.Frame
import NettyVerif.Proofs.VarLen
import NettyVerif.Proofs.Guards
import NettyVerif.Proofs.ExactReader
/-! # C08 — Frame decoders never deliver a truncated, oversized or phantom frame

Property theorems only, over the same executable codec model as C04 (Model/Frame.lean), for
*arbitrary* byte streams `cs` (any chunking), any end-of-stream kind `fin` and any valid
configuration. `stepRead true` is the repaired code (exact-length frame reader); `stepRead false`
is the pinned code (io.LimitReader), kept for the negation witnesses. -/
namespace NettyVerif.C08
open NettyVerif.Frame

/-- **delivered frames are complete and bounded**: whenever a decoder delivers a message it is made
    of exactly the bytes consumed from the stream (`FrameOK`: whole length-field frame minus the
    strip, varint body of its declared length ≤ max, delimiter-terminated frame ≤ max, exactly `n`
    bytes for fixed), at least one byte and at most `bound` (max, resp. max + 10-byte varint header)
    bytes were pulled from the source; nothing short-then-EOF is ever delivered. -/
theorem C08_delivered_frames_complete (c : Codec) (hv : c.valid = true) (cs : List Bytes) (fin : RErr)
    (m : Bytes) (rest : List Bytes) (h : stepRead true c cs fin = .msg m rest) :
    ∃ consumed, cs.flatten = consumed ++ rest.flatten ∧ 1 ≤ consumed.length ∧
      consumed.length ≤ c.bound ∧ FrameOK c consumed m :=
  step_msg_sound c hv cs fin m rest h

/-- consequence: a fixed-length decoder never delivers anything but exactly `n` bytes -/
theorem C08_fixed_exact (n : Int) (hn : n > 0) (cs : List Bytes) (fin : RErr) (m : Bytes) (rest : List Bytes)
    (h : stepRead true (.fixed n) cs fin = .msg m rest) : m.length = n.toNat := by
  obtain ⟨_, _, _, _, hok⟩ := step_msg_sound (.fixed n) (by simpa [Codec.valid] using hn) cs fin m rest h
  exact hok.2

/-- **end of stream is never a message**: on an exhausted stream every decoder raises (the
    exception that reaches the tail and closes the channel) … -/
theorem C08_eof_raises (c : Codec) (hv : c.valid = true) (fin : RErr) (cs : List Bytes) (h : cs.flatten = []) :
    ∃ rest, stepRead true c cs fin = .raise rest :=
  step_eof_raises c hv fin cs h

/-- … and the read loop always terminates in that exception: no input makes it deliver messages
    forever or spin without consuming input (every delivered message consumed ≥ 1 byte). -/
theorem C08_loop_terminates (c : Codec) (hv : c.valid = true) (fin : RErr) (cs : List Bytes) :
    ∃ rest, (readLoop true c (cs.flatten.length + 1) cs fin).2 = some rest :=
  readLoop_terminates c hv fin (cs.flatten.length + 1) cs (by omega)

/-- the number of messages delivered from a stream is at most its length in bytes -/
theorem C08_no_phantom_messages (c : Codec) (hv : c.valid = true) (fin : RErr) : ∀ (fuel : Nat) (cs : List Bytes),
    (readLoop true c fuel cs fin).1.length ≤ cs.flatten.length
  | 0, _ => by simp [readLoop]
  | fuel+1, cs => by
    simp only [readLoop]
    cases hs : stepRead true c cs fin with
    | raise rest => simp
    | msg m rest =>
      obtain ⟨consumed, h1, h2, _, _⟩ := step_msg_sound c hv cs fin m rest hs
      have ih := C08_no_phantom_messages c hv fin fuel rest
      have : cs.flatten.length = consumed.length + rest.flatten.length := by rw [h1, List.length_append]
      simp only [List.length_cons]; omega

/-- **pinned code, negation witnesses** (replayed on the implementation before the fix):
    a 7-byte fixed-length decoder delivers the 3 bytes left before EOF as a complete message … -/
theorem C08_pinned_truncated_frame :
    stepRead false (.fixed 7) [[1, 2, 3]] .eof = .msg [1, 2, 3] [] := by decide

/-- … and on the ended stream it delivers empty messages for as long as it is run -/
theorem C08_pinned_endless_empty_messages :
    readLoop false (.fixed 7) 50 [] .eof = (List.replicate 50 [], none) := by decide

/-- … a varint frame declaring 10 bytes followed by 2 bytes and EOF is delivered as "ab" -/
theorem C08_pinned_varint_truncated :
    stepRead false (.varint 64) [[10, 97, 98]] .eof = .msg [97, 98] [] := by decide

/-- the same inputs on the repaired code raise -/
example : stepRead true (.fixed 7) [[1, 2, 3]] .eof = .raise [] := by decide
example : stepRead true (.varint 64) [[10, 97, 98]] .eof = .raise [] := by decide
/-- adversarial headers: an 8-byte field of 0xff… (negative as int64) and a frame above max raise -/
example : stepRead true (.lf { big := true, max := 64, offset := 0, fieldLen := 8, adj := 0, strip := 0 })
    [[255, 255, 255, 255, 255, 255, 255, 255, 1]] .eof = .raise [[1]] := by decide
example : stepRead true (.lf { big := true, max := 64, offset := 0, fieldLen := 1, adj := 0, strip := 0 })
    [[200], [1, 2]] .eof = .raise [[1, 2]] := by decide
/-- an over-long varint (10 continuation bytes) raises -/
example : stepRead true (.varint 64) [List.replicate 11 128] .eof = .raise [[128]] := by decide

/-! ## the variable-length decoder (no framing: one message per transport read of at most `max` bytes) -/

/-- whatever the fragments of the stream are, every delivered message respects the configured
    maximum; with `max > 0` and a transport that never returns empty reads no message is empty
    (so the loop consumes input at every step), and what has been delivered is always a prefix of
    the stream: nothing lost, duplicated, reordered or invented -/
theorem C08_variable_length_bounded (max fuel : Nat) (cs : List VarLen.Bytes) :
    (∀ m ∈ VarLen.run max fuel cs, m.length ≤ max) ∧
    (∃ tail, (VarLen.run max fuel cs).flatten ++ tail = cs.flatten) :=
  ⟨VarLen.run_bounded max fuel cs, VarLen.run_prefix max fuel cs⟩

theorem C08_variable_length_progress (max : Nat) (hmax : 0 < max) (cs : List VarLen.Bytes) (hne : ∀ c ∈ cs, c ≠ [])
    (m : VarLen.Bytes) (rest : List VarLen.Bytes) (h : VarLen.step max cs = .msg m rest) :
    m ≠ [] ∧ (∀ c ∈ rest, c ≠ []) := VarLen.step_nonempty max hmax cs hne m rest h

example : VarLen.run 3 10 [[1, 2, 3, 4, 5], [6]] = [[1, 2, 3], [4, 5], [6]] := by decide

/-! ### The decoders' guards as the code states them (T3: `Gen/Guards.lean`, regenerated on every run) -/
section Guards
open NettyVerif.Guards

/-- lengthFieldCodec.HandleRead, from the header read to its last guard: the extracted statements
    are the expected ones, and executed under Go's 64-bit semantics on a completely read header they
    raise exactly when `lfFrameLength` (the guards of the model's `decodeLF`) refuses, and compute the
    same adjusted frame length — for every valid configuration and every value of the length field;
    `decodeLF` is exactly: read the header, apply `lfFrameLength`, strip. -/
theorem C08_guards_lf_read :
    guardsOf Gen.Guards.lengthFieldCodec_HandleRead = guardsOf expLFReadGuards ++ guardsOf expLFReadRest ∧
    (∀ (c : LFCfg) (env : Env), LFEnv c env → c.valid = true → I64 c.max → I64 c.strip →
      (env.var "n" = env.len "headerBuffer" ∧ env.var "nil" = env.var "err") →
      ∀ fl0 : Int, env.opq unpackCall = fl0 →
      (run (guardsOf expLFReadGuards) env).map (fun e => e.var "frameLength") = lfFrameLength c fl0) ∧
    (∀ (c : LFCfg) (cs : List Bytes) (fin : RErr) (hdr : Bytes) (rest : List Bytes),
      readFull cs fin (c.offset + c.fieldLen).toNat = (.ok hdr, rest) →
      lfFrameLength c (wrap64 ((unpack c.big (hdr.drop c.offset.toNat) : Nat) : Int)) = none →
      decodeLF c cs fin = .raise rest) := by
  refine ⟨rfl, ?_, ?_⟩
  · intro c env he hv hm hs hio fl0 hfl
    rw [← run_guardsOf]
    exact expLFReadGuards_sem c env he hv hm hs hio fl0 hfl
  · intro c cs fin hdr rest hr hn
    rw [decodeLF_guards, hr]
    simp only [hn]

/-- the varint decoder refuses exactly the declared lengths above the maximum (`decodeVarint`) -/
theorem C08_guards_varint_read (max v : Int) (env : Env) (hm : 0 < max ∧ max < 2^63)
    (h1 : env.var "maxFrameLength" = max) (h2 : env.var "frameLength" = v) (h3 : env.opq "err" = 0) :
    (run Gen.Guards.varintLengthFieldCodec_HandleRead env).isSome = !decide (v > max) := by
  rw [run_guardsOf, show guardsOf Gen.Guards.varintLengthFieldCodec_HandleRead = guardsOf expVarintHandleRead from rfl, ← run_guardsOf]
  exact expVarintHandleRead_sem max v env hm h1 h2 h3

/-- the constructors of the fixed-length, delimiter, varint and variable-length codecs accept
    exactly what `Codec.valid` (and `VarLen`'s `0 < max`) require -/
theorem C08_guards_constructors (v : Int) (d : Bytes) (s : Bool) (env : Env) :
    (env.var "length" = v → (run Gen.Guards.FixedLengthCodec env).isSome = (Codec.fixed v).valid) ∧
    (env.var "maxFrameLength" = v → (run Gen.Guards.VarintLengthFieldCodec env).isSome = (Codec.varint v).valid) ∧
    (env.var "maxReadLength" = v → (run Gen.Guards.VariableLengthCodec env).isSome = decide (v > 0)) ∧
    (env.var "maxFrameLength" = v → env.len "delimiter" = d.length →
      (run Gen.Guards.DelimiterCodec env).isSome = (Codec.delim d v s).valid) := by
  refine ⟨?_, ?_, ?_, ?_⟩
  · intro h
    rw [run_guardsOf, show guardsOf Gen.Guards.FixedLengthCodec = expPositive "length" from rfl]
    simpa [Codec.valid] using expPositive_sem "length" v env h
  · intro h
    rw [run_guardsOf, show guardsOf Gen.Guards.VarintLengthFieldCodec = expPositive "maxFrameLength" from rfl]
    simpa [Codec.valid] using expPositive_sem "maxFrameLength" v env h
  · intro h
    rw [run_guardsOf, show guardsOf Gen.Guards.VariableLengthCodec = expPositive "maxReadLength" from rfl]
    exact expPositive_sem "maxReadLength" v env h
  · intro h1 h2
    rw [run_guardsOf, show guardsOf Gen.Guards.DelimiterCodec = expDelimiterCodec from rfl]
    exact expDelimiterCodec_sem d v s env h1 h2

/-- `exactReader.Read` as the source states it (extracted on every run) makes the four decisions of the
    call-level model `ExactR.read`: early `(0, io.EOF)` iff the counter is not positive; the buffer is
    shortened iff it is longer than the counter; the counter goes down by what the underlying Read
    returned; `io.EOF` becomes `io.ErrUnexpectedEOF` iff the counter is still positive -/
theorem C08_guards_exact_reader (n : Int) (plen : Nat) (env : Env)
    (h1 : env.var "e.n" = n) (h2 : env.len "p" = plen) (hp : (plen : Int) < 2^63) :
    Gen.Guards.exactReader_Read = expExactRead ∧
    (GE.eval env (.bin "<=" (.var "e.n") (.lit 0)) ≠ 0 ↔ n ≤ 0) ∧
    (GE.eval env (.bin ">" (.conv "int64" (.len "p")) (.var "e.n")) ≠ 0 ↔ (plen : Int) > n) ∧
    (∀ (k errc eofc ueofc : Int) (env' : Env), env'.var "e.n" = n → env'.var "n" = k → env'.var "err" = errc →
      env'.opq "io.EOF" = eofc → env'.opq "io.ErrUnexpectedEOF" = ueofc → I64 k → I64 (n - k) →
      (run (Gen.Guards.exactReader_Read.drop 3) env').map (fun e => (e.var "e.n", e.var "err")) =
        some (n - k, if errc = eofc ∧ n - k > 0 then ueofc else errc)) :=
  ⟨rfl, expExactRead_sem n plen env h1 h2 hp⟩

-- the guards bite: a length field of 2000 against a maximum of 1024 is refused, 10 is accepted
example : lfFrameLength { big := true, max := 1024, offset := 0, fieldLen := 2, adj := 0, strip := 0 } 2000 = none := by decide
example : lfFrameLength { big := true, max := 1024, offset := 0, fieldLen := 2, adj := 0, strip := 0 } 10 = some 12 := by decide

end Guards

/-! ### The exact-length reader, call by call (`Model/ExactReader.lean`, utils/reader.go)

`drainExact` summarises a frame body as "the next `lim` bytes, or an error". The reader object behind
it is modelled one `Read` at a time, and the summary's content is proved for every consumer: -/
section ExactReader
open NettyVerif.ExactR

/-- **no consumer can get a truncated frame out of the exact reader as if it were complete**: for
    every declared length `n`, every stream and fragmentation, every end-of-stream kind and every
    sequence of buffer sizes (zero-length buffers included), what the consumer has when it stops is a
    prefix of the stream of at most `n` bytes, nothing is lost or skipped (delivered ++ rest = stream),
    and if what stopped it was a clean `io.EOF` it has exactly `n` bytes -/
theorem C08_exact_reader_call_by_call (fin : RErr) (sizes : List Nat) (n : Nat) (cs : List Bytes) :
    let r := consume read fin sizes [] (n : Int) cs
    r.1 ++ r.2.2.1.flatten = cs.flatten ∧ r.1.length ≤ n ∧ (r.2.2.2 = some .eof → r.1.length = n) := by
  obtain ⟨h1, h2, h3, h4⟩ := consume_inv fin sizes [] (n : Int) cs
  simp only [List.nil_append, List.length_nil] at h1 h2
  refine ⟨h1, ?_, ?_⟩
  · have := h3 (by omega); omega
  · intro he; have := h4 he; have := h3 (by omega); omega

/-- **the call-level reader refines the frame-level summary**: whenever a consumer's loop over the exact
    reader is ended by an error — with whatever buffer sizes it read — the outcome is the one `drainExact`
    (the frame body of `Model/Frame.lean`, on which every C04 / C08 decoder theorem rests) states: a clean
    end with exactly the first `n` bytes, or the premature-end error; and the source is left at the same
    position -/
theorem C08_exact_reader_refines_frame_model (fin : RErr) (sizes : List Nat) (n : Nat) (cs : List Bytes)
    (d : Bytes) (n' : Int) (rest : List Bytes) (e : RErr)
    (h : consume read fin sizes [] (n : Int) cs = (d, n', rest, some e)) :
    (drainExact { pre := [], lim := n } cs fin).1 = (if e = .eof then .msg d else .raise e) ∧
    (drainExact { pre := [], lim := n } cs fin).2.flatten = rest.flatten := by
  have inv := consume_inv fin sizes [] (n : Int) cs
  have out := consume_outcome fin sizes [] (n : Int) cs e
  rw [h] at inv out
  simp only [List.nil_append, List.length_nil] at inv out
  obtain ⟨i1, i2, i3, i4⟩ := inv
  have hn' := i3 (by omega)
  have hsnd : (drainExact { pre := [], lim := n } cs fin).2 = (readN cs n).2 := by
    simp only [drainExact]; split <;> rfl
  have hfst : (readN cs n).1 = cs.flatten.take n := readN_fst cs n
  by_cases he : e = .eof
  · have hz := i4 (by rw [he])
    have hdl : d.length = n := by omega
    have htake : cs.flatten.take n = d := by rw [← i1, ← hdl]; simp
    have hdrop : cs.flatten.drop n = rest.flatten := by rw [← i1, ← hdl]; simp
    refine ⟨?_, by rw [hsnd, readN_snd, hdrop]⟩
    simp only [drainExact, hfst, htake, hdl, he, List.nil_append, ite_true]
  · obtain ⟨o1, o2, o3⟩ := out trivial he
    subst o1
    have hd : cs.flatten = d := by rw [← i1]; simp
    have htake : cs.flatten.take n = d := by rw [hd]; exact List.take_of_length_le (by omega)
    have hdrop : cs.flatten.drop n = [] := by rw [hd]; exact List.drop_of_length_le (by omega)
    have hne : d.length ≠ n := by omega
    refine ⟨?_, by rw [hsnd, readN_snd, hdrop]; simp⟩
    simp only [drainExact, hfst, htake, hne, he, ite_false]
    rw [o3]

/-- … and such a consumer always gets there: reading with non-empty buffers, it is stopped by an error after
    at most (chunks + bytes of the source) successful calls, with the outcome `drainExact` states — the
    frame-level summary is exactly what draining the reader object yields -/
theorem C08_exact_reader_drains_to_frame_model (fin : RErr) (sizes : List Nat) (n : Nat) (cs : List Bytes)
    (hpos : ∀ p ∈ sizes, 0 < p) (hlen : cs.length + cs.flatten.length < sizes.length) :
    ∃ d n' rest e, consume read fin sizes [] (n : Int) cs = (d, n', rest, some e) ∧
      (drainExact { pre := [], lim := n } cs fin).1 = (if e = .eof then .msg d else .raise e) ∧
      (drainExact { pre := [], lim := n } cs fin).2.flatten = rest.flatten := by
  have ht := consume_terminates fin sizes [] (n : Int) cs hpos hlen
  cases hc : consume read fin sizes [] (n : Int) cs with
  | mk d r1 =>
    obtain ⟨n', rest, oe⟩ := r1
    cases oe with
    | none => rw [hc] at ht; exact absurd rfl ht
    | some e => exact ⟨d, n', rest, e, rfl, C08_exact_reader_refines_frame_model fin sizes n cs d n' rest e hc⟩

/-- the pinned reader (io.LimitReader): 2 bytes of a frame declared as 10, then a clean end -/
theorem C08_exact_reader_pinned_truncates :
    consume readPinned .eof [8, 8, 8] [] 10 [[97, 98]] = ([97, 98], 8, [], some .eof) := by decide

-- the repaired reader on the same input: ErrUnexpectedEOF
example : consume read .eof [8, 8, 8] [] 10 [[97, 98]] = ([97, 98], 8, [], some .unexpectedEOF) := by decide
-- a complete frame read in pieces, through a zero-length buffer and across chunks: clean end after exactly 5 bytes
example : consume read .eof [2, 0, 8, 8, 8] [] 5 [[1, 2, 3], [4, 5, 6]] = ([1, 2, 3, 4, 5], 0, [[6]], some .eof) := by decide

end ExactReader

end NettyVerif.C08

#print axioms NettyVerif.C08.C08_variable_length_bounded
#print axioms NettyVerif.C08.C08_variable_length_progress
#print axioms NettyVerif.C08.C08_delivered_frames_complete
#print axioms NettyVerif.C08.C08_fixed_exact
#print axioms NettyVerif.C08.C08_eof_raises
#print axioms NettyVerif.C08.C08_loop_terminates
#print axioms NettyVerif.C08.C08_no_phantom_messages
#print axioms NettyVerif.C08.C08_pinned_truncated_frame
#print axioms NettyVerif.C08.C08_pinned_endless_empty_messages
#print axioms NettyVerif.C08.C08_pinned_varint_truncated
#print axioms NettyVerif.C08.C08_guards_lf_read
#print axioms NettyVerif.C08.C08_guards_varint_read
#print axioms NettyVerif.C08.C08_guards_constructors
#print axioms NettyVerif.C08.C08_exact_reader_call_by_call
#print axioms NettyVerif.C08.C08_exact_reader_pinned_truncates
#print axioms NettyVerif.C08.C08_exact_reader_refines_frame_model
#print axioms NettyVerif.C08.C08_guards_exact_reader
#print axioms NettyVerif.C08.C08_exact_reader_drains_to_frame_model
