import NettyVerif.Proofs.Chan
import NettyVerif.Proofs.ChanLive
/-! # C02 — No stranded writes: accepted payloads are sent and flushed unprompted -/
namespace NettyVerif.C02
open NettyVerif.Chan
variable {α : Type}

def init (sync : Bool) (cap : Nat) (untilW : Bool) : St α := { sync := sync, cap := cap, untilW := untilW }

/-- **quiescent ⇒ clean**: in every reachable state of a healthy channel in which nothing is left to
    run (no write call between its enqueue and its CAS, no executor action pending, no sender owner,
    no lingering sender, no closer, lock free) the queue and the batch are empty, everything accepted
    is on the wire and everything on the wire is flushed -/
theorem C02_quiescent_clean (sync : Bool) (cap : Nat) (untilW : Bool) (acts : List (Act α)) (s : St α)
    (hr : run (init sync cap untilW) acts = some s) (hb : s.broken = false) (hq : s.quiescent = true) :
    s.q = [] ∧ s.batch = [] ∧ s.wire = s.accepted ∧ s.flushed = s.accepted.length := by
  have hinv := inv_run acts _ s (inv_init sync cap untilW) hr
  simp only [St.quiescent, Bool.and_eq_true, beq_iff_eq, Option.isNone_iff_eq_none, List.isEmpty_iff,
    Bool.not_eq_true'] at hq
  obtain ⟨⟨⟨⟨⟨h1, h2⟩, h3⟩, h4⟩, _⟩, h6⟩ := hq
  have hr0 : s.running = false := by
    cases hrun : s.running with
    | false => rfl
    | true => have := hinv.owner.1 hrun; simp [h2, h3] at this
  have hqe : s.q = [] := by
    by_cases hq : s.q = []
    · exact hq
    · have := hinv.noStrand hb hq; simp [hr0, h1, h4] at this
  have hbatch := hinv.idleClean hb hr0
  have hfl := hinv.idleFlushed hb hr0 h6
  have hfifo := hinv.fifo hb
  rw [hbatch, hqe] at hfifo
  simp at hfifo
  exact ⟨hqe, hbatch, hfifo.symm, by rw [hfl, hfifo]⟩

/-- **no deadlock with work pending**: whenever a framework goroutine is alive or a write call is
    between enqueue and CAS, some non-client step is enabled — the sender can always move on, so a
    packet can only stay queued while somebody is still obliged (and able) to act -/
theorem C02_progress (sync : Bool) (cap : Nat) (untilW : Bool) (acts : List (Act α)) (s : St α)
    (hr : run (init sync cap untilW) acts = some s)
    (hbusy : s.pendingCas > 0 ∨ s.execPending > 0 ∨ s.snd.isSome ∨ s.lingering ≠ []) :
    ∃ a : Act α, (step s a).isSome = true ∧
      (match a with | .parentCancel => False | .beginWrite => False | .rejectWrite => False | .enqueue _ => False | .noSpace => False | .abortCtx => False | .abortClosed => False | .lock => False | .closeCas => False | _ => True) := by
  have hinv := inv_run acts _ s (inv_init sync cap untilW) hr
  rcases hbusy with h | h | h | h
  · refine ⟨.casWriter, ?_, trivial⟩
    simp only [step]
    split
    · omega
    · split <;> simp
  · have hsn : s.snd = none := by
      cases hs : s.snd with
      | none => rfl
      | some x => exact absurd ⟨by simp [hs], by have := hinv.execLe; omega⟩ hinv.excl
    refine ⟨.exec, ?_, trivial⟩
    simp only [step, hsn]
    split
    · omega
    · simp
  · cases hs : s.snd with
    | none => simp [hs] at h
    | some pc =>
      cases pc with
      | poll =>
        cases hq : s.q with
        | nil => exact ⟨.sndDefault, by simp [step, hs, hq], trivial⟩
        | cons p rest => exact ⟨.sndRecv, by simp [step, hs, hq], trivial⟩
      | writev =>
        have hb := hinv.writevBatch hs
        cases htc : s.trClosed with
        | false => exact ⟨.sndWritev true, by simp [step, hs, hb, htc], trivial⟩
        | true => exact ⟨.sndWritev false, by simp [step, hs, hb, htc], trivial⟩
      | put k =>
        have := hinv.putPos k hs
        obtain ⟨k', rfl⟩ : ∃ k', k = k' + 1 := ⟨k - 1, by omega⟩
        exact ⟨.sndPut, by simp [step, hs], trivial⟩
      | len1 => exact ⟨.sndLen1, by simp [step, hs], trivial⟩
      | flush => exact ⟨.sndFlush true, by simp [step, hs], trivial⟩
      | store => exact ⟨.sndStore, by simp [step, hs], trivial⟩
      | failed => exact ⟨.sndFailMark, by simp [step, hs], trivial⟩
      | failedStore => exact ⟨.sndFailStore, by simp [step, hs], trivial⟩
  · cases hl : s.lingering with
    | nil => exact absurd hl h
    | cons l ls =>
      cases l with
      | len2 => exact ⟨.lingLen 0, by simp only [step, hl]; simp; split <;> simp, trivial⟩
      | cas =>
        refine ⟨.lingCas 0, ?_, trivial⟩
        simp only [step, hl]; simp
        cases hrun : s.running with
        | true => simp
        | false =>
          have hsn : s.snd = none := by
            cases hs : s.snd with
            | none => rfl
            | some x => have := hinv.owner.2 (Or.inl (by simp [hs])); simp [hrun] at this
          simp [hsn]

/-- **termination**: without new client activity the framework's own steps (executor start, the
    owner's poll / Writev / recycle / re-check / Flush / release, the released sender's re-check and
    re-acquire, failure handling) cannot go on for ever — for every state, every queue size and any
    number of released senders. Measure: (queue length, remaining steps of the control tokens),
    lexicographically. -/
theorem C02_framework_terminates : WellFounded (FwStep (α := α)) := fw_wellFounded

/-- **eventually flushed**: from any reachable state of a healthy channel in which every write call
    has returned, let the framework run (any order, executor start delayed arbitrarily) until none
    of its steps is enabled — which must happen, by termination: then the queue and the batch are
    empty, every accepted payload is on the wire, and everything on the wire is flushed. Nothing
    stays parked waiting for a later write. -/
theorem C02_eventually_flushed (sync : Bool) (cap : Nat) (untilW : Bool) (acts fw : List (Act α)) (s s' : St α)
    (hr : run (init sync cap untilW) acts = some s) (hd : s.clientsDone)
    (hfw : ∀ a ∈ fw, a.frameworkOk = true) (hr' : run s fw = some s')
    (hmax : ∀ a : Act α, a.frameworkOk = true → step s' a = none) :
    s'.q = [] ∧ s'.batch = [] ∧ s'.wire = s'.accepted ∧ s'.flushed = s'.accepted.length := by
  have hrun : run (init sync cap untilW) (acts ++ fw) = some s' := by rw [run_append, hr]; simpa using hr'
  have hd' := fwOk_run_preserves fw s s' hfw hr' hd
  have hinv := inv_run (acts ++ fw) _ s' (inv_init sync cap untilW) hrun
  have hq := stuck_is_quiescent s' hinv hd' hmax
  exact C02_quiescent_clean sync cap untilW (acts ++ fw) s' hrun hd'.2.2.2.2 hq

/-- the lost-wake-up mutant (sender exits right after `Store idle`, no re-check) strands a packet:
    negation witness on the model without the double check -/
def stepNoRecheck (s : St Nat) : Act Nat → Option (St Nat)
  | .sndStore => match s.snd with
    | some .store => some { s with running := false, snd := none, batch := [] }
    | _ => none
  | a => step s a

def runNoRecheck (s : St Nat) : List (Act Nat) → Option (St Nat)
  | [] => some s
  | a :: as => (stepNoRecheck s a).bind (runNoRecheck · as)

theorem C02_recheck_is_necessary :
    (runNoRecheck (init false 2 true)
      [.beginWrite, .enqueue 1, .casWriter, .exec, .sndRecv, .sndDefault, .sndWritev true, .sndPut, .sndLen1,
       .beginWrite, .enqueue 2, .casWriter, .sndFlush true, .sndStore]).map (fun s => (s.q, s.quiescent)) = some ([2], true) := by
  decide

end NettyVerif.C02

#print axioms NettyVerif.C02.C02_quiescent_clean
#print axioms NettyVerif.C02.C02_progress
#print axioms NettyVerif.C02.C02_recheck_is_necessary
#print axioms NettyVerif.C02.C02_framework_terminates
#print axioms NettyVerif.C02.C02_eventually_flushed
