import NettyVerif.Model.Carrier
import NettyVerif.Proofs.Chan
/-! # C18 — Back-pressure: non-blocking mode never blocks; blocking mode is cancellable -/
namespace NettyVerif.C18
open NettyVerif.Chan
variable {α : Type}

def init (cap : Nat) (untilW : Bool) : St α := { sync := false, cap := cap, untilW := untilW }

/-- **bound**: in every reachable state the queue holds at most `cap` packets and the batch being
    assembled at most `cap/2 + 1`: accepted-but-unsent ≤ queue size + the batch being sent -/
theorem C18_bound (sync : Bool) (cap : Nat) (untilW : Bool) (acts : List (Act α)) (s : St α)
    (hr : run ({ sync := sync, cap := cap, untilW := untilW } : St α) acts = some s) :
    s.q.length ≤ s.cap ∧ s.batch.length ≤ s.cap / 2 + 1 ∧
    (s.broken = false → s.accepted.length - s.wire.length ≤ s.cap + (s.cap / 2 + 1)) := by
  have hinv := inv_run acts _ s (inv_init sync cap untilW) hr
  refine ⟨hinv.qLe, hinv.batchLe, ?_⟩
  intro hb
  have := congrArg List.length (hinv.fifo hb)
  have h1 := hinv.qLe
  have h2 := hinv.batchLe
  simp [batchCap] at this h2
  omega

/-- the queue-full error is produced only by a state whose queue really is full (non-blocking mode) -/
theorem C18_nospace_only_when_full (s s' : St α) (h : step s .noSpace = some s') :
    s.q.length = s.cap ∧ s.untilW = false ∧ s'.accepted = s.accepted ∧ s'.wire = s.wire ∧ s'.q = s.q := by
  simp only [step] at h
  split at h <;> simp at h
  rename_i hc
  simp at hc
  exact ⟨hc.2, hc.1.2, by subst h; simp⟩

/-- **non-blocking mode never waits**: in every reachable state of a non-blocking queued channel a
    write call at its enqueue point has an enabled step — it is accepted if there is room, and gets
    the queue-full error otherwise -/
theorem C18_nonblocking_never_parks (cap : Nat) (acts : List (Act α)) (s : St α) (p : α)
    (hr : run (init cap false : St α) acts = some s) :
    (s.inflight > 0 → s.q.length < s.cap → (step s (.enqueue p)).isSome = true) ∧
    (s.inflight > 0 → ¬ s.q.length < s.cap → (step s .noSpace).isSome = true) := by
  have hinv := inv_run acts _ s (inv_init false cap false) hr
  have hcfg : s.sync = false ∧ s.untilW = false := by
    have : ∀ (acts : List (Act α)) (a b : St α), run a acts = some b → b.sync = a.sync ∧ b.untilW = a.untilW ∧ b.cap = a.cap := by
      intro acts
      induction acts with
      | nil => intro a b h; simp [run] at h; subst h; exact ⟨rfl, rfl, rfl⟩
      | cons x xs ih =>
        intro a b h
        simp only [run] at h
        cases hs : step a x with
        | none => simp [hs] at h
        | some a1 =>
          simp [hs] at h
          obtain ⟨i1, i2, i3⟩ := ih a1 b h
          rw [i1, i2, i3]
          cases x <;> simp only [step] at hs <;> (repeat' split at hs) <;> simp at hs <;> subst hs <;> exact ⟨rfl, rfl, rfl⟩
    have := this acts _ s hr
    exact ⟨this.1, this.2.1⟩
  constructor
  · intro hin hlt; simp [step, hcfg.1, hlt, hin]
  · intro hin hge
    have := hinv.qLe
    have : s.q.length = s.cap := by omega
    simp [step, hcfg.1, hcfg.2, this, hin]

/-- blocking mode: a parked call becomes enabled exactly when there is room; a call that gives up
    because its context ended or the channel closed leaves the state — in particular `accepted` and
    the wire — untouched (it transmits nothing) -/
theorem C18_blocking_enabled_iff_room (s : St α) (p : α) (hs : s.sync = false) (hin : s.inflight > 0) :
    (step s (.enqueue p)).isSome = true ↔ s.q.length < s.cap := by
  simp [step, hs, hin]

theorem C18_abort_transmits_nothing (s s' : St α) (a : Act α) (ha : a = .abortCtx ∨ a = .abortClosed)
    (h : step s a = some s') : s'.accepted = s.accepted ∧ s'.wire = s.wire ∧ s'.q = s.q := by
  rcases ha with rfl | rfl <;> simp only [step] at h <;> split at h <;> simp at h <;> subst h <;> simp

/-- **streaming entry point**: ReadFrom on a non-blocking channel with `free` free queue slots and a
    stalled sender queues exactly the chunks that fit, in order, and reports the queue-full error iff
    a chunk did not fit — it never waits for the sender (the function is total and looks at nothing
    but the chunk count and the free slots) -/
theorem C18_readfrom_nonblocking (chunks : List NettyVerif.Carrier.Bytes) (free : Nat) :
    let r := NettyVerif.Carrier.readFromNoSpace chunks free
    r.1 = chunks.take free ∧ r.1.length ≤ free ∧ (r.2.2 = true ↔ free < chunks.length) ∧
    (r.2.2 = false → r.2.1 = chunks.flatten.length) := by
  unfold NettyVerif.Carrier.readFromNoSpace
  by_cases h : chunks.length ≤ free
  · simp [h, List.take_of_length_le h]
  · simp [h]
    omega

end NettyVerif.C18

#print axioms NettyVerif.C18.C18_readfrom_nonblocking
#print axioms NettyVerif.C18.C18_bound
#print axioms NettyVerif.C18.C18_nospace_only_when_full
#print axioms NettyVerif.C18.C18_nonblocking_never_parks
#print axioms NettyVerif.C18.C18_blocking_enabled_iff_room
#print axioms NettyVerif.C18.C18_abort_transmits_nothing
