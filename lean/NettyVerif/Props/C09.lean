import NettyVerif.Proofs.Wire
/-! # C09 — a message's bytes are contiguous on the wire under concurrent writers

Theorems over Model/Wire.lean: any number of goroutines, any messages (any carrier type = any
list of low-level writes), any interleaving of their steps. With the head handler's message lock
(the repaired code) the wire always is a sequence of whole messages, in the order in which the
head writes began, followed by a prefix of the lock holder's message. -/
namespace NettyVerif.C09
open NettyVerif.Wire

variable {α : Type}

/-- **whole messages only**: in every reachable state the bytes on the wire are the bytes of
    complete messages, in lock order, followed by a prefix of at most one message in progress -/
theorem C09_wire_is_whole_messages (acts : List (Act α)) (s : St α) (hr : run {} acts = some s) :
    ∃ (done : List (Msg α)) (partialChunks : List (List α)),
      wireBytes s.wire = (done.map Msg.bytes).flatten ++ partialChunks.flatten ∧
      (s.cur = [] → partialChunks = [] ∧ done = s.order) ∧
      (∀ t m rest, s.cur = [(t, m, rest)] → s.order = done ++ [m] ∧ m.chunks = partialChunks ++ rest) := by
  obtain ⟨_, hcase⟩ := inv_run acts {} s inv_init hr
  rcases hcase with ⟨hc, _, hw⟩ | ⟨t, m, rest, pre, sent, hc, _, ho, hm, hw⟩
  · refine ⟨s.order, [], ?_, fun _ => ⟨rfl, rfl⟩, ?_⟩
    · rw [hw, wireBytes_tagged]; simp
    · intro t m rest h; rw [hc] at h; cases h
  · refine ⟨pre, sent, ?_, ?_, ?_⟩
    · rw [hw, wireBytes_append, wireBytes_tagged]
      congr 1
      simp [wireBytes, List.map_map, Function.comp_def]
    · intro h; rw [hc] at h; cases h
    · intro t' m' rest' h
      rw [hc] at h; injection h with h; injection h with h1 h2; injection h2 with h2 h3
      subst h2; subst h3
      exact ⟨ho, hm⟩

/-- **contiguity at rest**: when no head write is in progress every message that was written has
    its low-level writes adjacent on the wire, in order, with nothing of another message between -/
theorem C09_contiguous (acts : List (Act α)) (s : St α) (hr : run {} acts = some s) (hq : s.cur = [])
    (pre : List (Msg α)) (m : Msg α) (post : List (Msg α)) (ho : s.order = pre ++ m :: post) :
    s.wire = tagged pre ++ m.chunks.map (fun c => (m.id, c)) ++ tagged post ∧
    wireBytes s.wire = (pre.map Msg.bytes).flatten ++ m.bytes ++ (post.map Msg.bytes).flatten := by
  obtain ⟨_, hcase⟩ := inv_run acts {} s inv_init hr
  rcases hcase with ⟨_, _, hw⟩ | ⟨t, m', rest, _, _, hc, _⟩
  · have h1 : s.wire = tagged pre ++ m.chunks.map (fun c => (m.id, c)) ++ tagged post := by
      rw [hw, ho]
      have : pre ++ m :: post = pre ++ ([m] ++ post) := by simp
      rw [this, tagged_append, tagged_append, tagged_single, List.append_assoc]
    refine ⟨h1, ?_⟩
    rw [h1, wireBytes_append, wireBytes_append, wireBytes_tagged, wireBytes_tagged, wireBytes_tagged_single]
  · rw [hq] at hc; cases hc

/-- the message lock admits one head write at a time -/
theorem C09_one_writer_at_a_time (acts : List (Act α)) (s : St α) (hr : run {} acts = some s) : s.cur.length ≤ 1 := by
  obtain ⟨_, hcase⟩ := inv_run acts {} s inv_init hr
  rcases hcase with ⟨hc, _, _⟩ | ⟨_, _, _, _, _, hc, _⟩ <;> simp [hc]

/-! ## the pinned head handler (no message lock) -/

def mA : Msg Nat := { id := 1, chunks := [[1, 2], [3]] }      -- e.g. payload + delimiter as two writes of a MultiReader
def mB : Msg Nat := { id := 2, chunks := [[7, 8], [9]] }

/-- without the lock two streamed messages interleave: the wire is neither A·B nor B·A -/
theorem C09_pinned_interleaves :
    (run ({ useLock := false } : St Nat) [.start 1 mA, .start 2 mB, .chunk 1, .chunk 2, .chunk 1, .chunk 2, .finish 1, .finish 2]).map
      (fun s => (wireBytes s.wire, decide (wireBytes s.wire = mA.bytes ++ mB.bytes), decide (wireBytes s.wire = mB.bytes ++ mA.bytes))) =
    some ([1, 2, 7, 8, 3, 9], false, false) := by decide

/-- … and the same schedule is not a run of the locked model: the second writer has to wait -/
theorem C09_locked_blocks_second_writer :
    run ({} : St Nat) [.start 1 mA, .start 2 mB] = none := by decide

/-- partial statement that already held on the pinned code: messages that are ONE low-level
    write ([]byte, [][]byte, *bytes.Buffer) are contiguous without any message lock — every chunk on
    the wire is a whole message -/
theorem C09_single_write_messages_partial (acts : List (Act α)) (s0 s : St α) (hr : run s0 acts = some s)
    (h0 : s0.wire = [] ∧ s0.cur = [])
    (hone : ∀ t m, Act.start t m ∈ acts → ∃ c, m.chunks = [c]) :
    ∀ e ∈ s.wire, ∃ t m, Act.start t m ∈ acts ∧ m.id = e.1 ∧ m.bytes = e.2 := by
  -- invariant: every wire entry and every chunk still to write is the single chunk of a started message
  suffices h : ∀ (acts' : List (Act α)) (s1 s2 : St α), run s1 acts' = some s2 → (∀ a ∈ acts', a ∈ acts) →
      ((∀ e ∈ s1.wire, ∃ t m, Act.start t m ∈ acts ∧ m.id = e.1 ∧ m.bytes = e.2) ∧
       (∀ x ∈ s1.cur, ∀ c ∈ x.2.2, ∃ t, Act.start t x.2.1 ∈ acts ∧ x.2.1.chunks = [c])) →
      ((∀ e ∈ s2.wire, ∃ t m, Act.start t m ∈ acts ∧ m.id = e.1 ∧ m.bytes = e.2) ∧
       (∀ x ∈ s2.cur, ∀ c ∈ x.2.2, ∃ t, Act.start t x.2.1 ∈ acts ∧ x.2.1.chunks = [c])) by
    exact (h acts s0 s hr (fun a ha => ha) ⟨by simp [h0.1], by simp [h0.2]⟩).1
  intro acts'
  induction acts' with
  | nil => intro s1 s2 hr _ h; simp [run] at hr; subst hr; exact h
  | cons a as ih =>
    intro s1 s2 hr hsub h
    simp only [run] at hr
    cases hs : step s1 a with
    | none => simp [hs] at hr
    | some sm =>
      simp [hs] at hr
      refine ih sm s2 hr (fun b hb => hsub b (List.mem_cons_of_mem _ hb)) ?_
      obtain ⟨hw, hc⟩ := h
      have hain := hsub a (List.mem_cons_self ..)
      cases a with
      | start t m =>
        simp only [step] at hs
        split at hs
        · cases hs
        · split at hs
          · cases hs
          · injection hs with hs; subst hs
            refine ⟨hw, ?_⟩
            intro x hx c hcm
            simp only [List.mem_append, List.mem_singleton] at hx
            rcases hx with hx | hx
            · exact hc x hx c hcm
            · subst hx
              obtain ⟨c', hc'⟩ := hone t m hain
              simp only at hcm ⊢
              rw [hc'] at hcm; simp at hcm; subst hcm
              exact ⟨t, hain, hc'⟩
      | chunk t =>
        simp only [step] at hs
        split at hs
        · rename_i t' m c rest hfind
          injection hs with hs; subst hs
          have hmem := List.mem_of_find?_eq_some hfind
          obtain ⟨t0, hst, hch⟩ := hc _ hmem c (by simp)
          refine ⟨?_, ?_⟩
          · intro e he
            simp only [List.mem_append, List.mem_singleton] at he
            rcases he with he | he
            · exact hw e he
            · subst he
              have hch' : m.chunks = [c] := hch
              exact ⟨t0, m, hst, rfl, by simp [Msg.bytes, hch']⟩
          · intro x hx c' hc'
            simp only [List.mem_map] at hx
            obtain ⟨y, hy, hxy⟩ := hx
            split at hxy
            · subst hxy
              simp only at hc' ⊢
              -- rest is empty because the message had a single chunk
              have hr0 := hc _ hmem
              simp only at hr0
              obtain ⟨_, _, hch2⟩ := hr0 c' (List.mem_cons_of_mem _ hc')
              exact ⟨t0, hst, hch2⟩
            · subst hxy; exact hc y hy c' hc'
        · cases hs
      | finish t =>
        simp only [step] at hs
        split at hs
        · injection hs with hs; subst hs
          refine ⟨hw, ?_⟩
          intro x hx c hcm
          exact hc x (List.mem_filter.1 hx).1 c hcm
        · cases hs

/-- non-vacuity: a reachable state of the locked model with two whole messages on the wire -/
example : (run ({} : St Nat) [.start 1 mA, .chunk 1, .chunk 1, .finish 1, .start 2 mB, .chunk 2, .chunk 2, .finish 2]).map
    (fun s => (wireBytes s.wire, s.cur.length)) = some ([1, 2, 3, 7, 8, 9], 0) := by decide

end NettyVerif.C09

#print axioms NettyVerif.C09.C09_wire_is_whole_messages
#print axioms NettyVerif.C09.C09_contiguous
#print axioms NettyVerif.C09.C09_one_writer_at_a_time
#print axioms NettyVerif.C09.C09_pinned_interleaves
#print axioms NettyVerif.C09.C09_locked_blocks_second_writer
#print axioms NettyVerif.C09.C09_single_write_messages_partial
