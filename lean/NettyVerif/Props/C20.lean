import NettyVerif.Model.Idle
/-! # C20 — Idle handlers fire only after a full idle period and never after inactive -/
namespace NettyVerif.C20
open NettyVerif.Idle

/-- invariant over all histories with a monotone clock -/
structure IInv (s : St) (now : Nat) : Prop where
  lastLe : s.last ≤ now
  actLe : s.act ≤ s.last
  firedOk : ∀ t ∈ s.fired, t ≤ now
  armedOk : ∀ d, s.tmr = .armed d → s.last + s.idle ≤ d          -- never armed for earlier than last + idle
  ctxArmed : s.ctx = true → ∃ d, s.tmr = .armed d                 -- while active the timer is always armed (re-arm invariant)
  nilNoCtx : s.tmr = .nil → s.ctx = false

theorem inv_step (s s' : St) (now : Nat) (o : Op) (h : IInv s now) (hm : now ≤ o.time) (hs : step s o = some s') :
    IInv s' o.time := by
  obtain ⟨h1, h2, h3, h4, h5, h6⟩ := h
  cases o with
  | active t =>
    simp [step] at hs; subst hs
    exact ⟨Nat.le_refl _, Nat.le_refl _, fun x hx => Nat.le_trans (h3 x hx) hm, by simp, by simp, by simp⟩
  | touch t =>
    simp [step] at hs; subst hs
    simp only [Op.time] at hm ⊢
    refine ⟨Nat.le_refl _, by simp; omega, fun x hx => Nat.le_trans (h3 x hx) hm, ?_, ?_, ?_⟩
    · intro d hd
      have hd' : d = t + s.idle := by cases htm : s.tmr <;> simp [htm] at hd <;> omega
      subst hd'; simp
    · intro hc; obtain ⟨d, hd⟩ := h5 hc; simp [hd]
    · intro hn; cases htm : s.tmr <;> simp [htm] at hn; exact h6 htm
  | inactive t =>
    simp [step] at hs; subst hs
    simp only [Op.time] at hm ⊢
    exact ⟨by simp; omega, h2, fun x hx => Nat.le_trans (h3 x hx) hm, by simp, by simp, by simp⟩
  | fire t =>
    simp only [step] at hs
    split at hs
    · rename_i d htm
      split at hs
      · simp at hs; subst hs
        simp only [Op.time] at hm ⊢
        refine ⟨by simp; omega, h2, ?_, by simp; omega, by simp, by simp⟩
        intro x hx
        simp only at hx
        split at hx
        · rcases List.mem_cons.1 hx with rfl | hx
          · exact Nat.le_refl _
          · exact Nat.le_trans (h3 x hx) hm
        · exact Nat.le_trans (h3 x hx) hm
      · simp at hs
    · simp at hs

/-- **an idle event is delivered only after a full idle period**: every delivery's check instant `t`
    satisfies `t - last ≥ idle` where `last` is the latest completed read/write (or the activation)
    at that instant — hence also `t - activation ≥ idle` -/
theorem C20_fire_only_when_idle (s s' : St) (now t : Nat) (h : IInv s now) (hs : step s (.fire t) = some s')
    (hnew : s'.fired ≠ s.fired) :
    s.last + s.idle ≤ t ∧ s.act + s.idle ≤ t ∧ s.ctx = true ∧ s'.fired = t :: s.fired := by
  simp only [step] at hs
  split at hs
  · rename_i d htm
    split at hs
    · rename_i hdt
      simp at hs; subst hs
      have harm := h.armedOk d htm
      have hact := h.actLe
      by_cases he : s.idle ≤ t - s.last
      · cases hc : s.ctx with
        | true => simp [he, hc]; omega
        | false => simp [he, hc] at hnew
      · simp [he] at hnew
    · simp at hs
  · simp at hs

/-- the timer never fires before `last + idle`: it is never armed for an earlier deadline -/
theorem C20_never_armed_early (s : St) (now d : Nat) (h : IInv s now) (ha : s.tmr = .armed d) : s.last + s.idle ≤ d :=
  h.armedOk d ha

/-- **idleness keeps being reported**: while the handler is active its timer is armed, and a firing
    at any time ≥ the deadline with no read/write in between delivers the event and re-arms -/
theorem C20_keeps_firing (s : St) (now : Nat) (h : IInv s now) (hc : s.ctx = true) :
    ∃ d, s.tmr = .armed d ∧ ∀ t, d ≤ t → ∃ s', step s (.fire t) = some s' ∧ s'.fired = t :: s.fired ∧ s'.tmr = .armed (t + s.idle) := by
  obtain ⟨d, hd⟩ := h.ctxArmed hc
  refine ⟨d, hd, ?_⟩
  intro t ht
  have := h.armedOk d hd
  have hge : s.idle ≤ t - s.last := by omega
  refine ⟨{ s with fired := t :: s.fired, tmr := .armed (t + s.idle) }, ?_, rfl, rfl⟩
  simp [step, hd, ht, hge, hc]

/-- **after inactive**: the timer pointer is nil, no firing is enabled and no read/write re-arms it;
    only a new activation can -/
theorem C20_nothing_after_inactive (s s1 : St) (t : Nat) (h : step s (.inactive t) = some s1) :
    s1.tmr = .nil ∧ s1.ctx = false ∧ (∀ t', step s1 (.fire t') = none) ∧
    (∀ t' s2, step s1 (.touch t') = some s2 → s2.tmr = .nil ∧ s2.fired = s1.fired) := by
  simp [step] at h; subst h
  refine ⟨rfl, rfl, by intro t'; simp [step], ?_⟩
  intro t' s2 h2; simp [step] at h2; subst h2; exact ⟨rfl, rfl⟩

/-- a callback already in flight when inactive arrives delivers at most its one event and leaves
    the timer released -/
theorem C20_in_flight_callback (s s' : St) (t : Nat) (h : fireThenInactive s t = some s') :
    s'.tmr = .nil ∧ s'.ctx = false ∧ (s'.fired = s.fired ∨ s'.fired = t :: s.fired) := by
  simp only [fireThenInactive] at h
  split at h
  · split at h
    · simp at h; subst h
      refine ⟨rfl, rfl, ?_⟩
      simp only
      split <;> simp
    · simp at h
  · simp at h

/-- all histories: the invariant holds along every monotone operation list from a fresh handler -/
theorem C20_inv_run : ∀ (ops : List Op) (s s' : St) (now : Nat), IInv s now → monotone now ops = true →
    run s ops = some s' → ∃ now', IInv s' now'
  | [], s, s', now, h, _, hr => by simp [run] at hr; subst hr; exact ⟨now, h⟩
  | o :: ops, s, s', now, h, hm, hr => by
    simp only [monotone, Bool.and_eq_true, decide_eq_true_eq] at hm
    simp only [run] at hr
    cases hs : step s o with
    | none => simp [hs] at hr
    | some s1 =>
      simp [hs] at hr
      exact C20_inv_run ops s1 s' o.time (inv_step s s1 now o h hm.1 hs) hm.2 hr

theorem C20_inv_init (idle : Nat) : IInv { idle := idle } 0 := by
  constructor <;> simp

/-- non-vacuity: active at 0 (idle 5), read at 3 re-arms for 8: a firing at 5 is not even enabled;
    firings at 8 and 13 deliver; after inactive at 14 nothing is enabled any more -/
example : (run { idle := 5 } [.active 0, .touch 3, .fire 8, .fire 13, .inactive 14]).map (fun s => (s.fired, s.tmr)) =
    some ([13, 8], .nil) := by decide
example : step ({ idle := 5, last := 3, tmr := .armed 8, ctx := true } : St) (.fire 5) = none := by decide

end NettyVerif.C20

#print axioms NettyVerif.C20.inv_step
#print axioms NettyVerif.C20.C20_fire_only_when_idle
#print axioms NettyVerif.C20.C20_never_armed_early
#print axioms NettyVerif.C20.C20_keeps_firing
#print axioms NettyVerif.C20.C20_nothing_after_inactive
#print axioms NettyVerif.C20.C20_in_flight_callback
#print axioms NettyVerif.C20.C20_inv_run
