import NettyVerif.Model.Life
import NettyVerif.Model.Panic
import NettyVerif.Proofs.PanicNest
/-! # C07 — Handler panics and transport failures are contained and routed as exceptions -/
namespace NettyVerif.C07
open NettyVerif.Panic NettyVerif.Pipeline

/-- the exception handlers of a pipeline, by position, up to the first that does not forward -/
abbrev excChain := Panic.chain

theorem fireException_eq (hs : List PHandler) : fireException hs = excChain 1 hs := fireException_chain hs

/-- **containment**: whatever handler panics with whatever value during delivery of an active, read,
    write or user event entered through Channel.Write / Channel.Trigger / the read loop, the panic
    never escapes into the caller (the read or send goroutine survives) -/
theorem C07_never_escapes (hs : List PHandler) (hf : Option PVal) (k : Kind) (closed : Bool) :
    (invoke hs hf k closed).escaped = false := by
  unfold invoke
  simp only
  split
  · rfl
  · split <;> rfl

theorem C07_ctx_never_escapes (hs : List PHandler) (hf : Option PVal) (k : Kind) (i : Nat) :
    (ctxInvoke hs hf k i).escaped = false := by
  unfold ctxInvoke
  simp only
  split <;> rfl

/-- **routing**: while the channel is open, a panic is delivered exactly once to the exception
    handlers in pipeline order — the chain of exception-implementing handlers up to the first that
    does not forward — carrying the panic value (the error itself when it is one); if nobody
    consumes it (it reaches the tail) or it is a non-timeout net.Error the channel is closed with it,
    otherwise the channel stays open -/
theorem C07_routed_once_in_order (hs : List PHandler) (hf : Option PVal) (k : Kind) (pos : Nat) (val : PVal)
    (v : List Nat) (hp : deliverP hs hf k (if k = .write then hs.length + 1 else 0) = (v, .panic pos val)) :
    let r := invoke hs hf k false
    r.excVisited = (excChain 1 hs).1 ∧ r.excVal = some val ∧
    (r.closedWith = some val ↔ ((excChain 1 hs).2 = true ∨ val.isFatalNet = true)) ∧
    (r.closedWith = none ↔ ((excChain 1 hs).2 = false ∧ val.isFatalNet = false)) := by
  simp only [invoke, hp, Bool.false_eq_true, ite_false, fireException_eq]
  cases h1 : (excChain 1 hs).2 <;> cases h2 : val.isFatalNet <;> simp [h1, h2]

/-- on a channel that is already closed a recovered panic is dropped silently (no exception event) -/
theorem C07_closed_channel_silent (hs : List PHandler) (hf : Option PVal) (k : Kind) :
    (invoke hs hf k true).excVisited = [] ∧ (invoke hs hf k true).closedWith = none := by
  unfold invoke
  simp only
  split
  · exact ⟨rfl, rfl⟩
  · simp

/-- without a panic nothing is routed as an exception and the channel is only closed by an
    exception event that itself reaches the tail -/
theorem C07_no_panic_no_exception (hs : List PHandler) (hf : Option PVal) (k : Kind) (closed : Bool) (v : List Nat) (f : Final)
    (hp : deliverP hs hf k (if k = .write then hs.length + 1 else 0) = (v, .fin f)) :
    (invoke hs hf k closed).excVisited = [] ∧ (invoke hs hf k closed).closedWith = none ∧
    (invoke hs hf k closed).visited = v := by
  simp [invoke, hp]

/-- non-vacuity: handler 2 panics with an error on read; handler 1 and 3 are exception handlers,
    1 forwards, 3 swallows: the exception visits positions 1 and 3 and the channel stays open -/
def h1 : PHandler := { h := { id := 11, impl := 10, fwd := 10 } }
def h2 : PHandler := { h := { id := 12, impl := 2, fwd := 2 }, pan := 2, val := .err 7 }
def h3 : PHandler := { h := { id := 13, impl := 8, fwd := 0 } }
example : invoke [h1, h2, h3] none .read false =
    { visited := [1, 2], escaped := false, excVisited := [1, 3], excVal := some (.err 7), closedWith := none, closedByEvent := false } := by
  decide
example : (invoke [h1, h2] none .read false).closedWith = some (.err 7) := by decide
example : (invoke [h3] (some (.netFatal 1)) .write false).closedWith = some (.netFatal 1) := by decide


/-! ## a second panic while the first exception is still travelling -/

/-- **overlapping exceptions**: an exception handler on the chain (position `r`) answers the exception
    `v` by `Channel.Write` / `Channel.Trigger` (kind `rk`), and a handler panics with `v2` during that
    delivery. Both exceptions are then delivered exactly once, each to the whole chain of exception
    handlers in pipeline order; the channel stays open exactly when neither reaches the tail nor is a
    non-timeout net.Error, and when the second one closes the channel it is closed with the second one
    (it gets there first) -/
theorem C07_nested_panic_each_delivered_once (hs : List PHandler) (hf : Option PVal) (k rk : Kind) (r : Nat)
    (vis vis2 : List Nat) (pos pos2 : Nat) (v v2 : PVal)
    (hp : deliverP hs hf k (if k = .write then hs.length + 1 else 0) = (vis, .panic pos v))
    (hn : deliverP hs hf rk (if rk = .write then hs.length + 1 else 0) = (vis2, .panic pos2 v2))
    (hr : r ∈ (excChain 1 hs).1) (hne : v ≠ v2) :
    let res := invokeR hs hf k r rk
    excOf v res.trace = (excChain 1 hs).1 ∧ excOf v2 res.trace = (excChain 1 hs).1 ∧
    (res.closedWith = none ↔ ((excChain 1 hs).2 = false ∧ v.isFatalNet = false ∧ v2.isFatalNet = false)) ∧
    (((excChain 1 hs).2 = true ∨ v2.isFatalNet = true) → res.closedWith = some v2) := by
  have hN := nestedInvoke_panic hs hf rk vis2 pos2 v2 hn
  have hNv : excOf v (nestedInvoke hs hf rk).1 = [] := by
    rw [(hN v).1, if_neg (fun h => hne h.symm)]
  have hs1 := excReact_spec v v2 r (nestedInvoke hs hf rk).1 hNv hne 1 hs
  have hreact : (excReact v r (nestedInvoke hs hf rk).1 1 hs).2.1 = true := hs1.2.1.2 hr
  simp only [invokeR, hp, excOf_append, excOf_visits, List.nil_append, hs1.2.2.1, hs1.2.2.2, hr, ite_true, (hN v2).1,
    hs1.1, hreact, (hN v2).2, Bool.true_and]
  refine ⟨trivial, trivial, ?_, ?_⟩
  · cases h1 : (chain 1 hs).2 <;> cases h2 : v.isFatalNet <;> cases h3 : v2.isFatalNet <;> simp
  · rintro (h | h) <;> simp [h]

/-- a reaction whose delivery does not panic leaves the first exception's route untouched -/
theorem C07_quiet_reaction (hs : List PHandler) (hf : Option PVal) (k rk : Kind) (r : Nat)
    (vis vis2 : List Nat) (pos : Nat) (v : PVal) (f : Final)
    (hp : deliverP hs hf k (if k = .write then hs.length + 1 else 0) = (vis, .panic pos v))
    (hn : deliverP hs hf rk (if rk = .write then hs.length + 1 else 0) = (vis2, .fin f)) :
    let res := invokeR hs hf k r rk
    excOf v res.trace = (excChain 1 hs).1 ∧ res.closedWith = (invoke hs hf k false).closedWith := by
  have hN := nestedInvoke_fin hs hf rk vis2 f hn
  have hw : v ≠ (match v with | .err _ => PVal.str 0 | _ => PVal.err 0) := by cases v <;> simp
  have hs1 := excReact_spec v _ r (nestedInvoke hs hf rk).1 (hN v).1 hw 1 hs
  simp only [invokeR, invoke, hp, excOf_append, excOf_visits, List.nil_append, (hN v).2, Option.isSome_none, Bool.and_false,
    Bool.false_eq_true, ite_false, fireException_eq, hs1.2.2.1, hs1.1, and_self]

/-- with no reacting handler the model is the one the other theorems speak about -/
theorem C07_reactor_absent (hs : List PHandler) (hf : Option PVal) (k rk : Kind) :
    let a := invokeR hs hf k 0 rk
    let b := invoke hs hf k false
    a.trace = b.visited.map (fun p => TEv.visit k p) ++ (match b.excVal with | some v => b.excVisited.map (fun p => TEv.exc p v) | none => []) ∧
    a.closedWith = b.closedWith := by
  simp only [invokeR, invoke]
  split
  · simp
  · simp [excReact_none, fireException_eq]

/-! ## panics of the active / read handlers on a served channel (lifecycle acceptor) -/
open NettyVerif.Life in
/-- a panic of the active handler (or of a read handler) is owed to the exception handlers: the
    acceptor refuses a further read before the exception was routed, unless the channel was closed
    meanwhile (then `invokeMethod` drops it); the hand-off barrier is released all the same -/
theorem C07_served_channel_panics_are_routed :
    Life.run {} [.activeBegin, .activePanic, .readBegin] = none ∧
    (Life.run {} [.activeBegin, .activePanic, .handOut, .exception, .readBegin]).isSome = true ∧
    (Life.run {} [.activeBegin, .activePanic, .closeWin 1, .readBegin]).isSome = true ∧
    Life.run {} [.activeBegin, .activeEnd, .readBegin, .readEnd false, .readBegin] = none ∧
    (Life.run {} [.activeBegin, .activeEnd, .readBegin, .readEnd false, .exception, .readBegin]).isSome = true ∧
    Life.run {} [.activeBegin, .activeEnd, .exception] = none := by decide

end NettyVerif.C07

#print axioms NettyVerif.C07.C07_never_escapes
#print axioms NettyVerif.C07.C07_ctx_never_escapes
#print axioms NettyVerif.C07.C07_routed_once_in_order
#print axioms NettyVerif.C07.C07_closed_channel_silent
#print axioms NettyVerif.C07.C07_no_panic_no_exception
#print axioms NettyVerif.C07.C07_served_channel_panics_are_routed
#print axioms NettyVerif.C07.C07_nested_panic_each_delivered_once
#print axioms NettyVerif.C07.C07_quiet_reaction
#print axioms NettyVerif.C07.C07_reactor_absent
