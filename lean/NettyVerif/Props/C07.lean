import NettyVerif.Model.Life
import NettyVerif.Model.Panic
/-! # C07 — Handler panics and transport failures are contained and routed as exceptions -/
namespace NettyVerif.C07
open NettyVerif.Panic NettyVerif.Pipeline

/-- the exception handlers of a pipeline, by position, up to the first that does not forward -/
def excChain : Nat → List PHandler → List Nat × Bool
  | _, [] => ([], true)
  | i, p :: rest =>
    if p.h.implements .exception then
      if p.h.forwards .exception then let r := excChain (i+1) rest; (i :: r.1, r.2) else ([i], false)
    else excChain (i+1) rest

theorem fireException_eq (hs : List PHandler) : fireException hs = excChain 1 hs := by
  unfold fireException
  suffices h : ∀ (i : Nat) (l : List PHandler),
      ((deliverUpP .exception i (l.map (fun p => { p with pan := 0 }))).1,
       (deliverUpP .exception i (l.map (fun p => { p with pan := 0 }))).2 == .fin .close) = excChain i l from h 1 hs
  intro i l
  induction l generalizing i with
  | nil => simp [deliverUpP, excChain]
  | cons p rest ih =>
    simp only [List.map_cons, deliverUpP, excChain, PHandler.panics]
    by_cases hi : p.h.implements .exception
    · simp only [hi, ite_true, Nat.zero_testBit, Bool.false_eq_true, ite_false]
      by_cases hf : p.h.forwards .exception
      · simp only [hf, ite_true]
        have := ih (i+1)
        rw [← this]
      · simp [hf]
    · simp only [hi, Bool.false_eq_true, ite_false]; exact ih (i+1)

/-- **containment**: whatever handler panics with whatever value during delivery of an active, read,
    write or user event entered through Channel.Write / Channel.Trigger / the read loop, the panic
    never escapes into the caller (the read or send goroutine survives) -/
theorem C07_never_escapes (hs : List PHandler) (hf : Option PVal) (k : Kind) (closed : Bool) :
    (invoke hs hf k closed).escaped = false := by
  unfold invoke
  simp only
  split
  · rfl
  · split <;> rfl

theorem C07_ctx_never_escapes (hs : List PHandler) (hf : Option PVal) (k : Kind) (i : Nat) :
    (ctxInvoke hs hf k i).escaped = false := by
  unfold ctxInvoke
  simp only
  split <;> rfl

/-- **routing**: while the channel is open, a panic is delivered exactly once to the exception
    handlers in pipeline order — the chain of exception-implementing handlers up to the first that
    does not forward — carrying the panic value (the error itself when it is one); if nobody
    consumes it (it reaches the tail) or it is a non-timeout net.Error the channel is closed with it,
    otherwise the channel stays open -/
theorem C07_routed_once_in_order (hs : List PHandler) (hf : Option PVal) (k : Kind) (pos : Nat) (val : PVal)
    (v : List Nat) (hp : deliverP hs hf k (if k = .write then hs.length + 1 else 0) = (v, .panic pos val)) :
    let r := invoke hs hf k false
    r.excVisited = (excChain 1 hs).1 ∧ r.excVal = some val ∧
    (r.closedWith = some val ↔ ((excChain 1 hs).2 = true ∨ val.isFatalNet = true)) ∧
    (r.closedWith = none ↔ ((excChain 1 hs).2 = false ∧ val.isFatalNet = false)) := by
  simp only [invoke, hp, Bool.false_eq_true, ite_false, fireException_eq]
  cases h1 : (excChain 1 hs).2 <;> cases h2 : val.isFatalNet <;> simp [h1, h2]

/-- on a channel that is already closed a recovered panic is dropped silently (no exception event) -/
theorem C07_closed_channel_silent (hs : List PHandler) (hf : Option PVal) (k : Kind) :
    (invoke hs hf k true).excVisited = [] ∧ (invoke hs hf k true).closedWith = none := by
  unfold invoke
  simp only
  split
  · exact ⟨rfl, rfl⟩
  · simp

/-- without a panic nothing is routed as an exception and the channel is only closed by an
    exception event that itself reaches the tail -/
theorem C07_no_panic_no_exception (hs : List PHandler) (hf : Option PVal) (k : Kind) (closed : Bool) (v : List Nat) (f : Final)
    (hp : deliverP hs hf k (if k = .write then hs.length + 1 else 0) = (v, .fin f)) :
    (invoke hs hf k closed).excVisited = [] ∧ (invoke hs hf k closed).closedWith = none ∧
    (invoke hs hf k closed).visited = v := by
  simp [invoke, hp]

/-- non-vacuity: handler 2 panics with an error on read; handler 1 and 3 are exception handlers,
    1 forwards, 3 swallows: the exception visits positions 1 and 3 and the channel stays open -/
def h1 : PHandler := { h := { id := 11, impl := 10, fwd := 10 } }
def h2 : PHandler := { h := { id := 12, impl := 2, fwd := 2 }, pan := 2, val := .err 7 }
def h3 : PHandler := { h := { id := 13, impl := 8, fwd := 0 } }
example : invoke [h1, h2, h3] none .read false =
    { visited := [1, 2], escaped := false, excVisited := [1, 3], excVal := some (.err 7), closedWith := none, closedByEvent := false } := by
  decide
example : (invoke [h1, h2] none .read false).closedWith = some (.err 7) := by decide
example : (invoke [h3] (some (.netFatal 1)) .write false).closedWith = some (.netFatal 1) := by decide

/-! ## panics of the active / read handlers on a served channel (lifecycle acceptor) -/
open NettyVerif.Life in
/-- a panic of the active handler (or of a read handler) is owed to the exception handlers: the
    acceptor refuses a further read before the exception was routed, unless the channel was closed
    meanwhile (then `invokeMethod` drops it); the hand-off barrier is released all the same -/
theorem C07_served_channel_panics_are_routed :
    Life.run {} [.activeBegin, .activePanic, .readBegin] = none ∧
    (Life.run {} [.activeBegin, .activePanic, .handOut, .exception, .readBegin]).isSome = true ∧
    (Life.run {} [.activeBegin, .activePanic, .closeWin 1, .readBegin]).isSome = true ∧
    Life.run {} [.activeBegin, .activeEnd, .readBegin, .readEnd false, .readBegin] = none ∧
    (Life.run {} [.activeBegin, .activeEnd, .readBegin, .readEnd false, .exception, .readBegin]).isSome = true ∧
    Life.run {} [.activeBegin, .activeEnd, .exception] = none := by decide

end NettyVerif.C07

#print axioms NettyVerif.C07.C07_never_escapes
#print axioms NettyVerif.C07.C07_ctx_never_escapes
#print axioms NettyVerif.C07.C07_routed_once_in_order
#print axioms NettyVerif.C07.C07_closed_channel_silent
#print axioms NettyVerif.C07.C07_no_panic_no_exception
#print axioms NettyVerif.C07.C07_served_channel_panics_are_routed
