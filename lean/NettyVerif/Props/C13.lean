import NettyVerif.Proofs.Boot
/-! # C13 — Shutdown stops every listener and closes every channel, whenever it is called

Per-object theorems over Model/Boot.lean (the repaired listener: `closed` mark under a mutex,
context test after the acceptor is created, only the first Close unregisters). Every theorem
quantifies over all action lists, i.e. every placement of Listen / the steps of Sync / accepted
connections / Listener.Close / the steps of Shutdown relative to each other. The inductive
invariants are in Proofs/Boot.lean. -/
namespace NettyVerif.C13
open NettyVerif.Boot

/-- **no listener is left accepting**: once Shutdown has cancelled the context, its Range over the
    registry has returned and every Listener.Close has finished, no Sync is parked in Accept on an
    open acceptor — for every history, including listeners whose Sync had not created (or not even
    begun to create) the acceptor when Shutdown ran, and listeners closed by the user meanwhile -/
theorem C13_no_listener_left_accepting (acts : List LAct) (s : LSt) (hr : lrun {} acts = some s)
    (hd : s.shutdownDone = true) : s.leaked = false := by
  have hi := linv_run acts {} s linv_init hr
  simp only [LSt.shutdownDone, Bool.and_eq_true, beq_iff_eq] at hd
  obtain ⟨⟨hc, hrd⟩, hp⟩ := hd
  cases hl : s.leaked with
  | false => rfl
  | true =>
    simp only [LSt.leaked, Bool.and_eq_true, beq_iff_eq] at hl
    cases hm : s.mark with
    | true => have := hi.liveM hl.1 hl.2 hm; omega
    | false =>
      have hrs := hi.doneStarted hrd
      rcases hi.liveU hl.1 hl.2 hm with h | h | h
      · simp [hc] at h
      · simp [hrs] at h
      · simp [hrd] at h

/-- **the accept loop ends with the server-closed error and a closed acceptor**: with Shutdown done
    and no step of Sync enabled any more (quiescence), a listener whose Sync was started has
    returned ErrServerClosed and its acceptor — if it ever created one — is closed -/
theorem C13_sync_ends_server_closed (acts : List LAct) (s : LSt) (hr : lrun {} acts = some s)
    (hd : s.shutdownDone = true)
    (hq : ∀ a ∈ [LAct.syncListen, .syncDecide, .acceptWake, .syncFail], lstep s a = none) :
    s.pc = .idle ∨ (s.pc = .returned true ∧ s.acc ≠ .open) := by
  have hi := linv_run acts {} s linv_init hr
  have hleak := C13_no_listener_left_accepting acts s hr hd
  have q1 := hq .syncListen (by simp)
  have q2 := hq .syncDecide (by simp)
  have q3 := hq .acceptWake (by simp)
  have q4 := hq .syncFail (by simp)
  cases hp : s.pc with
  | idle => exact Or.inl rfl
  | checked => simp [lstep, hp] at q1
  | created => simp [lstep, hp] at q2; split at q2 <;> simp at q2
  | accepting =>
    simp [lstep, hp] at q3
    simp [LSt.leaked, hp] at hleak
    cases ha : s.acc with
    | closed => exact absurd ha q3
    | «open» => exact absurd ha hleak
    | none => exact absurd ha (hi.pubAcc (Or.inl hp))
  | failed => simp [lstep, hp] at q4
  | returned b =>
    have := hi.returnedTrue b hp
    subst this
    exact Or.inr ⟨rfl, hi.returnedNotOpen true hp⟩

/-- a Sync that only starts after Shutdown never accepts: it returns ErrServerClosed either at
    its first check (the listener was closed) or right after creating — and closing — its acceptor -/
theorem C13_late_sync (acts : List LAct) (s : LSt) (hr : lrun {} acts = some s) (hc : s.ctxDone = true)
    (hp : s.pc = .idle) (hl : s.listened = true) :
    (lrun s [.syncCheck]).map (fun t => (t.pc, t.acc)) = some (.returned true, .none) ∨
    (lrun s [.syncCheck, .syncListen, .syncDecide]).map (fun t => (t.pc, t.acc)) = some (.returned true, .closed) := by
  have hi := linv_run acts {} s linv_init hr
  have hn := hi.idleNone (Or.inl hp)
  cases hm : s.mark with
  | true => left; simp [lrun, lstep, hp, hl, hm, hn]
  | false => right; simp [lrun, lstep, hp, hl, hm, hc]

/-- pinned listener (no closed mark, no context test, Close unregisters by url unconditionally):
    `Listen().Async(); Shutdown()` leaves the acceptor open and Sync parked in Accept (negation
    witness; the harness replayed it on the real code before the repair) -/
def lstepPinned (s : LSt) : LAct → Option LSt
  | .syncCheck => if s.pc = .idle ∧ s.listened then some { s with pc := .checked } else none
  | .syncDecide => if s.pc = .created then some { s with pc := .accepting } else none
  | a => lstep s a

def lrunPinned (s : LSt) : List LAct → Option LSt
  | [] => some s
  | a :: as => (lstepPinned s a).bind (lrunPinned · as)

theorem C13_pinned_leaves_live_acceptor :
    (lrunPinned {} [.listen, .cancel, .rangeStart, .closeMark true, .closeUnreg, .rangeEnd, .syncCheck, .syncListen, .syncDecide]).map
      (fun s => (s.shutdownDone, s.leaked)) = some (true, true) := by decide

/-! ## channels -/

/-- **no channel is left open**: after Shutdown has cancelled the context and CloseAll has finished,
    a channel — already active, still being set up, or accepted concurrently — is never parked in a
    read, nor inside its active event (where a handler may be waiting for the peer: `activeDone` is
    not among the steps the theorem relies on); once none of its own steps is enabled it is closed,
    with its transport closed exactly once and inactive delivered exactly once (or it was never
    accepted at all) -/
theorem C13_no_channel_left_open (acts : List CAct) (s : CSt) (hr : crun {} acts = some s)
    (hd : s.closeAllDone = true) :
    s.pc ≠ .reading ∧ s.pc ≠ .activating ∧
    ((∀ a ∈ [CAct.serve, .add, .loopCheck, .fireInactive], cstep s a = none) → s.pc = .none ∨ (s.pc = .closed ∧ s.closes = 1 ∧ s.inactives = 1)) := by
  have hi := cinv_run acts {} s cinv_init hr
  have hsw := hi.doneSwapped hd
  have hctx := hi.swapCtx hsw
  have hnr : s.pc ≠ .reading := by
    intro hp
    have hin := hi.loopIn (Or.inr (Or.inr hp))
    cases hl : s.loc with
    | notIn => exact hin hl
    | cur => have := hi.readingCur hp hl; simp [hsw] at this
    | old => have := hi.doneOld hd hl; simp [hp] at this
  have hna : s.pc ≠ .activating := by
    intro hp
    have hin := hi.loopIn (Or.inl hp)
    cases hl : s.loc with
    | notIn => exact hin hl
    | cur => have := hi.activatingCur hp hl; simp [hsw] at this
    | old => have := hi.doneOld hd hl; simp [hp] at this
  refine ⟨hnr, hna, ?_⟩
  intro hq
  have q1 := hq .serve (by simp)
  have q2 := hq .add (by simp)
  have q3 := hq .loopCheck (by simp)
  have q4 := hq .fireInactive (by simp)
  cases hp : s.pc with
  | none => exact Or.inl rfl
  | accepted => simp [cstep, hp] at q1
  | started => simp [cstep, hp, hctx] at q2
  | activating => exact absurd hp hna
  | loopTop => simp [cstep, hp, hctx] at q3
  | reading => exact absurd hp hnr
  | closed =>
    have h1 := hi.closedIff.1 hp
    have hf : s.firePending = false := by
      cases hf : s.firePending with
      | false => rfl
      | true => simp [cstep, hf] at q4
    have h2 := hi.once.2
    simp [hf] at h2
    exact Or.inr ⟨rfl, h1, by omega⟩

/-- the transport of a channel is closed at most once, and inactive is delivered exactly as often,
    in every reachable state (Shutdown's CloseAll racing the channel's own close included) -/
theorem C13_channel_closed_once (acts : List CAct) (s : CSt) (hr : crun {} acts = some s) :
    s.closes ≤ 1 ∧ s.inactives ≤ s.closes ∧ (s.firePending = false → s.inactives = s.closes) := by
  have h := (cinv_run acts {} s cinv_init hr).once
  refine ⟨h.1, ?_, ?_⟩
  · have := h.2; split at this <;> omega
  · intro hf; have := h.2; simpa [hf] using this

/-- a channel activated after CloseAll swapped the holder's map (so CloseAll never sees it) closes
    itself at its first loop test because its context is already cancelled -/
theorem C13_late_channel_closes_itself (acts : List CAct) (s : CSt) (hr : crun {} acts = some s)
    (hsw : s.swapped = true) (hp : s.pc = .loopTop) :
    (crun s [.loopCheck, .fireInactive]).map (fun s' => (s'.pc, s'.closes, s'.inactives)) = some (.closed, 1, 1) := by
  have hi := cinv_run acts {} s cinv_init hr
  have hctx := hi.swapCtx hsw
  have h0 : s.closes = 0 := by
    have h1 := hi.closedIff
    have h2 := hi.once.1
    have : s.closes ≠ 1 := fun h => by simp [h1.2 h] at hp
    omega
  have hf : s.firePending = false := by
    have := hi.once.2
    cases hf : s.firePending with
    | false => rfl
    | true => simp [hf, h0] at this
  have hin : s.inactives = 0 := by have := hi.once.2; simp [hf, h0] at this; exact this
  simp [crun, cstep, hp, hctx, h0, hin]

/-- a channel registered after the context was cancelled (CloseAll may already have swapped the map
    and will never see it) is closed on the spot, before the active event reaches the handlers behind
    the holder -/
theorem C13_late_activation_closes_at_once (acts : List CAct) (s : CSt) (hr : crun {} acts = some s)
    (hc : s.ctxDone = true) (hp : s.pc = .started) :
    (crun s [.add, .fireInactive]).map (fun s' => (s'.pc, s'.closes, s'.inactives)) = some (.closed, 1, 1) := by
  have hi := cinv_run acts {} s cinv_init hr
  have h0 : s.closes = 0 := by
    have h1 := hi.closedIff
    have h2 := hi.once.1
    have : s.closes ≠ 1 := fun h => by simp [h1.2 h] at hp
    omega
  have hf : s.firePending = false := by
    have := hi.once.2
    cases hf : s.firePending with
    | false => rfl
    | true => simp [hf, h0] at this
  have hin : s.inactives = 0 := by have := hi.once.2; simp [hf, h0] at this; exact this
  simp [crun, cstep, hp, hc, h0, hin]

/-- the holder before the repair (registers and forwards active whatever the context says): a
    connection accepted before Shutdown whose read-loop goroutine reaches the holder after CloseAll
    has finished stays inside its active event for as long as the handler waits — Shutdown is over and
    the channel is open (negation witness; the controller exhibited it on the real code) -/
theorem C13_pinned_late_activation_stays_open :
    (crunPinned {} [.accept, .serve, .cancel, .swap, .closeAllEnd, .add]).map (fun s => (s.closeAllDone, s.pc, s.closes)) =
      some (true, .activating, 0) := by decide

/-- non-vacuity: concrete histories meeting the hypotheses -/
example : (crun {} [.accept, .serve, .add, .cancel, .swap, .closeAllVisit, .fireInactive, .closeAllEnd]).map (fun s => (s.closeAllDone, s.pc, s.closes, s.inactives)) =
    some (true, .closed, 1, 1) := by decide
example : (crun {} [.accept, .cancel, .serve, .swap, .closeAllEnd, .add, .fireInactive]).map (fun s => (s.closeAllDone, s.pc, s.closes, s.inactives)) =
    some (true, .closed, 1, 1) := by decide
example : (crun {} [.accept, .serve, .add, .activeDone, .cancel, .swap, .closeAllVisit, .fireInactive, .closeAllEnd, .loopCheck]).map (fun s => (s.closeAllDone, s.pc, s.closes, s.inactives)) =
    none := by decide
example : (crun {} [.accept, .serve, .add, .activeDone, .loopCheck, .cancel, .swap, .closeAllVisit, .closeAllEnd]).map (fun s => (s.closeAllDone, s.pc, s.closes)) =
    some (true, .closed, 1) := by decide
example : (lrun {} [.listen, .cancel, .rangeStart, .closeMark true, .closeUnreg, .rangeEnd, .syncCheck]).map (fun s => (s.shutdownDone, s.pc, s.acc)) =
    some (true, .returned true, .none) := by decide
example : (lrun {} [.listen, .syncCheck, .syncListen, .cancel, .rangeStart, .closeMark true, .closeUnreg, .rangeEnd, .syncDecide]).map
    (fun s => (s.shutdownDone, s.pc, s.acc)) = some (true, .returned true, .closed) := by decide
example : (lrun {} [.listen, .syncCheck, .syncListen, .syncDecide, .cancel, .rangeStart, .closeMark true, .closeUnreg, .rangeEnd, .closeAcc, .acceptWake, .syncFail]).map
    (fun s => (s.shutdownDone, s.pc, s.acc)) = some (true, .returned true, .closed) := by decide

end NettyVerif.C13

#print axioms NettyVerif.C13.C13_no_listener_left_accepting
#print axioms NettyVerif.C13.C13_sync_ends_server_closed
#print axioms NettyVerif.C13.C13_late_sync
#print axioms NettyVerif.C13.C13_pinned_leaves_live_acceptor
#print axioms NettyVerif.C13.C13_no_channel_left_open
#print axioms NettyVerif.C13.C13_channel_closed_once
#print axioms NettyVerif.C13.C13_late_channel_closes_itself
#print axioms NettyVerif.C13.C13_late_activation_closes_at_once
#print axioms NettyVerif.C13.C13_pinned_late_activation_stays_open
