import NettyVerif.Proofs.ChanClose
import NettyVerif.Proofs.Life
/-! # C05 — Channel lifecycle (Close election part)

Over the Chan LTS, for any number of concurrent Close calls (each is a `closeCas` action; the
losers return at once) and every interleaving with writers and senders. -/
namespace NettyVerif.C05
open NettyVerif.Chan
variable {α : Type}

def init (sync : Bool) (cap : Nat) (untilW : Bool) : St α := { sync := sync, cap := cap, untilW := untilW }

/-- the transport is closed at most once, and exactly once when the closed flag is set and the
    winning Close has returned; then the close error is stored and the channel context cancelled -/
theorem C05_close_once (sync : Bool) (cap : Nat) (untilW : Bool) (acts : List (Act α)) (s : St α)
    (hr : run (init sync cap untilW) acts = some s) :
    s.closeCount ≤ 1 ∧
    (s.closed = true → s.closer = none → s.closeCount = 1 ∧ s.trClosed = true ∧ s.ctxDone = true ∧ s.closeErrSet = true) ∧
    (s.closed = false → s.closeCount = 0 ∧ s.trClosed = false ∧ s.ctxDone = false) := by
  obtain ⟨_, hci⟩ := invs_run acts _ s (inv_init sync cap untilW) (cinv_init sync cap untilW) hr
  have hcnt := hci.cnt
  refine ⟨by rw [hcnt]; split <;> omega, ?_, ?_⟩
  · intro h1 h2
    obtain ⟨a, b, c⟩ := hci.donePh h1 h2
    exact ⟨by rw [hcnt, b]; rfl, b, c, a⟩
  · intro h1
    obtain ⟨_, b, c, _, e⟩ := hci.open_ h1
    exact ⟨e, b, c⟩

/-- at most one Close is ever past the election (the CAS on the closed flag admits a single winner) -/
theorem C05_single_winner (s s' : St α) (h : step s .closeCas = some s') (hc : s.closed = true) : s' = s := by
  simp [step, hc] at h; exact h.symm

/-- IsActive is false as soon as any Close call has returned: a Close call returns either as a loser
    (the flag was already set) or as the winner (which set it), and the flag never resets -/
theorem C05_closed_after_any_close (s s' : St α) (h : step s .closeCas = some s') : s'.closed = true := by
  simp only [step] at h
  split at h
  · simp at h; subst h; assumption
  · split at h <;> simp at h
    subst h; rfl

/-- order of the winner's steps: the close error is stored before the transport is closed, the
    transport is closed before the context is cancelled -/
theorem C05_close_order (sync : Bool) (cap : Nat) (untilW : Bool) (acts : List (Act α)) (s : St α)
    (hr : run (init sync cap untilW) acts = some s) :
    (s.trClosed = true → s.closeErrSet = true) ∧ (s.ctxDone = true → s.trClosed = true) := by
  obtain ⟨_, hci⟩ := invs_run acts _ s (inv_init sync cap untilW) (cinv_init sync cap untilW) hr
  cases hcl : s.closed with
  | false => obtain ⟨_, b, c, _, _⟩ := hci.open_ hcl; simp [b, c]
  | true =>
    cases hc : s.closer with
    | none => obtain ⟨a, b, c⟩ := hci.donePh hcl hc; simp [a, b]
    | some pc =>
      cases pc with
      | len n => obtain ⟨a, b, c⟩ := hci.waitPh _ hc rfl; simp [a, c]
      | load n => obtain ⟨a, b, c⟩ := hci.waitPh _ hc rfl; simp [a, c]
      | sleep n => obtain ⟨a, b, c⟩ := hci.waitPh _ hc rfl; simp [a, c]
      | setErr => obtain ⟨a, b, c⟩ := hci.waitPh _ hc rfl; simp [a, c]
      | trClose => obtain ⟨a, b, c⟩ := hci.trPh hc; simp [b, c]
      | cancel => obtain ⟨a, b, c⟩ := hci.cancelPh hc; simp [a, b]
      | fire => obtain ⟨a, b, c⟩ := hci.firePh hc; simp [a, b]

/-! ## the read-loop half: what every accepted sequence of lifecycle events satisfies

`Life` is an acceptor whose actions are the observable events of one served channel; a guard
states when the code can produce the event (Model/Life.lean). The tie checks that every event
sequence of the real channel is accepted. -/
open NettyVerif.Life in
/-- **active once and first; reads one at a time; closed and inactive exactly once** — for every
    accepted event sequence: the active event is fired at most once; the channel is handed out and
    reads are delivered only after it completed; at most one read is in flight; the transport is
    closed at most once, only after some Close won; the context is cancelled only after the
    transport was closed; inactive is delivered at most once, after the context was cancelled, and
    carries the error of the Close call that took effect; when that call has returned, transport
    closed, context cancelled and inactive delivered are all true; the read loop leaves only with
    its context cancelled and no read in flight -/
theorem C05_lifecycle (es : List Life.Ev) (s : Life.St) (hr : Life.run {} es = some s) :
    s.activeBegun ≤ 1 ∧ (s.handedOut = true → s.activeEnded = true) ∧ (s.readsBegun > 0 → s.activeEnded = true) ∧
    (s.readsBegun = s.readsEnded ∨ s.readsBegun = s.readsEnded + 1) ∧
    s.trCloses ≤ 1 ∧ (s.trCloses = 1 → s.winner.isSome = true) ∧ (s.ctxDone = true → s.trCloses = 1) ∧
    s.inactives.length ≤ 1 ∧ (∀ e, e ∈ s.inactives → s.winner = some e ∧ s.ctxDone = true) ∧
    (s.winnerReturned = true → s.inactives.length = 1 ∧ s.ctxDone = true ∧ s.trCloses = 1) ∧
    (s.loopExited = true → s.ctxDone = true ∧ s.inRead = false) := by
  have h := Life.inv_run es {} s Life.inv_init hr
  refine ⟨h.activeOnce, h.handAfterActive, h.readAfterActive, ?_, h.trOnce, h.trNeedsWinner, h.ctxNeedsTr, h.inactiveOnce,
    h.inactiveWinner, ?_, h.exitNeedsCtx⟩
  · have := h.oneAtATime; split at this <;> omega
  · intro hw
    obtain ⟨a, b, c⟩ := h.retDone hw
    refine ⟨?_, b, c⟩
    have := h.inactiveOnce
    cases hi : s.inactives with
    | nil => exact absurd hi a
    | cons x xs => rw [hi] at this; simp at this ⊢; exact this

/-- what the acceptor refuses (so a channel doing it is reported by the tie): handing the channel out
    before the active event completed, a second active event, a read while another is in flight, a
    second transport close, an inactive event with another error than the winner's, leaving the
    read loop with a live context -/
theorem C05_lifecycle_refuses :
    Life.run {} [.activeBegin, .handOut] = none ∧
    Life.run {} [.activeBegin, .activeEnd, .activeBegin] = none ∧
    Life.run {} [.activeBegin, .activeEnd, .readBegin, .readBegin] = none ∧
    Life.run {} [.activeBegin, .activeEnd, .closeWin 1, .closeTr, .closeTr] = none ∧
    Life.run {} [.activeBegin, .activeEnd, .closeWin 1, .closeTr, .closeCancel, .inactive 2] = none ∧
    Life.run {} [.activeBegin, .activeEnd, .loopExit] = none ∧
    (Life.run {} [.activeBegin, .activeEnd, .handOut, .readBegin, .closeWin 1, .closeTr, .readEnd false, .closeCancel, .inactive 1,
      .closeRet true, .loopExit, .closeRet false]).isSome = true := by decide

end NettyVerif.C05

#print axioms NettyVerif.C05.C05_close_once
#print axioms NettyVerif.C05.C05_single_winner
#print axioms NettyVerif.C05.C05_closed_after_any_close
#print axioms NettyVerif.C05.C05_close_order
#print axioms NettyVerif.C05.C05_lifecycle
#print axioms NettyVerif.C05.C05_lifecycle_refuses
