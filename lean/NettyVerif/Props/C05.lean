import NettyVerif.Proofs.ChanClose
/-! # C05 — Channel lifecycle (Close election part)

Over the Chan LTS, for any number of concurrent Close calls (each is a `closeCas` action; the
losers return at once) and every interleaving with writers and senders. -/
namespace NettyVerif.C05
open NettyVerif.Chan
variable {α : Type}

def init (sync : Bool) (cap : Nat) (untilW : Bool) : St α := { sync := sync, cap := cap, untilW := untilW }

/-- the transport is closed at most once, and exactly once when the closed flag is set and the
    winning Close has returned; then the close error is stored and the channel context cancelled -/
theorem C05_close_once (sync : Bool) (cap : Nat) (untilW : Bool) (acts : List (Act α)) (s : St α)
    (hr : run (init sync cap untilW) acts = some s) :
    s.closeCount ≤ 1 ∧
    (s.closed = true → s.closer = none → s.closeCount = 1 ∧ s.trClosed = true ∧ s.ctxDone = true ∧ s.closeErrSet = true) ∧
    (s.closed = false → s.closeCount = 0 ∧ s.trClosed = false ∧ s.ctxDone = false) := by
  obtain ⟨_, hci⟩ := invs_run acts _ s (inv_init sync cap untilW) (cinv_init sync cap untilW) hr
  have hcnt := hci.cnt
  refine ⟨by rw [hcnt]; split <;> omega, ?_, ?_⟩
  · intro h1 h2
    obtain ⟨a, b, c⟩ := hci.donePh h1 h2
    exact ⟨by rw [hcnt, b]; rfl, b, c, a⟩
  · intro h1
    obtain ⟨_, b, c, _, e⟩ := hci.open_ h1
    exact ⟨e, b, c⟩

/-- at most one Close is ever past the election (the CAS on the closed flag admits a single winner) -/
theorem C05_single_winner (s s' : St α) (h : step s .closeCas = some s') (hc : s.closed = true) : s' = s := by
  simp [step, hc] at h; exact h.symm

/-- IsActive is false as soon as any Close call has returned: a Close call returns either as a loser
    (the flag was already set) or as the winner (which set it), and the flag never resets -/
theorem C05_closed_after_any_close (s s' : St α) (h : step s .closeCas = some s') : s'.closed = true := by
  simp only [step] at h
  split at h
  · simp at h; subst h; assumption
  · split at h <;> simp at h
    subst h; rfl

/-- order of the winner's steps: the close error is stored before the transport is closed, the
    transport is closed before the context is cancelled -/
theorem C05_close_order (sync : Bool) (cap : Nat) (untilW : Bool) (acts : List (Act α)) (s : St α)
    (hr : run (init sync cap untilW) acts = some s) :
    (s.trClosed = true → s.closeErrSet = true) ∧ (s.ctxDone = true → s.trClosed = true) := by
  obtain ⟨_, hci⟩ := invs_run acts _ s (inv_init sync cap untilW) (cinv_init sync cap untilW) hr
  cases hcl : s.closed with
  | false => obtain ⟨_, b, c, _, _⟩ := hci.open_ hcl; simp [b, c]
  | true =>
    cases hc : s.closer with
    | none => obtain ⟨a, b, c⟩ := hci.donePh hcl hc; simp [a, b]
    | some pc =>
      cases pc with
      | len n => obtain ⟨a, b, c⟩ := hci.waitPh _ hc rfl; simp [a, c]
      | load n => obtain ⟨a, b, c⟩ := hci.waitPh _ hc rfl; simp [a, c]
      | sleep n => obtain ⟨a, b, c⟩ := hci.waitPh _ hc rfl; simp [a, c]
      | setErr => obtain ⟨a, b, c⟩ := hci.waitPh _ hc rfl; simp [a, c]
      | trClose => obtain ⟨a, b, c⟩ := hci.trPh hc; simp [b, c]
      | cancel => obtain ⟨a, b, c⟩ := hci.cancelPh hc; simp [a, b]
      | fire => obtain ⟨a, b, c⟩ := hci.firePh hc; simp [a, b]

end NettyVerif.C05

#print axioms NettyVerif.C05.C05_close_once
#print axioms NettyVerif.C05.C05_single_winner
#print axioms NettyVerif.C05.C05_closed_after_any_close
#print axioms NettyVerif.C05.C05_close_order
