import NettyVerif.Proofs.Chan
namespace NettyVerif.C05
end NettyVerif.C05
