import NettyVerif.Gen.Routing
/-! # C17 — Transport wrappers preserve the byte stream for every buffering configuration

Meta-theorems over the routing-table model (Model/Transport.lean) for every buffer size and every
sequence of Write/Writev/Flush resp. Read sizes, plus the `decide`d fact that the table extracted
from transport/buffered.go on this run satisfies their premise (tie T3). -/
namespace NettyVerif.C17
open NettyVerif.Transport

theorem write_inv (b : BW) (p : Bytes) : (b.write p).conn ++ (b.write p).pend = b.conn ++ b.pend ++ p := by
  unfold BW.write
  split
  · simp
  · split
    · rename_i h; simp [h]
    · simp only
      split
      · simp only [List.append_assoc]
        rw [List.take_append_drop]
      · simp only [List.append_nil, List.append_assoc]
        rw [List.take_append_drop]

theorem routeWrite_inv (s : Sink) (b : BW) (p : Bytes) (hs : s = .bufw ∨ (s = .conn ∧ b.pend = [])) :
    (routeWrite s b p).conn ++ (routeWrite s b p).pend = b.conn ++ b.pend ++ p ∧
    (s = .conn → (routeWrite s b p).pend = []) := by
  rcases hs with rfl | ⟨rfl, hp⟩
  · exact ⟨write_inv b p, by intro h; cases h⟩
  · simp [routeWrite, BW.direct, hp]

theorem foldWrite_inv (s : Sink) : ∀ (ps : List Bytes) (b : BW), (s = .bufw ∨ (s = .conn ∧ b.pend = [])) →
    (ps.foldl (routeWrite s) b).conn ++ (ps.foldl (routeWrite s) b).pend = b.conn ++ b.pend ++ ps.flatten ∧
    (s = .conn → (ps.foldl (routeWrite s) b).pend = [])
  | [], b, hs => by
    refine ⟨by simp, ?_⟩
    intro h; rcases hs with h' | ⟨_, hp⟩
    · rw [h] at h'; cases h'
    · exact hp
  | p :: ps, b, hs => by
    obtain ⟨h1, h2⟩ := routeWrite_inv s b p hs
    have hs' : s = .bufw ∨ (s = .conn ∧ (routeWrite s b p).pend = []) := by
      rcases hs with h | ⟨h, _⟩
      · exact Or.inl h
      · exact Or.inr ⟨h, h2 h⟩
    obtain ⟨h3, h4⟩ := foldWrite_inv s ps (routeWrite s b p) hs'
    simp only [List.foldl_cons, List.flatten_cons]
    exact ⟨by rw [h3, h1]; simp, h4⟩

/-- one operation of a well-routed variant appends exactly its payload to `conn ++ pend` -/
theorem step_inv (r : Route) (hg : r.good = true) (b : BW) (hb : r.write = .conn → b.pend = []) (o : Op) :
    (step r b o).conn ++ (step r b o).pend = b.conn ++ b.pend ++ written [o] ∧
    (r.write = .conn → (step r b o).pend = []) := by
  simp only [Route.good, Bool.or_eq_true, Bool.and_eq_true, beq_iff_eq] at hg
  cases o with
  | write p =>
    have hs : r.write = .bufw ∨ (r.write = .conn ∧ b.pend = []) := by
      rcases hg with ⟨⟨h, _⟩, _⟩ | ⟨⟨h, _⟩, _⟩
      · exact Or.inl h
      · exact Or.inr ⟨h, hb h⟩
    simpa [step, written] using routeWrite_inv r.write b p hs
  | writev ps =>
    have hs : r.writev = .bufw ∨ (r.writev = .conn ∧ b.pend = []) := by
      rcases hg with ⟨⟨_, h⟩, _⟩ | ⟨⟨h1, h⟩, _⟩
      · exact Or.inl h
      · exact Or.inr ⟨h, hb h1⟩
    obtain ⟨h1, h2⟩ := foldWrite_inv r.writev ps b hs
    refine ⟨by simpa [step, written] using h1, ?_⟩
    intro hw
    rcases hg with ⟨⟨h, _⟩, _⟩ | ⟨⟨_, h⟩, _⟩
    · rw [hw] at h; cases h
    · exact h2 h
  | flush =>
    simp only [step, written, List.append_nil]
    split
    · simp [BW.flush]
    · exact ⟨rfl, hb⟩

/-- **write side**: for every well-routed variant, every buffer size and every sequence of
    Write/Writev/Flush, the bytes on the connection followed by the still-buffered bytes are exactly
    everything written, in call order — buffered and vectored writes are never reordered -/
theorem C17_write_stream (r : Route) (hg : r.good = true) : ∀ (ops : List Op) (b : BW), (r.write = .conn → b.pend = []) →
    (run r b ops).conn ++ (run r b ops).pend = b.conn ++ b.pend ++ written ops ∧
    (r.write = .conn → (run r b ops).pend = [])
  | [], b, hb => ⟨by simp [run, written], hb⟩
  | o :: ops, b, hb => by
    obtain ⟨h1, h2⟩ := step_inv r hg b hb o
    obtain ⟨h3, h4⟩ := C17_write_stream r hg ops (step r b o) h2
    refine ⟨?_, h4⟩
    simp only [run, List.foldl_cons] at h3 ⊢
    rw [h3, h1]
    cases o <;> simp [written]

/-- … hence once Flush has returned the peer has received exactly the written bytes -/
theorem C17_after_flush (r : Route) (hg : r.good = true) (ops : List Op) (size : Nat) :
    (run r { size := size } (ops ++ [.flush])).conn = written ops := by
  obtain ⟨h1, h2⟩ := C17_write_stream r hg ops { size := size } (fun _ => rfl)
  simp only [run, List.foldl_append, List.foldl_cons, List.foldl_nil] at h1 ⊢
  simp only [Route.good, Bool.or_eq_true, Bool.and_eq_true, beq_iff_eq] at hg
  simp only [step]
  rcases hg with ⟨⟨hw, _⟩, hf⟩ | ⟨⟨hw, _⟩, hf⟩
  · simp only [hf, BW.flush]; simpa using h1
  · have hp := h2 hw
    simp only [run] at hp
    rcases hf with hf | hf <;> simp only [hf, BW.flush] <;> simp [hp] at h1 ⊢ <;> exact h1

theorem connRead_inv : ∀ (cs : List Bytes) (k : Nat), (connRead cs k).1 ++ (connRead cs k).2.flatten = cs.flatten
  | [], _ => rfl
  | [] :: cs, k => by simpa [connRead] using connRead_inv cs k
  | (b :: c) :: cs, k => by
    simp only [connRead]
    split
    · rename_i h; simp [List.take_of_length_le h]
    · simp only [List.flatten_cons]
      rw [← List.append_assoc, List.take_append_drop]

/-- **read side**: every Read returns the next bytes of the peer's stream, whatever the
    fragmentation, the buffer size and the caller's buffer sizes; nothing is skipped or reordered -/
theorem C17_read_stream (s : Sink) : ∀ (ks : List Nat) (r : BR),
    (readAll s r ks).1 ++ (readAll s r ks).2.remaining = r.remaining
  | [], r => by simp [readAll]
  | k :: ks, r => by
    have ih := C17_read_stream s ks (routeRead s r k).2
    have h1 : (routeRead s r k).1 ++ (routeRead s r k).2.remaining = r.remaining := by
      cases s <;> simp only [routeRead, BR.read, BR.readDirect, BR.remaining] <;>
        (split
         · simp [← List.append_assoc, List.take_append_drop]
         · first
           | (split
              · rename_i hb _; simp at hb; simp [hb, connRead_inv]
              · rename_i hb _; simp at hb; simp only [hb, List.nil_append]
                rw [← List.append_assoc, List.take_append_drop, connRead_inv])
           | (rename_i hb; simp at hb; simp [hb, connRead_inv]))
    simp only [readAll, List.append_assoc]
    rw [ih, h1]

/-- **tie T3**: the routing table extracted from transport/buffered.go on this run is well routed,
    reads go through the buffered reader exactly in the read-buffered variants, and NewTransport
    selects the variants by (readSize > 0, writeSize > 0) -/
theorem C17_routing_extracted_ok :
    Gen.Routing.routes.all Route.good = true ∧
    Gen.Routing.routes.map (fun r => (r.name, r.read)) =
      [("bufConn", .bufr), ("bufReadConn", .bufr), ("bufWriteConn", .conn), ("rawConn", .conn)] ∧
    Gen.Routing.routes.map (fun r => (r.name, r.write)) =
      [("bufConn", .bufw), ("bufReadConn", .conn), ("bufWriteConn", .bufw), ("rawConn", .conn)] ∧
    Gen.Routing.ctor = [("readSize>0&&writeSize>0", "bufConn"), ("readSize>0", "bufReadConn"),
      ("writeSize>0", "bufWriteConn"), ("default", "rawConn")] := by
  decide

/-- negation witness: a variant whose Writev bypasses the buffered writer reorders the stream -/
example : (run { name := "mutant", read := .conn, write := .bufw, writev := .conn, flush := .bufw } { size := 8 }
    [.write [1, 2], .writev [[3, 4]], .flush]).conn = [3, 4, 1, 2] := by decide
example : (run { name := "bufWriteConn", read := .conn, write := .bufw, writev := .bufw, flush := .bufw } { size := 3 }
    [.write [1, 2], .writev [[3, 4], [5, 6, 7, 8, 9]], .flush]).conn = [1, 2, 3, 4, 5, 6, 7, 8, 9] := by decide

end NettyVerif.C17

#print axioms NettyVerif.C17.C17_write_stream
#print axioms NettyVerif.C17.C17_after_flush
#print axioms NettyVerif.C17.C17_read_stream
#print axioms NettyVerif.C17.C17_routing_extracted_ok
