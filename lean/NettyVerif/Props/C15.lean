import NettyVerif.Model.Http
/-! # C15 — HTTP server codec: one well-formed response per request, in order -/
namespace NettyVerif.C15
open NettyVerif.Http

/-! ## the request loop -/

/-- **every request is parsed at its true start**: with the repaired loop (the rest of the body is
    drained after the handler returns) ReadRequest starts exactly where each request starts,
    whatever part of the body each handler read — for every sequence of requests -/
theorem C15_requests_aligned (l : List (Req × Nat × Bool)) (pos : Nat) :
    requestStarts true l pos = trueStarts l pos := by
  induction l generalizing pos with
  | nil => rfl
  | cons x rest ih =>
    obtain ⟨r, readBy, rc⟩ := x
    simp only [requestStarts, trueStarts, if_true]
    split <;> simp [ih]

/-- the pinned loop: a handler that leaves 5 body bytes unread makes the next parse start inside the body -/
theorem C15_pinned_unread_body_misaligns :
    requestStarts false [({ headLen := 40, bodyLen := 5, close := false }, 0, false), ({ headLen := 30, bodyLen := 0, close := false }, 0, false)] 0 = [0, 40] ∧
    trueStarts [({ headLen := 40, bodyLen := 5, close := false }, 0, false), ({ headLen := 30, bodyLen := 0, close := false }, 0, false)] 0 = [0, 45] := by decide

end NettyVerif.C15

#print axioms NettyVerif.C15.C15_requests_aligned
#print axioms NettyVerif.C15.C15_pinned_unread_body_misaligns
