import NettyVerif.Proofs.Http
/-! # C15 — HTTP server codec: one well-formed response per request, in order

Model: Model/Http.lean (the repaired codec: unread bodies drained, Flush only flushes, the adapter
finishes the response, no chunked framing for HTTP/1.0). The response parser is a standard one
(validated against net/http.ReadResponse by the tie on every generated wire). -/
namespace NettyVerif.C15
open NettyVerif.Http

/-! ## the request loop -/

/-- **every request is parsed at its true start**: the rest of the body is drained after the
    handler returns, so ReadRequest starts exactly where each request starts whatever part of the
    body each handler read — for every sequence of requests; the loop stops after the first
    request that closes the connection -/
theorem C15_requests_aligned (l : List (Req × Nat × Bool)) (pos : Nat) :
    requestStarts true l pos = trueStarts l pos := by
  induction l generalizing pos with
  | nil => rfl
  | cons x rest ih =>
    obtain ⟨r, readBy, rc⟩ := x
    simp only [requestStarts, trueStarts, if_true]
    split <;> simp [ih]

/-- the pinned loop: a handler that leaves 5 body bytes unread makes the next parse start inside the body -/
theorem C15_pinned_unread_body_misaligns :
    requestStarts false [({ headLen := 40, bodyLen := 5, close := false }, 0, false), ({ headLen := 30, bodyLen := 0, close := false }, 0, false)] 0 = [0, 40] ∧
    trueStarts [({ headLen := 40, bodyLen := 5, close := false }, 0, false), ({ headLen := 30, bodyLen := 0, close := false }, 0, false)] 0 = [0, 45] := by decide

/-! ## one response per request, read back as produced -/

/-- **the response is what the handler produced**: for every handler program (any headers, any
    status, any number and size of writes, Flush anywhere and any number of times), with an
    explicit Content-Length — if any — equal to what was written: a standard parser reads from the
    emitted bytes exactly the status, the headers and the body the handler produced; it stops
    exactly at the end of a self-delimiting response (chunked or with Content-Length), so whatever
    follows is the next response; otherwise the body runs to the end of the stream. The connection
    is marked to be closed iff the request asked for it or the response is not self-delimiting, at
    a point where every byte has been flushed; nothing crashes. -/
theorem C15_response_roundtrip (minor : Nat) (hm : minor ≤ 1) (reqClose : Bool) (prog : List HOp) (hp : ∀ o ∈ prog, opOK o)
    (hcons : Consistent (serveOne minor reqClose prog)) :
    (selfDelimiting (serveOne minor reqClose prog) = true →
      ∀ next, parseResp ((serveOne minor reqClose prog).out ++ next) = some (view (serveOne minor reqClose prog), next)) ∧
    (selfDelimiting (serveOne minor reqClose prog) = false →
      parseResp (serveOne minor reqClose prog).out = some (view (serveOne minor reqClose prog), [])) ∧
    (serveOne minor reqClose prog).markedClose = (reqClose || !selfDelimiting (serveOne minor reqClose prog)) ∧
    (serveOne minor reqClose prog).flushed = (serveOne minor reqClose prog).out.length ∧
    (serveOne minor reqClose prog).finished = true ∧ (serveOne minor reqClose prog).crashed = false := by
  have hinv := inv_fold prog hp _ (inv_init minor hm reqClose)
  have hrc := (fold_reqClose prog { minor := minor, reqClose := reqClose }).1
  have := finish_roundtrip _ hinv hcons
  simp only [hrc] at this
  exact this

def payload : HOp → Bytes
  | .write b => b
  | _ => []

theorem op_body (w : RW) (o : HOp) (hf : w.finished = false) :
    (w.op o).body = w.body ++ payload o ∧ (w.op o).finished = false := by
  cases o with
  | setHeader k v => simp [RW.op, payload, hf]
  | writeHeader c =>
    simp only [RW.op, RW.doHeader]
    by_cases hw : w.wroteHeader = true <;> simp [hw, payload, hf]
  | write b =>
    have : (w.doHeader 200).finished = false ∧ (w.doHeader 200).body = w.body := by unfold RW.doHeader; split <;> simp [hf]
    simp [RW.op, this.1, this.2, payload]
  | flush =>
    have : (w.doHeader 200).finished = false ∧ (w.doHeader 200).body = w.body := by unfold RW.doHeader; split <;> simp [hf]
    simp [RW.op, hf, this.1, this.2, payload]

/-- **the body is everything the handler wrote**, in order — whatever else it did in between -/
theorem C15_body_is_what_was_written (minor : Nat) (c : Bool) (prog : List HOp) :
    (serveOne minor c prog).body = (prog.map payload).flatten := by
  have key : ∀ (prog : List HOp) (w : RW), w.finished = false →
      (prog.foldl RW.op w).body = w.body ++ (prog.map payload).flatten ∧ (prog.foldl RW.op w).finished = false := by
    intro prog
    induction prog with
    | nil => intro w h; simp [h]
    | cons o rest ih =>
      intro w h
      have h1 := op_body w o h
      have h2 := ih (w.op o) h1.2
      simp only [List.foldl_cons, List.map_cons, List.flatten_cons]
      rw [h2.1, h1.1]
      exact ⟨by simp [List.append_assoc], h2.2⟩
  have h := key prog { minor := minor, reqClose := c } rfl
  have hfin : ∀ w : RW, w.finished = false → w.finish.body = w.body := by
    intro w hw
    unfold RW.finish RW.doHeader
    simp only [hw, Bool.false_eq_true, if_false]
    split <;> rfl
  unfold serveOne
  rw [hfin _ h.2, h.1]
  simp

/-- **Flush is transparent**: once the header is out, Flush changes nothing but the amount flushed;
    before that it sends the header with status 200, exactly like the first Write would -/
theorem C15_flush_transparent (w : RW) (hf : w.finished = false) :
    (w.op .flush).out = (w.doHeader 200).out ∧ (w.op .flush).body = w.body ∧ (w.op .flush).sent = (w.doHeader 200).sent ∧
    (w.op .flush).status = (w.doHeader 200).status ∧ (w.op .flush).flushed = (w.op .flush).out.length ∧
    (w.wroteHeader = true → (w.op .flush).out = w.out ∧ (w.op .flush).status = w.status) := by
  have hb : (w.doHeader 200).body = w.body := by unfold RW.doHeader; split <;> rfl
  refine ⟨by simp [RW.op, hf], by simp [RW.op, hf, hb], by simp [RW.op, hf], by simp [RW.op, hf], by simp [RW.op, hf], ?_⟩
  intro hw
  simp [RW.op, hf, RW.doHeader, hw]

/-- **pipelining**: responses that are self-delimiting and do not close the connection are read
    back one after the other, in order, from the concatenated wire -/
def parseN : Nat → Bytes → Option (List Resp × Bytes)
  | 0, bs => some ([], bs)
  | k+1, bs => match parseResp bs with
    | none => none
    | some (r, rest) => (parseN k rest).map (fun (rs, r') => (r :: rs, r'))

theorem C15_pipelined_in_order (minor : Nat) (hm : minor ≤ 1) (progs : List (List HOp))
    (hp : ∀ p ∈ progs, (∀ o ∈ p, opOK o) ∧ Consistent (serveOne minor false p) ∧ selfDelimiting (serveOne minor false p) = true)
    (rest : Bytes) :
    parseN progs.length ((progs.map (fun p => (serveOne minor false p).out)).flatten ++ rest) =
      some (progs.map (fun p => view (serveOne minor false p)), rest) ∧
    ∀ p ∈ progs, (serveOne minor false p).markedClose = false := by
  induction progs with
  | nil => simp [parseN]
  | cons p ps ih =>
    have hp0 := hp p (by simp)
    have hps : ∀ q ∈ ps, _ := fun q hq => hp q (by simp [hq])
    have rt := C15_response_roundtrip minor hm false p hp0.1 hp0.2.1
    have ih' := ih hps
    refine ⟨?_, ?_⟩
    · simp only [List.map_cons, List.flatten_cons, List.length_cons, parseN, List.append_assoc]
      rw [rt.1 hp0.2.2]
      dsimp only
      rw [ih'.1]
      simp
    · intro q hq
      simp only [List.mem_cons] at hq
      rcases hq with rfl | hq
      · rw [rt.2.2.1, hp0.2.2]; rfl
      · exact ih'.2 q hq

/-! ## the pinned codec -/

def bCL : Bytes := [51]                 -- "3"
def bBody : Bytes := [97, 98, 99]       -- "abc"

/-- a handler that calls Flush: the pinned writer finished the response there (status 200 instead
    of the 500 set afterwards, the body lost) and the adapter's own deferred Flush dereferenced nil -/
theorem C15_pinned_flush_finishes :
    let w := serveOnePinned 1 false [.setHeader sCL bCL, .flush, .writeHeader 500, .write bBody]
    (w.status, w.body, w.crashed) = (200, [], true) ∧
    (let w' := serveOne 1 false [.setHeader sCL bCL, .flush, .writeHeader 500, .write bBody]
     (w'.status, w'.body, w'.crashed) = (200, bBody, false)) ∧
    (serveOnePinned 1 false [.flush]).crashed = true ∧ (serveOne 1 false [.flush, .flush]).crashed = false := by decide

/-- chunked framing sent to an HTTP/1.0 client: the standard parser reads the framing as body -/
theorem C15_pinned_chunked_to_http10 :
    (parseResp (serveOnePinned 0 false [.setHeader sTE sChunked, .write [101]]).out).map (fun r => r.1.body) =
      some [49, 13, 10, 101, 13, 10, 48, 13, 10, 13, 10] ∧
    (parseResp (serveOne 0 false [.setHeader sTE sChunked, .write [101]]).out).map (fun r => r.1.body) = some [101] := by decide +kernel

/-- a delimiting header field set after the header block has gone out (pinned, before 13c8e6d): the response
    on the wire announces neither a length nor a transfer coding, yet the connection is kept open; the repaired
    writer decides by what it sent and closes -/
theorem C15_pinned_late_header_keeps_open :
    (serveOneLive 1 false [.write [97], .setHeader sCL [49]]).markedClose = false ∧
    lookup (serveOneLive 1 false [.write [97], .setHeader sCL [49]]).sent sCL = [] ∧
    lookup (serveOneLive 1 false [.write [97], .setHeader sCL [49]]).sent sTE = [] ∧
    (serveOne 1 false [.write [97], .setHeader sCL [49]]).markedClose = true := by decide +kernel

/-- non-vacuity: a chunked response and a Content-Length response meet the hypotheses and parse in sequence -/
example : (parseN 2 ((serveOne 1 false [.setHeader sTE sChunked, .write [104, 105], .flush, .write [33]]).out ++
      (serveOne 1 false [.setHeader sCL bCL, .writeHeader 404, .write bBody]).out)).map
        (fun r => (r.1.map (fun x => (x.status, x.body)), r.2)) = some ([(200, [104, 105, 33]), (404, bBody)], []) := by decide +kernel

end NettyVerif.C15

#print axioms NettyVerif.C15.C15_requests_aligned
#print axioms NettyVerif.C15.C15_pinned_unread_body_misaligns
#print axioms NettyVerif.C15.C15_response_roundtrip
#print axioms NettyVerif.C15.C15_body_is_what_was_written
#print axioms NettyVerif.C15.C15_flush_transparent
#print axioms NettyVerif.C15.C15_pipelined_in_order
#print axioms NettyVerif.C15.C15_pinned_flush_finishes
#print axioms NettyVerif.C15.C15_pinned_chunked_to_http10
#print axioms NettyVerif.C15.C15_pinned_late_header_keeps_open
