import NettyVerif.Proofs.Chan
namespace NettyVerif.C11
end NettyVerif.C11
