import NettyVerif.Proofs.ChanClose
import NettyVerif.Model.Carrier
/-! # C11 — Writes on a closed channel fail and transmit nothing

Chan LTS with the repaired entry check: every write entry point first evaluates `closedError()`,
i.e. reads the atomic closed flag (`beginWrite` if open, `rejectWrite` if closed). -/
namespace NettyVerif.C11
open NettyVerif.Chan
variable {α : Type}

/-- the closed flag never resets -/
theorem C11_closed_monotone (s s' : St α) (a : Act α) (h : step s a = some s') (hc : s.closed = true) :
    s'.closed = true := by
  cases a <;> simp only [step] at h <;> (repeat' split at h) <;> simp at h <;> subst h <;> simp_all

/-- once any Close has won the flag, a write call's entry check can only reject, and rejecting
    changes nothing -/
theorem C11_reject (s : St α) (hc : s.closed = true) :
    step s .beginWrite = none ∧ step s .rejectWrite = some s := by
  simp [step, hc]

/-- "no new call can be accepted": closed, and no call that passed its entry check earlier is still
    on its way to the queue or the transport -/
def Sealed (s : St α) : Prop := s.closed = true ∧ s.inflight = 0 ∧ s.lockHeld = false

theorem C11_sealed_step (s s' : St α) (a : Act α) (h : step s a = some s') (hs : Sealed s) :
    Sealed s' ∧ s'.accepted = s.accepted := by
  obtain ⟨h1, h2, h3⟩ := hs
  cases a <;> simp only [step] at h <;> (repeat' split at h) <;> simp at h <;> (try subst h) <;>
    simp_all [Sealed] <;> omega

/-- **after Close has returned** (closed flag set) and the calls that were already past their entry
    check have finished, nothing is ever accepted again, whatever happens: every later write is
    rejected (`C11_reject`) and `accepted` — hence the bytes that can reach the transport — is frozen,
    for every Close argument (the argument does not occur in the model: nil behaves like any error) -/
theorem C11_nothing_accepted_after_close : ∀ (acts : List (Act α)) (s s' : St α), Sealed s → run s acts = some s' →
    s'.accepted = s.accepted
  | [], s, s', _, h => by simp [run] at h; subst h; rfl
  | a :: as, s, s', hs, h => by
    simp only [run] at h
    cases hst : step s a with
    | none => simp [hst] at h
    | some s1 =>
      simp [hst] at h
      obtain ⟨hs1, he⟩ := C11_sealed_step s s1 a hst hs
      rw [C11_nothing_accepted_after_close as s1 s' hs1 h, he]

/-- non-vacuity: Close(nil) wins, a later write call is rejected, the queue stays as it was -/
example : (run ({ sync := false, cap := 2 } : St Nat)
    [.closeCas, .closeLen, .closeLoad, .closeSetErr, .closeTr, .closeCancel, .closeFire, .rejectWrite]).map
      (fun s => (s.closed, s.accepted, s.inflight)) = some (true, [], 0) := by decide

/-! ## the streaming entry point -/
open NettyVerif.Carrier in
/-- ReadFrom with a Close falling between two chunks: exactly the chunks read before the close are
    written, nothing read afterwards is, and the call reports the close error (every chunk goes
    through the closed check of the low-level write, which `C11_reject` shows to refuse) -/
theorem C11_readfrom_stops_at_close (chunks : List Carrier.Bytes) (j : Nat) (h1 : 0 < j) (h2 : j ≤ chunks.length) :
    (readFromClosing chunks j).1 = chunks.take (j - 1) ∧ (readFromClosing chunks j).2.2 = true ∧
    (readFromClosing chunks j).1.flatten.length ≤ (readFromClosing chunks j).2.1 := by
  have hc : ¬ (j = 0 ∨ j > chunks.length) := by omega
  simp only [readFromClosing, hc, if_false, true_and]
  have : chunks.take j = chunks.take (j - 1) ++ (chunks.drop (j - 1)).take 1 := by
    have : j = (j - 1) + 1 := by omega
    rw [this, List.take_add]; simp
  rw [this]; simp

end NettyVerif.C11

#print axioms NettyVerif.C11.C11_closed_monotone
#print axioms NettyVerif.C11.C11_reject
#print axioms NettyVerif.C11.C11_sealed_step
#print axioms NettyVerif.C11.C11_nothing_accepted_after_close
#print axioms NettyVerif.C11.C11_readfrom_stops_at_close
