import NettyVerif.Proofs.Chan
namespace NettyVerif.C06
end NettyVerif.C06
