import NettyVerif.Proofs.ChanClose
/-! # C06 — Graceful close delivers every payload accepted before Close

Chan LTS with the repaired wait loop of Close (queue first, ownership flag second; a sender that
gave up after a transport failure is not waited for).  `accAtLen` is the ghost `|accepted|` at the
moment the winning Close last saw the queue empty; since `accepted` only grows, every payload
accepted before Close was invoked has an index below it. -/
namespace NettyVerif.C06
open NettyVerif.Chan
variable {α : Type}

def init (sync : Bool) (cap : Nat) (untilW : Bool) : St α := { sync := sync, cap := cap, untilW := untilW }

/-- **graceful close**: in every reachable state in which the winning Close is about to close the
    transport after leaving its wait loop gracefully, every payload accepted before it saw the queue
    empty is on the wire and has been flushed (wire is a prefix of accepted, and the flushed prefix
    of the wire covers the first `accAtLen` accepted payloads) -/
theorem C06_graceful (sync : Bool) (cap : Nat) (untilW : Bool) (acts : List (Act α)) (s : St α)
    (hr : run (init sync cap untilW) acts = some s)
    (hc : s.closer = some .trClose) (hg : s.graceful = true) (hb : s.broken = false) :
    s.accAtLen ≤ s.flushed ∧ s.flushed ≤ s.wire.length ∧ s.wire <+: s.accepted := by
  obtain ⟨hw, hci⟩ := invs_run acts _ s (inv_init sync cap untilW) (cinv_init sync cap untilW) hr
  refine ⟨hci.gracePh hg hb (Or.inr hc), hw.flushedLe, ?_⟩
  rw [hw.fifo hb, List.append_assoc]; exact List.prefix_append _ _

/-- on channels created to wait for pending writes (`untilWrite`) the wait loop can only be left
    gracefully -/
theorem C06_until_always_graceful (cap : Nat) (acts : List (Act α)) (s : St α)
    (hr : run (init false cap true) acts = some s) (hc : s.closer = some .trClose) : s.graceful = true := by
  obtain ⟨hw, hci⟩ := invs_run acts _ s (inv_init false cap true) (cinv_init false cap true) hr
  have hcfg : s.untilW = true ∧ s.sync = false := by
    have : ∀ (acts : List (Act α)) (a b : St α), run a acts = some b → b.sync = a.sync ∧ b.untilW = a.untilW := by
      intro acts
      induction acts with
      | nil => intro a b h; simp [run] at h; subst h; exact ⟨rfl, rfl⟩
      | cons x xs ih =>
        intro a b h
        simp only [run] at h
        cases hs : step a x with
        | none => simp [hs] at h
        | some a1 =>
          simp [hs] at h
          obtain ⟨i1, i2⟩ := ih a1 b h
          rw [i1, i2]
          cases x <;> simp only [step] at hs <;> (repeat' split at hs) <;> simp at hs <;> subst hs <;> exact ⟨rfl, rfl⟩
    have := this acts _ s hr
    exact ⟨this.2, this.1⟩
  exact hci.untilGrace hcfg.1 hcfg.2 (Or.inr hc)

/-- Close never closes the transport while an owner holds a batch of payloads accepted before it
    saw the queue empty: at that point they are already flushed, so an owner's batch can only
    contain later payloads -/
theorem C06_no_close_mid_batch (sync : Bool) (cap : Nat) (untilW : Bool) (acts : List (Act α)) (s : St α)
    (hr : run (init sync cap untilW) acts = some s)
    (hc : s.closer = some .trClose) (hg : s.graceful = true) (hb : s.broken = false) :
    s.accAtLen ≤ s.wire.length := by
  have := C06_graceful sync cap untilW acts s hr hc hg hb
  omega

/-- accepted only grows: a payload accepted before any later step keeps its index -/
theorem C06_accepted_append_only (s s' : St α) (a : Act α) (h : step s a = some s') : s.accepted <+: s'.accepted := by
  cases a <;> simp only [step] at h <;> (repeat' split at h) <;> simp at h <;> subst h <;> simp

/-- **pinned wait loop (flag only), negation witness** — the schedule the controller replayed on the
    real code before fix f44ba02 (findings/C06-close-loses-accepted-payload.replay.json): the closer
    reads `running = idle` in the window between the sender's `Store idle` and its re-acquire, and
    closes the transport while payload 2, whose write had returned, is still queued -/
def stepPinnedClose (s : St Nat) : Act Nat → Option (St Nat)
  | .closeLen => match s.closer with          -- the pinned loop never looks at the queue
    | some (.len n) => some { s with closer := some (.load n) }
    | _ => none
  | a => step s a

def runPinned (s : St Nat) : List (Act Nat) → Option (St Nat)
  | [] => some s
  | a :: as => (stepPinnedClose s a).bind (runPinned · as)

theorem C06_pinned_loses_payload :
    (runPinned (init false 2 true)
      [.beginWrite, .enqueue 1, .casWriter, .exec, .sndRecv, .sndDefault, .sndWritev true, .sndPut, .sndLen1,
       .beginWrite, .enqueue 2, .casWriter,                       -- p2 accepted; its CAS fails (sender still running); call returns
       .sndFlush true, .sndStore,                                  -- sender releases ownership
       .closeCas, .closeLen, .closeLoad, .closeSetErr, .closeTr]).map
      (fun s => (s.wire, s.q, s.trClosed)) = some ([1], [2], true) := by decide

end NettyVerif.C06

#print axioms NettyVerif.C06.C06_graceful
#print axioms NettyVerif.C06.C06_until_always_graceful
#print axioms NettyVerif.C06.C06_no_close_mid_batch
#print axioms NettyVerif.C06.C06_accepted_append_only
#print axioms NettyVerif.C06.C06_pinned_loses_payload
