import NettyVerif.Model.Carrier
/-! # C14 — Accepted outbound types are sent byte-exact; conversions preserve content -/
namespace NettyVerif.C14
open NettyVerif.Carrier

def wire (ws : List LowWrite) : Bytes := (ws.map LowWrite.bytes).flatten

theorem readScript_size (s : ReadScript) (k : Nat) (hk : 0 < k) (hs : s ≠ []) :
    scriptSize (readScript s k).2.2 < scriptSize s := by
  cases s with
  | nil => exact absurd rfl hs
  | cons x rest =>
    obtain ⟨d, e⟩ := x
    simp only [readScript]
    split
    · simp only [scriptSize]; omega
    · simp only [scriptSize, List.length_drop]; omega

/-- the ReadFrom loop forwards exactly the reader's content (everything up to its first error or
    EOF), in order, in pieces of 1..chunk bytes, and reports that error (EOF is success) -/
theorem readFrom_exact (chunk : Nat) (hc : 0 < chunk) : ∀ (fuel : Nat) (s : ReadScript), scriptSize s < fuel →
    wire (readFrom chunk fuel s).1 = scriptContent s ∧ (readFrom chunk fuel s).2 = scriptError s
  | 0, _, h => by omega
  | fuel+1, [], _ => by simp [readFrom, readScript, wire, scriptContent, scriptError]
  | fuel+1, (d, e) :: rest, h => by
    simp only [readFrom, readScript]
    by_cases hd : d.length ≤ chunk
    · simp only [hd, ite_true]
      cases e with
      | some err =>
        cases err <;> cases hde : d.isEmpty <;>
          simp_all [wire, scriptContent, scriptError, LowWrite.bytes, List.isEmpty_iff]
      | none =>
        have ih := readFrom_exact chunk hc fuel rest (by simp [scriptSize] at h; omega)
        cases hde : d.isEmpty <;>
          simp_all [wire, scriptContent, scriptError, LowWrite.bytes, List.isEmpty_iff]
    · simp only [hd, ite_false]
      have hne : (d.take chunk).isEmpty = false := by
        cases d with
        | nil => simp at hd
        | cons x xs => cases chunk with
          | zero => omega
          | succ c => simp
      have ih := readFrom_exact chunk hc fuel ((d.drop chunk, e) :: rest)
        (by simp only [scriptSize, List.length_drop] at h ⊢; omega)
      simp only [hne, Bool.false_eq_true, ite_false]
      obtain ⟨ih1, ih2⟩ := ih
      constructor
      · simp only [wire, List.map_append, List.flatten_append, List.map_cons, List.map_nil, LowWrite.bytes] at ih1 ⊢
        rw [ih1]
        cases e <;> simp [scriptContent, ← List.append_assoc, List.take_append_drop]
      · rw [ih2]; cases e with
        | none => simp [scriptError]
        | some err => cases err <;> simp [scriptError]

/-- **head of the pipeline**: for every accepted message type, every content and every reader
    behaviour (short reads of every size, data together with EOF, error after data), the low-level
    writes carry exactly the message's bytes, in order -/
theorem C14_head_bytes (m : Msg) (ws : List LowWrite) (err : Option RErr) (h : headWrites m = some (ws, err)) :
    m.content = some (wire ws) := by
  cases m with
  | bytes b => simp [headWrites] at h; obtain ⟨rfl, _⟩ := h; simp [Msg.content, wire, LowWrite.bytes]
  | bytesv bs => simp [headWrites] at h; obtain ⟨rfl, _⟩ := h; simp [Msg.content, wire, LowWrite.bytes]
  | buffer b => simp [headWrites] at h; obtain ⟨rfl, _⟩ := h; simp [Msg.content, wire, LowWrite.bytes]
  | str b => simp [headWrites] at h
  | bytesReader b =>
    simp [headWrites] at h; obtain ⟨rfl, _⟩ := h
    cases hb : b.isEmpty <;> simp_all [Msg.content, wire, LowWrite.bytes, List.isEmpty_iff]
  | writerTo wr =>
    simp [headWrites] at h; obtain ⟨rfl, _⟩ := h
    simp [Msg.content, wire, List.map_map, Function.comp_def, LowWrite.bytes]
  | reader s =>
    simp only [headWrites, Option.some.injEq] at h
    have := readFrom_exact 1024 (by omega) (scriptSize s + 1) s (by omega)
    rw [h] at this
    simp [Msg.content, this.1]
  | other => simp [headWrites] at h

/-- any other type (and a bare string) raises and writes nothing -/
theorem C14_head_rejects : headWrites .other = none ∧ ∀ b, headWrites (.str b) = none := by
  simp [headWrites]

theorem C14_reader_error_reported (s : ReadScript) :
    (readFrom 1024 (scriptSize s + 1) s).2 = scriptError s :=
  (readFrom_exact 1024 (by omega) (scriptSize s + 1) s (by omega)).2

/-- ToBytes returns exactly the content of every supported input and an error otherwise -/
theorem C14_toBytes_exact (m : Msg) :
    match toBytes m with
    | .ok b => m.content = some b
    | .error _ => m = .other ∨ ∃ s, m = .reader s ∧ (scriptError s).isSome := by
  cases m with
  | reader s => by_cases h : (scriptError s).isSome <;> simp [toBytes, h, Msg.content]
  | other => simp [toBytes]
  | bytes b => simp [toBytes, Msg.content]
  | bytesv b => simp [toBytes, Msg.content]
  | buffer b => simp [toBytes, Msg.content]
  | str b => simp [toBytes, Msg.content]
  | bytesReader b => simp [toBytes, Msg.content]
  | writerTo b => simp [toBytes, Msg.content]

theorem C14_countOf (bs : List Bytes) : countOf bs = bs.flatten.length := by
  have : ∀ (l : List Nat) (a : Nat), l.foldl (· + ·) a = a + l.sum := by
    intro l; induction l with
    | nil => simp
    | cons x xs ih => intro a; simp [ih]; omega
  simp [countOf, this, List.length_flatten]

/-- pinned ByteStealer, negation witness (replayed on the implementation before fix 92c6c2e):
    a WriterTo writing "ab" then "cd" from one scratch buffer was returned as "cdcd" -/
theorem C14_steal_pinned_corrupts : stealPinned [[97, 98], [99, 100]] = [99, 100, 99, 100] ∧
    toBytes (.writerTo [[97, 98], [99, 100]]) = .ok [97, 98, 99, 100] := ⟨by decide, by rfl⟩

/-- non-vacuity: a reader delivering short reads, an oversized fragment and data together with EOF -/
example : headWrites (.reader [([1, 2], none), ([], none), (List.replicate 1500 7, none), ([9], some .eof), ([5], none)]) =
    some ([.write1 [1, 2], .write1 (List.replicate 1024 7), .write1 (List.replicate 476 7), .write1 [9]], none) := by
  decide +kernel

end NettyVerif.C14

#print axioms NettyVerif.C14.readFrom_exact
#print axioms NettyVerif.C14.C14_head_bytes
#print axioms NettyVerif.C14.C14_head_rejects
#print axioms NettyVerif.C14.C14_reader_error_reported
#print axioms NettyVerif.C14.C14_toBytes_exact
#print axioms NettyVerif.C14.C14_countOf
#print axioms NettyVerif.C14.C14_steal_pinned_corrupts
