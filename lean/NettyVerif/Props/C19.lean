import NettyVerif.Proofs.Pool
/-! # C19 — Buffer pool: capacity and exclusive ownership hold for every Get/Put history

Property theorems only (helper lemmas live in Proofs/Pmath.lean and Proofs/Pool.lean).
Arithmetic theorems are stated over `Gen.Pmath.*`, the definitions regenerated from
utils/pool/internal/pmath/pmath.go on every run (tie T1); history theorems are stated over the
hand model Model/Pool.lean, which the correspondence check (tie T2) runs against the real
`pool.Pool`, `pbytes.Pool` and `pbuffer.Pool`. -/
namespace NettyVerif.C19
open NettyVerif.Pool NettyVerif.Pmath Gen.Pmath

/-! ## Size-class arithmetic, for every 64-bit `int` -/

/-- `CeilToPowerOfTwo n` for `2 < n ≤ 2^62`: a power of two, `n ≤ r < 2n` (least power ≥ n). -/
theorem C19_ceil (n : I) (h0 : 2 < n.toInt) (h : n.toInt ≤ 2^62) :
    ∃ r k, CeilToPowerOfTwo n = some r ∧ r.toNat = 2^k ∧ n.toNat ≤ r.toNat ∧ r.toNat < 2 * n.toNat := by
  obtain ⟨r, hr, heq, _⟩ := ceil_eq n h0 h
  have hn : 2 < n.toNat := by rcases toInt_cases n with ⟨_, e⟩ | ⟨_, e⟩ <;> omega
  obtain ⟨h1, h2, h3⟩ := ceilNat_spec n.toNat hn
  exact ⟨r, _, hr, heq.trans h3, by omega, by omega⟩

/-- small and negative arguments are returned unchanged (0, 1, 2 and every negative int) -/
theorem C19_ceil_small (n : I) (h : n.toInt ≤ 2) : CeilToPowerOfTwo n = some n := ceil_small n h

/-- above 2^62 the function panics, exactly as coded -/
theorem C19_ceil_panics (n : I) (h : 2^62 < n.toInt) : CeilToPowerOfTwo n = none := ceil_panic n h

/-- `FloorToPowerOfTwo n` for every `n > 2`: a power of two with `r ≤ n < 2r` -/
theorem C19_floor (n : I) (h0 : 2 < n.toInt) :
    ∃ k, (FloorToPowerOfTwo n).toNat = 2^k ∧ (FloorToPowerOfTwo n).toNat ≤ n.toNat ∧
      n.toNat < 2 * (FloorToPowerOfTwo n).toNat := by
  have hn : 2 < n.toNat := by rcases toInt_cases n with ⟨_, e⟩ | ⟨_, e⟩ <;> omega
  have := floorNat_spec n.toNat hn
  rw [floor_eq n h0]
  refine ⟨Nat.log2 n.toNat, ?_, this.1, this.2⟩
  simp only [floorNat, show ¬ n.toNat ≤ 2 by omega, ite_false]

theorem C19_floor_small (n : I) (h : n.toInt ≤ 2) : FloorToPowerOfTwo n = n := floor_small n h

/-- `IsPowerOfTwo` is exact on positive ints -/
theorem C19_isPow2 (n : I) (h0 : 0 < n.toInt) : IsPowerOfTwo n = true ↔ ∃ k, n.toNat = 2^k := by
  rw [isPow2_iff n h0]
  constructor
  · intro h; exact ⟨_, h⟩
  · rintro ⟨k, hk⟩; rw [hk, Nat.log2_two_pow]

/-- ceiling is the identity exactly on powers of two (consistency of ceil with IsPowerOfTwo) -/
theorem C19_ceil_fix (n : I) (h0 : 2 < n.toInt) (h : n.toInt ≤ 2^62) :
    CeilToPowerOfTwo n = some n ↔ IsPowerOfTwo n = true := by
  obtain ⟨r, hr, heq, _⟩ := ceil_eq n h0 h
  have hn : 2 < n.toNat := by rcases toInt_cases n with ⟨_, e⟩ | ⟨_, e⟩ <;> omega
  rw [C19_isPow2 n (by omega), hr]
  constructor
  · intro hs; injection hs with hs; subst hs
    exact ⟨_, heq.trans (ceilNat_spec _ hn).2.2⟩
  · rintro ⟨k, hk⟩
    have : r = n := by
      apply BitVec.eq_of_toNat_eq
      rw [heq, hk, ceilNat_two_pow]
    rw [this]

/-! ## Configuration and shard index -/

/-- `pool.New(max)` for every `max`: power-of-two step, 1..64 shards, step × shards = ceil(max) -/
theorem C19_config (mx : Int) :
    IsPow2 (mkCfg mx).step ∧ 1 ≤ (mkCfg mx).shards ∧ (mkCfg mx).shards ≤ 64 ∧
    (mkCfg mx).step * (mkCfg mx).shards = ceilNat (if mx < 1 then 1 else mx.toNat) := mkCfg_wf mx

/-- every class is ≥ the request and a positive multiple of the step; the shard index of a
    class that fits the pool is in range; distinct classes use distinct shards -/
theorem C19_class (c : Cfg) (h : c.WF) (i j : Int) :
    i ≤ (c.size i : Int) ∧ c.step ∣ c.size i ∧
    ((c.size i - 1) / c.step = (c.size j - 1) / c.step → c.size i = c.size j) := by
  obtain ⟨a1, a2, a3⟩ := size_spec c h i
  obtain ⟨b1, b2, b3⟩ := size_spec c h j
  have hp := h.pos
  exact ⟨a1, a3, idx_inj c.step _ _ hp a3 b3 (by omega) (by omega)⟩

/-! ## Histories: capacity -/

/-- one accepted `Get` on a state satisfying the shard invariant returns capacity ≥ request -/
theorem get_cap_ge (s s' : St) (hwf : s.cfg.WF) (hI : PInv s) (size : Int) (res : Item) (fresh : Bool)
    (h : step Cfg.putIdx s (.get size res fresh) = some s') : size ≤ (res.cap : Int) := by
  obtain ⟨a1, a2, a3⟩ := size_spec s.cfg hwf size
  simp only [step, Cfg.getIdx] at h
  split at h
  · by_cases hc : res.cap = s.cfg.size size
    · rw [hc]; exact a1
    · simp [hc] at h
  · split at h
    · simp at h
    · rename_i i hidx
      split at h <;> simp at h
      rename_i hm
      obtain ⟨hcls, hshard⟩ := hI i res hm
      split at hidx <;> simp at hidx
      obtain ⟨b1, b2, b3⟩ := size_spec s.cfg hwf res.cap
      rw [hcls] at b2 b3
      have hp := hwf.pos
      have : res.cap = s.cfg.size size :=
        idx_inj s.cfg.step _ _ hp b3 a3 (by omega) (by omega) (by rw [hshard, hidx])
      rw [this]; exact a1

theorem run_inv (cfg : Cfg) : ∀ (ops : List Op) (s s' : St), s.cfg = cfg → PInv s →
    run Cfg.putIdx s ops = some s' → s'.cfg = cfg ∧ PInv s'
  | [], s, s', hc, hI, h => by simp [run] at h; subst h; exact ⟨hc, hI⟩
  | o :: ops, s, s', hc, hI, h => by
    simp only [run] at h
    cases hs : step Cfg.putIdx s o with
    | none => simp [hs] at h
    | some s1 =>
      simp [hs] at h
      exact run_inv cfg ops s1 s' ((step_cfg _ _ _ _ hs).trans hc) (pinv_step _ _ _ hI hs) h

/-- **C19 (capacity), repaired pool**: for every pool size, every history of Get/Put — including
    Put of foreign buffers of any capacity and arbitrary loss of pooled items — every `Get(n)`
    the model admits returns a buffer of capacity at least `n`. -/
theorem C19_capacity (mx : Int) (ops : List Op) (s s' : St) (size : Int) (res : Item) (fresh : Bool)
    (h1 : run Cfg.putIdx { cfg := mkCfg mx } ops = some s)
    (h2 : step Cfg.putIdx s (.get size res fresh) = some s') : size ≤ (res.cap : Int) := by
  have hinit : PInv ({ cfg := mkCfg mx } : St) := by intro i it hm; simp at hm
  obtain ⟨hc, hI⟩ := run_inv (mkCfg mx) ops _ s rfl hinit h1
  exact get_cap_ge s s' (hc ▸ mkCfg_WF mx) hI size res fresh h2

/-- non-vacuity: a concrete non-trivial history on the default pool is admitted -/
example : (run Cfg.putIdx { cfg := mkCfg 65536 }
    [.put ⟨1, 2048⟩, .put ⟨2, 1500⟩, .get 2000 ⟨1, 2048⟩ false, .get 2000 ⟨3, 2048⟩ true]).isSome = true := by
  decide +kernel

/-- **Negation on the pinned code** (`Put` without the size-class test): the default pool admits
    `Put(cap 1500); Get(2000)` returning the 1500-capacity buffer. Replayed on the implementation
    by the harness (known_findings.jsonl: fixed). -/
theorem C19_capacity_pinned_violated :
    ∃ s', step Cfg.putIdxPinned { cfg := mkCfg 65536, items := [] } (.put ⟨1, 1500⟩) = some s' ∧
      (step Cfg.putIdxPinned s' (.get 2000 ⟨1, 1500⟩ false)).isSome = true ∧ ¬ ((2000 : Int) ≤ 1500) := by
  refine ⟨{ cfg := mkCfg 65536, items := [(1, ⟨1, 1500⟩)] }, by decide +kernel, by decide +kernel, by decide⟩

/-! ## Histories: exclusive ownership -/

def ids (s : St) : List Nat := s.items.map (·.2.id)

theorem not_mem_ids_erase : ∀ (l : List (Nat × Item)) (x : Nat × Item), x ∈ l →
    (l.map (·.2.id)).Nodup → x.2.id ∉ (l.erase x).map (·.2.id)
  | [], _, hx, _ => by simp at hx
  | y :: l, x, hx, hn => by
    simp only [List.map_cons, List.nodup_cons] at hn
    by_cases hxy : y = x
    · subst hxy; simp only [List.erase_cons_head]; exact hn.1
    · have hx' : x ∈ l := by
        rcases List.mem_cons.1 hx with h | h
        · exact absurd h.symm hxy
        · exact h
      rw [List.erase_cons_tail (by simpa using hxy)]
      simp only [List.map_cons, List.mem_cons, not_or]
      refine ⟨?_, not_mem_ids_erase l x hx' hn.2⟩
      intro heq
      apply hn.1
      rw [← heq]
      exact List.mem_map.2 ⟨x, hx', rfl⟩

/-- **C19 (ownership)**: as long as callers only Put buffers they own (not currently pooled),
    pooled identities stay distinct, and an item handed out by Get is no longer in the pool —
    so between two Puts of a buffer at most one Get returns it. Holds for either Put variant. -/
theorem C19_exclusive (pi : Cfg → Nat → Option Nat) (s s' : St) (o : Op)
    (hn : (ids s).Nodup) (hput : ∀ it, o = .put it → it.id ∉ ids s)
    (h : step pi s o = some s') :
    (ids s').Nodup ∧ (∀ size res, o = .get size res false → res.id ∉ ids s') := by
  cases o with
  | get size res fresh =>
    simp only [step] at h
    split at h
    · split at h <;> simp at h; subst h
      exact ⟨hn, by intro _ _ he; injection he with _ _ hf; simp_all⟩
    · split at h
      · simp at h
      · split at h <;> simp at h
        rename_i i _ hm
        subst h
        refine ⟨?_, ?_⟩
        · exact List.Nodup.sublist (List.Sublist.map _ List.erase_sublist) hn
        · intro sz r he
          injection he with _ hr _
          subst hr
          exact not_mem_ids_erase s.items (i, res) hm hn
  | put it =>
    simp only [step] at h
    split at h
    · simp at h; subst h; exact ⟨hn, by intro _ _ he; cases he⟩
    · simp at h; subst h
      refine ⟨?_, by intro _ _ he; cases he⟩
      simp only [ids, List.map_cons, List.nodup_cons]
      exact ⟨hput it rfl, hn⟩
  | drop i =>
    simp only [step] at h; simp at h; subst h
    refine ⟨?_, by intro _ _ he; cases he⟩
    exact List.Nodup.sublist (List.Sublist.map _ (List.eraseIdx_sublist _ _)) hn

end NettyVerif.C19

#print axioms NettyVerif.C19.C19_ceil
#print axioms NettyVerif.C19.C19_ceil_small
#print axioms NettyVerif.C19.C19_ceil_panics
#print axioms NettyVerif.C19.C19_floor
#print axioms NettyVerif.C19.C19_floor_small
#print axioms NettyVerif.C19.C19_isPow2
#print axioms NettyVerif.C19.C19_ceil_fix
#print axioms NettyVerif.C19.C19_config
#print axioms NettyVerif.C19.C19_class
#print axioms NettyVerif.C19.C19_capacity
#print axioms NettyVerif.C19.C19_capacity_pinned_violated
#print axioms NettyVerif.C19.C19_exclusive
