/-! Bootstrap shutdown (bootstrap.go, holder.go) as two small labelled transition systems, one per
    *object*: an arbitrary listener and an arbitrary accepted channel, each together with the parts
    of the shared state that decide its fate (the bootstrap context, the progress of Shutdown's
    range over the listener registry, the holder's map swap). Listeners do not interact with each
    other, nor channels with each other, except through that shared state, so a theorem about the
    single-object system holds for every listener / channel of any history with k listeners, m
    connects and n accepts. Core Lean only. -/
namespace NettyVerif.Boot

/-! ### a listener -/

inductive Acc where
  | none | open | closed
  deriving DecidableEq, Repr

/-- program counter of `listener.Sync` (run by the executor action submitted by Async) -/
inductive LPc where
  | idle                    -- Sync not started
  | checked                 -- passed the initial check (not closed, no acceptor yet)
  | created                 -- transportFactory.Listen returned; acceptor not yet published
  | accepting               -- acceptor published; blocked in / looping over Accept
  | failed                  -- Accept returned an error
  | returned (serverClosed : Bool)
  deriving DecidableEq, Repr

structure LSt where
  ctxDone : Bool := false       -- bootstrap context cancelled (first step of Shutdown)
  rangeStarted : Bool := false  -- Shutdown's listeners.Range has begun
  reg : Bool := false           -- present in the listener registry
  listened : Bool := false      -- Listen() has stored it at some point
  inRange : Bool := false       -- Range will visit it (it was registered when Range began)
  visited : Bool := false
  mark : Bool := false          -- listener.closed
  acc : Acc := .none
  pc : LPc := .idle
  closePending : Nat := 0       -- Close calls that saw a published acceptor and have not closed it yet
  unregPending : Nat := 0       -- first Close: marked, registry entry not yet deleted
  rangeDone : Bool := false     -- Shutdown's listeners.Range has returned
  pub : Bool := false           -- l.acceptor is set (it stays set after Sync returns)
  deriving DecidableEq, Repr

inductive LAct where
  | listen                      -- Bootstrap.Listen: LoadOrStore into the registry
  | cancel                      -- Shutdown: bootstrapCancel()
  | rangeStart                  -- Shutdown: listeners.Range begins
  | rangeEnd                    -- Shutdown: listeners.Range returns
  | closeMark (byRange : Bool)  -- Listener.Close, locked section: first := !closed, closed := true, read acceptor
  | closeUnreg                  -- Listener.Close (first call only): removeListener
  | closeAcc                    -- Listener.Close: acceptor.Close()
  | syncCheck | syncListen | syncDecide | acceptWake | syncFail
  | syncListenFail              -- the transport factory's Listen fails: Sync returns that error, the listener object stays as it is (a later Sync may succeed)
  deriving DecidableEq, Repr

def lstep (s : LSt) : LAct → Option LSt
  | .listen => if s.listened then none else some { s with reg := true, listened := true, inRange := s.inRange }
  | .cancel => some { s with ctxDone := true }
  | .rangeStart => if s.ctxDone && !s.rangeStarted then some { s with rangeStarted := true, inRange := s.reg } else none
  | .rangeEnd =>                                    -- Range visits every entry that stays in the map throughout
    if s.rangeStarted && !s.rangeDone && (!s.inRange || s.visited || !s.reg) then some { s with rangeDone := true } else none
  | .closeMark byRange =>
    if byRange && !(s.inRange && !s.visited && !s.rangeDone && s.reg) then none
    else
      some { s with mark := true, visited := s.visited || byRange,
                    unregPending := if s.mark then s.unregPending else s.unregPending + 1,
                    closePending := if s.pub then s.closePending + 1 else s.closePending }
  | .closeUnreg => if s.unregPending = 0 then none else some { s with reg := false, unregPending := s.unregPending - 1 }
  | .closeAcc => if s.closePending = 0 then none else some { s with acc := .closed, closePending := s.closePending - 1 }
  | .syncCheck =>
    if s.pc = .idle ∧ s.listened then
      some { s with pc := if s.mark then .returned true else .checked }
    else none
  | .syncListen => if s.pc = .checked then some { s with pc := .created, acc := .open } else none
  | .syncListenFail => if s.pc = .checked then some { s with pc := .idle } else none
  | .syncDecide =>
    if s.pc = .created then
      if s.mark || s.ctxDone then some { s with acc := .closed, pc := .returned true }   -- close the fresh acceptor, ErrServerClosed
      else some { s with pc := .accepting, pub := true }
    else none
  | .acceptWake => if s.pc = .accepting ∧ s.acc = .closed then some { s with pc := .failed } else none
  | .syncFail => if s.pc = .failed then some { s with pc := .returned (s.ctxDone || s.mark) } else none

def lrun (s : LSt) : List LAct → Option LSt
  | [] => some s
  | a :: as => (lstep s a).bind (lrun · as)

/-- Shutdown has finished with the listeners (cancelled, Range returned) and no Close call still
    owes an acceptor.Close -/
def LSt.shutdownDone (s : LSt) : Bool :=
  s.ctxDone && s.rangeDone && s.closePending == 0

/-- Sync is parked for good: blocked in Accept on an open acceptor -/
def LSt.leaked (s : LSt) : Bool := s.pc == .accepting && s.acc == .open

/-! ### an accepted channel -/

inductive CPc where
  | none                    -- not yet accepted
  | accepted                -- returned by Accept, ServeChannel running on the accept goroutine
  | started                 -- read loop goroutine started, active event not yet past the holder
  | activating              -- registered in the holder; the active event is with the handlers behind it (which may wait for the peer)
  | loopTop                 -- about to test `<-ctx.Done()` at the top of the read loop
  | reading                 -- blocked in transport.Read inside the first inbound handler
  | closed
  deriving DecidableEq, Repr

/-- where the holder keeps the channel -/
inductive Loc where
  | notIn                   -- not (or no longer) in the holder
  | cur                     -- in the holder's current map
  | old                     -- in the map that CloseAll took away
  deriving DecidableEq, Repr

structure CSt where
  ctxDone : Bool := false       -- bootstrap context cancelled (the channel's context derives from it)
  swapped : Bool := false       -- CloseAll has swapped the holder's map
  closeAllDone : Bool := false  -- CloseAll has finished closing the channels of the old map
  pc : CPc := .none
  loc : Loc := .notIn
  closes : Nat := 0             -- transport.Close calls
  inactives : Nat := 0          -- inactive events delivered
  firePending : Bool := false   -- the closing goroutine has not yet fired inactive (holder.delChannel, then the handlers)
  deriving DecidableEq, Repr

inductive CAct where
  | cancel | swap | closeAllEnd
  | accept | serve | add | loopCheck | closeAllVisit
  | activeDone                  -- the handlers behind the holder have returned from the active event
  | ownClose                    -- the channel closes for a reason of its own (peer EOF, read error, user Close)
  | fireInactive                -- the goroutine that won the `closed` CAS fires inactive: holder.delChannel, then the handlers
  deriving DecidableEq, Repr

def cstep (s : CSt) : CAct → Option CSt
  | .cancel => some { s with ctxDone := true }
  | .swap =>
    if s.ctxDone && !s.swapped then some { s with swapped := true, loc := if s.loc = .cur then .old else s.loc } else none
  | .closeAllEnd =>                                 -- the loop over the old map has closed every channel in it
    if s.swapped && !s.closeAllDone && !(s.loc = .old ∧ s.pc ≠ .closed) then some { s with closeAllDone := true } else none
  | .accept => if s.pc = .none then some { s with pc := .accepted } else none
  | .serve => if s.pc = .accepted then some { s with pc := .started } else none
  | .add =>                                         -- holder.addChannel (under its mutex), then the context test, then active is forwarded
    if s.pc = .started then
      (if s.ctxDone then some { s with pc := .closed, loc := .cur, closes := s.closes + 1, firePending := true }   -- set up too late: closed on the spot
       else some { s with pc := .activating, loc := .cur })
    else none
  | .activeDone => if s.pc = .activating then some { s with pc := .loopTop } else none
  | .loopCheck =>                                   -- `select { case <-c.ctx.Done(): return (deferred Close) default: read }`
    if s.pc = .loopTop then
      (if s.ctxDone then some { s with pc := .closed, closes := s.closes + 1, firePending := true }
       else some { s with pc := .reading })
    else none
  | .closeAllVisit =>                               -- CloseAll: ch.Close(ErrServerClosed) for a channel of the old map
    if s.swapped && s.loc = .old && !s.closeAllDone then
      (if s.pc = .activating ∨ s.pc = .loopTop ∨ s.pc = .reading then some { s with pc := .closed, closes := s.closes + 1, firePending := true }
       else if s.pc = .closed then some s            -- lost the `closed` CAS: nothing happens
       else none)
    else none
  | .ownClose =>
    if s.pc = .activating ∨ s.pc = .loopTop ∨ s.pc = .reading then some { s with pc := .closed, closes := s.closes + 1, firePending := true }
    else none
  | .fireInactive =>                                -- delChannel removes it from the holder's *current* map only
    if s.firePending then
      some { s with firePending := false, inactives := s.inactives + 1, loc := if s.loc = .cur then .notIn else s.loc }
    else none

def crun (s : CSt) : List CAct → Option CSt
  | [] => some s
  | a :: as => (cstep s a).bind (crun · as)

/-- the holder before the repair: it registers the channel and forwards active whatever the state of
    the context -/
def cstepPinned (s : CSt) : CAct → Option CSt
  | .add => if s.pc = .started then some { s with pc := .activating, loc := .cur } else none
  | a => cstep s a

def crunPinned (s : CSt) : List CAct → Option CSt
  | [] => some s
  | a :: as => (cstepPinned s a).bind (crunPinned · as)

end NettyVerif.Boot
