/-! Executable model of utils/pool/generic.go (`New`, `Get`, `Put`) and of the byte-slice /
    buffer pools on top of it. Core Lean only (this file is linked into the driver).
    Sizes are unbounded `Nat`/`Int`; the 64-bit behaviour of the size-class arithmetic itself is
    covered by the theorems over the generated `Gen.Pmath` definitions (Proofs/Pmath.lean). -/
namespace NettyVerif.Pool

/-- Nat-level spec of `pmath.CeilToPowerOfTwo` (proved equal to the generated code in range) -/
def ceilNat (n : Nat) : Nat := if n ≤ 2 then n else 2^(Nat.log2 (n-1) + 1)
def floorNat (n : Nat) : Nat := if n ≤ 2 then n else 2^(Nat.log2 n)

structure Cfg where
  step : Nat
  shards : Nat
  deriving Repr, DecidableEq

/-- `pool.New(max)`: generic.go:18-39 -/
def mkCfg (mx : Int) : Cfg :=
  let maxSize := ceilNat (if mx < 1 then 1 else mx.toNat)
  let shardSize := max 1 (min maxSize 64)
  let stepSize := ceilNat (maxSize / shardSize)
  let shardSize := if stepSize * shardSize < maxSize then shardSize + 1 else shardSize
  { step := stepSize, shards := shardSize }

/-- the `size` closure installed by `New` -/
def Cfg.size (c : Cfg) (i : Int) : Nat :=
  if i ≤ (c.step : Int) then c.step else ceilNat i.toNat

/-- `Get`: the class `n` and the shard consulted (none = out of range, always a fresh buffer) -/
def Cfg.getIdx (c : Cfg) (size : Int) : Nat × Option Nat :=
  let n := c.size size
  let idx := (n - 1) / c.step
  (n, if idx < c.shards then some idx else none)

/-- `Put` as coded on the pinned tree (no size-class test): generic.go:56-64 -/
def Cfg.putIdxPinned (c : Cfg) (cap : Nat) : Option Nat :=
  if cap < c.step then none
  else
    let idx := (cap - 1) / c.step
    if idx < c.shards then some idx else none

/-- `Put` after the repair: buffers whose capacity is not exactly a size class are dropped -/
def Cfg.putIdx (c : Cfg) (cap : Nat) : Option Nat :=
  if cap < c.step then none
  else
    let idx := (cap - 1) / c.step
    if idx < c.shards then (if c.size cap = cap then some idx else none) else none

structure Item where
  id : Nat
  cap : Nat
  deriving Repr, DecidableEq

/-- pool contents: (shard, item) pairs; `sync.Pool` is a bag that may also lose items -/
structure St where
  cfg : Cfg
  items : List (Nat × Item) := []
  deriving Repr, DecidableEq

inductive Op where
  | get (size : Int) (res : Item) (fresh : Bool)   -- what the implementation answered
  | put (it : Item)
  | drop (i : Nat)                                  -- sync.Pool loses the i-th item (GC)
  deriving Repr

/-- acceptance step: is the implementation's answer one the model allows? -/
def step (putIdx : Cfg → Nat → Option Nat) (s : St) : Op → Option St
  | .get size res fresh =>
    let (n, idx) := s.cfg.getIdx size
    if fresh then
      if res.cap = n then some s else none
    else
      match idx with
      | none => none
      | some i =>
        if (i, res) ∈ s.items then some { s with items := s.items.erase (i, res) } else none
  | .put it =>
    match putIdx s.cfg it.cap with
    | none => some s
    | some i => some { s with items := (i, it) :: s.items }
  | .drop i => some { s with items := s.items.eraseIdx i }

def run (putIdx : Cfg → Nat → Option Nat) (s : St) : List Op → Option St
  | [] => some s
  | o :: os => (step putIdx s o).bind (run putIdx · os)

end NettyVerif.Pool
