import NettyVerif.Model.HB
/-! Access sites of shared fields (extracted from the source: Gen/Access.lean) and the protection
    policy they are checked against (C12). Core Lean only. -/
namespace NettyVerif.Access
open NettyVerif.HB

inductive Kind where
  | read | write
  | atomic                  -- `&x.f` passed to a sync/atomic function
  | call (m : String)       -- a method called on the field's value (X.f.M(...)) or a channel operation on it; the field itself is read
  | addr                    -- the field's address escapes
  | alias                   -- a map or slice held in the field is copied into a local that outlives the statement (and the field keeps it)
  deriving DecidableEq, Repr

structure Site where
  obj : String
  field : String
  ftype : String
  fn : String
  file : String
  line : Nat
  kind : Kind
  excl : List String        -- mutexes of the same object held exclusively at the site
  shared : List String      -- … held shared (RLock)
  ctor : Bool               -- the object is still under construction (composite literal, fresh local, Option initialiser)
  deriving DecidableEq, Repr

structure Policy where
  /-- fields excluded by the property itself (attachment; the pipeline's own state is a different struct) -/
  excluded : List (String × String)
  /-- fields owned by whoever holds a token, with the functions that may touch them -/
  owned : List ((String × String) × String × List String)
  deriving Repr

inductive Verdict where
  | immutable | atomic | guarded (l : String) | owned (k : String) | excluded | unprotected
  deriving DecidableEq, Repr

def Kind.isRead : Kind → Bool
  | .read | .call _ | .alias => true
  | _ => false

def guardOK (m : String) (s : Site) : Bool :=
  match s.kind with
  | .write => s.excl.contains m
  | .read | .call _ => s.excl.contains m || s.shared.contains m
  | _ => false

/-- the discipline that all sites (after construction) of one field obey, if any -/
def classify (P : Policy) (obj field : String) (sites : List Site) : Verdict :=
  let ss := sites.filter (fun s => s.obj == obj && s.field == field && !s.ctor)
  if P.excluded.contains (obj, field) then .excluded
  else if ss.all (·.kind.isRead) then .immutable
  else if ss.all (·.kind == .atomic) then .atomic
  else match P.owned.find? (·.1 == (obj, field)) with
    | some (_, k, fns) => if ss.all (fun s => fns.contains s.fn && (s.kind.isRead || s.kind == .write)) then .owned k else .unprotected
    | none =>
      match ss with
      | [] => .immutable
      | s0 :: _ =>
        match (s0.excl ++ s0.shared).find? (fun m => ss.all (guardOK m)) with
        | some m => .guarded m
        | none => .unprotected

/-- every access site belongs to a listed field, and every listed field has a discipline -/
def tableOK (P : Policy) (fields : List (String × String)) (sites : List Site) : Bool :=
  sites.all (fun s => fields.contains (s.obj, s.field)) &&
  fields.all (fun of => classify P of.1 of.2 sites != .unprotected)

def unprotected (P : Policy) (fields : List (String × String)) (sites : List Site) : List (String × String) :=
  fields.filter (fun of => classify P of.1 of.2 sites == .unprotected)

/-! ### from sites to traces -/

/-- how the locations, locks and tokens of a trace relate to the source: which field a location is
    an instance of, and which lock / token of the *same object* a name denotes -/
structure World where
  fieldOf : Nat → String × String
  lockOf : Nat → String → Nat
  tokenOf : Nat → String → Nat

/-- the access event at position `i` is an execution of site `s` -/
def InstanceOf (W : World) (tr : Trace) (i : Nat) (e : Ev) (x : Nat) (w a : Bool) (s : Site) : Prop :=
  (s.obj, s.field) = W.fieldOf x ∧ e.init = s.ctor ∧
  (match s.kind with
   | .read | .call _ | .alias => w = false ∧ a = false
   | .write => w = true ∧ a = false
   | .atomic => a = true
   | .addr => False) ∧
  (∀ m, s.excl.contains m = true → Held tr e.tid (W.lockOf x m) false i) ∧
  (∀ m, s.shared.contains m = true → Held tr e.tid (W.lockOf x m) true i)

/-- the discipline of a location according to the table -/
def polOf (P : Policy) (sites : List Site) (W : World) (x : Nat) : Disc :=
  match classify P (W.fieldOf x).1 (W.fieldOf x).2 sites with
  | .atomic => .atomic
  | .guarded l => .guarded (W.lockOf x l)
  | .owned k => .owned (W.tokenOf x k)
  | _ => .immutable

end NettyVerif.Access
