/-! JSON values, Go's `encoding/json` encoder for them (compact, HTML-safe escaping) and a
    recursive-descent parser with Go's decoder semantics on text (whitespace, literals, number
    grammar, string escapes incl. surrogate pairs, first value only), at the level of Unicode
    scalar values (`Char`); UTF-8 is outside the model. The JSON codec's read side delivers the
    parsed value iff it is an object. Core Lean only. -/
namespace NettyVerif.Json

mutual
inductive JV where
  | null
  | bool (b : Bool)
  | num (lit : List Char)          -- the literal, kept exactly (json.Number)
  | str (s : List Char)
  | arr (l : JL)
  | obj (m : JM)
inductive JL where
  | nil
  | cons (v : JV) (t : JL)
inductive JM where
  | nil
  | cons (k : List Char) (v : JV) (t : JM)
end

/-! ### encoder (json.Marshal of map[string]interface{} / []interface{} / json.Number / string / bool / nil) -/

def hexDigit (n : Nat) : Char :=
  if n < 10 then Char.ofNat (48 + n) else Char.ofNat (87 + n)      -- 0-9, a-f

/-- appendString with escapeHTML = true -/
def escChar (c : Char) : List Char :=
  if c = '"' then ['\\', '"']
  else if c = '\\' then ['\\', '\\']
  else if c = '\n' then ['\\', 'n']
  else if c = '\r' then ['\\', 'r']
  else if c = '\t' then ['\\', 't']
  else if c = '\x08' then ['\\', 'b']
  else if c = '\x0c' then ['\\', 'f']
  else if c.toNat < 0x20 ∨ c = '<' ∨ c = '>' ∨ c = '&' then ['\\', 'u', '0', '0', hexDigit (c.toNat / 16), hexDigit (c.toNat % 16)]
  else if c = '\u2028' then ['\\', 'u', '2', '0', '2', '8']
  else if c = '\u2029' then ['\\', 'u', '2', '0', '2', '9']
  else [c]

def escStr (s : List Char) : List Char := s.flatMap escChar

def encStr (s : List Char) : List Char := '"' :: (escStr s ++ ['"'])

mutual
def enc : JV → List Char
  | .null => ['n', 'u', 'l', 'l']
  | .bool true => ['t', 'r', 'u', 'e']
  | .bool false => ['f', 'a', 'l', 's', 'e']
  | .num l => l
  | .str s => encStr s
  | .arr l => '[' :: encL l
  | .obj m => '{' :: encM m
/-- elements and the closing bracket -/
def encL : JL → List Char
  | .nil => [']']
  | .cons v .nil => enc v ++ [']']
  | .cons v t => enc v ++ ',' :: encL t
def encM : JM → List Char
  | .nil => ['}']
  | .cons k v .nil => encStr k ++ ':' :: (enc v ++ ['}'])
  | .cons k v t => encStr k ++ ':' :: (enc v ++ ',' :: encM t)
end

/-! ### number grammar -/

def isDigit (c : Char) : Bool := '0' ≤ c && c ≤ '9'
def isNumChar (c : Char) : Bool := isDigit c || c = '-' || c = '+' || c = '.' || c = 'e' || c = 'E'

def dropDigits : List Char → List Char
  | c :: r => if isDigit c then dropDigits r else c :: r
  | [] => []

def expPart : List Char → Bool
  | [] => true
  | e :: r =>
    (e = 'e' || e = 'E') &&
      (let r := match r with
        | '+' :: r' => r'
        | '-' :: r' => r'
        | r => r
       match r with
       | d :: r' => isDigit d && dropDigits r' = []
       | [] => false)

def fracExp : List Char → Bool
  | '.' :: d :: r => isDigit d && expPart (dropDigits r)
  | '.' :: [] => false
  | r => expPart r

/-- -?(0|[1-9][0-9]*)(\.[0-9]+)?([eE][+-]?[0-9]+)? -/
def grammarOK (l : List Char) : Bool :=
  let l := match l with
    | '-' :: r => r
    | l => l
  match l with
  | '0' :: r => fracExp r
  | c :: r => isDigit c && fracExp (dropDigits r)
  | [] => false

def isNumLit (l : List Char) : Bool := l.all isNumChar && grammarOK l

/-! ### parser -/

def isWs (c : Char) : Bool := c = ' ' || c = '\t' || c = '\r' || c = '\n'

def skipWs : List Char → List Char
  | c :: r => if isWs c then skipWs r else c :: r
  | [] => []

def hexVal (c : Char) : Option Nat :=
  if '0' ≤ c ∧ c ≤ '9' then some (c.toNat - 48)
  else if 'a' ≤ c ∧ c ≤ 'f' then some (c.toNat - 87)
  else if 'A' ≤ c ∧ c ≤ 'F' then some (c.toNat - 55)
  else none

def hex4 (a b c d : Char) : Option Nat := do
  let a ← hexVal a; let b ← hexVal b; let c ← hexVal c; let d ← hexVal d
  pure (((a * 16 + b) * 16 + c) * 16 + d)

def isSurrogate (n : Nat) : Bool := 0xD800 ≤ n && n < 0xE000
def replacement : Char := '\uFFFD'

/-- the string body after the opening quote, up to and including the closing quote; `acc` is
    reversed; every step consumes input, so fuel = length of the text suffices -/
def pStr : Nat → List Char → List Char → Option (List Char × List Char)
  | 0, _, _ => none
  | _, [], _ => none
  | f+1, c :: r, acc =>
    if c = '"' then some (acc.reverse, r)
    else if c = '\\' then
      match r with
      | 'u' :: a :: b :: c3 :: d :: r1 =>
        match hex4 a b c3 d with
        | none => none
        | some n =>
          if isSurrogate n then
            -- a high surrogate followed by an escaped low surrogate is one code point; anything else is U+FFFD
            match r1 with
            | '\\' :: 'u' :: a2 :: b2 :: c2 :: d2 :: r2 =>
              match hex4 a2 b2 c2 d2 with
              | none => none
              | some n2 =>
                if n < 0xDC00 ∧ 0xDC00 ≤ n2 ∧ n2 < 0xE000 then
                  pStr f r2 (Char.ofNat (0x10000 + (n - 0xD800) * 0x400 + (n2 - 0xDC00)) :: acc)
                else pStr f r1 (replacement :: acc)
            | _ => pStr f r1 (replacement :: acc)
          else pStr f r1 (Char.ofNat n :: acc)
      | e :: r1 =>
        if e = '"' then pStr f r1 ('"' :: acc)
        else if e = '\\' then pStr f r1 ('\\' :: acc)
        else if e = '/' then pStr f r1 ('/' :: acc)
        else if e = 'b' then pStr f r1 ('\x08' :: acc)
        else if e = 'f' then pStr f r1 ('\x0c' :: acc)
        else if e = 'n' then pStr f r1 ('\n' :: acc)
        else if e = 'r' then pStr f r1 ('\r' :: acc)
        else if e = 't' then pStr f r1 ('\t' :: acc)
        else none
      | [] => none
    else if c.toNat < 0x20 then none
    else pStr f r (c :: acc)

/-- a string literal's body with enough fuel -/
def pString (r : List Char) : Option (List Char × List Char) := pStr (r.length + 1) r []

mutual
/-- one value, leading whitespace skipped; returns the rest of the text -/
def pVal : Nat → List Char → Option (JV × List Char)
  | 0, _ => none
  | n+1, cs =>
    match skipWs cs with
    | [] => none
    | c :: r =>
      if c = 'n' then (match r with
        | 'u' :: 'l' :: 'l' :: r' => some (.null, r')
        | _ => none)
      else if c = 't' then (match r with
        | 'r' :: 'u' :: 'e' :: r' => some (.bool true, r')
        | _ => none)
      else if c = 'f' then (match r with
        | 'a' :: 'l' :: 's' :: 'e' :: r' => some (.bool false, r')
        | _ => none)
      else if c = '"' then (pString r).map (fun (s, r') => (.str s, r'))
      else if c = '[' then (match skipWs r with
        | ']' :: r' => some (.arr .nil, r')
        | _ => (pElems n r).map (fun (l, r') => (.arr l, r')))
      else if c = '{' then (match skipWs r with
        | '}' :: r' => some (.obj .nil, r')
        | _ => (pMembers n r).map (fun (m, r') => (.obj m, r')))
      else if isNumChar c then
        let lit := (c :: r).takeWhile isNumChar
        if isNumLit lit then some (.num lit, (c :: r).dropWhile isNumChar) else none
      else none
/-- one or more elements and the closing bracket -/
def pElems : Nat → List Char → Option (JL × List Char)
  | 0, _ => none
  | n+1, cs =>
    match pVal n cs with
    | none => none
    | some (v, r) =>
      match skipWs r with
      | [] => none
      | d :: r' =>
        if d = ',' then (pElems n r').map (fun (t, r'') => (.cons v t, r''))
        else if d = ']' then some (.cons v .nil, r')
        else none
/-- one or more members and the closing brace -/
def pMembers : Nat → List Char → Option (JM × List Char)
  | 0, _ => none
  | n+1, cs =>
    match skipWs cs with
    | [] => none
    | q :: r =>
      if q = '"' then
        match pString r with
        | none => none
        | some (k, r1) =>
          match skipWs r1 with
          | [] => none
          | col :: r2 =>
            if col = ':' then
              match pVal n r2 with
              | none => none
              | some (v, r3) =>
                match skipWs r3 with
                | [] => none
                | d :: r4 =>
                  if d = ',' then (pMembers n r4).map (fun (t, r5) => (.cons k v t, r5))
                  else if d = '}' then some (.cons k v .nil, r4)
                  else none
            else none
      else none
end

/-- parse the first value of a text (fuel = length + 1 always suffices: every call consumes input) -/
def parse (cs : List Char) : Option (JV × List Char) := pVal (cs.length + 1) cs

/-! ### the JSON codec's read side -/

inductive Outcome where
  | deliver (v : JV)        -- ctx.HandleRead(object)
  | deliverNil              -- the pinned codec: a nil map
  | raise

/-- json.NewDecoder(frame).Decode(&map): the first value must be an object. `null` leaves a nil map:
    the repaired codec raises, the pinned one delivers it -/
def decodeFrame (pinned : Bool) (frame : List Char) : Outcome :=
  match parse frame with
  | some (.obj m, _) => .deliver (.obj m)
  | some (.null, _) => if pinned then .deliverNil else .raise
  | _ => .raise

-- values whose numbers are JSON number literals
mutual
def JV.wf : JV → Bool
  | .num l => isNumLit l
  | .arr l => l.wf
  | .obj m => m.wf
  | _ => true
def JL.wf : JL → Bool
  | .nil => true
  | .cons v t => v.wf && t.wf
def JM.wf : JM → Bool
  | .nil => true
  | .cons _ v t => v.wf && t.wf
end

-- fuel that certainly suffices to parse the encoding of a value
mutual
def JV.sz : JV → Nat
  | .arr l => l.sz + 1
  | .obj m => m.sz + 1
  | _ => 1
def JL.sz : JL → Nat
  | .nil => 1
  | .cons v t => max v.sz t.sz + 1
def JM.sz : JM → Nat
  | .nil => 1
  | .cons _ v t => max v.sz t.sz + 1
end

end NettyVerif.Json
