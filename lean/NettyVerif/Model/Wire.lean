/-! Messages written to one channel by concurrent goroutines (C09). A message reaches the head of
    the pipeline as a carrier that the head handler turns into one or several low-level writes
    (`chunks`): one for []byte, [][]byte (one Writev) and *bytes.Buffer, one per Write call of an
    io.WriterTo, one per 1024-byte read of an io.Reader. A low-level write is atomic (sync channel:
    the write lock; async channel: one queue slot, and the queue is FIFO — C02). The repaired head
    handler holds the channel's message lock from its first to its last low-level write;
    `useLock = false` is the pinned code. Core Lean only. -/
namespace NettyVerif.Wire

structure Msg (α : Type) where
  id : Nat
  chunks : List (List α)
  deriving Repr, DecidableEq

def Msg.bytes {α : Type} (m : Msg α) : List α := m.chunks.flatten

structure St (α : Type) where
  useLock : Bool := true
  holder : Option Nat := none                       -- goroutine holding the message lock
  cur : List (Nat × Msg α × List (List α)) := []     -- goroutines inside the head handler: message and the chunks still to write
  wire : List (Nat × List α) := []                  -- low-level writes in order: (message id, chunk)
  order : List (Msg α) := []                        -- ghost: messages in the order their head writes began
  deriving Repr

inductive Act (α : Type) where
  | start (t : Nat) (m : Msg α)      -- head handler entered: take the message lock
  | chunk (t : Nat)                  -- next low-level write
  | finish (t : Nat)                 -- all chunks written: release the lock, return
  deriving Repr

variable {α : Type}

def step (s : St α) : Act α → Option (St α)
  | .start t m =>
    if s.cur.any (·.1 == t) then none                                  -- one call per goroutine at a time
    else if s.useLock && s.holder.isSome then none                     -- blocked on the message lock
    else some { s with holder := if s.useLock then some t else s.holder, cur := s.cur ++ [(t, m, m.chunks)], order := s.order ++ [m] }
  | .chunk t =>
    match s.cur.find? (·.1 == t) with
    | some (_, m, c :: rest) =>
      some { s with wire := s.wire ++ [(m.id, c)], cur := s.cur.map (fun e => if e.1 == t then (t, m, rest) else e) }
    | _ => none
  | .finish t =>
    match s.cur.find? (·.1 == t) with
    | some (_, _, []) => some { s with cur := s.cur.filter (·.1 != t), holder := if s.useLock then none else s.holder }
    | _ => none

def run (s : St α) : List (Act α) → Option (St α)
  | [] => some s
  | a :: as => (step s a).bind (run · as)

/-- the low-level writes of a list of messages written one after the other -/
def tagged (ms : List (Msg α)) : List (Nat × List α) := ms.flatMap (fun m => m.chunks.map (fun c => (m.id, c)))

def wireBytes (w : List (Nat × List α)) : List α := (w.map (·.2)).flatten

end NettyVerif.Wire
