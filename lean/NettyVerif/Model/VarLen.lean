/-! `VariableLengthCodec(max)` (codec/frame/variable_length.go): no framing at all — every transport
    read of at most `max` bytes is delivered as one message. Source = the list of fragments the
    transport's Read calls return (non-empty), followed by an error. Core Lean only. -/
namespace NettyVerif.VarLen

abbrev Bytes := List UInt8

inductive Out where
  | msg (m : Bytes) (rest : List Bytes)
  | raise
  deriving DecidableEq, Repr

/-- one HandleRead: a single Read into a buffer of `max` bytes -/
def step (max : Nat) : List Bytes → Out
  | [] => .raise                                   -- the source is exhausted: Read returns the final error
  | c :: cs => if c.length ≤ max then .msg c cs else .msg (c.take max) (c.drop max :: cs)

/-- the read loop: messages delivered until the error -/
def run (max : Nat) : Nat → List Bytes → List Bytes
  | 0, _ => []
  | fuel+1, cs =>
    match step max cs with
    | .raise => []
    | .msg m rest => m :: run max fuel rest

def total (cs : List Bytes) : Nat := (cs.map List.length).foldl (· + ·) 0

end NettyVerif.VarLen
