import NettyVerif.Model.Frame
/-!
Term language of the extracted integer skeleton of the frame codecs (T3, `nvextract guards`) and
its meaning: Go `int` / `int64` arithmetic (two's complement, 64 bit), booleans as 0 / 1.
-/
namespace NettyVerif.Guards
open NettyVerif.Frame (wrap64)

inductive GE where
  | var (n : String)
  | lit (v : Int)
  | len (s : String)
  | opaque (s : String)
  | conv (ty : String) (a : GE)
  | un (op : String) (a : GE)
  | bin (op : String) (a b : GE)
  deriving Repr, DecidableEq

inductive GS where
  /-- `x = e`, `x += e`, `x -= e` under guard `g` -/
  | assign (g : GE) (x : String) (op : String) (e : GE)
  /-- `utils.AssertIf(c, …)` under guard `g`: raise when `c` holds -/
  | assert (g : GE) (c : GE)
  /-- `utils.Assert(err)` under guard `g`: raise when the named error is set -/
  | check (g : GE) (x : String)
  /-- any other statement, kept as source text so that a change is noticed -/
  | other (g : GE) (src : String)
  deriving Repr, DecidableEq

/-- values of identifiers / receiver fields, of `len(..)` terms and of opaque terms -/
structure Env where
  var : String → Int
  len : String → Int
  opq : String → Int

def b2i (b : Bool) : Int := if b then 1 else 0

def convTo (ty : String) (v : Int) : Int :=
  if ty = "int" ∨ ty = "int64" then wrap64 v
  else if ty = "uint64" ∨ ty = "uint" then v % (2^64 : Int)
  else if ty = "uint32" then v % (2^32 : Int)
  else if ty = "uint16" then v % (2^16 : Int)
  else if ty = "uint8" ∨ ty = "byte" then v % (2^8 : Int)
  else v

def binOp (op : String) (a b : Int) : Int :=
  if op = "+" then wrap64 (a + b)
  else if op = "-" then wrap64 (a - b)
  else if op = "*" then wrap64 (a * b)
  else if op = "<" then b2i (a < b)
  else if op = ">" then b2i (a > b)
  else if op = "<=" then b2i (a ≤ b)
  else if op = ">=" then b2i (a ≥ b)
  else if op = "==" then b2i (a = b)
  else if op = "!=" then b2i (a ≠ b)
  else if op = "&&" then b2i (a ≠ 0 ∧ b ≠ 0)
  else if op = "||" then b2i (a ≠ 0 ∨ b ≠ 0)
  else 0

def GE.eval (env : Env) : GE → Int
  | .var n => env.var n
  | .lit v => v
  | .len s => env.len s
  | .opaque s => env.opq s
  | .conv ty a => convTo ty (a.eval env)
  | .un op a => if op = "!" then b2i (a.eval env = 0) else wrap64 (- a.eval env)
  | .bin op a b => binOp op (a.eval env) (b.eval env)

def Env.set (env : Env) (x : String) (v : Int) : Env :=
  { env with var := fun y => if y = x then v else env.var y }

/-- one statement; `none` = the codec raises -/
def GS.step (env : Env) : GS → Option Env
  | .assign g x op e =>
    if g.eval env = 0 then some env else
    let v := e.eval env
    some (env.set x (if op = "+=" then wrap64 (env.var x + v) else if op = "-=" then wrap64 (env.var x - v) else v))
  | .assert g c => if g.eval env ≠ 0 ∧ c.eval env ≠ 0 then none else some env
  | .check g x => if g.eval env ≠ 0 ∧ env.opq x ≠ 0 then none else some env
  | .other _ _ => some env

def run : List GS → Env → Option Env
  | [], env => some env
  | s :: ss, env => match s.step env with
    | none => none
    | some env' => run ss env'

end NettyVerif.Guards
