/-! Channel lifecycle as seen from outside (C05, read-loop half): serveChannel's hand-off barrier,
    the read loop and Close, as a transition system whose actions are the *observable* events of
    one served channel. A guard says when the code can produce the event:

      activeBegin   the read-loop goroutine fires the active event            (once, first thing)
      activeEnd     … it returned; `done()` releases serveChannel's barrier
      activePanic   … or a handler panicked: the barrier is released all the same and the panic is owed to the exception handlers
      exception     the exception handlers receive what a panicking active / read handler threw (dropped if the channel is closed by then)
      handOut       serveChannel returns: Connect / the accept loop hands the channel out   (waits for the barrier)
      readBegin     the loop found its context live and fires a read            (one at a time, after active)
      readEnd ok    … the read handlers returned (ok) or panicked (failed transport read, handler error)
      closeWin e    some Close call wins the `closed` CAS with error e          (once)
      closeTr       the winner closes the transport;  closeCancel: cancels the channel context;
      inactive e    the winner fires the inactive event carrying ITS error
      closeRet w    a Close call returns (w = it was the winner); losers return at once
      loopExit      the read loop sees its context done and leaves (its deferred Close follows as a closeWin or a losing closeRet)

    Core Lean only. -/
namespace NettyVerif.Life

structure St where
  activeBegun : Nat := 0
  activeEnded : Bool := false
  handedOut : Bool := false
  inRead : Bool := false
  readsBegun : Nat := 0
  readsEnded : Nat := 0
  winner : Option Nat := none          -- error code of the Close call that took effect
  trCloses : Nat := 0
  ctxDone : Bool := false
  inactives : List Nat := []           -- errors carried by delivered inactive events
  winnerReturned : Bool := false
  loopExited : Bool := false
  pendingExc : Bool := false           -- a handler panicked and the exception has not been routed yet
  deriving Repr, DecidableEq

inductive Ev where
  | activeBegin | activeEnd | activePanic | exception | handOut
  | readBegin | readEnd (ok : Bool)
  | closeWin (e : Nat) | closeTr | closeCancel | inactive (e : Nat) | closeRet (winner : Bool)
  | loopExit
  deriving Repr, DecidableEq

def step (s : St) : Ev → Option St
  | .activeBegin => if s.activeBegun = 0 ∧ !s.loopExited then some { s with activeBegun := 1 } else none
  | .activeEnd => if s.activeBegun = 1 ∧ !s.activeEnded then some { s with activeEnded := true } else none
  | .activePanic => if s.activeBegun = 1 ∧ !s.activeEnded then some { s with activeEnded := true, pendingExc := true } else none
  | .exception => if s.pendingExc then some { s with pendingExc := false } else none
  | .handOut => if s.activeEnded ∧ !s.handedOut then some { s with handedOut := true } else none
  | .readBegin =>
    if s.activeEnded ∧ !s.inRead ∧ !s.loopExited ∧ (!s.pendingExc ∨ s.winner.isSome) then
      some { s with inRead := true, readsBegun := s.readsBegun + 1, pendingExc := false } else none
  | .readEnd ok => if s.inRead then some { s with inRead := false, readsEnded := s.readsEnded + 1, pendingExc := !ok } else none
  | .closeWin e => if s.winner.isNone then some { s with winner := some e } else none
  | .closeTr => if s.winner.isSome ∧ s.trCloses = 0 ∧ !s.winnerReturned then some { s with trCloses := 1 } else none
  | .closeCancel => if s.trCloses = 1 ∧ !s.ctxDone ∧ !s.winnerReturned then some { s with ctxDone := true } else none
  | .inactive e =>
    if s.ctxDone ∧ s.inactives = [] ∧ s.winner = some e ∧ !s.winnerReturned then some { s with inactives := [e] } else none
  | .closeRet w =>
    if w then (if s.inactives ≠ [] ∧ !s.winnerReturned then some { s with winnerReturned := true } else none)
    else (if s.winner.isSome then some s else none)
  | .loopExit => if s.ctxDone ∧ !s.inRead ∧ s.activeEnded ∧ !s.loopExited then some { s with loopExited := true } else none

def run (s : St) : List Ev → Option St
  | [] => some s
  | e :: es => (step s e).bind (run · es)

/-- what is true of every state the acceptor can reach -/
structure Inv (s : St) : Prop where
  activeOnce : s.activeBegun ≤ 1
  endedBegun : s.activeEnded = true → s.activeBegun = 1
  handAfterActive : s.handedOut = true → s.activeEnded = true
  readAfterActive : s.readsBegun > 0 → s.activeEnded = true
  oneAtATime : s.readsBegun = s.readsEnded + (if s.inRead then 1 else 0)
  trOnce : s.trCloses ≤ 1
  trNeedsWinner : s.trCloses = 1 → s.winner.isSome = true
  ctxNeedsTr : s.ctxDone = true → s.trCloses = 1
  inactiveOnce : s.inactives.length ≤ 1
  inactiveWinner : ∀ e, e ∈ s.inactives → s.winner = some e ∧ s.ctxDone = true
  inactiveCtx : s.inactives ≠ [] → s.ctxDone = true ∧ s.trCloses = 1
  retDone : s.winnerReturned = true → s.inactives ≠ [] ∧ s.ctxDone = true ∧ s.trCloses = 1
  exitNeedsCtx : s.loopExited = true → s.ctxDone = true ∧ s.inRead = false

end NettyVerif.Life
