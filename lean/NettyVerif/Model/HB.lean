/-! Traces of memory and synchronisation events, happens-before, and protection disciplines
    (the meta-level of C12). Core Lean only.

    A trace is the list of events of one execution in the order of a sequentially consistent
    interleaving (Go's memory model is DRF-SC: if no SC execution has a race, the program has
    none). Locations, locks, tokens and goroutines are numbered. -/
namespace NettyVerif.HB

inductive Op where
  | rd (x : Nat) | wr (x : Nat)            -- plain read / write of location x
  | ard (x : Nat) | awr (x : Nat)          -- sync/atomic read / write (Load, Store, CompareAndSwap, atomic.Value)
  | acq (l : Nat) | rel (l : Nat)          -- Mutex.Lock / Unlock, RWMutex.Lock / Unlock
  | racq (l : Nat) | rrel (l : Nat)        -- RWMutex.RLock / RUnlock
  | tacq (k : Nat) (owner : Nat)           -- ownership token k taken for goroutine `owner`: a CAS idle→running, won either by
                                           -- the owner itself or by a goroutine that starts `owner` with it (Exec right after the CAS)
  | trel (k : Nat)                         -- the owner gives the token back (Store idle)
  | fork (child : Nat)                     -- go statement / Executor.Exec
  | other
  deriving DecidableEq, Repr

structure Ev where
  tid : Nat
  op : Op
  init : Bool := false                     -- the access belongs to the construction of the object (before it is published)
  deriving DecidableEq, Repr

abbrev Trace := List Ev

def acqOp (shared : Bool) (l : Nat) : Op := if shared then .racq l else .acq l
def relOp (shared : Bool) (l : Nat) : Op := if shared then .rrel l else .rel l

/-- direct happens-before edges between an earlier and a later event (Go memory model:
    program order; Unlock → later Lock, RUnlock → later Lock, Unlock → later RLock; the Store that
    frees a token → the CAS that takes it; go statement → the started goroutine) -/
def Edge (ei ej : Ev) : Prop :=
  ei.tid = ej.tid ∨
  (∃ l s1 s2, ei.op = relOp s1 l ∧ ej.op = acqOp s2 l ∧ ¬(s1 = true ∧ s2 = true)) ∨
  (∃ k o, ei.op = .trel k ∧ ej.op = .tacq k o) ∨
  (∃ c, ei.op = .fork c ∧ ej.tid = c) ∨
  (∃ k, ei.op = .tacq k ej.tid)

inductive HB (tr : Trace) : Nat → Nat → Prop where
  | step {i j ei ej} : i < j → tr[i]? = some ei → tr[j]? = some ej → Edge ei ej → HB tr i j
  | trans {i j k} : HB tr i j → HB tr j k → HB tr i k

/-- (location, is a write, is atomic) of an access event -/
def Op.access : Op → Option (Nat × Bool × Bool)
  | .rd x => some (x, false, false)
  | .wr x => some (x, true, false)
  | .ard x => some (x, false, true)
  | .awr x => some (x, true, true)
  | _ => none

/-- thread `t` holds lock `l` (shared or exclusive) at position `i` -/
def Held (tr : Trace) (t l : Nat) (shared : Bool) (i : Nat) : Prop :=
  ∃ (a : Nat) (e : Ev), a < i ∧ tr[a]? = some e ∧ e.tid = t ∧ e.op = acqOp shared l ∧
    ∀ (r : Nat) (e' : Ev), a < r → r < i → tr[r]? = some e' → ¬(e'.tid = t ∧ e'.op = relOp shared l)

/-- thread `t` owns token `k` at position `i` -/
def Owns (tr : Trace) (t k : Nat) (i : Nat) : Prop :=
  ∃ (a : Nat) (e : Ev), a < i ∧ tr[a]? = some e ∧ e.op = .tacq k t ∧
    ∀ (r : Nat) (e' : Ev), a < r → r < i → tr[r]? = some e' → ¬(e'.tid = t ∧ e'.op = .trel k)

/-- the semantics of the synchronisation objects, as conditions every real trace meets:
    mutual exclusion of locks (two holders only if both are readers) and of tokens -/
structure WF (tr : Trace) : Prop where
  lock : ∀ (a j : Nat) (ea ej : Ev) (l : Nat) (s1 s2 : Bool), a < j → tr[a]? = some ea → tr[j]? = some ej →
    ea.op = acqOp s1 l → ej.op = acqOp s2 l → ¬(s1 = true ∧ s2 = true) →
    ∃ (r : Nat) (er : Ev), a < r ∧ r < j ∧ tr[r]? = some er ∧ er.tid = ea.tid ∧ er.op = relOp s1 l
  token : ∀ (a j : Nat) (ea ej : Ev) (k o1 o2 : Nat), a < j → tr[a]? = some ea → tr[j]? = some ej →
    ea.op = .tacq k o1 → ej.op = .tacq k o2 →
    ∃ (r : Nat) (er : Ev), a < r ∧ r < j ∧ tr[r]? = some er ∧ er.tid = o1 ∧ er.op = .trel k

/-- how a shared location is protected -/
inductive Disc where
  | immutable              -- written only while the object is constructed
  | atomic                 -- only sync/atomic accesses after construction
  | guarded (l : Nat)      -- writes under the exclusive lock l, reads under l shared or exclusive
  | owned (k : Nat)        -- accessed only by the current owner of token k
  deriving DecidableEq, Repr

/-- every access after construction to a location in `S` obeys the discipline of its location -/
def Conforms (tr : Trace) (pol : Nat → Disc) (S : Nat → Prop) : Prop :=
  ∀ (i : Nat) (e : Ev) (x : Nat) (w a : Bool), S x → tr[i]? = some e → e.init = false → e.op.access = some (x, w, a) →
    match pol x with
    | .immutable => w = false ∧ a = false
    | .atomic => a = true
    | .guarded l => a = false ∧ (Held tr e.tid l false i ∨ (w = false ∧ Held tr e.tid l true i))
    | .owned k => a = false ∧ Owns tr e.tid k i

/-- safe publication (assumed of the code that creates the objects, not verified): construction
    is single-threaded and happens-before every later access -/
structure InitFirst (tr : Trace) : Prop where
  before : ∀ (i j : Nat) (ei ej : Ev) (x : Nat) (wi ai wj aj : Bool), tr[i]? = some ei → tr[j]? = some ej →
    ei.op.access = some (x, wi, ai) → ej.op.access = some (x, wj, aj) → ei.init = true → ej.init = false →
    i < j ∧ HB tr i j
  single : ∀ (i j : Nat) (ei ej : Ev) (x : Nat) (wi ai wj aj : Bool), tr[i]? = some ei → tr[j]? = some ej →
    ei.op.access = some (x, wi, ai) → ej.op.access = some (x, wj, aj) → ei.init = true → ej.init = true → ei.tid = ej.tid

/-- a data race on location `x`: two accesses by different goroutines, at least one a write, not
    both atomic, unordered by happens-before -/
def RaceOn (tr : Trace) (x i j : Nat) : Prop :=
  i < j ∧ ∃ (ei ej : Ev) (wi ai wj aj : Bool), tr[i]? = some ei ∧ tr[j]? = some ej ∧
    ei.op.access = some (x, wi, ai) ∧ ej.op.access = some (x, wj, aj) ∧
    ei.tid ≠ ej.tid ∧ (wi = true ∨ wj = true) ∧ ¬(ai = true ∧ aj = true) ∧ ¬ HB tr i j

end NettyVerif.HB
