/-! Executable model of pipeline.go / context.go at pointer level, and the abstract
    handler-list specification it is proved to refine (Props/C03.lean). Core Lean only.

    Concrete: a heap of handler contexts addressed by `Nat` (0 = head, 1 = tail, fresh addresses
    from 2), with `next`/`prev` as separately updated partial functions, a `size` counter, and the
    operations written statement by statement as the Go code is.  Handlers are instances
    (`Nat` ids) with the set of handler interfaces they implement and, per event kind, whether
    they forward the event. -/
namespace NettyVerif.Pipeline


/-- event kinds; `write` is the outbound one -/
inductive Kind where
  | active | read | write | exception | inactive | event
  deriving DecidableEq, Repr, Inhabited

def Kind.idx : Kind → Nat
  | .active => 0 | .read => 1 | .write => 2 | .exception => 3 | .inactive => 4 | .event => 5

def Kind.ofNat? : Nat → Option Kind
  | 0 => some .active | 1 => some .read | 2 => some .write
  | 3 => some .exception | 4 => some .inactive | 5 => some .event | _ => none

/-- a handler instance: which of the six interfaces it implements and which events it forwards -/
structure Handler where
  id : Nat
  impl : Nat      -- bit mask over Kind.idx
  fwd : Nat       -- bit mask: forwards the event to the next/prev context
  deriving DecidableEq, Repr, Inhabited

def Handler.implements (h : Handler) (k : Kind) : Bool := h.impl.testBit k.idx
def Handler.forwards (h : Handler) (k : Kind) : Bool := h.fwd.testBit k.idx

/-- headHandler implements only HandleWrite, tailHandler only HandleException; neither forwards -/
def headH : Handler := { id := 0, impl := 4, fwd := 0 }
def tailH : Handler := { id := 1, impl := 8, fwd := 0 }

def upd {α : Type} (f : Nat → α) (a : Nat) (v : α) : Nat → α := fun x => if x = a then v else f x

structure Pipe where
  next : Nat → Option Nat
  prev : Nat → Option Nat
  hdl : Nat → Handler
  fresh : Nat
  size : Nat

def headA : Nat := 0
def tailA : Nat := 1

/-- NewPipeline: pipeline.go:64-77 -/
def newPipe : Pipe :=
  { next := upd (fun _ => none) headA (some tailA)
    prev := upd (fun _ => none) tailA (some headA)
    hdl := upd (fun _ => headH) tailA tailH
    fresh := 2
    size := 2 }

/-- newHandlerContext(p, h, prev, next) allocating a fresh address -/
def alloc (p : Pipe) (h : Handler) (pr nx : Option Nat) : Pipe × Nat :=
  ({ p with next := upd p.next p.fresh nx, prev := upd p.prev p.fresh pr, hdl := upd p.hdl p.fresh h,
            fresh := p.fresh + 1 }, p.fresh)

/-- pipeline.addFirst: pipeline.go:193-199.  `none` = nil dereference (unreachable when well formed) -/
def addFirst1 (p : Pipe) (h : Handler) : Option Pipe :=
  match p.next headA with
  | none => none
  | some oldNext =>
    let (p, n) := alloc p h (some headA) (some oldNext)
    some { p with next := upd p.next headA (some n), prev := upd p.prev oldNext (some n), size := p.size + 1 }

/-- pipeline.addLast: pipeline.go:202-208 -/
def addLast1 (p : Pipe) (h : Handler) : Option Pipe :=
  match p.prev tailA with
  | none => none
  | some oldPrev =>
    let (p, n) := alloc p h (some oldPrev) (some tailA)
    some { p with prev := upd p.prev tailA (some n), next := upd p.next oldPrev (some n), size := p.size + 1 }

def foldOpt {α β : Type} (f : α → β → Option α) : α → List β → Option α
  | a, [] => some a
  | a, b :: bs => (f a b).bind (foldOpt f · bs)

/-- checkHandler: every handler must implement at least one interface -/
def admissible (hs : List Handler) : Bool := hs.all (fun h => h.impl % 64 != 0)

inductive Res (α : Type) where
  | ok (v : α) | panic | nilDeref
  deriving Repr

def addFirst (p : Pipe) (hs : List Handler) : Res Pipe :=
  if !admissible hs then .panic else
  match foldOpt addFirst1 p hs with | some p => .ok p | none => .nilDeref

def addLast (p : Pipe) (hs : List Handler) : Res Pipe :=
  if !admissible hs then .panic else
  match foldOpt addLast1 p hs with | some p => .ok p | none => .nilDeref

/-- `for i := 0; i < position; i++ { cur = cur.next }` -/
def walkNext (p : Pipe) : Nat → Nat → Option Nat
  | 0, a => some a
  | n+1, a => (p.next a).bind (walkNext p n)

/-- one iteration of AddHandler's insertion loop: pipeline.go:127-134 -/
def insertAfter (st : Pipe × Nat) (h : Handler) : Option (Pipe × Nat) :=
  let (p, cur) := st
  match p.next cur with
  | none => none
  | some oldNext =>
    let (p, n) := alloc p h (some cur) (some oldNext)
    some ({ p with next := upd p.next cur (some n), prev := upd p.prev oldNext (some n), size := p.size + 1 }, n)

/-- pipeline.AddHandler: pipeline.go:109-137 -/
def addHandler (p : Pipe) (pos : Int) (hs : List Handler) : Res Pipe :=
  if !admissible hs then .panic
  else if pos ≥ (p.size : Int) then .panic
  else if pos = -1 ∨ pos = (p.size : Int) - 1 then addLast p hs
  else
    match walkNext p pos.toNat headA with     -- negative positions below -1: the loop does not run
    | none => .nilDeref
    | some cur =>
      match foldOpt insertAfter (p, cur) hs with
      | some (p, _) => .ok p
      | none => .nilDeref

/-- forward chain from `a` (fuel-bounded pointer walk) -/
def chainNext (p : Pipe) : Nat → Option Nat → List Nat
  | 0, _ => []
  | _, none => []
  | n+1, some a => a :: chainNext p n (p.next a)

def chainPrev (p : Pipe) : Nat → Option Nat → List Nat
  | 0, _ => []
  | _, none => []
  | n+1, some a => a :: chainPrev p n (p.prev a)

/-- IndexOf: pipeline.go:140-154 (walk from head following next) -/
def indexOfFrom (p : Pipe) (pred : Handler → Bool) : Nat → Nat → Nat → Int
  | 0, _, _ => -1
  | fuel+1, a, i =>
    if pred (p.hdl a) then (i : Int)
    else match p.next a with
      | none => -1
      | some b => indexOfFrom p pred fuel b (i+1)

def indexOf (p : Pipe) (pred : Handler → Bool) : Int := indexOfFrom p pred (p.fresh + 1) headA 0

/-- LastIndexOf: pipeline.go:157-171 (walk from tail following prev, counting down from size-1) -/
def lastIndexOfFrom (p : Pipe) (pred : Handler → Bool) : Nat → Nat → Int → Int
  | 0, _, _ => -1
  | fuel+1, a, i =>
    if pred (p.hdl a) then i
    else match p.prev a with
      | none => -1
      | some b => lastIndexOfFrom p pred fuel b (i-1)

def lastIndexOf (p : Pipe) (pred : Handler → Bool) : Int :=
  lastIndexOfFrom p pred (p.fresh + 1) tailA ((p.size : Int) - 1)

/-- ContextAt: pipeline.go:174-186; `ok none` = nil result -/
def contextAt (p : Pipe) (pos : Int) : Res (Option Nat) :=
  if pos = -1 ∨ pos ≥ (p.size : Int) then .ok none
  else match walkNext p pos.toNat headA with
    | some a => .ok (some a)
    | none => .nilDeref

/-! ### Event routing (context.go) -/

/-- the per-interface forwarding loop: from `a`, move along `dir` until a context whose handler
    implements the interface is found -/
def findImpl (p : Pipe) (dir : Pipe → Nat → Option Nat) (k : Kind) : Nat → Nat → Option Nat
  | 0, _ => none
  | fuel+1, a =>
    match dir p a with
    | none => none
    | some b => if (p.hdl b).implements k then some b else findImpl p dir k fuel b

def dirOf (k : Kind) : Pipe → Nat → Option Nat :=
  fun p a => if k = .write then p.prev a else p.next a

/-- how a delivery ends -/
inductive Final where
  | stopped          -- a handler did not forward
  | dropped          -- fell off the end of the list without effect
  | chanWrite        -- headHandler.HandleWrite: the message is written to the channel
  | close            -- tailHandler.HandleException: the channel is closed
  deriving DecidableEq, Repr

/-- deliver an event starting *after* context `a` (ctx.HandleX(...) / ctx.Write / ctx.Trigger):
    the list of contexts whose handler is invoked, in order, and how it ends -/
def deliver (p : Pipe) (k : Kind) : Nat → Nat → List Nat × Final
  | 0, _ => ([], .dropped)
  | fuel+1, a =>
    match findImpl p (dirOf k) k (p.fresh + 1) a with
    | none => ([], .dropped)
    | some b =>
      if b = headA then ([b], .chanWrite)
      else if b = tailA then ([b], .close)
      else if (p.hdl b).forwards k then
        let (v, f) := deliver p k fuel b
        (b :: v, f)
      else ([b], .stopped)

/-- pipeline.Fire*: inbound events start at the head, writes at the tail -/
def fire (p : Pipe) (k : Kind) : List Nat × Final :=
  deliver p k (p.fresh + 1) (if k = .write then tailA else headA)

/-! ### Abstract specification: the handler list between head and tail -/

abbrev Spec := List Handler

def Spec.addFirst (s : Spec) (hs : List Handler) : Option Spec :=
  if admissible hs then some (hs.reverse ++ s) else none

def Spec.addLast (s : Spec) (hs : List Handler) : Option Spec :=
  if admissible hs then some (s ++ hs) else none

def Spec.addHandler (s : Spec) (pos : Int) (hs : List Handler) : Option Spec :=
  if !admissible hs then none
  else if pos ≥ (s.length : Int) + 2 then none
  else if pos = -1 ∨ pos = (s.length : Int) + 1 then some (s ++ hs)
  else some (s.take pos.toNat ++ hs ++ s.drop pos.toNat)

/-- the full context list including head and tail -/
def Spec.all (s : Spec) : List Handler := headH :: s ++ [tailH]

def Spec.indexOf (s : Spec) (pred : Handler → Bool) : Int :=
  match s.all.findIdx? pred with | some i => i | none => -1

def Spec.lastIndexOf (s : Spec) (pred : Handler → Bool) : Int :=
  match s.all.reverse.findIdx? pred with
  | some i => (s.all.length : Int) - 1 - i
  | none => -1

/-- spec-level routing over the handler list: positions (in `all`) of the handlers invoked when an
    event of kind `k` travels towards the tail, the scanned handlers starting at position `i` -/
def Spec.deliverUp (k : Kind) (last : Nat) : Nat → List Handler → List Nat × Final
  | _, [] => ([], .dropped)
  | i, h :: rest =>
    if h.implements k then
      if i = 0 then ([i], .chanWrite)
      else if i = last then ([i], .close)
      else if h.forwards k then (i :: (Spec.deliverUp k last (i+1) rest).1, (Spec.deliverUp k last (i+1) rest).2)
      else ([i], .stopped)
    else Spec.deliverUp k last (i+1) rest

/-- the same towards the head: the scanned handlers are at positions `n-1, n-2, …, 0` -/
def Spec.deliverDown (k : Kind) (last : Nat) : Nat → List Handler → List Nat × Final
  | _, [] => ([], .dropped)
  | n, h :: rest =>
    if h.implements k then
      if n - 1 = 0 then ([n - 1], .chanWrite)
      else if n - 1 = last then ([n - 1], .close)
      else if h.forwards k then ((n - 1) :: (Spec.deliverDown k last (n-1) rest).1, (Spec.deliverDown k last (n-1) rest).2)
      else ([n - 1], .stopped)
    else Spec.deliverDown k last (n-1) rest

/-- deliver an event of kind `k` starting from (after, in travel direction) position `i` of `all`:
    inbound kinds visit positions > i in increasing order, writes positions < i in decreasing order -/
def Spec.deliver (s : Spec) (k : Kind) (i : Nat) : List Nat × Final :=
  if k = .write then Spec.deliverDown k (s.length + 1) i ((s.all.take i).reverse)
  else Spec.deliverUp k (s.length + 1) (i+1) (s.all.drop (i+1))

end NettyVerif.Pipeline

namespace NettyVerif.Pipeline

/-- pipeline-building programs -/
inductive BuildOp where
  | addFirst (hs : List Handler)
  | addLast (hs : List Handler)
  | addHandler (pos : Int) (hs : List Handler)
  deriving Repr

def applyC (p : Pipe) : BuildOp → Res Pipe
  | .addFirst hs => addFirst p hs
  | .addLast hs => addLast p hs
  | .addHandler pos hs => addHandler p pos hs

def applyS (s : Spec) : BuildOp → Option Spec
  | .addFirst hs => s.addFirst hs
  | .addLast hs => s.addLast hs
  | .addHandler pos hs => s.addHandler pos hs

/-- a panicking operation (inadmissible handler, illegal position) leaves the pipeline unchanged -/
def runC (p : Pipe) : List BuildOp → Pipe
  | [] => p
  | o :: os => match applyC p o with
    | .ok p' => runC p' os
    | _ => runC p os

def runS (s : Spec) : List BuildOp → Spec
  | [] => s
  | o :: os => match applyS s o with
    | some s' => runS s' os
    | none => runS s os

end NettyVerif.Pipeline
