/-! Buffer ownership on the queued write path (C10): byte buffers live in a heap; a write call copies
    the caller's bytes into a buffer obtained from the pool (copy-on-enqueue) and the channel owns
    that buffer — in the queue, then in the sender's batch — until the sender has handed it to the
    transport and returns it to the pool. Callers and other pool users write only to buffers they
    own (a caller its own buffer, a pool user what the pool handed to it — exclusively, C19).
    `clone = false` / `earlyPut = true` are the two ways to get it wrong. Core Lean only. -/
namespace NettyVerif.Heap

abbrev Bytes := List UInt8

inductive Owner where
  | caller (c : Nat)      -- application code: the buffer passed to a write call
  | user (u : Nat)        -- somebody who obtained it from the pool
  | pool                  -- idle in the pool
  | chan                  -- the channel: queued or in the sender's batch, not yet written
  deriving DecidableEq, Repr

structure St where
  heap : Nat → Bytes := fun _ => []
  owner : Nat → Owner := fun _ => .pool
  q : List Nat := []                 -- buffers in the write queue
  batch : List Nat := []             -- buffers collected by the sender
  recycle : List Nat := []           -- written, to be returned to the pool
  snap : Nat → Bytes := fun _ => []  -- ghost: what the buffer held when its write call was accepted
  wire : List Bytes := []
  accepted : List Bytes := []        -- ghost: call-time payloads in acceptance order

inductive Act where
  | scribble (o : Owner) (id : Nat) (v : Bytes)    -- the owner overwrites its buffer
  | poolGet (u id : Nat)
  | poolPut (u id : Nat)
  | write (c src id : Nat) (clone : Bool)          -- write call of caller c with its buffer src; id = the pooled buffer used for the copy
  | recv                                            -- the sender takes the head of the queue into its batch
  | writev                                          -- the batch goes to the transport
  | put (early : Bool)                              -- the sender returns one written buffer to the pool (early: before Writev — a defect)

def upd {β : Type} (f : Nat → β) (i : Nat) (v : β) : Nat → β := fun j => if j = i then v else f j

def step (s : St) : Act → Option St
  | .scribble o id v =>
    match o with
    | .caller _ | .user _ => if s.owner id = o then some { s with heap := upd s.heap id v } else none
    | _ => none
  | .poolGet u id => if s.owner id = .pool then some { s with owner := upd s.owner id (.user u) } else none
  | .poolPut u id => if s.owner id = .user u then some { s with owner := upd s.owner id .pool } else none
  | .write c src id clone =>
    if s.owner src ≠ .caller c then none
    else if clone then
      if s.owner id = .pool then
        some { s with heap := upd s.heap id (s.heap src), owner := upd s.owner id .chan, q := s.q ++ [id],
                      snap := upd s.snap id (s.heap src), accepted := s.accepted ++ [s.heap src] }
      else none
    else
      -- the defect: the caller's own buffer is queued (the caller still owns it)
      some { s with q := s.q ++ [src], snap := upd s.snap src (s.heap src), accepted := s.accepted ++ [s.heap src] }
  | .recv =>
    match s.q with
    | id :: rest => some { s with q := rest, batch := s.batch ++ [id] }
    | [] => none
  | .writev =>
    if s.batch = [] then none
    else some { s with wire := s.wire ++ s.batch.map s.heap, recycle := s.recycle ++ s.batch, batch := [] }
  | .put early =>
    if early then
      match s.batch with
      | id :: _ => some { s with owner := upd s.owner id .pool }       -- still in the batch, already in the pool
      | [] => none
    else
      match s.recycle with
      | id :: rest => some { s with recycle := rest, owner := upd s.owner id .pool }
      | [] => none

def run (s : St) : List Act → Option St
  | [] => some s
  | a :: as => (step s a).bind (run · as)

/-- the repaired / intended code: every write copies, buffers are returned only after Writev -/
def Act.sound : Act → Bool
  | .write _ _ _ clone => clone
  | .put early => !early
  | _ => true

end NettyVerif.Heap
