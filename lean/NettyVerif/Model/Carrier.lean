/-! Executable model of the outbound message carriers accepted at the head of the pipeline
    (handler.go:158-176, channel.go ReadFrom) and of the conversion helpers in utils/reader.go.
    Core Lean only. -/
namespace NettyVerif.Carrier

abbrev Bytes := List UInt8

inductive RErr where
  | eof | other
  deriving DecidableEq, Repr, Inhabited

/-- what a scripted io.Reader returns on successive Read calls: a fragment and possibly an error
    delivered together with it (data together with EOF, error after data, …); after the script it
    returns (0, EOF) -/
abbrev ReadScript := List (Bytes × Option RErr)

inductive Msg where
  | bytes (b : Bytes)                               -- []byte
  | bytesv (bs : List Bytes)                        -- [][]byte
  | buffer (b : Bytes)                              -- *bytes.Buffer
  | str (b : Bytes)                                 -- string (helpers only; not accepted by the head)
  | bytesReader (b : Bytes)                         -- *bytes.Reader / *strings.Reader: one Write of own storage
  | writerTo (writes : List Bytes)                  -- generic io.WriterTo writing from a reused scratch buffer
  | reader (script : ReadScript)                    -- generic io.Reader
  | other
  deriving Repr, DecidableEq

/-- one low-level write reaching the channel -/
inductive LowWrite where
  | write1 (b : Bytes)
  | writev (bs : List Bytes)
  deriving Repr, DecidableEq

def LowWrite.bytes : LowWrite → Bytes
  | .write1 b => b
  | .writev bs => bs.flatten

/-- one Read(p) with len(p) = k of a scripted reader: (data, err, remaining script) -/
def readScript : ReadScript → Nat → Bytes × Option RErr × ReadScript
  | [], _ => ([], some .eof, [])
  | (d, e) :: rest, k =>
    if d.length ≤ k then (d, e, rest) else (d.take k, none, (d.drop k, e) :: rest)

def scriptSize : ReadScript → Nat
  | [] => 0
  | (d, _) :: rest => d.length + 1 + scriptSize rest

/-- channel.ReadFrom: 1024-byte reads, each non-empty one forwarded as one write1 -/
def readFrom (chunk : Nat) : Nat → ReadScript → List LowWrite × Option RErr
  | 0, _ => ([], some .other)                        -- fuel exhausted (cannot happen: see readFrom_total)
  | fuel+1, s =>
    match readScript s chunk with
    | (d, e, rest) =>
      let w := if d.isEmpty then [] else [LowWrite.write1 d]
      match e with
      | some .eof => (w, none)
      | some err => (w, some err)
      | none => let r := readFrom chunk fuel rest; (w ++ r.1, r.2)

/-- headHandler.HandleWrite: the low-level writes issued for a message; `none` = exception -/
def headWrites : Msg → Option (List LowWrite × Option RErr)
  | .bytes b => some ([.write1 b], none)
  | .bytesv bs => some ([.writev bs], none)
  | .buffer b => some ([.write1 b], none)
  | .bytesReader b => some (if b.isEmpty then [] else [.write1 b], none)     -- WriteTo: nothing written when empty
  | .writerTo ws => some (ws.map .write1, none)
  | .reader s => some (readFrom 1024 (scriptSize s + 1) s)
  | .str _ => none
  | .other => none

/-- the content of a message: the bytes it stands for (reader: everything up to its first error) -/
def scriptContent : ReadScript → Bytes
  | [] => []
  | (d, none) :: rest => d ++ scriptContent rest
  | (d, some _) :: _ => d

def scriptError : ReadScript → Option RErr
  | [] => none
  | (_, none) :: rest => scriptError rest
  | (_, some .eof) :: _ => none
  | (_, some e) :: _ => some e

def Msg.content : Msg → Option Bytes
  | .bytes b => some b
  | .bytesv bs => some bs.flatten
  | .buffer b => some b
  | .str b => some b
  | .bytesReader b => some b
  | .writerTo ws => some ws.flatten
  | .reader s => some (scriptContent s)
  | .other => none

/-- utils.ToBytes (repaired StealBytes): content or error -/
def toBytes : Msg → Except Unit Bytes
  | .other => .error ()
  | .reader s => if (scriptError s).isSome then .error () else .ok (scriptContent s)
  | m => match m.content with | some b => .ok b | none => .error ()

/-- the pinned ByteStealer on a writer that reuses its scratch buffer: the alias of the first chunk
    is overwritten by the second write before it is copied -/
def stealPinned : List Bytes → Bytes
  | [] => []
  | [w] => w
  | w1 :: w2 :: rest => (w2.take w1.length ++ w1.drop w2.length) ++ w2 ++ rest.flatten

/-- ReadFrom while the channel is being closed: `closeAt = j > 0` means Close runs inside the reader's
    j-th Read call. Chunks read before that are written; the chunk of the j-th Read is refused by the
    closed check of the low-level write and the call returns the close error; `n` counts what was read.
    Result: (chunks written, n, the close error was returned). Chunks are non-empty. -/
def readFromClosing (chunks : List Bytes) (closeAt : Nat) : List Bytes × Nat × Bool :=
  if closeAt = 0 ∨ closeAt > chunks.length then (chunks, chunks.flatten.length, false)
  else (chunks.take (closeAt - 1), (chunks.take closeAt).flatten.length, true)

/-- Channel.ReadFrom on a queued channel in non-blocking mode whose sender is stalled, with `free`
    free queue slots: the chunks that fit are queued; the first one that does not is refused with
    ErrAsyncNoSpace at once (no waiting, no retry), `n` counting what was read from the reader.
    Result: (chunks queued, n, the no-space error was returned). Chunks are non-empty. -/
def readFromNoSpace (chunks : List Bytes) (free : Nat) : List Bytes × Nat × Bool :=
  if chunks.length ≤ free then (chunks, chunks.flatten.length, false)
  else (chunks.take free, (chunks.take (free + 1)).flatten.length, true)

/-- utils.CountOf -/
def countOf (bs : List Bytes) : Nat := (bs.map List.length).foldl (· + ·) 0

end NettyVerif.Carrier
