/-! Executable model of the frame codecs (codec/frame/*.go) over a chunked transport source.
    Core Lean only.

    A transport source is a list of pending chunks plus the error returned once they are
    exhausted; one `Read` returns at most the rest of the current chunk, so quantifying over
    `chunks` is quantifying over every fragmentation of the byte stream.  All reading primitives
    the codecs use (io.ReadFull, byte-wise reads, draining a length-limited frame reader,
    io.CopyN to Discard) are expressed through `readN`, whose only observable is "the first k
    bytes of the flattened stream" (Proofs/Frame.lean: `readN_fst`, `readN_snd`). -/
namespace NettyVerif.Frame

abbrev Bytes := List UInt8

inductive RErr where
  | eof | unexpectedEOF | other
  deriving DecidableEq, Repr, Inhabited

/-- split off up to `k` bytes of a chunk: (taken, rest of the chunk, count still wanted) -/
def takeK : Bytes → Nat → Bytes × Bytes × Nat
  | [], k => ([], [], k)
  | c, 0 => ([], c, 0)
  | b :: c, k+1 => let r := takeK c k; (b :: r.1, r.2.1, r.2.2)

/-- read up to `k` bytes by repeated Read calls; fewer only when the source is exhausted -/
def readN : List Bytes → Nat → Bytes × List Bytes
  | cs, 0 => ([], cs)
  | [], _+1 => ([], [])
  | c :: cs, k+1 =>
    let t := takeK c (k+1)
    if t.2.1.isEmpty then
      let r := readN cs t.2.2
      (t.1 ++ r.1, r.2)
    else (t.1, t.2.1 :: cs)

/-- error seen by a reader that needed more bytes than the stream had (io.ReadFull / exact reader):
    a clean EOF in the middle becomes ErrUnexpectedEOF, at the very start it stays EOF -/
def shortErr (fin : RErr) (got : Nat) : RErr :=
  if fin = .eof then (if got = 0 then .eof else .unexpectedEOF) else fin

/-- io.ReadFull(reader, make([]byte, k)) -/
def readFull (cs : List Bytes) (fin : RErr) (k : Nat) : Except RErr Bytes × List Bytes :=
  let r := readN cs k
  if r.1.length = k then (.ok r.1, r.2) else (.error (shortErr fin r.1.length), r.2)

/-- the lazily read frame handed to the next inbound handler:
    `io.MultiReader(bytes.NewReader(pre), <limited reader over the transport, lim bytes>)` -/
structure FrameR where
  pre : Bytes
  lim : Nat
  deriving Repr, DecidableEq

/-- result of the consumer draining a frame to its end (utils.ToBytes / ioutil.ReadAll) -/
inductive Drained where
  | msg (m : Bytes)
  | raise (e : RErr)
  deriving Repr, DecidableEq

/-- drain with the *exact-length* reader (repaired code): premature end of stream is an error -/
def drainExact (f : FrameR) (cs : List Bytes) (fin : RErr) : Drained × List Bytes :=
  let r := readN cs f.lim
  if r.1.length = f.lim then (.msg (f.pre ++ r.1), r.2)
  else (.raise (if fin = .eof then .unexpectedEOF else fin), r.2)

/-- drain with io.LimitReader (pinned code): a clean EOF ends the frame early, silently -/
def drainLazy (f : FrameR) (cs : List Bytes) (fin : RErr) : Drained × List Bytes :=
  let r := readN cs f.lim
  if r.1.length = f.lim then (.msg (f.pre ++ r.1), r.2)
  else if fin = .eof then (.msg (f.pre ++ r.1), r.2) else (.raise fin, r.2)

/-! ### integers on the wire -/

def unpackBE : Bytes → Nat
  | [] => 0
  | b :: bs => b.toNat * 256 ^ bs.length + unpackBE bs

def packBE : Nat → Nat → Bytes
  | 0, _ => []
  | n+1, v => UInt8.ofNat (v / 256 ^ n) :: packBE n v

def unpack (big : Bool) (bs : Bytes) : Nat := if big then unpackBE bs else unpackBE bs.reverse
def pack (big : Bool) (n v : Nat) : Bytes := if big then packBE n v else (packBE n v).reverse

/-- two's complement wrap to int64 -/
def wrap64 (x : Int) : Int :=
  let m := x % (2^64 : Int)
  if m ≥ (2^63 : Int) then m - (2^64 : Int) else m

/-! ### LengthFieldCodec (length_field.go) and LengthFieldPrepender -/

structure LFCfg where
  big : Bool
  max : Int
  offset : Int
  fieldLen : Int
  adj : Int
  strip : Int
  deriving Repr, DecidableEq

/-- the constructor's assertions -/
def LFCfg.valid (c : LFCfg) : Bool :=
  c.max > 0 && c.offset ≥ 0 && c.strip ≥ 0 &&
  (c.fieldLen == 1 || c.fieldLen == 2 || c.fieldLen == 4 || c.fieldLen == 8) &&
  !(c.offset > c.max - c.fieldLen)

inductive Dec where
  | frame (f : FrameR) (rest : List Bytes)
  | raise (rest : List Bytes)
  deriving Repr, DecidableEq

/-- lengthFieldCodec.HandleRead up to the hand-over of the frame reader -/
def decodeLF (c : LFCfg) (cs : List Bytes) (fin : RErr) : Dec :=
  let endOff := c.offset + c.fieldLen
  match readFull cs fin endOff.toNat with
  | (.error _, rest) => .raise rest
  | (.ok hdr, rest) =>
    let raw := unpack c.big (hdr.drop c.offset.toNat)
    let fl0 := wrap64 (raw : Int)                       -- int64(byteOrder.UintN(..))
    if fl0 < 0 then .raise rest else
    let fl := wrap64 (fl0 + wrap64 (c.adj + endOff))
    if fl < endOff then .raise rest
    else if fl > c.max then .raise rest
    else if c.strip > fl then .raise rest
    else
      let body := (fl - endOff).toNat
      -- io.CopyN(ioutil.Discard, frameReader, strip)
      if c.strip ≤ endOff then .frame { pre := hdr.drop c.strip.toNat, lim := body } rest
      else
        let need := (c.strip - endOff).toNat
        let r := readN rest need
        if r.1.length = need then .frame { pre := [], lim := body - need } r.2 else .raise r.2

/-- largest value a length field of `n` bytes can carry (8 bytes: int64 on the decoding side) -/
def fieldMax (n : Int) : Int := if n = 8 then 2^63 - 1 else 256 ^ n.toNat - 1

structure PrepCfg where
  big : Bool
  fieldLen : Int
  adj : Int
  incl : Bool
  deriving Repr, DecidableEq

/-- lengthFieldPrepender.HandleWrite with the repaired packFieldLength (range check):
    `none` = exception, nothing emitted -/
def encodePrep (c : PrepCfg) (body : Bytes) : Option Bytes :=
  let len : Int := body.length + c.adj + (if c.incl then c.fieldLen else 0)
  if len < 0 ∨ len > fieldMax c.fieldLen then none
  else some (pack c.big c.fieldLen.toNat len.toNat ++ body)

/-- the pinned packFieldLength: silent truncation to the field width -/
def encodePrepPinned (c : PrepCfg) (body : Bytes) : Bytes :=
  let len : Int := body.length + c.adj + (if c.incl then c.fieldLen else 0)
  pack c.big c.fieldLen.toNat (len % (256 ^ c.fieldLen.toNat)).toNat ++ body

/-- the encoder built into LengthFieldCodec: prepender(order, fieldLen, 0, false) -/
def LFCfg.prep (c : LFCfg) : PrepCfg := { big := c.big, fieldLen := c.fieldLen, adj := 0, incl := false }

/-! ### VarintLengthFieldCodec (varint_length.go) -/

/-- binary.PutUvarint -/
def putUvarint (n : Nat) : Bytes :=
  if h : n < 128 then [UInt8.ofNat n]
  else UInt8.ofNat (n % 128 + 128) :: putUvarint (n / 128)
decreasing_by omega

inductive UvRes where
  | ok (v : Nat) (rest : List Bytes)
  | err (rest : List Bytes)
  deriving Repr, DecidableEq

/-- binary.ReadUvarint over utils.NewByteReader: `i` = bytes read so far, `x` accumulated, `s` shift -/
def readUvarintAux : Nat → Nat → Nat → Nat → List Bytes → UvRes
  | 0, _, _, _, cs => .err cs                            -- 10 continuation bytes: overflow
  | fuel+1, i, x, s, cs =>
    match readN cs 1 with
    | ([b], rest) =>
      if b.toNat < 128 then
        if i = 9 ∧ b.toNat > 1 then .err rest else .ok (x + b.toNat * 2 ^ s) rest
      else readUvarintAux fuel (i+1) (x + (b.toNat - 128) * 2 ^ s) (s+7) rest
    | (_, rest) => .err rest

def readUvarint (cs : List Bytes) : UvRes := readUvarintAux 10 0 0 0 cs

def decodeVarint (max : Int) (cs : List Bytes) : Dec :=
  match readUvarint cs with
  | .err rest => .raise rest
  | .ok v rest => if (v % 2^64 : Nat) > max.toNat then .raise rest else .frame { pre := [], lim := v % 2^64 } rest

def encodeVarint (max : Int) (body : Bytes) : Option Bytes :=
  if (body.length : Int) > max then none else some (putUvarint body.length ++ body)

/-! ### DelimiterCodec (delimiter.go) -/

/-- the byte-wise scan `for len(readBuff) < maxFrameLength { read 1 byte; append; suffix test }`:
    `fuel` = iterations left (= max - len(readBuff)), `racc` = readBuff reversed, `drev` = delimiter
    reversed; `none` = exception (EOF/err, or frame too large when the fuel runs out) -/
def scanDelim (drev : Bytes) : Nat → Bytes → List Bytes → Option Bytes × List Bytes
  | 0, _, cs => (none, cs)
  | fuel+1, racc, cs =>
    match readN cs 1 with
    | ([b], rest) =>
      if drev.isPrefixOf (b :: racc) then (some (b :: racc).reverse, rest)
      else scanDelim drev fuel (b :: racc) rest
    | (_, rest) => (none, rest)

def decodeDelim (delim : Bytes) (max : Int) (strip : Bool) (cs : List Bytes) : Dec :=
  match scanDelim delim.reverse max.toNat [] cs with
  | (none, rest) => .raise rest
  | (some f, rest) => .frame { pre := if strip then f.take (f.length - delim.length) else f, lim := 0 } rest

def encodeDelim (delim : Bytes) (body : Bytes) : Bytes := body ++ delim

/-! ### FixedLengthCodec (fixed_length.go): no header, the frame reader is the whole decoder -/

def decodeFixed (n : Int) (cs : List Bytes) : Dec := .frame { pre := [], lim := n.toNat } cs

/-! ### one read-loop iteration and the loop -/

inductive Codec where
  | lf (c : LFCfg)
  | varint (max : Int)
  | delim (d : Bytes) (max : Int) (strip : Bool)
  | fixed (n : Int)
  deriving Repr, DecidableEq

/-- what the constructors accept -/
def Codec.valid : Codec → Bool
  | .lf c => c.valid
  | .varint m => m > 0
  | .delim d m _ => m > 0 && !d.isEmpty
  | .fixed n => n > 0

def Codec.decode (c : Codec) (cs : List Bytes) (fin : RErr) : Dec :=
  match c with
  | .lf c => decodeLF c cs fin
  | .varint m => decodeVarint m cs
  | .delim d m s => decodeDelim d m s cs
  | .fixed n => decodeFixed n cs

inductive Step where
  | msg (m : Bytes) (rest : List Bytes)
  | raise (rest : List Bytes)
  deriving Repr, DecidableEq

/-- FireChannelRead(transport) with a consumer that drains the frame (what every shipped format
    codec does).  `exact` selects the repaired exact-length frame reader. -/
def stepRead (exact : Bool) (c : Codec) (cs : List Bytes) (fin : RErr) : Step :=
  match c.decode cs fin with
  | .raise rest => .raise rest
  | .frame f rest =>
    match (if exact then drainExact f rest fin else drainLazy f rest fin) with
    | (.msg m, rest') => .msg m rest'
    | (.raise _, rest') => .raise rest'

/-- the read loop on a default pipeline: messages delivered until the first exception (which
    reaches the tail and closes the channel). `none` in the second component = fuel exhausted
    (the loop did not terminate within `fuel` iterations). -/
def readLoop (exact : Bool) (c : Codec) : Nat → List Bytes → RErr → List Bytes × Option (List Bytes)
  | 0, _, _ => ([], none)
  | fuel+1, cs, fin =>
    match stepRead exact c cs fin with
    | .raise rest => ([], some rest)
    | .msg m rest => let r := readLoop exact c fuel rest fin; (m :: r.1, r.2)

end NettyVerif.Frame
