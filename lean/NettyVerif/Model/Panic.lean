import NettyVerif.Model.Pipeline
/-! Panic containment (C07): event delivery over the handler list with handlers that may panic, and
    the recover points of channel.invokeMethod / handlerContext.Write / handlerContext.Trigger /
    the tail handler, as coded.  Built on the list specification of the pipeline, which C03 proves
    equivalent to the pointer structure. Core Lean only. -/
namespace NettyVerif.Panic
open NettyVerif.Pipeline

/-- what a handler panics with -/
inductive PVal where
  | err (id : Nat)          -- an error value: delivered as is
  | str (id : Nat)          -- any other value: wrapped by AsException (fmt.Errorf("%v"))
  | netTimeout (id : Nat)   -- a net.Error with Timeout() = true
  | netFatal (id : Nat)     -- a net.Error with Timeout() = false: the channel is closed with it
  deriving DecidableEq, Repr

def PVal.isFatalNet : PVal → Bool
  | .netFatal _ => true
  | _ => false

structure PHandler where
  h : Handler
  pan : Nat := 0            -- bit mask over Kind.idx: panics when invoked with that kind
  val : PVal := .err 0
  deriving DecidableEq, Repr

def PHandler.panics (p : PHandler) (k : Kind) : Bool := p.pan.testBit k.idx

/-- outcome of one delivery pass -/
inductive POut where
  | fin (f : Final)
  | panic (pos : Nat) (v : PVal)
  deriving DecidableEq, Repr

/-- towards the tail: handlers at positions i, i+1, …; past the last one an exception reaches the
    tail handler (close), any other kind is dropped -/
def deliverUpP (k : Kind) : Nat → List PHandler → List Nat × POut
  | _, [] => ([], .fin (if k = .exception then .close else .dropped))
  | i, p :: rest =>
    if p.h.implements k then
      if p.panics k then ([i], .panic i p.val)
      else if p.h.forwards k then
        let r := deliverUpP k (i+1) rest
        (i :: r.1, r.2)
      else ([i], .fin .stopped)
    else deliverUpP k (i+1) rest

/-- towards the head (writes): handlers at positions n, n-1, …, 1 given in that order; past the first
    one the head handler writes to the channel, which may itself fail (`headFails`) -/
def deliverDownP (headFails : Option PVal) : Nat → List PHandler → List Nat × POut
  | _, [] => ([], match headFails with | some v => .panic 0 v | none => .fin .chanWrite)
  | n, p :: rest =>
    if p.h.implements .write then
      if p.panics .write then ([n], .panic n p.val)
      else if p.h.forwards .write then
        let r := deliverDownP headFails (n-1) rest
        (n :: r.1, r.2)
      else ([n], .fin .stopped)
    else deliverDownP headFails (n-1) rest

/-- deliver kind `k` starting after position `i` (0 = head … hs.length+1 = tail) -/
def deliverP (hs : List PHandler) (headFails : Option PVal) (k : Kind) (i : Nat) : List Nat × POut :=
  if k = .write then
    if i = 0 then ([], .fin .dropped)            -- the head's own context has no predecessor
    else deliverDownP headFails (i - 1) ((hs.take (i - 1)).reverse)
  else deliverUpP k (i + 1) (hs.drop i)

/-- what the caller of an entry point observes -/
structure Result where
  visited : List Nat                 -- handlers invoked for the event itself
  escaped : Bool                     -- the panic propagated into the caller
  excVisited : List Nat              -- exception handlers invoked, in order
  excVal : Option PVal               -- the value they were given
  closedWith : Option PVal           -- the channel was closed with this exception
  closedByEvent : Bool               -- the event itself reached the tail / closed the channel
  deriving DecidableEq, Repr

/-- FireChannelException from the head; exception handlers are assumed not to panic (proviso) -/
def fireException (hs : List PHandler) : List Nat × Bool :=
  let r := deliverUpP .exception 1 (hs.map (fun p => { p with pan := 0 }))
  (r.1, r.2 == .fin .close)

/-- channel.invokeMethod(fn): Channel.Write / Channel.Trigger / the read loop's active and read.
    `closed` = the channel's closed flag when the panic is recovered -/
def invoke (hs : List PHandler) (headFails : Option PVal) (k : Kind) (closed : Bool) : Result :=
  let start := if k = .write then hs.length + 1 else 0
  let (v, out) := deliverP hs headFails k start
  match out with
  | .fin f => { visited := v, escaped := false, excVisited := [], excVal := none, closedWith := none, closedByEvent := f == .close }
  | .panic _ val =>
    if closed then { visited := v, escaped := false, excVisited := [], excVal := none, closedWith := none, closedByEvent := false }
    else
      let (ev, toTail) := fireException hs
      { visited := v, escaped := false, excVisited := ev, excVal := some val,
        closedWith := if toTail || val.isFatalNet then some val else none, closedByEvent := false }

/-- handlerContext.Write / handlerContext.Trigger from position `i`: own recover, no closed check,
    no net.Error rule -/
def ctxInvoke (hs : List PHandler) (headFails : Option PVal) (k : Kind) (i : Nat) : Result :=
  let (v, out) := deliverP hs headFails k i
  match out with
  | .fin f => { visited := v, escaped := false, excVisited := [], excVal := none, closedWith := none, closedByEvent := f == .close }
  | .panic _ val =>
    let (ev, toTail) := fireException hs
    { visited := v, escaped := false, excVisited := ev, excVal := some val,
      closedWith := if toTail then some val else none, closedByEvent := false }

end NettyVerif.Panic

/-! ### exception handlers that react by using the channel (nested delivery)

An exception handler may answer an exception with `Channel.Write` / `Channel.Trigger`; that call runs
through `invokeMethod` again, and a panic raised during *its* delivery is a second exception that is
owed to the exception handlers while the first one is still travelling. One reacting handler, reacting
once (at nesting depth 0), on a channel that is open when the primary event is delivered. -/
namespace NettyVerif.Panic
open NettyVerif.Pipeline

/-- what the handlers see, in order -/
inductive TEv where
  | visit (k : Kind) (pos : Nat)
  | exc (pos : Nat) (v : PVal)
  deriving DecidableEq, Repr

/-- a plain exception pass (nobody reacts): the chain of exception handlers, each given `v` -/
def excPlain (hs : List PHandler) (v : PVal) : List TEv × Bool :=
  let r := fireException hs
  (r.1.map (fun p => TEv.exc p v), r.2)

/-- the reaction: Channel.Write / Channel.Trigger on the open channel, delivered from the pipeline's
    end; returns the events and what the channel was closed with by it -/
def nestedInvoke (hs : List PHandler) (headFails : Option PVal) (k : Kind) : List TEv × Option PVal :=
  let start := if k = .write then hs.length + 1 else 0
  let r := deliverP hs headFails k start
  let evs := r.1.map (fun p => TEv.visit k p)
  match r.2 with
  | .fin _ => (evs, none)
  | .panic _ val =>
    let x := excPlain hs val
    (evs ++ x.1, if x.2 || val.isFatalNet then some val else none)

/-- the primary exception pass: the handler at position `r` reacts (events `N`) before it forwards.
    Returns the events, whether the reaction took place, and whether the exception reached the tail -/
def excReact (v : PVal) (r : Nat) (N : List TEv) : Nat → List PHandler → List TEv × Bool × Bool
  | _, [] => ([], false, true)
  | i, p :: rest =>
    if p.h.implements .exception then
      let here := if i = r then N else []
      if p.h.forwards .exception then
        let t := excReact v r N (i+1) rest
        (TEv.exc i v :: here ++ t.1, (i == r) || t.2.1, t.2.2)
      else (TEv.exc i v :: here, i == r, false)
    else excReact v r N (i+1) rest

structure ResultR where
  trace : List TEv
  closedWith : Option PVal
  deriving DecidableEq, Repr

/-- Channel.Write / Channel.Trigger / read loop entry (`invokeMethod`) on an open channel whose
    exception handler at position `r` reacts with an event of kind `rk` -/
def invokeR (hs : List PHandler) (headFails : Option PVal) (k : Kind) (r : Nat) (rk : Kind) : ResultR :=
  let start := if k = .write then hs.length + 1 else 0
  let d := deliverP hs headFails k start
  let evs := d.1.map (fun p => TEv.visit k p)
  match d.2 with
  | .fin _ => { trace := evs, closedWith := none }
  | .panic _ val =>
    let n := nestedInvoke hs headFails rk
    let t := excReact val r n.1 1 hs
    let own := if t.2.2 || val.isFatalNet then some val else none
    { trace := evs ++ t.1, closedWith := if t.2.1 && n.2.isSome then n.2 else own }

/-- ctx.Write / ctx.Trigger from position `i` (own recover, no net.Error rule) -/
def ctxInvokeR (hs : List PHandler) (headFails : Option PVal) (k : Kind) (i : Nat) (r : Nat) (rk : Kind) : ResultR :=
  let d := deliverP hs headFails k i
  let evs := d.1.map (fun p => TEv.visit k p)
  match d.2 with
  | .fin _ => { trace := evs, closedWith := none }
  | .panic _ val =>
    let n := nestedInvoke hs headFails rk
    let t := excReact val r n.1 1 hs
    let own := if t.2.2 then some val else none
    { trace := evs ++ t.1, closedWith := if t.2.1 && n.2.isSome then n.2 else own }

/-- the exception deliveries carrying value `w`, by position -/
def excOf (w : PVal) (t : List TEv) : List Nat :=
  t.filterMap (fun e => match e with | .exc p x => if x = w then some p else none | .visit _ _ => none)

end NettyVerif.Panic
