import NettyVerif.Model.Frame
/-!
Implementation-level model of `utils.exactReader` (utils/reader.go): one `Read` call at a time over
a chunked transport source, with the remaining-bytes counter as state. The frame-level model
(`Model/Frame.lean`, `drainExact`) treats the frame body as "the next `lim` bytes or an error";
this file states what the *reader object* does call by call, so that the invariants behind that
summary can be proved for every sequence of buffer sizes a consumer may use.
-/
namespace NettyVerif.ExactR
open NettyVerif.Frame

/-- one `Read` of the underlying transport with room for `k` bytes: at most the rest of the current
    chunk (an empty chunk is a zero-length read); `true` = the stream is exhausted -/
def srcRead : List Bytes → Nat → Bytes × List Bytes × Bool
  | [], _ => ([], [], true)
  | c :: cs, k => ((takeK c k).1, (if (takeK c k).2.1.isEmpty then cs else (takeK c k).2.1 :: cs), false)

structure Res where
  data : Bytes
  err : Option RErr          -- none = nil
  deriving Repr, DecidableEq

/-- `exactReader.Read(p)` with `len(p) = plen` and `e.n = n`:
    ```
    if e.n <= 0 { return 0, io.EOF }
    if int64(len(p)) > e.n { p = p[0:e.n] }
    n, err = e.r.Read(p); e.n -= int64(n)
    if err == io.EOF && e.n > 0 { err = io.ErrUnexpectedEOF }
    ```
    returns (result, new `e.n`, rest of the source) -/
def read (n : Int) (plen : Nat) (cs : List Bytes) (fin : RErr) : Res × Int × List Bytes :=
  if n ≤ 0 then ({ data := [], err := some .eof }, n, cs)
  else
    let ask := if (plen : Int) > n then n.toNat else plen
    let r := srcRead cs ask
    let n' := n - r.1.length
    let err : Option RErr := if r.2.2 then some fin else none
    let err' := if err = some .eof ∧ n' > 0 then some .unexpectedEOF else err
    ({ data := r.1, err := err' }, n', r.2.1)

/-- the pinned reader (io.LimitReader): the same without the last line -/
def readPinned (n : Int) (plen : Nat) (cs : List Bytes) (fin : RErr) : Res × Int × List Bytes :=
  if n ≤ 0 then ({ data := [], err := some .eof }, n, cs)
  else
    let ask := if (plen : Int) > n then n.toNat else plen
    let r := srcRead cs ask
    ({ data := r.1, err := if r.2.2 then some fin else none }, n - r.1.length, r.2.1)

/-- a consumer: calls `Read` with the buffer sizes `sizes` in turn and stops at the first error;
    state = (delivered so far, `e.n`, source); result = final state and the error that ended it -/
def consume (rd : Int → Nat → List Bytes → RErr → Res × Int × List Bytes) (fin : RErr) :
    List Nat → Bytes → Int → List Bytes → Bytes × Int × List Bytes × Option RErr
  | [], acc, n, cs => (acc, n, cs, none)
  | p :: ps, acc, n, cs =>
    let r := rd n p cs fin
    match r.1.err with
    | some e => (acc ++ r.1.data, r.2.1, r.2.2, some e)
    | none => consume rd fin ps (acc ++ r.1.data) r.2.1 r.2.2

end NettyVerif.ExactR
