/-! Executable model of the transport wrappers (transport/buffered.go) over bufio.Writer /
    bufio.Reader, parametrised by a *routing table* saying which sink each method uses. The table
    for the real code is extracted from the source on every run (Gen/Routing.lean, tie T3).
    Core Lean only. -/
namespace NettyVerif.Transport

abbrev Bytes := List UInt8

inductive Sink where
  | bufw | bufr | conn | noop | missing | unknown
  deriving DecidableEq, Repr, Inhabited

structure Route where
  name : String
  read : Sink
  write : Sink
  writev : Sink
  flush : Sink
  deriving DecidableEq, Repr, Inhabited

/-- bufio.Writer over the connection: `pend` = buffered bytes, `conn` = everything the connection
    has received so far -/
structure BW where
  size : Nat
  pend : Bytes := []
  conn : Bytes := []
  deriving DecidableEq, Repr, Inhabited

/-- bufio.Writer.Write (bufio.go): fill-and-flush when the data does not fit, direct write of a
    large chunk when the buffer is empty -/
def BW.write (b : BW) (p : Bytes) : BW :=
  if p.length ≤ b.size - b.pend.length then { b with pend := b.pend ++ p }
  else if b.pend = [] then { b with conn := b.conn ++ p }
  else
    let a := b.size - b.pend.length
    let p1 := p.drop a
    let conn1 := b.conn ++ (b.pend ++ p.take a)
    if p1.length ≤ b.size then { b with conn := conn1, pend := p1 } else { b with conn := conn1 ++ p1, pend := [] }

def BW.flush (b : BW) : BW := { b with conn := b.conn ++ b.pend, pend := [] }

/-- a write routed straight to the connection does not see the pending buffered bytes -/
def BW.direct (b : BW) (p : Bytes) : BW := { b with conn := b.conn ++ p }

inductive Op where
  | write (p : Bytes)
  | writev (ps : List Bytes)
  | flush
  deriving Repr, DecidableEq

def routeWrite (s : Sink) (b : BW) (p : Bytes) : BW :=
  match s with
  | .bufw => b.write p
  | _ => b.direct p           -- conn (and anything unexpected: modelled as reaching the connection directly)

def step (r : Route) (b : BW) : Op → BW
  | .write p => routeWrite r.write b p
  | .writev ps => ps.foldl (routeWrite r.writev) b      -- net.Buffers.WriteTo: one Write per buffer, in order
  | .flush => match r.flush with
    | .bufw => b.flush
    | _ => b

def run (r : Route) (b : BW) (ops : List Op) : BW := ops.foldl (step r) b

/-- everything handed to Write/Writev so far, in call order -/
def written : List Op → Bytes
  | [] => []
  | .write p :: os => p ++ written os
  | .writev ps :: os => ps.flatten ++ written os
  | .flush :: os => written os

/-- the routing discipline: all writes of a variant go to one sink, and Flush drains that sink -/
def Route.good (r : Route) : Bool :=
  (r.write == .bufw && r.writev == .bufw && r.flush == .bufw) ||
  (r.write == .conn && r.writev == .conn && (r.flush == .noop || r.flush == .bufw))

/-! ### read side: bufio.Reader over a chunked connection -/

structure BR where
  size : Nat           -- max(16, configured size)
  buf : Bytes := []    -- buffered, not yet returned
  src : List Bytes     -- what the peer sent, as the connection fragments it
  deriving DecidableEq, Repr, Inhabited

/-- one Read of the underlying connection with room for k bytes -/
def connRead : List Bytes → Nat → Bytes × List Bytes
  | [], _ => ([], [])
  | [] :: cs, k => connRead cs k
  | c :: cs, k => (c.take k, if c.length ≤ k then cs else c.drop k :: cs)

/-- bufio.Reader.Read(p) with len(p) = k > 0: returns the data (empty = EOF) -/
def BR.read (r : BR) (k : Nat) : Bytes × BR :=
  if r.buf ≠ [] then (r.buf.take k, { r with buf := r.buf.drop k })
  else if k ≥ r.size then
    let d := connRead r.src k          -- large read, empty buffer: straight into p
    (d.1, { r with src := d.2 })
  else
    let d := connRead r.src r.size     -- one fill
    (d.1.take k, { r with buf := d.1.drop k, src := d.2 })

/-- unbuffered read -/
def BR.readDirect (r : BR) (k : Nat) : Bytes × BR :=
  if r.buf ≠ [] then (r.buf.take k, { r with buf := r.buf.drop k })   -- (buf is always empty on this path)
  else let d := connRead r.src k; (d.1, { r with src := d.2 })

def routeRead (s : Sink) (r : BR) (k : Nat) : Bytes × BR :=
  match s with
  | .bufr => r.read k
  | _ => r.readDirect k

/-- reads with the given buffer lengths, concatenated results -/
def readAll (s : Sink) : BR → List Nat → Bytes × BR
  | r, [] => ([], r)
  | r, k :: ks => let d := routeRead s r k; let rest := readAll s d.2 ks; (d.1 ++ rest.1, rest.2)

/-- the stream still to be delivered -/
def BR.remaining (r : BR) : Bytes := r.buf ++ r.src.flatten

end NettyVerif.Transport
