/-! The channel write / close path (channel.go) as a labelled transition system. Core Lean only.

    Actions are the synchronisation-relevant atomic steps of the Go code, at exactly the granularity
    of the scheduling points nvinstr inserts (one action per yield label): queue send/receive,
    CAS/load/store of the `running` and `closed` flags, `len(writeQueue)`, transport calls, context
    cancellation, the sync-write mutex. Client goroutines are *anonymous*: any number of write or
    Close calls may be in flight (the state only counts how many are between two steps), so every
    theorem over reachable states holds for any number of goroutines and every interleaving.
    `α` is the payload type (a packet as queued; for the harness `List UInt8`). -/
namespace NettyVerif.Chan

/-- program counter of the sender that owns the `running` flag (writeOnce) -/
inductive SPc where
  | poll                 -- about to poll the queue (select with default)
  | writev               -- batch complete, about to call transport.Writev
  | put (k : Nat)        -- k recycled buffers still to be returned to the pool
  | len1                 -- `if len(c.writeQueue) > 0 { continue }`
  | flush                -- about to Flush
  | store                -- about to store running = idle
  | failed               -- Writev/Flush failed: recover, about to mark the failure
  | failedStore          -- about to store idle, then Close
  deriving DecidableEq, Repr

/-- senders that have released ownership (double check after `Store idle`) -/
inductive LPc where
  | len2 | cas
  deriving DecidableEq, Repr

/-- program counter of the Close call that won the `closed` CAS -/
inductive CPc where
  | len (n : Nat)        -- wait loop: about to read len(writeQueue) (n = polls so far)
  | load (n : Nat)       -- queue seen empty: about to load `running`
  | sleep (n : Nat)
  | setErr | trClose | cancel | fire
  deriving DecidableEq, Repr

/-- the closer has not yet stored its error nor touched the transport -/
def CPc.waiting : CPc → Bool
  | .len _ | .load _ | .sleep _ | .setErr => true
  | _ => false

structure St (α : Type) where
  sync : Bool := false
  cap : Nat := 1
  untilW : Bool := true
  -- shared state of the channel
  q : List α := []
  running : Bool := false
  closed : Bool := false
  closeErrSet : Bool := false        -- the winning Close has stored its error (possibly nil)
  ctxDone : Bool := false
  parentDone : Bool := false         -- the parent (bootstrap) context was cancelled: c.ctx is done although nobody closed the channel yet
  trClosed : Bool := false
  broken : Bool := false             -- ghost: the transport was closed or a transport call failed
  lockHeld : Bool := false
  syncWrote : Bool := false          -- the lock holder has written and not yet flushed
  batch : List α := []               -- c.writeBuffers as filled by the owner
  -- control state of the framework goroutines
  snd : Option SPc := none           -- the started owner
  execPending : Nat := 0             -- CAS won by a writer, Exec(writeOnce) not yet started
  lingering : List LPc := []
  closer : Option CPc := none
  -- anonymous clients
  pendingCas : Nat := 0              -- async writers between enqueue and their CAS
  inflight : Nat := 0                -- write calls that passed the closed-check and have not yet enqueued / locked / given up
  sendFailed : Bool := false         -- the sender gave up after a transport failure
  -- ghost history
  wire : List α := []                -- packets handed to the transport, in order
  flushed : Nat := 0                 -- how many of them were flushed
  accepted : List α := []            -- packets in acceptance order (enqueue / sync transport write)
  accAtLen : Nat := 0                -- |accepted| when the closer last saw the queue empty
  graceful : Bool := false           -- the closer left its wait loop because queue empty and sender idle
  closeCount : Nat := 0              -- number of transport.Close calls
  trCloseWire : Option (Nat × Nat) := none  -- (|wire|, flushed) when transport.Close was called

inductive Act (α : Type) where
  -- write calls
  | parentCancel               -- the context the channel was derived from is cancelled
  | beginWrite                 -- entry check `closedError() == nil` passed
  | rejectWrite                -- entry check failed: the call returns the close error
  | enqueue (p : α)            -- select: `c.writeQueue <- packet`
  | noSpace                    -- select default branch (non-blocking mode)
  | abortCtx                   -- select: caller context done -> return ctx.Err(), nothing queued
  | abortClosed                -- select: channel context done -> return the close error, nothing queued
  | casWriter                  -- `CompareAndSwap(&running, idle, running)` after an enqueue
  | exec                       -- executor starts writeOnce
  -- the owner
  | sndRecv | sndDefault | sndWritev (ok : Bool) | sndPut | sndLen1 | sndFlush (ok : Bool) | sndStore | sndFailMark | sndFailStore
  -- after release
  | lingLen (i : Nat) | lingCas (i : Nat)
  -- sync writers
  | lock | syncWrite (p : α) (ok : Bool) | syncFlush
  -- Close
  | closeCas | closeLen | closeLoad | closeSleep | closeSetErr | closeTr | closeCancel | closeFire
  deriving Repr

variable {α : Type}

def batchCap (s : St α) : Nat := s.cap / 2 + 1

/-- one step; `none` = the action is not enabled in `s` -/
def step (s : St α) : Act α → Option (St α)
  | .parentCancel => some { s with parentDone := true }
  | .beginWrite => if s.closed || s.parentDone then none else some { s with inflight := s.inflight + 1 }
  | .rejectWrite => if s.closed || s.parentDone then some s else none
  | .enqueue p =>
    if !s.sync && s.inflight > 0 && s.q.length < s.cap then
      some { s with q := s.q ++ [p], accepted := s.accepted ++ [p], pendingCas := s.pendingCas + 1, inflight := s.inflight - 1 }
    else none
  | .noSpace => if !s.sync && s.inflight > 0 && !s.untilW && s.q.length = s.cap then some { s with inflight := s.inflight - 1 } else none
  | .abortCtx => if !s.sync && s.inflight > 0 then some { s with inflight := s.inflight - 1 } else none
  | .abortClosed => if !s.sync && s.inflight > 0 && (s.ctxDone || s.parentDone) then some { s with inflight := s.inflight - 1 } else none
  | .casWriter =>
    if s.pendingCas = 0 then none
    else if s.running then some { s with pendingCas := s.pendingCas - 1 }
    else some { s with pendingCas := s.pendingCas - 1, running := true, execPending := s.execPending + 1 }
  | .exec =>
    if s.execPending = 0 then none
    else match s.snd with
      | some _ => none
      | none => some { s with execPending := s.execPending - 1, snd := some .poll, batch := [] }
  | .sndRecv =>
    match s.snd, s.q with
    | some .poll, p :: rest =>
      let b := s.batch ++ [p]
      some { s with q := rest, batch := b, snd := some (if b.length < batchCap s then .poll else .writev) }
    | _, _ => none
  | .sndDefault =>
    match s.snd, s.q with
    | some .poll, [] => some { s with snd := some (if s.batch = [] then .flush else .writev) }
    | _, _ => none
  | .sndWritev ok =>
    match s.snd with
    | some .writev =>
      if s.batch = [] then none
      else if ok && !s.trClosed then some { s with wire := s.wire ++ s.batch, batch := [], snd := some (.put s.batch.length) }
      else if !ok then some { s with snd := some .failed, broken := true }    -- the transport failed (closed, or any I/O error)
      else none
    | _ => none
  | .sndPut =>
    match s.snd with
    | some (.put (k+1)) => some { s with snd := some (if k = 0 then .len1 else .put k) }
    | _ => none
  | .sndLen1 =>
    match s.snd with
    | some .len1 => some { s with batch := [], snd := some (if s.q.length > 0 then .poll else .flush) }
    | _ => none
  | .sndFlush ok =>
    match s.snd with
    | some .flush =>
      if ok then some { s with flushed := s.wire.length, snd := some .store } else some { s with snd := some .failed, broken := true }
    | _ => none
  | .sndStore =>
    match s.snd with
    | some .store => some { s with running := false, snd := none, batch := [], lingering := s.lingering ++ [.len2] }
    | _ => none
  | .sndFailMark =>
    match s.snd with
    | some .failed => some { s with sendFailed := true, snd := some .failedStore }
    | _ => none
  | .sndFailStore =>
    match s.snd with
    | some .failedStore => some { s with running := false, snd := none }
    | _ => none
  | .lingLen i =>
    match s.lingering[i]? with
    | some .len2 =>
      if s.q.length > 0 then some { s with lingering := s.lingering.set i .cas }
      else some { s with lingering := s.lingering.eraseIdx i }
    | _ => none
  | .lingCas i =>
    match s.lingering[i]? with
    | some .cas =>
      if s.running then some { s with lingering := s.lingering.eraseIdx i }
      else match s.snd with
        | some _ => none
        | none => some { s with running := true, snd := some .poll, batch := [], lingering := s.lingering.eraseIdx i }
    | _ => none
  | .lock => if s.sync && !s.lockHeld && s.inflight > 0 then some { s with lockHeld := true, inflight := s.inflight - 1 } else none
  | .syncWrite p ok =>
    if s.sync && s.lockHeld && !s.syncWrote then
      if ok && !s.trClosed then some { s with wire := s.wire ++ [p], accepted := s.accepted ++ [p], syncWrote := true }
      else if !ok && s.trClosed then some { s with lockHeld := false, broken := true }      -- error: return, deferred Unlock
      else none
    else none
  | .syncFlush =>                                                            -- Flush, return, deferred Unlock
    if s.sync && s.lockHeld && s.syncWrote then some { s with flushed := s.wire.length, lockHeld := false, syncWrote := false }
    else none
  | .closeCas =>
    if s.closed then some s                      -- a losing Close: returns at once
    else match s.closer with
      | some _ => none
      | none => some { s with closed := true, closer := some (if s.sync then .setErr else .len 0) }
  | .closeLen =>                                   -- `if 0 == len(c.writeQueue) || 0 != sendFailed`
    match s.closer with
    | some (.len n) =>
      if s.q.length = 0 || s.sendFailed then some { s with closer := some (.load n), accAtLen := s.accepted.length }
      else some { s with closer := some (.sleep (n+1)) }
    | _ => none
  | .closeLoad =>                                  -- `if idle == running { break }`
    match s.closer with
    | some (.load n) =>
      if s.running then some { s with closer := some (.sleep (n+1)) }
      else some { s with closer := some .setErr, graceful := true }
    | _ => none
  | .closeSleep =>                                 -- wake up, re-evaluate `untilWrite || maxWaitNum < 10`
    match s.closer with
    | some (.sleep n) => some { s with closer := some (if s.untilW || n < 10 then .len n else .setErr) }
    | _ => none
  | .closeSetErr =>
    match s.closer with
    | some .setErr => some { s with closeErrSet := true, closer := some .trClose }
    | _ => none
  | .closeTr =>
    match s.closer with
    | some .trClose => some { s with trClosed := true, broken := true, closer := some .cancel, closeCount := s.closeCount + 1, trCloseWire := some (s.wire.length, s.flushed) }
    | _ => none
  | .closeCancel =>
    match s.closer with
    | some .cancel => some { s with ctxDone := true, closer := some .fire }
    | _ => none
  | .closeFire =>
    match s.closer with
    | some .fire => some { s with closer := none }
    | _ => none

def run (s : St α) : List (Act α) → Option (St α)
  | [] => some s
  | a :: as => (step s a).bind (run · as)

/-- nothing left to run: no client mid-call, no framework goroutine alive -/
def St.quiescent (s : St α) : Bool :=
  s.pendingCas == 0 && s.inflight == 0 && s.execPending == 0 && s.snd.isNone && s.lingering.isEmpty && s.closer.isNone && !s.lockHeld

end NettyVerif.Chan
