/-! The HTTP server codec (codec/xhttp): the request loop with lazily read bodies, the response
    writer as a state machine over handler operations, the bytes it emits, and a response parser
    with the semantics of a standard HTTP/1.x parser (status line, header lines, body by chunked /
    Content-Length / until close). Bytes are `List UInt8`. Core Lean only. -/
namespace NettyVerif.Http

abbrev Bytes := List UInt8

def CR : UInt8 := 13
def LF : UInt8 := 10
def SP : UInt8 := 32
def COLON : UInt8 := 58
def CRLF : Bytes := [13, 10]

/-! ### numbers in decimal and lower-case hexadecimal -/

def digitChar (d : Nat) : UInt8 := if d < 10 then UInt8.ofNat (48 + d) else UInt8.ofNat (87 + d)

def digitVal (c : UInt8) : Option Nat :=
  if 48 ≤ c.toNat ∧ c.toNat ≤ 57 then some (c.toNat - 48)
  else if 97 ≤ c.toNat ∧ c.toNat ≤ 102 then some (c.toNat - 87)
  else if 65 ≤ c.toNat ∧ c.toNat ≤ 70 then some (c.toNat - 55)
  else none

def showBase (b : Nat) : Nat → Nat → Bytes
  | 0, _ => []
  | f+1, n => if n < b then [digitChar n] else showBase b f (n / b) ++ [digitChar (n % b)]

def showDec (n : Nat) : Bytes := showBase 10 (n + 1) n
def showHex (n : Nat) : Bytes := showBase 16 (n + 1) n

/-- all characters must be digits of the base; the empty string is not a number -/
def parseBase (b : Nat) (l : Bytes) : Option Nat :=
  if l = [] then none else
  l.foldl (fun acc c => match acc, digitVal c with
    | some a, some d => if d < b then some (a * b + d) else none
    | _, _ => none) (some 0)

/-! ### the response writer (response_writer.go) -/

-- ASCII constants as explicit bytes (so that they reduce in proofs)
def sTE : Bytes := [84, 114, 97, 110, 115, 102, 101, 114, 45, 69, 110, 99, 111, 100, 105, 110, 103]          -- "Transfer-Encoding"
def sCL : Bytes := [67, 111, 110, 116, 101, 110, 116, 45, 76, 101, 110, 103, 116, 104]          -- "Content-Length"
def sTrailer : Bytes := [84, 114, 97, 105, 108, 101, 114]     -- "Trailer"
def sChunked : Bytes := [99, 104, 117, 110, 107, 101, 100]     -- "chunked"
def sServer : Bytes := [83, 101, 114, 118, 101, 114]      -- "Server"
def sGoNetty : Bytes := [103, 111, 45, 110, 101, 116, 116, 121]     -- "go-netty"
def sHTTP1 : Bytes := [72, 84, 84, 80, 47, 49, 46]       -- "HTTP/1."
def sOK : Bytes := [32, 79, 75]          -- " OK"

/-- what a handler can do with the ResponseWriter -/
inductive HOp where
  | setHeader (k v : Bytes)       -- w.Header().Set(k, v), k in canonical form
  | writeHeader (code : Nat)
  | write (b : Bytes)
  | flush
  deriving Repr, DecidableEq

structure RW where
  minor : Nat
  reqClose : Bool
  header : List (Bytes × Bytes) := [(sServer, sGoNetty)]
  wroteHeader : Bool := false
  status : Nat := 0
  sent : List (Bytes × Bytes) := []      -- the header as written to the wire
  chunked : Bool := false
  body : Bytes := []                     -- bytes the handler wrote (after any framing is removed)
  out : Bytes := []                      -- bytes handed to the buffered writer
  flushed : Nat := 0                     -- how many of them have reached the channel
  finished : Bool := false
  markedClose : Bool := false            -- request.Close set by the writer
  crashed : Bool := false                -- nil dereference (pinned Flush / Close after Flush)
  legacy10 : Bool := false               -- pinned: chunked framing is also used for HTTP/1.0 requests
  deriving Repr

def lookup (h : List (Bytes × Bytes)) (k : Bytes) : Bytes := ((h.find? (·.1 = k)).map (·.2)).getD []


def statusLine (minor status : Nat) : Bytes :=
  sHTTP1 ++ showDec minor ++ [SP] ++ showDec status ++ sOK ++ CRLF

def headerLine (kv : Bytes × Bytes) : Bytes := kv.1 ++ [COLON, SP] ++ kv.2 ++ CRLF

def headBytes (minor status : Nat) (h : List (Bytes × Bytes)) : Bytes :=
  statusLine minor status ++ (h.map headerLine).flatten ++ CRLF

/-- one chunk of httputil's chunked writer; empty writes are dropped -/
def chunkEnc (b : Bytes) : Bytes := if b = [] then [] else showHex b.length ++ CRLF ++ b ++ CRLF

/-- WriteHeader: status line and header lines; HTTP/1.0 has no transfer codings, the header is dropped -/
def RW.doHeader (w : RW) (code : Nat) : RW :=
  if w.wroteHeader then w
  else
    let h := if w.minor = 0 ∧ !w.legacy10 then w.header.filter (·.1 ≠ sTE) else w.header
    { w with wroteHeader := true, status := code, header := h, sent := h, chunked := lookup h sTE = sChunked,
             out := w.out ++ headBytes w.minor code h }

/-- terminate the body, flush, decide about the connection, give the buffer back -/
def RW.finish (w : RW) : RW :=
  if w.finished then w else
  let w := w.doHeader 200
  let tail : Bytes := if w.chunked then ([48] ++ CRLF) ++ (if lookup w.sent sTrailer = [] then CRLF else []) else []
  let out := w.out ++ tail
  { w with out := out, flushed := out.length, finished := true,
           markedClose := w.reqClose || (lookup w.sent sCL = [] && lookup w.sent sTE = []) }

/-- one handler operation on the repaired writer: Flush only flushes -/
def RW.op (w : RW) : HOp → RW
  | .setHeader k v => { w with header := w.header.filter (·.1 ≠ k) ++ [(k, v)] }
  | .writeHeader c => w.doHeader c
  | .write b =>
    let w := w.doHeader 200
    if w.finished then { w with crashed := true }
    else { w with body := w.body ++ b, out := w.out ++ (if w.chunked then chunkEnc b else b) }
  | .flush => if w.finished then w else let w := w.doHeader 200; { w with flushed := w.out.length }

/-- the pinned writer: Flush finishes the response; whatever touches the writer afterwards crashes -/
def RW.opPinned (w : RW) : HOp → RW
  | .flush => if w.finished then { w with crashed := true } else w.finish
  | .write b => if w.finished then { w with crashed := true } else w.op (.write b)
  | o => w.op o

/-- the adapter: run the handler's operations, then finish (deferred) -/
def serveOne (minor : Nat) (reqClose : Bool) (prog : List HOp) : RW :=
  (prog.foldl RW.op { minor := minor, reqClose := reqClose }).finish

/-- pinned (before 13c8e6d): the connection decision reads the *live* header map, which the handler may have
    changed after the header block went out -/
def RW.finishLive (w : RW) : RW :=
  let f := w.finish
  if w.finished then f else { f with markedClose := w.reqClose || (lookup f.header sCL = [] && lookup f.header sTE = []) }

def serveOneLive (minor : Nat) (reqClose : Bool) (prog : List HOp) : RW :=
  (prog.foldl RW.op { minor := minor, reqClose := reqClose }).finishLive

def serveOnePinned (minor : Nat) (reqClose : Bool) (prog : List HOp) : RW :=
  let w := prog.foldl RW.opPinned { minor := minor, reqClose := reqClose, legacy10 := true }
  if w.finished then { w with crashed := true } else w.finish      -- the deferred Flush dereferences the released buffer

/-! ### a standard response parser -/

/-- a line up to LF, the optional CR before it removed -/
def takeLine : Bytes → Bytes → Option (Bytes × Bytes)
  | [], _ => none
  | c :: r, acc =>
    if c = LF then some ((if acc.head? = some CR then acc.tail else acc).reverse, r)
    else takeLine r (c :: acc)

def trimSP : Bytes → Bytes
  | c :: r => if c = SP ∨ c = 9 then trimSP r else c :: r
  | [] => []

def trim (b : Bytes) : Bytes := (trimSP (trimSP b).reverse).reverse

/-- "HTTP/1.m sss reason" -/
def parseStatusLine (l : Bytes) : Option (Nat × Nat) :=
  match l with
  | 72 :: 84 :: 84 :: 80 :: 47 :: 49 :: 46 :: m :: 32 :: a :: b :: c :: rest =>
    match parseBase 10 [m], parseBase 10 [a, b, c] with
    | some mi, some st => if rest = [] ∨ rest.head? = some SP then some (mi, st) else none
    | _, _ => none
  | _ => none

def splitColon : Bytes → Bytes → Option (Bytes × Bytes)
  | [], _ => none
  | c :: r, acc => if c = COLON then some (acc.reverse, r) else splitColon r (c :: acc)

def parseHeaderLine (l : Bytes) : Option (Bytes × Bytes) :=
  match splitColon l [] with
  | some (k, v) => if k = [] then none else some (k, trim v)
  | none => none

/-- header lines up to the empty line -/
def parseHeaders : Nat → Bytes → Option (List (Bytes × Bytes) × Bytes)
  | 0, _ => none
  | f+1, bs =>
    match takeLine bs [] with
    | none => none
    | some (l, rest) =>
      if l = [] then some ([], rest)
      else match parseHeaderLine l with
        | none => none
        | some kv => (parseHeaders f rest).map (fun (hs, r) => (kv :: hs, r))

/-- chunked body: size line, data, CRLF … last chunk 0, trailer lines, empty line -/
def parseChunked : Nat → Bytes → Option (Bytes × Bytes)
  | 0, _ => none
  | f+1, bs =>
    match takeLine bs [] with
    | none => none
    | some (l, rest) =>
      match parseBase 16 l with
      | none => none
      | some 0 => (parseHeaders (rest.length + 1) rest).map (fun (_, r) => ([], r))     -- trailer section
      | some n =>
        if rest.length < n + 2 then none
        else if (rest.drop n).take 2 ≠ CRLF then none
        else (parseChunked f (rest.drop (n + 2))).map (fun (b, r) => (rest.take n ++ b, r))

structure Resp where
  minor : Nat
  status : Nat
  headers : List (Bytes × Bytes)
  body : Bytes
  deriving Repr, DecidableEq

/-- one response from the front of a stream; `rest` is what follows it (empty when the body runs to the end) -/
def parseResp (bs : Bytes) : Option (Resp × Bytes) :=
  match takeLine bs [] with
  | none => none
  | some (l, r1) =>
    match parseStatusLine l with
    | none => none
    | some (minor, status) =>
      match parseHeaders (r1.length + 1) r1 with
      | none => none
      | some (hs0, r2) =>
        -- an HTTP/1.0 message has no transfer codings: the header is ignored (and dropped from the view)
        let hs := if minor = 0 then hs0.filter (·.1 ≠ sTE) else hs0
        if lookup hs sTE = sChunked then
          (parseChunked (r2.length + 1) r2).map (fun (b, r3) => ({ minor := minor, status := status, headers := hs, body := b }, r3))
        else if lookup hs sCL ≠ [] then
          match parseBase 10 (lookup hs sCL) with
          | none => none
          | some n => if r2.length < n then none else some ({ minor := minor, status := status, headers := hs, body := r2.take n }, r2.drop n)
        else some ({ minor := minor, status := status, headers := hs, body := r2 }, [])

/-! ### the request loop (request.go) at the level of stream positions -/

/-- one request on the wire: the length of its head and of its (encoded) body, and whether it asks to close -/
structure Req where
  headLen : Nat
  bodyLen : Nat
  close : Bool
  deriving Repr, DecidableEq

/-- how the connection ends / what the handler is asked to serve: positions in the inbound stream at
    which ReadRequest starts. `readBy i` = how many body bytes handler i consumed; `respClose i` = the
    writer marked the connection closed while answering request i. `drain` = the repaired loop. -/
def requestStarts (drain : Bool) : List (Req × Nat × Bool) → Nat → List Nat
  | [], _ => []
  | (r, readBy, respClose) :: rest, pos =>
    pos :: (if r.close || respClose then []
            else requestStarts drain rest (pos + r.headLen + (if drain then r.bodyLen else min readBy r.bodyLen)))

/-- where the requests really start -/
def trueStarts : List (Req × Nat × Bool) → Nat → List Nat
  | [], _ => []
  | (r, _, respClose) :: rest, pos => pos :: (if r.close || respClose then [] else trueStarts rest (pos + r.headLen + r.bodyLen))

end NettyVerif.Http
