/-! Executable model of the idle handlers (handler.go:199-408) over an abstract clock. Core Lean only.
    One model serves both handlers: they differ only in which event resets them (inbound read,
    recorded *after* forwarding / outbound write, recorded *before* forwarding). -/
namespace NettyVerif.Idle

/-- `*time.Timer` as the handler sees it: a nil pointer, or a timer that is armed for a deadline or
    disarmed (already fired / stopped) but can be Reset -/
inductive Tmr where
  | nil
  | disarmed
  | armed (deadline : Nat)
  deriving DecidableEq, Repr

structure St where
  idle : Nat                 -- configured idle time
  last : Nat := 0            -- lastReadTime / lastWriteTime
  tmr : Tmr := .nil
  ctx : Bool := false        -- cached handler context present
  act : Nat := 0             -- ghost: time of the last activation
  fired : List Nat := []     -- ghost: check instants at which an idle event was delivered (newest first)
  deriving DecidableEq, Repr

/-- operations, each stamped with the clock value at which its locked section runs -/
inductive Op where
  | active (t : Nat)         -- HandleActive: cache ctx, last := now, AfterFunc(idle)
  | touch (t : Nat)          -- HandleRead / HandleWrite: last := now, Reset(idle) if timer != nil
  | inactive (t : Nat)       -- HandleInactive: ctx := nil, Stop, timer := nil
  | fire (t : Nat)           -- the runtime runs the timer callback at time t ≥ deadline (may be late)
  deriving DecidableEq, Repr

def Op.time : Op → Nat
  | .active t | .touch t | .inactive t | .fire t => t

/-- one step; `none` = not enabled (a timer can only fire when armed and due) -/
def step (s : St) : Op → Option St
  | .active t => some { s with ctx := true, last := t, act := t, tmr := .armed (t + s.idle) }
  | .touch t =>
    some { s with last := t, tmr := match s.tmr with | .nil => .nil | _ => .armed (t + s.idle) }
  | .inactive _ => some { s with ctx := false, tmr := .nil }
  | .fire t =>
    match s.tmr with
    | .armed d =>
      if d ≤ t then
        -- callback: (1) check under read lock, (2) trigger if expired and ctx present, (3) re-arm if timer != nil
        let expired := t - s.last ≥ s.idle
        some { s with fired := if expired && s.ctx then t :: s.fired else s.fired, tmr := .armed (t + s.idle) }
      else none
    | _ => none

/-- the callback overlapping an inactive event: check + trigger happened at `t`, then inactive ran,
    then the callback's re-arm section finds the timer nil and does nothing -/
def fireThenInactive (s : St) (t : Nat) : Option St :=
  match s.tmr with
  | .armed d =>
    if d ≤ t then
      let expired := t - s.last ≥ s.idle
      some { s with fired := if expired && s.ctx then t :: s.fired else s.fired, ctx := false, tmr := .nil }
    else none
  | _ => none

def run (s : St) : List Op → Option St
  | [] => some s
  | o :: os => (step s o).bind (run · os)

/-- operation lists whose time stamps never go backwards, starting at `t0` -/
def monotone : Nat → List Op → Bool
  | _, [] => true
  | t0, o :: os => t0 ≤ o.time && monotone o.time os

end NettyVerif.Idle
