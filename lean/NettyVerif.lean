-- Root of the NettyVerif library: property theorems (Props) pull in models, generated files and proofs.
import NettyVerif.Proofs.Pmath
