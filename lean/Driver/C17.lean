import NettyVerif.Gen.Routing
import Driver.C04
/-! Driver part for C17: the routing-table model with the table extracted from the source. -/
namespace Driver.C17
open NettyVerif.Transport Driver.C04

structure S where
  route : Route := default
  bw : BW := { size := 0 }
  br : BR := { size := 16, src := [] }
  writtenAll : Bytes := []     -- everything handed to Write/Writev (spec side)
  connAll : Bytes := []        -- everything the implementation's connection received
  stream : Bytes := []         -- peer stream still to be returned by Read (spec side)
  deriving Inhabited

def pickRoute (r w : Nat) : Option Route :=
  let want := if r > 0 && w > 0 then "readSize>0&&writeSize>0" else if r > 0 then "readSize>0" else if w > 0 then "writeSize>0" else "default"
  match Gen.Routing.ctor.find? (·.1 == want) with
  | some (_, ty) => Gen.Routing.routes.find? (·.name == ty)
  | none => none

def afterWrite (s : S) (bw' : BW) (data delta : Bytes) : S × String :=
  let modelDelta := bw'.conn.drop s.bw.conn.length
  let conn' := s.connAll ++ delta
  let w' := s.writtenAll ++ data
  let s' := { s with bw := bw', writtenAll := w', connAll := conn' }
  if !(conn'.isPrefixOf w') then (s', s!"specviol connection-bytes-not-a-prefix-of-written conn={hex (conn'.take 40)} written={hex (w'.take 40)}")
  else if modelDelta != delta then (s', s!"diff model={hex modelDelta} impl={hex delta}")
  else (s', "ok")

def handle (s : S) : List String → S × String
  | ["new", r, w] =>
    match r.toNat?, w.toNat? with
    | some rs, some ws =>
      match pickRoute rs ws with
      | some rt => ({ route := rt, bw := { size := ws }, br := { size := max 16 rs, src := [] } }, s!"ok {rt.name}")
      | none => (s, "diff no-route-extracted")
    | _, _ => (s, "bad-op")
  | ["write", p, delta] =>
    match unhex p, unhex delta with
    | some pb, some d => afterWrite s (step s.route s.bw (.write pb)) pb d
    | _, _ => (s, "bad-op")
  | ["writev", ps, delta] =>
    match (if ps == "-" then some [] else (ps.splitOn ",").mapM unhex), unhex delta with
    | some pbs, some d => afterWrite s (step s.route s.bw (.writev pbs)) pbs.flatten d
    | _, _ => (s, "bad-op")
  | ["flush", delta] =>
    match unhex delta with
    | some d =>
      let (s', v) := afterWrite s (step s.route s.bw .flush) [] d
      if v == "ok" && s'.connAll != s'.writtenAll then
        (s', s!"specviol after-flush-peer-has-not-everything missing={(s'.writtenAll.length - s'.connAll.length)}")
      else (s', v)
    | none => (s, "bad-op")
  | ["dl", accepted, got] =>
    let a := if accepted == "-" then "" else accepted
    let g := if got == "-" then "" else got
    (s, if g.length ≤ a.length && (a.take g.length).toString == g then "ok"
        else s!"specviol after a write deadline expired during a flush the connection received {got}, which is not a prefix of the accepted bytes {accepted}")
  | ["iso", want, got] =>
    (s, if want == got then "ok" else s!"specviol a fresh transport of the same configuration delivered {got} to its connection for the bytes {want} written to it (bytes of another connection, or its own bytes elsewhere)")
  | ["feed", chunks] =>
    match (if chunks == "-" then some [] else (chunks.splitOn ",").mapM unhex) with
    | some cs => ({ s with br := { s.br with src := s.br.src ++ cs }, stream := s.stream ++ cs.flatten }, "ok")
    | none => (s, "bad-op")
  | ["read", k, res] =>
    match k.toNat?, unhex res with
    | some kk, some d =>
      let (m, br') := routeRead s.route.read s.br kk
      let s' := { s with br := br', stream := s.stream.drop d.length }
      if !(d.isPrefixOf s.stream) then (s', s!"specviol read-returned-bytes-out-of-order got={hex d} next={hex (s.stream.take 20)}")
      else if d.isEmpty && !s.stream.isEmpty then (s', "specviol read-returned-nothing-while-data-pending")
      else if m != d then (s', s!"diff model={hex m} impl={hex d}")
      else (s', "ok")
    | _, _ => (s, "bad-op")
  | _ => (s, "bad-op")

end Driver.C17
