import NettyVerif.Model.Wire
/-! Driver part for C09: from a controlled execution with several writer goroutines it takes the
    order in which the head handler's message lock was acquired, runs the Wire model in that order
    and compares the model's wire with the bytes the mock transport received. Independently it
    parses the implementation's wire into whole frames (the frame of each message comes from a
    sequential run of the same pipeline). Bytes are compared as hex text. -/
namespace Driver.C09
open NettyVerif.Wire

structure S where
  frames : List ((String × Nat) × String) := []     -- (goroutine, call index) ↦ expected frame (hex)
  cur : List (String × Nat) := []                   -- goroutine ↦ index of the call it is in
  acq : List (String × Nat) := []                   -- message-lock acquisitions in order
  rets : List ((String × Nat) × String) := []
  wire : String := ""
  nb : Bool := false          -- non-blocking queue: refused writes leave a message cut short (whole chunks) or absent
  deriving Inhabited

def lookupCur (s : S) (t : String) : Nat := ((s.cur.find? (·.1 == t)).map (·.2)).getD 0

/-- greedy parse of the wire into whole frames, each used at most once -/
def parseFrames : Nat → List Char → List ((String × Nat) × List Char) → Option (List (String × Nat))
  | 0, _, _ => none
  | _, [], _ => some []
  | fuel+1, w, frames =>
    match frames.find? (fun f => f.2 ≠ [] ∧ f.2.isPrefixOf w) with
    | none => none
    | some f =>
      (parseFrames fuel (w.drop f.2.length) (frames.filter (·.1 != f.1))).map (f.1 :: ·)

/-- length of the longest common prefix -/
def lcp : List Char → List Char → Nat
  | a :: as, b :: bs => if a == b then lcp as bs + 1 else 0
  | _, _ => 0

/-- non-blocking mode: every message is on the wire whole, as a proper prefix of its frame (its write was refused
    half way) or not at all, each at most once and never resumed. Every frame begins with the same byte, which does
    not occur inside a frame, so a cut-short frame ends exactly where the common prefix with its frame ends; which
    message a short prefix belongs to is decided by search. -/
def parseNB : Nat → List Char → List ((String × Nat) × List Char) → Bool
  | 0, _, _ => false
  | _, [], _ => true
  | fuel+1, w, frames =>
    -- candidates with the longest match first (the same search; a passing wire is then found without backtracking)
    let cands := (frames.map (fun f => let k := lcp f.2 w; (k - k % 2, f))).filter (fun c => c.1 > 0)   -- whole bytes (two hex digits each)
    (cands.mergeSort (fun a b => a.1 ≥ b.1)).any (fun c => parseNB fuel (w.drop c.1) (frames.filter (·.1 != c.2.1)))

def tidNum (t : String) : Nat := ((t.drop 1).toString.toNat?).getD 0

def handle (s : S) : List String → S × String
  | ["new"] => ({}, "ok")
  | "cfg" :: rest => ({ s with nb := rest.contains "nb=1" }, "ok")
  | "thr" :: _ => (s, "ok")
  | ["msg", t, i, _kind, hex] => ({ s with frames := s.frames ++ [((t, i.toNat?.getD 0), hex)] }, "ok")
  | "step" :: tid :: point :: _case :: evs =>
    let s := if point.endsWith ".lock" then { s with acq := s.acq ++ [(tid, lookupCur s tid)] } else s
    let s := evs.foldl (fun s e =>
      match e.splitOn ":" with
      | ["begin", i] => { s with cur := (tid, i.toNat?.getD 0) :: s.cur.filter (·.1 != tid) }
      | ["ret", i, st] => { s with rets := s.rets ++ [((tid, i.toNat?.getD 0), st)] }
      | _ => s) s
    (s, "ok")
  | ["wire", hex] => ({ s with wire := if hex == "-" then "" else hex }, "ok")
  | "end" :: how :: _ =>
    if how.startsWith "stuck" then (s, s!"diff a goroutine blocked outside the controller's view ({how}): the instrumentation does not cover this code") else
    if how != "quiescent" then (s, s!"specviol execution does not come to rest: {how}") else
    if s.nb then
      (if parseNB (s.frames.length + 1) s.wire.toList (s.frames.map (fun f => (f.1, f.2.toList))) then (s, "ok nonblocking")
       else (s, s!"specviol bytes of different messages interleave on the wire (non-blocking queue: it does not parse into whole or cut-short frames, each at most once): {s.wire.take 240}"))
    else
    if s.rets.any (·.2 != "ok") then (s, "diff a write did not succeed in a scenario without failures") else
    if s.rets.length != s.frames.length then (s, "diff not every write returned") else
    -- the model, driven in the order of the lock acquisitions
    let acts : List (Act Char) := s.acq.flatMap (fun (t, i) =>
      match s.frames.find? (·.1 == (t, i)) with
      | some (_, hex) => [Act.start (tidNum t) { id := tidNum t * 100 + i, chunks := [hex.toList] }, .chunk (tidNum t), .finish (tidNum t)]
      | none => [])
    let model := (run ({} : St Char) acts).map (fun st => String.ofList (wireBytes st.wire))
    let parsed := parseFrames (s.frames.length + 1) s.wire.toList (s.frames.map (fun f => (f.1, f.2.toList)))
    match parsed with
    | none =>
      (s, s!"specviol bytes of different messages interleave on the wire (it does not parse into whole frames): {s.wire.take 240}")
    | some order =>
      if order.length != s.frames.length then (s, s!"specviol {s.frames.length - order.length} message(s) missing from the wire although every write returned success")
      else if model == some s.wire then (s, s!"ok messages={order.length}")
      else if s.acq.length != s.frames.length then
        (s, s!"diff whole frames on the wire, but {s.acq.length} message-lock acquisitions for {s.frames.length} messages: the model cannot follow this head handler")
      else (s, "diff whole frames on the wire, but not in the order of the message-lock acquisitions")
  | "crash" :: rest => (s, "diff harness crashed: " ++ " ".intercalate rest)
  | _ => (s, "bad-op")

end Driver.C09
