import NettyVerif.Model.Idle
/-! Driver part for C20. -/
namespace Driver.C20
open NettyVerif.Idle

structure S where
  st : St := { idle := 1 }
  kind : String := "r"
  -- specification-side bookkeeping, independent of the model
  lastTouch : Nat := 0
  actAt : Nat := 0
  isActive : Bool := false
  allowOne : Bool := false      -- one in-flight callback may still deliver after inactive
  deriving Inhabited

def evTimes (kind ev : String) : List Nat :=
  if ev == "-" then [] else (ev.splitOn ",").filterMap (fun e =>
    match e.splitOn "@" with
    | [k, t] => if k == kind then t.toNat? else none
    | _ => none)

def handle (s : S) : List String → S × String
  | ["new", kind, idle] => ({ st := { idle := idle.toNat?.getD 1 }, kind := kind }, "ok")
  | ["hang", cs] => (s, s!"specviol a call into the idle handler did not return within 3 s in history {cs} (an event delivered while the handler holds its own lock: the inactive event, the next message or the next callback waits for ever)")
  | ["op", op, t, extra, ev, exc] =>
    match t.toNat? with
    | none => (s, "bad-op")
    | some tt =>
      let evs := evTimes s.kind ((ev.drop 3).toString)
      let wrongKind := (ev != "ev=-") && (((ev.drop 3).toString.splitOn ",").any (fun e => !(e.startsWith s.kind)))
      let nexc := ((exc.drop 4).toString.toNat?).getD 0
      if op == "leaked" then (s, "specviol timer still armed after inactive") else
      if op == "notimer" then (s, "specviol the handler is active but has no timer pending: it will never report idleness") else
      -- model step
      let mo : Option St := match op with
        | "active" => step s.st (.active tt)
        | "touch" => step s.st (.touch tt)
        | "inactive" => step s.st (.inactive tt)
        | "fire" => step s.st (.fire tt)
        | "fireinact" => fireThenInactive s.st tt
        | "activeinact" => (step s.st (.active tt)).bind (step · (.inactive tt))
        | "inactonly" => step s.st (.inactive tt)
        | _ => none
      -- specification on the implementation's own events
      let idle := s.st.idle
      let specBad : Option String :=
        if wrongKind then some "idle event of the wrong kind" else
        evs.foldl (fun acc e => match acc with
          | some v => some v
          | none =>
            if !s.isActive then some s!"idle event at {e} although the handler is inactive"
            else if e < s.lastTouch + idle then some s!"idle event at {e} only {e - s.lastTouch} after the last read/write at {s.lastTouch} (idle {idle})"
            else if e < s.actAt + idle then some s!"idle event at {e} less than {idle} after activation at {s.actAt}"
            else none) none
      let specBad := specBad.orElse (fun _ => if (op == "fire" || op == "fireinact") && evs.length > 1 then some "one callback delivered several idle events" else none)
      let specBad := specBad.orElse (fun _ =>
        -- the idle handler is transparent for the lifecycle: the inactive event goes on to the handlers behind it, once
        if extra.startsWith "inact=" && extra != "inact=1" then
          some s!"the inactive event passed the idle handler {(extra.drop 6).toString} times on its way to the handlers behind it (operation {op})" else none)
      let specBad := specBad.orElse (fun _ =>
        -- persistence: a due callback with no read/write for a whole period must deliver (handler active)
        if (op == "fire" || op == "fireinact") && s.isActive && tt ≥ s.lastTouch + idle && tt ≥ s.actAt + idle && evs.isEmpty then
          some s!"no idle event at {tt} although idle since {s.lastTouch}" else none)
      let s2 : S := match op with
        | "active" => { s with isActive := true, actAt := tt, lastTouch := tt }
        | "touch" => { s with lastTouch := tt }
        | "inactive" => { s with isActive := false }
        | "fireinact" => { s with isActive := false }
        | "activeinact" => { s with isActive := false }
        | "inactonly" => { s with isActive := false }
        | _ => s
      match specBad with
      | some v => ({ s2 with st := mo.getD s.st }, s!"specviol {v}")
      | none =>
        match mo with
        | none => (s2, s!"diff model: operation {op} at {tt} not enabled")
        | some st' =>
          let delta := st'.fired.take (st'.fired.length - s.st.fired.length)
          let expPanic := nexc   -- exceptions are only checked to be routed (count reported), not predicted
          let _ := expPanic
          if delta.reverse != evs then ({ s2 with st := st' }, s!"diff model events {delta.reverse} impl {evs}")
          else ({ s2 with st := st' }, "ok")
  | _ => (s, "bad-op")

end Driver.C20
