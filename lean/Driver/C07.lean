import NettyVerif.Model.Panic
/-! Driver part for C07 (pipeline panics; the sender-failure half runs through Driver.Chan). -/
namespace Driver.C07
open NettyVerif.Panic NettyVerif.Pipeline

structure S where
  tbl : List PHandler := []
  hs : List PHandler := []
  deriving Inhabited

def parseVal (s : String) : Option PVal :=
  match s.splitOn ":" with
  | ["err", i] => i.toNat?.map .err
  | ["str", i] => i.toNat?.map .str
  | ["nto", i] => i.toNat?.map .netTimeout
  | ["nft", i] => i.toNat?.map .netFatal
  | _ => none

def showVal : Option PVal → String
  | none => "none"
  | some (.err i) => s!"err:{i}"
  | some (.str i) => s!"str:{i}"
  | some (.netTimeout i) => s!"nto:{i}"
  | some (.netFatal i) => s!"nft:{i}"

def showVis (hs : List PHandler) (v : List Nat) : String :=
  let v := v.filter (fun j => j != 0 && j != hs.length + 1)
  if v.isEmpty then "-" else ",".intercalate (v.map (fun j => s!"{j}:{((hs[j-1]?).map (·.h.id)).getD 0}"))

def render (hs : List PHandler) (r : Result) : String :=
  s!"esc={if r.escaped then 1 else 0} vis={showVis hs r.visited} exc={showVis hs r.excVisited} val={showVal r.excVal} closed={showVal r.closedWith} evclose={if r.closedByEvent then 1 else 0}"

def handle (s : S) : List String → S × String
  | ["new"] => ({}, "ok")
  | ["hdl", id, impl, fwd, pan, val] =>
    match id.toNat?, impl.toNat?, fwd.toNat?, pan.toNat?, parseVal val with
    | some i, some m, some f, some p, some v => ({ s with tbl := { h := { id := i, impl := m, fwd := f }, pan := p, val := v } :: s.tbl }, "ok")
    | _, _, _, _, _ => (s, "bad-op")
  | "add" :: ids =>
    match ids.mapM (fun t => t.toNat?.bind (fun i => s.tbl.find? (·.h.id == i))) with
    | some l => ({ s with hs := s.hs ++ l }, "ok")
    | none => (s, "bad-op")
  -- invoke <entry> <kind> <pos> <closed> <headfail> <result tokens…>
  | "invoke" :: entry :: kind :: pos :: closed :: hf :: res =>
    match kind.toNat?.bind Kind.ofNat?, pos.toNat? with
    | some k, some i =>
      let cl := closed == "1"
      -- on a closed channel the head's low-level write fails with the close error before touching the transport
      let headFails := if cl then some (PVal.err 424242) else if hf == "-" then none else parseVal hf
      let r : Result :=
        if entry == "chwrite" && cl then { visited := [], escaped := false, excVisited := [], excVal := none, closedWith := none, closedByEvent := false }
        else if entry == "ctx" then ctxInvoke s.hs headFails k i
        else invoke s.hs headFails k cl
      -- already-closed channel: a value only the tail handler saw is not observable (Close is a no-op)
      let r := if cl then { r with closedWith := none, closedByEvent := false, excVal := if r.excVisited.isEmpty then none else r.excVal } else r
      let m := render s.hs r
      let impl := " ".intercalate res
      -- the property itself: never escapes; exception value is the panic value
      if (impl.splitOn "esc=1").length > 1 then (s, s!"specviol panic escaped into the caller: {impl}")
      else if m != impl then
        -- distinguish property-level disagreement (exception routing / close decision) from model detail
        (s, s!"specviol spec={m} impl={impl}")
      else (s, "ok")
    | _, _ => (s, "bad-op")
  | _ => (s, "bad-op")

end Driver.C07
