import NettyVerif.Model.Panic
/-! Driver part for C07 (pipeline panics; the sender-failure half runs through Driver.Chan). -/
namespace Driver.C07
open NettyVerif.Panic NettyVerif.Pipeline

structure S where
  tbl : List PHandler := []
  hs : List PHandler := []
  deriving Inhabited

def parseVal (s : String) : Option PVal :=
  match s.splitOn ":" with
  | ["err", i] => i.toNat?.map .err
  | ["str", i] => i.toNat?.map .str
  | ["nto", i] => i.toNat?.map .netTimeout
  | ["nft", i] => i.toNat?.map .netFatal
  | _ => none

def showVal : Option PVal → String
  | none => "none"
  | some (.err i) => s!"err:{i}"
  | some (.str i) => s!"str:{i}"
  | some (.netTimeout i) => s!"nto:{i}"
  | some (.netFatal i) => s!"nft:{i}"

def showVis (hs : List PHandler) (v : List Nat) : String :=
  let v := v.filter (fun j => j != 0 && j != hs.length + 1)
  if v.isEmpty then "-" else ",".intercalate (v.map (fun j => s!"{j}:{((hs[j-1]?).map (·.h.id)).getD 0}"))

def render (hs : List PHandler) (r : Result) : String :=
  s!"esc={if r.escaped then 1 else 0} vis={showVis hs r.visited} exc={showVis hs r.excVisited} val={showVal r.excVal} closed={showVal r.closedWith} evclose={if r.closedByEvent then 1 else 0}"

def handle (s : S) : List String → S × String
  | ["new"] => ({}, "ok")
  | ["hdl", id, impl, fwd, pan, val] =>
    match id.toNat?, impl.toNat?, fwd.toNat?, pan.toNat?, parseVal val with
    | some i, some m, some f, some p, some v => ({ s with tbl := { h := { id := i, impl := m, fwd := f }, pan := p, val := v } :: s.tbl }, "ok")
    | _, _, _, _, _ => (s, "bad-op")
  | "add" :: ids =>
    match ids.mapM (fun t => t.toNat?.bind (fun i => s.tbl.find? (·.h.id == i))) with
    | some l => ({ s with hs := s.hs ++ l }, "ok")
    | none => (s, "bad-op")
  -- invoke <entry> <kind> <pos> <closed> <headfail> <result tokens…>
  | "invoke" :: entry :: kind :: pos :: closed :: hf :: res =>
    match kind.toNat?.bind Kind.ofNat?, pos.toNat? with
    | some k, some i =>
      let cl := closed == "1"
      -- on a closed channel the head's low-level write fails with the close error before touching the transport
      let headFails := if cl then some (PVal.err 424242) else if hf == "-" then none else parseVal hf
      let r : Result :=
        if entry == "chwrite" && cl then { visited := [], escaped := false, excVisited := [], excVal := none, closedWith := none, closedByEvent := false }
        else if entry == "ctx" then ctxInvoke s.hs headFails k i
        else invoke s.hs headFails k cl
      -- already-closed channel: a value only the tail handler saw is not observable (Close is a no-op)
      let r := if cl then { r with closedWith := none, closedByEvent := false, excVal := if r.excVisited.isEmpty then none else r.excVal } else r
      let m := render s.hs r
      let impl := " ".intercalate res
      -- the property itself: never escapes; exception value is the panic value
      if (impl.splitOn "esc=1").length > 1 then (s, s!"specviol panic escaped into the caller: {impl}")
      else if m != impl then
        -- distinguish property-level disagreement (exception routing / close decision) from model detail
        (s, s!"specviol spec={m} impl={impl}")
      else (s, "ok")
    | _, _ => (s, "bad-op")
  -- ninvoke <entry> <kind> <pos> <headfail> r=<id>:<kind> esc=… trace=… closed=…   (open channel, reacting exception handler)
  | ["ninvoke", entry, kind, pos, hf, rx, esc, trace, closed] =>
    let rxs := (rx.drop 2).toString.splitOn ":"
    match kind.toNat?.bind Kind.ofNat?, pos.toNat?, rxs with
    | some k, some i, [rid, rkS] =>
      match rid.toNat?, rkS.toNat?.bind Kind.ofNat? with
      | some rid, some rk =>
        let headFails := if hf == "-" then none else parseVal hf
        let r := if rid == 0 then 0 else (s.hs.findIdx? (·.h.id == rid)).map (· + 1) |>.getD 0
        let res := if entry == "ctx" then ctxInvokeR s.hs headFails k i r rk else invokeR s.hs headFails k r rk
        let idOf (p : Nat) : Nat := ((s.hs[p-1]?).map (·.h.id)).getD 0
        let evs := res.trace.filter (fun e => match e with | .visit _ p => p != 0 && p != s.hs.length + 1 | .exc p _ => p != 0 && p != s.hs.length + 1)
        let m := if evs.isEmpty then "-" else ",".intercalate (evs.map (fun e => match e with
          | .visit k p => s!"v{k.idx}:{p}:{idOf p}"
          | .exc p v => s!"x{p}:{idOf p}={showVal (some v)}"))
        let want := s!"esc=0 trace={m} closed={showVal res.closedWith}"
        let got := s!"{esc} {trace} {closed}"
        if esc == "esc=hang" then (s, s!"specviol the call did not return: the channel is no longer usable although it was not closed ({entry} kind {kind})")
        else if esc == "esc=1" then (s, s!"specviol panic escaped into the caller: {got}")
        else if want != got then (s, s!"specviol spec={want} impl={got}")
        else
          let vals := (res.trace.filterMap (fun e => match e with | .exc _ v => some v | _ => none)).eraseDups
          (s, if vals.length ≥ 2 then "ok nested-exception" else if vals.length = 1 then "ok exception" else "ok")
      | _, _ => (s, "bad-op")
    | _, _, _ => (s, "bad-op")
  | _ => (s, "bad-op")

end Driver.C07
