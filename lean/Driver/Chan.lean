import NettyVerif.Model.Chan
import Driver.C04
/-! Driver part for the channel properties (C01 C02 C05 C06 C10 C11 C18): a *monitor* that follows an
    execution of the real, instrumented channel step by step.  For every scheduling step
    `(goroutine, yield label, select case)` it (1) maps the label to the abstract action of the Chan
    LTS (Model/Chan.lean) and checks that the action is enabled, (2) predicts the observable events of
    the step (returns, transport calls, spawned senders) and compares them with what the
    implementation emitted (`diff` on any mismatch), and (3) at the end of the execution evaluates
    the properties' own predicates on the implementation's observable event stream (`specviol`). -/
namespace Driver.Chan
open NettyVerif.Chan Driver.C04

abbrev Bytes := List UInt8

structure Thr where
  name : String
  ops : List String := []
  idx : Nat := 0
  kind : String := ""            -- current op kind
  ctx : String := "live"
  bufs : List Bytes := []
  closeArg : String := "nil"
  stage : Nat := 0               -- 0 = first closeErr read not yet done
  inClose : Bool := false        -- executing channel.Close as the winner
  closeVia : String := ""        -- "op" (a cl call) or "sender" (failure path)
  stallOp : String := ""         -- stalled transport: the write this thread is parked in ("write" | "writev")
  deriving Inhabited

/-- one observable event of the implementation, with the step it happened in -/
structure Ev where
  step : Nat
  tid : String
  text : String
  deriving Inhabited

structure S where
  st : St Bytes := {}
  thr : List Thr := []
  lingering : List String := []          -- names of lingering senders, parallel to st.lingering
  owner : String := ""                   -- name of the started owner
  closeErr : String := "nil"             -- value stored by the winning Close
  ctxs : List Bool := []                 -- cancellable caller contexts
  nSpawn : Nat := 0
  stepNo : Nat := 0
  evs : List Ev := []                    -- reversed
  bad : Option String := none            -- first diff of this execution (reported at `end`)
  blockedSeen : List String := []
  ctxParked : Option String := none     -- a writer whose context was already done was seen parked on the queue
  failAt : Nat := 0                      -- 1-based index of the transport write call that fails (0 = none)
  nWrites : Nat := 0
  failNext : Bool := false               -- the harness announced that the next transport write fails
  closeSleeps : Nat := 0                 -- polls of the winning Close (grace period accounting)
  stalled : Bool := false                -- the peer does not read: transport writes end (failing) only once the transport is closed
  conn : Option Bytes := none            -- buffered scenarios: what the connection under the library's buffered transport received
  deriving Inhabited

def getThr (s : S) (n : String) : Thr := (s.thr.find? (·.name == n)).getD { name := n }
def setThr (s : S) (t : Thr) : S :=
  if s.thr.any (·.name == t.name) then { s with thr := s.thr.map (fun x => if x.name == t.name then t else x) }
  else { s with thr := s.thr ++ [t] }

def parseBufs (p : String) : List Bytes := if p == "-" || p == "" then [] else (p.splitOn ",").filterMap unhex

/-- parse an op string of a thread program -/
def loadOp (t : Thr) : Thr :=
  match t.ops[t.idx]? with
  | none => t
  | some o =>
    match o.splitOn ":" with
    | [k, p] =>
      let k' := if k.endsWith "!" then (k.dropEnd 1).toString else k
      let k' := if k' == "sw" then "ww" else k'      -- a Writer() obtained before the scenario started: same code path
      if k' == "cl" then { t with kind := "cl", closeArg := p, stage := 0 }
      else if k' == "cx" then { t with kind := "cx", ctx := p, stage := 0 }
      else { t with kind := k', bufs := parseBufs p, ctx := "live", stage := 0 }
    | [k, c, p] =>
      let k' := if k.endsWith "!" then (k.dropEnd 1).toString else k
      { t with kind := k', ctx := c, bufs := parseBufs p, stage := 0 }
    | [k] => { t with kind := k, stage := 0, bufs := [] }
    | _ => t

def pkt (t : Thr) : Bytes := t.bufs.flatten
def hexList (bs : List Bytes) : String := if bs.isEmpty then "-" else ",".intercalate (bs.map hex)

def ctxDone (s : S) (c : String) : Bool :=
  if c == "done" then true
  else if c.startsWith "k" then ((c.drop 1).toString.toNat?.bind (s.ctxs[·]?)).getD false
  else false

def act (s : S) (a : Act Bytes) (what : String) : S :=
  match step s.st a with
  | some st' => { s with st := st' }
  | none => if s.bad.isSome then s else { s with bad := some s!"abstract action not enabled: {what} at step {s.stepNo}" }

def fail (s : S) (m : String) : S := if s.bad.isSome then s else { s with bad := some s!"{m} at step {s.stepNo}" }

def retEv (t : Thr) (n : Nat) (e : String) : String := s!"ret:{t.idx}:{n}:{e}"

/-- finish the current call of thread `t` -/
def finish (t : Thr) : Thr := { t with idx := t.idx + 1, stage := 0, inClose := false }

/-- Close steps shared by `cl` calls and the sender failure path.  Returns new state and expected events. -/
def closeStep (s : S) (t : Thr) (label : String) : S × Thr × List String :=
  let done (s : S) (t : Thr) : S × Thr × List String :=
    if t.closeVia == "op" then (s, finish t, [retEv t 0 "nil"]) else (s, { t with inClose := false }, [])
  match label with
  | "Close.cas-closed" =>
    if s.st.closed then
      let s := act s .closeCas "closeCas(loser)"
      done s t
    else (act s .closeCas "closeCas", { t with inClose := true }, [])
  | "Close.len-queue" => (act s .closeLen "closeLen", t, [])
  | "Close.load-running" => (act s .closeLoad "closeLoad", t, [])
  | "Close.sleep" => ({ (act s .closeSleep "closeSleep") with closeSleeps := s.closeSleeps + 1 }, t, [])
  | "Close.closeerr" => ({ (act s .closeSetErr "closeSetErr") with closeErr := t.closeArg }, t, [])
  | "Close.tr-close" => (act s .closeTr "closeTr", t, ["tr:close"])
  | "Close.cancel" => (act s .closeCancel "closeCancel", t, [])
  | "invokeMethod.load-closed" =>
    let s := act s .closeFire "closeFire"
    done s t
  | _ => (fail s s!"unexpected label {label} inside Close", t, [])

/-- a client (writer / closer / canceller) thread step -/
def clientStep (s : S) (t : Thr) (label : String) (case : Int) : S × Thr × List String :=
  let len := (pkt t).length
  let asyncW1 := t.kind == "w1" || t.kind == "ww" || t.kind == "cw1"
  if label == "start" || label == "call" then
    let t := loadOp t
    let b := s!"begin:{t.idx}:{(t.ops[t.idx]?).getD "?"}"
    if t.kind == "px" then
      (act s .parentCancel "parentCancel", finish t, [b, retEv t 0 "nil"])
    else if t.kind == "cx" then
      let k := ((t.ctx).toNat?).getD 0
      ({ s with ctxs := s.ctxs.set k true }, finish t, [b, retEv t 0 "nil"])
    else (s, t, [b])
  else if t.inClose || label.startsWith "Close." then closeStep s t label
  else match label with
  | "IsActive.load-closed" => (s, finish t, [retEv t (if s.st.closed then 0 else 1) "nil"])
  -- closedError(): entry check of every write entry point (stage 0) or the error of the closed branch (stage 2)
  | "closedError.load-closed" =>
    if s.st.closed then
      (if t.stage == 0 then act s .rejectWrite "rejectWrite" else s, { t with stage := t.stage + 10 }, [])
    else if s.st.parentDone then      -- not closed yet, but the parent context ended: closedError() = ctx.Err()
      (if t.stage == 0 then act s .rejectWrite "rejectWrite(parent)" else s, finish t, [retEv t 0 "ctx"])
    else if t.stage == 0 then (act s .beginWrite "beginWrite", { t with stage := 1 }, [])
    else (fail s "closed branch taken but channel not closed", t, [])
  | "closedError.closeerr" =>
    if t.stage >= 10 then
      let e := if s.st.closeErrSet && s.closeErr != "nil" then s.closeErr else "chclosed"
      (s, finish t, [retEv t 0 e])
    else (fail s "close error read without closed flag", t, [])
  | "asyncWrite.pool-get" | "asyncWritev.pool-get" => (s, t, [])
  -- the write deadline belongs to the shared transport: only a synchronous channel's caller (who holds the write lock) arms it
  | "CtxWrite1.tr-deadline" | "CtxWritev.tr-deadline" =>
    if s.st.sync then (s, t, []) else (fail s s!"{t.name} arms the transport's write deadline on a queued channel (the sender owns the transport)", t, [])
  -- a foreign user of the buffer pool scribbling on buffers it obtained: five rounds, no channel action
  | "ps" => if t.stage + 1 < 5 then (s, { t with stage := t.stage + 1 }, []) else (s, finish t, [retEv t 0 "nil"])
  | "asyncWrite.select" | "asyncWritev.select" =>
    if case == 2 then (act s (.enqueue (pkt t)) "enqueue", t, [])
    else if case == 0 then
      if ctxDone s t.ctx then (act s .abortCtx "abortCtx", finish t, [retEv t 0 "ctx"]) else (fail s "caller-context case taken but context live", t, [])
    else if case == 1 then
      if s.st.ctxDone || s.st.parentDone then (act s .abortClosed "abortClosed", { t with stage := 2 }, []) else (fail s "channel-context case taken but context live", t, [])
    else (act s .noSpace "noSpace", finish t, [retEv t 0 "nospace"])
  | "asyncWrite.cas-running" | "asyncWritev.cas-running" =>
    let won := !s.st.running
    let s := act s .casWriter "casWriter"
    if won then (s, t, []) else (s, finish t, [retEv t len "nil"])
  | "asyncWrite.exec" | "asyncWritev.exec" =>
    let name := s!"S{s.nSpawn + 1}"
    ({ s with nSpawn := s.nSpawn + 1 }, finish t, [s!"spawn:{name}", retEv t len "nil"])
  -- synchronous channel
  | "write1.lock" | "Writev.lock" | "CtxWrite1.lock" | "CtxWritev.lock" => (act s .lock "lock", t, [])
  | "write1.tr-write" | "CtxWrite1.tr-write" | "Writev.tr-writev" | "CtxWritev.tr-writev" =>
    let op := if label.endsWith "tr-write" then "write" else "writev"
    if s.stalled then (s, { t with stallOp := op }, [])      -- parks inside the transport until it is closed
    else if s.st.trClosed then
      let s := act s (.syncWrite (pkt t) false) "syncWrite(fail)"
      (s, finish t, [s!"tr:{op}:-!closed", retEv t 0 "trclosed"])
    else
      let shown := if op == "write" then hex (pkt t) else hexList t.bufs
      (act s (.syncWrite (pkt t) true) "syncWrite", t, [s!"tr:{op}:{shown}"])
  | "tr.stalled" =>
    -- resumed: the transport has been closed under the write
    if !s.st.trClosed then (fail s s!"{t.name} left a stalled transport write although the transport is open", t, [])
    else
      let s := act s (.syncWrite (pkt t) false) "syncWrite(fail)"
      (s, finish { t with stallOp := "" }, [s!"tr:{t.stallOp}:-!closed", retEv t 0 "trclosed"])
  | "write1.tr-flush" | "CtxWrite1.tr-flush" | "Writev.tr-flush" | "CtxWritev.tr-flush" =>
    let s := act s .syncFlush "syncFlush"
    (s, finish t, ["tr:flush", retEv t len "nil"])
  | _ =>
    let _ := asyncW1
    (fail s s!"unexpected label {label} in client thread {t.name}", t, [])

/-- a sender (writeOnce) thread step -/
def senderStep (s : S) (t : Thr) (label : String) (case : Int) : S × Thr × List String :=
  if t.inClose || label.startsWith "Close." || label == "invokeMethod.load-closed" then
    closeStep s { t with closeVia := "sender" } label
  else match label with
  | "start" => ({ (act s .exec "exec") with owner := t.name }, t, [])
  | "writeOnce.select" =>
    if case == 0 then (act s .sndRecv "sndRecv", t, []) else (act s .sndDefault "sndDefault", t, [])
  | "tr.stalled" =>
    if !s.st.trClosed then (fail s s!"{t.name} left a stalled transport write although the transport is open", t, [])
    else (act s (.sndWritev false) "sndWritev(fail)", { t with closeArg := "other" }, ["tr:writev:-!closed"])
  | "writeOnce.tr-writev" =>
    if s.stalled then (s, t, [])
    else if s.st.trClosed then (act s (.sndWritev false) "sndWritev(fail)", { t with closeArg := "other" }, ["tr:writev:-!closed"])
    else if s.failNext then ({ (act s (.sndWritev false) "sndWritev(injected)") with failNext := false }, { t with closeArg := "other" }, ["tr:writev:-!injected"])
    else
      let b := s.st.batch
      (act s (.sndWritev true) "sndWritev", t, [s!"tr:writev:{hexList b}"])
  | "writeOnce.pool-put" => (act s .sndPut "sndPut", t, [])
  | "writeOnce.len-queue" =>
    if s.owner == t.name && s.st.snd == some .len1 then (act s .sndLen1 "sndLen1", t, [])
    else match s.lingering.findIdx? (· == t.name) with
      | some i =>
        let stays := s.st.q.length > 0
        let s := act s (.lingLen i) "lingLen"
        (if stays then s else { s with lingering := s.lingering.eraseIdx i }, t, [])
      | none => (fail s s!"len-queue by {t.name}: neither owner at len1 nor lingering", t, [])
  | "writeOnce.tr-flush" => (act s (.sndFlush true) "sndFlush", t, ["tr:flush"])
  | "writeOnce.store-failed" => (act s .sndFailMark "sndFailMark", t, [])
  | "writeOnce.store-running" =>
    if s.st.snd == some .failedStore then ({ (act s .sndFailStore "sndFailStore") with owner := "" }, t, [])
    else ({ (act s .sndStore "sndStore") with owner := "", lingering := s.lingering ++ [t.name] }, t, [])
  | "writeOnce.cas-running" =>
    match s.lingering.findIdx? (· == t.name) with
    | some i =>
      let won := !s.st.running
      let s := act s (.lingCas i) "lingCas"
      ({ s with lingering := s.lingering.eraseIdx i, owner := if won then t.name else s.owner }, t, [])
    | none => (fail s s!"cas-running by {t.name} which is not lingering", t, [])
  | _ => (fail s s!"unexpected label {label} in sender thread {t.name}", t, [])

def isSender (n : String) : Bool := n.startsWith "S"

def doStep (s : S) (tid label : String) (case : Int) (events : List String) : S :=
  -- a connection-level write inside the library's buffered transport: a scheduling point, not a step of the channel
  if label == "conn.write" then { s with stepNo := s.stepNo + 1 } else
  let t := getThr s tid
  let isWrite := label.endsWith "tr-writev" || label.endsWith "tr-write"
  let s := { s with stepNo := s.stepNo + 1, nWrites := if isWrite then s.nWrites + 1 else s.nWrites }
  let s := { s with failNext := isWrite && s.failAt != 0 && s.nWrites == s.failAt }
  let (s, t, expected) := if isSender tid then senderStep s t label case else clientStep s t label case
  let s := setThr s t
  let s := if expected != events then
      fail s s!"events differ at {tid}@{label}: model=[{" ".intercalate expected}] impl=[{" ".intercalate events}]"
    else s
  { s with evs := (events.map (fun e => { step := s.stepNo, tid := tid, text := e })).reverse ++ s.evs }

end Driver.Chan

namespace Driver.Chan
open NettyVerif.Chan Driver.C04

structure Call where
  tid : String
  idx : Nat
  kind : String
  payload : Bytes
  beginStep : Nat
  retStep : Option Nat := none
  n : Nat := 0
  err : String := ""
  deriving Inhabited

/-- a unit handed to the transport: one queued packet (async) or one whole call (sync) -/
structure TrUnit where
  step : Nat
  data : Bytes
  pos : Nat
  deriving Inhabited

def opPayload (op : String) : String × Bytes :=
  match op.splitOn ":" with
  | [k, p] => ((if k.endsWith "!" then (k.dropEnd 1).toString else k), (parseBufs p).flatten)
  | [k, _, p] => ((if k.endsWith "!" then (k.dropEnd 1).toString else k), (parseBufs p).flatten)
  | [k] => (k, [])
  | _ => ("?", [])

def isWriteKind (k : String) : Bool := k == "w1" || k == "wv" || k == "ww" || k == "sw" || k == "cw1" || k == "cwv"

def collectCalls (evs : List Ev) : List Call :=
  evs.foldl (fun (cs : List Call) e =>
    match e.text.splitOn ":" with
    | "begin" :: i :: rest =>
      let (k, p) := opPayload (":".intercalate rest)
      cs ++ [{ tid := e.tid, idx := i.toNat?.getD 0, kind := k, payload := p, beginStep := e.step }]
    | ["ret", i, n, err] =>
      cs.map (fun c => if c.tid == e.tid && c.idx == i.toNat?.getD 0 && c.retStep.isNone then
        { c with retStep := some e.step, n := n.toNat?.getD 0, err := err } else c)
    | _ => cs) []

def collectUnits (sync : Bool) (evs : List Ev) : List TrUnit :=
  let us := evs.foldl (fun (us : List TrUnit) e =>
    if (e.text.splitOn "!").length > 1 then us else
    match e.text.splitOn ":" with
    | ["tr", "write", p] => us ++ [{ step := e.step, data := (unhex p).getD [], pos := 0 }]
    | ["tr", "writev", p] =>
      let bs := parseBufs p
      if sync then us ++ [{ step := e.step, data := bs.flatten, pos := 0 }]
      else us ++ bs.map (fun b => { step := e.step, data := b, pos := 0 })
    | _ => us) []
  (us.zip (List.range us.length)).map (fun (u, i) => { u with pos := i })

/-- match every non-empty transport unit to a distinct call with that payload (first unmatched) -/
def matchUnits (calls : List Call) (units : List TrUnit) : List (TrUnit × Option Nat) × List Nat :=
  units.foldl (fun (acc : List (TrUnit × Option Nat) × List Nat) u =>
    if u.data.isEmpty then acc else
    let cand := (List.range calls.length).find? (fun i =>
      !acc.2.contains i && isWriteKind calls[i]!.kind && calls[i]!.payload == u.data && calls[i]!.beginStep ≤ u.step)
    match cand with
    | some i => (acc.1 ++ [(u, some i)], i :: acc.2)
    | none => (acc.1 ++ [(u, none)], acc.2)) ([], [])

def firstSome {β : Type} (l : List β) (f : β → Option String) : Option String :=
  l.foldl (fun acc x => match acc with | some v => some v | none => f x) none

/-- the properties' predicates on the observable event stream of one execution -/
def specCheck (prop : String) (s : S) (endStatus : String) (parked : String := "-") : Option String :=
  let evs := s.evs.reverse
  let calls := collectCalls evs
  let units := collectUnits s.st.sync evs
  let (matched, _) := matchUnits calls units
  let closeBegins := calls.filter (·.kind == "cl")
  let firstCloseBegin := (closeBegins.map (·.beginStep)).foldl min 1000000
  let firstCloseRet := ((closeBegins.filterMap (·.retStep))).foldl min 1000000
  let trCloseStep := ((evs.filter (·.text == "tr:close")).map (·.step)).foldl min 1000000
  let anyFailure := evs.any (fun e => (e.text.splitOn "!").length > 1)
  -- C01 / C10: every unit is a whole, unmodified payload of a distinct call
  let c1 := firstSome matched (fun (u, m) => match m with
    | none => some s!"transport received bytes that are not the payload of any call (or a duplicate): {hex u.data} at step {u.step}"
    | some i => let c := calls[i]!
      if c.retStep.isSome && c.err != "nil" && c.retStep.getD 0 ≤ u.step then
        some s!"payload of a call that returned error {c.err} reached the transport: {c.tid}#{c.idx}"
      else none)
  -- order: real time and per goroutine
  let pairs := matched.filterMap (fun (u, m) => m.map (fun i => (u, calls[i]!)))
  let c2 := firstSome pairs (fun (u1, a) => firstSome pairs (fun (u2, b) =>
    if u1.pos < u2.pos then
      if (b.retStep.getD 1000000) < a.beginStep then some s!"order: {b.tid}#{b.idx} returned before {a.tid}#{a.idx} began but its payload is behind it on the wire"
      else if a.tid == b.tid && b.idx < a.idx then some s!"order: payloads of {a.tid} out of call order (#{b.idx} after #{a.idx})"
      else none
    else none))
  -- success returns report the payload length
  let c3 := firstSome calls (fun c => if isWriteKind c.kind && c.retStep.isSome && c.err == "nil" && c.n != c.payload.length then
      some s!"{c.tid}#{c.idx} returned success with n={c.n} for {c.payload.length} bytes" else none)
  -- C02: at quiescence of an open, healthy channel everything accepted was sent and flushed
  let open_ := closeBegins.isEmpty && !anyFailure
  let c4 := if endStatus == "quiescent" && open_ && (prop == "C02" || prop == "C01" || prop == "C10" || prop == "C18") then
      (firstSome (List.range calls.length) (fun i => let c := calls[i]!
        if isWriteKind c.kind && c.err == "nil" && c.retStep.isSome && !c.payload.isEmpty && !(pairs.any (fun (_, d) => d.tid == c.tid && d.idx == c.idx)) then
          some s!"stranded: {c.tid}#{c.idx} reported success but its payload never reached the transport"
        else none)).orElse (fun _ =>
        let trs := evs.filter (fun e => e.text.startsWith "tr:")
        match trs.getLast? with
        | some e => if e.text.startsWith "tr:write" then some "stranded: last transport call is a write without a following flush" else none
        | none => none)
    else none
  -- C06: payloads accepted before Close was invoked are written and flushed before the transport is closed
  let injected := evs.any (fun e => e.text.endsWith "!injected")
  let gaveUp := !s.st.untilW && s.closeSleeps ≥ 10     -- bounded wait: sender stalled beyond the grace period
  let c5 := if (prop == "C06" || prop == "C05") && !gaveUp && !injected then
      firstSome calls (fun c =>
        if isWriteKind c.kind && c.err == "nil" && (c.retStep.getD 1000000) < firstCloseBegin && !c.payload.isEmpty && trCloseStep < 1000000 then
          match pairs.find? (fun (_, d) => d.tid == c.tid && d.idx == c.idx) with
          | none => some s!"graceful close: {c.tid}#{c.idx} accepted before Close but never transmitted"
          | some (u, _) =>
            if u.step > trCloseStep then some s!"graceful close: {c.tid}#{c.idx} transmitted after the transport was closed"
            else if !(evs.any (fun e => e.text == "tr:flush" && e.step ≥ u.step && e.step < trCloseStep)) then
              some s!"graceful close: {c.tid}#{c.idx} written but not flushed before the transport was closed"
            else none
        else none)
    else none
  -- C11: after a Close call has returned every write fails and transmits nothing
  let c6 := if prop == "C11" then
      firstSome calls (fun c =>
        if isWriteKind c.kind && c.beginStep > firstCloseRet && c.retStep.isSome then
          if c.err == "nil" then some s!"write on closed channel: {c.tid}#{c.idx} ({c.kind}) begun after Close returned reported success"
          else if pairs.any (fun (_, d) => d.tid == c.tid && d.idx == c.idx) then some s!"write on closed channel: {c.tid}#{c.idx} transmitted bytes"
          else none
        else none)
    else none
  -- C05: IsActive is false as soon as any Close call has returned
  let c6b := firstSome calls (fun c => if c.kind == "ia" && c.beginStep > firstCloseRet && c.retStep.isSome && c.n != 0 then
      some s!"IsActive() returned true after a Close call had returned ({c.tid}#{c.idx})" else none)
  -- C05 / C07: a transport failure in the sender closes the channel (transport closed, context cancelled)
  let c6c := if injected && endStatus == "quiescent" && trCloseStep == 1000000 then some "sender transport failure did not close the channel" else none
  -- C05: a Close call returns (in these scenarios nothing but the channel itself can keep it: a stalled transport write ends when the transport is closed)
  let c6e := if endStatus == "deadlock" || (endStatus == "quiescent" && s.stalled && (parked.splitOn "@Close.").length > 1) then
      firstSome closeBegins (fun c => if c.retStep.isNone then
        some s!"Close never returns: {c.tid}#{c.idx} is blocked for ever (transport closed {(evs.filter (·.text == "tr:close")).length} times) while a transport write that only transport.Close can end is in flight" else none)
    else none
  let c6d := if endStatus == "steplimit" then some "execution does not terminate (a goroutine spins forever)" else none
  -- C05: the transport is closed at most once
  let c7 := if (evs.filter (·.text == "tr:close")).length > 1 then some "transport closed more than once" else none
  -- C18: non-blocking mode never parks a writer on the queue
  let c8 := if !s.st.untilW && !s.st.sync then
      firstSome s.blockedSeen (fun b => if (b.splitOn "asyncWrite").length > 1 then some s!"non-blocking mode: writer parked waiting for queue space ({b})" else none)
    else none
  -- C18: cancellation is honoured while waiting for queue space
  let c9 := s.ctxParked.map (fun b => s!"a writer whose context is already cancelled is parked ({b}) instead of returning: waiting for queue space, or for a lock taken on the way to the queue")
  -- buffered transport: the connection must have received exactly the bytes handed to the transport, once and in
  -- order: a prefix of them, and all of those written before the last flush
  let c10 := match s.conn with
    | none => none
    | some w =>
      let okWrites := evs.filter (fun (e : Ev) => (e.text.startsWith "tr:write") && (e.text.splitOn "!").length == 1)
      let dataOf (e : Ev) : Bytes := match e.text.splitOn ":" with
        | [_, _, p] => (parseBufs p).flatten
        | _ => []
      let all := (okWrites.map dataOf).flatten
      let lastFlush := ((evs.filter (fun (e : Ev) => e.text == "tr:flush" && e.step < trCloseStep)).map (fun (e : Ev) => e.step)).foldl max 0
      let flushed := ((okWrites.filter (fun (e : Ev) => e.step < lastFlush)).map dataOf).flatten
      if w != all.take w.length then
        some s!"the connection under the buffered transport received {hex w}, which is not a prefix of the bytes written to the transport {hex all} (bytes duplicated, lost or reordered between two goroutines inside the transport)"
      else if w.length < flushed.length then
        some s!"the connection received only {w.length} of the {flushed.length} bytes written before the last flush"
      else none
  c9.orElse fun _ => c10.orElse fun _ =>
  c1.orElse (fun _ => c2.orElse (fun _ => c3.orElse (fun _ => c4.orElse (fun _ => c5.orElse (fun _ => c6.orElse (fun _ => c6b.orElse (fun _ => c6c.orElse (fun _ => c6e.orElse (fun _ => c6d.orElse (fun _ => c7.orElse (fun _ => c8)))))))))))

def handle (prop : String) (s : S) : List String → S × String
  | ["cfg", sync, cap, until_] =>
    ({ st := { sync := sync == "1", cap := cap.toNat?.getD 1, untilW := until_ == "1" }, ctxs := [false, false, false, false] }, "ok")
  | ["cfg", sync, cap, until_, _buf] =>
    ({ st := { sync := sync == "1", cap := cap.toNat?.getD 1, untilW := until_ == "1" }, ctxs := [false, false, false, false] }, "ok")
  | ["conn", h] => ({ s with conn := some ((unhex h).getD []) }, "ok")
  | ["failwrite", k] => ({ s with failAt := k.toNat?.getD 0 }, "ok")
  | ["stalled"] => ({ s with stalled := true }, "ok")
  | "thr" :: name :: ops => (setThr s { name := name, ops := ops, closeVia := "op" }, "ok")
  | "step" :: tid :: label :: case :: events =>
    let blocked := events.filter (·.startsWith "blocked=")
    let events := events.filter (fun e => !e.startsWith "blocked=")
    let bl := blocked.flatMap (fun b => ((b.drop 8).toString.splitOn ","))
    let s := { s with blockedSeen := s.blockedSeen ++ bl }
    -- a select with a ready ctx.Done() case cannot block: a caller whose context is already done must not be parked on the queue
    let s := bl.foldl (fun s b =>
      match b.splitOn "@" with
      | [tn, point] =>
        let t := getThr s tn
        let cancelled := t.ctx == "done" || (t.ctx.startsWith "k" && (s.ctxs[((t.ctx.drop 1).toString.toNat?).getD 9]?).getD false)
        -- … nor anywhere else inside a context-aware write on a queued channel (a lock taken before the queue is looked at)
        if cancelled && ((point.splitOn "asyncWrite").length > 1 || (!s.st.sync && point.startsWith "CtxWrite")) && s.ctxParked.isNone then { s with ctxParked := some b } else s
      | _ => s) s
    (doStep s tid label (case.toInt?.getD (-2)) events, "ok")
  | ["end", status, parked] =>
    let spec := specCheck prop s status parked
    let s' : S := {}
    match spec with
    | some v => (s', s!"specviol {v}")
    | none =>
      match s.bad with
      | some b => (s', s!"diff {b}")
      | none =>
        if status != "quiescent" then (s', s!"diff execution ended with {status} parked={parked}")
        else if parked == "-" && !s.st.quiescent then (s', "diff implementation quiescent but abstract state is not")
        else (s', "ok")
  | _ => (s, "bad-op")

end Driver.Chan
