import Driver.C19
import Driver.C03
import Driver.C04
import Driver.C17
import Driver.C14
import Driver.Chan
import Driver.C07
import Driver.C20
import Driver.C13
import Driver.C12
import Driver.C09
import Driver.C16
import Driver.C15
import Driver.Life
import Driver.C11
/-! nvdriver: line protocol. Each input line `<PROP> <tokens…>` is answered by exactly one line:
    `ok[ …]` | `diff …` (model and implementation disagree) | `specviol …` (the implementation's
    own answer violates the property predicate) | `bad-op`. -/

structure DS where
  c19 : Driver.C19.S := {}
  c03 : Driver.C03.S := {}
  c17 : Driver.C17.S := {}
  chan : Driver.Chan.S := {}
  c07 : Driver.C07.S := {}
  c20 : Driver.C20.S := {}
  c13 : Driver.C13.S := {}
  c09 : Driver.C09.S := {}
  c15 : Driver.C15.S := {}
  life : Driver.Life.S := {}

def dispatch (d : DS) (line : String) : DS × String :=
  match (line.trimAscii.toString.splitOn " ").filter (· ≠ "") with
  | "C19" :: rest => let (s, o) := Driver.C19.handle d.c19 rest; ({ d with c19 := s }, o)
  | "C03" :: rest => let (s, o) := Driver.C03.handle d.c03 rest; ({ d with c03 := s }, o)
  | "C17" :: rest => let (s, o) := Driver.C17.handle d.c17 rest; ({ d with c17 := s }, o)
  | "C01" :: rest => let (s, o) := Driver.Chan.handle "C01" d.chan rest; ({ d with chan := s }, o)
  | ["C02", "burst", n, accepted, delivered] =>
    (d, if (accepted.drop 9).toString != (delivered.drop 10).toString then
          s!"specviol stranded: of {(accepted.drop 9).toString} payloads accepted during a burst of {(n.drop 2).toString} writes only {(delivered.drop 10).toString} were handed to the transport after the traffic had stopped"
        else "ok burst")
  | "C02" :: rest => let (s, o) := Driver.Chan.handle "C02" d.chan rest; ({ d with chan := s }, o)
  | "C05" :: rest => let (s, o) := Driver.Chan.handle "C05" d.chan rest; ({ d with chan := s }, o)
  | ["C06", "http", want, body, closed] =>
    -- the HTTP `Connection: close` path on a channel that waits for pending writes, in real time
    (d, if (closed.drop 7).toString != "1" then "specviol graceful close (HTTP Connection: close): the connection was not closed within 20 s"
        else if (want.drop 5).toString != (body.drop 5).toString then
          s!"specviol graceful close (HTTP Connection: close): the peer received {(body.drop 5).toString} of {(want.drop 5).toString} body bytes the handler had written before the transport was closed"
        else "ok graceful")
  | ["C06", "deadline", variant, want, got] =>
    -- a caller's context deadline must not reach the transport of a queued channel: the sender's write in flight carries accepted payloads
    (d, if (want.drop 5).toString != (got.drop 4).toString then
          s!"specviol graceful close: the peer received {(got.drop 4).toString} although {(want.drop 5).toString} had been accepted before Close was invoked (a CtxWrite call with a deadline was made meanwhile: {variant})"
        else "ok graceful")
  | "C06" :: rest => let (s, o) := Driver.Chan.handle "C06" d.chan rest; ({ d with chan := s }, o)
  | "C10" :: rest => let (s, o) := Driver.Chan.handle "C10" d.chan rest; ({ d with chan := s }, o)
  | "C11" :: "rf" :: rest => (d, Driver.C11.handle ("rf" :: rest))
  | "C11" :: "pw" :: rest => (d, Driver.C11.handle ("pw" :: rest))
  | "C11" :: rest => let (s, o) := Driver.Chan.handle "C11" d.chan rest; ({ d with chan := s }, o)
  | "C18" :: "rf" :: rest => (d, Driver.C11.handle18 ("rf" :: rest))
  | "C18" :: "qfill" :: rest => (d, Driver.C11.handle18 ("qfill" :: rest))
  | "C18" :: "park" :: rest => (d, Driver.C11.handle18 ("park" :: rest))
  | "C18" :: rest => let (s, o) := Driver.Chan.handle "C18" d.chan rest; ({ d with chan := s }, o)
  | "C07" :: rest =>
    match rest with
    | "new" :: _ | "hdl" :: _ | "add" :: _ | "invoke" :: _ | "ninvoke" :: _ => let (s, o) := Driver.C07.handle d.c07 rest; ({ d with c07 := s }, o)
    | _ => let (s, o) := Driver.Chan.handle "C07" d.chan rest; ({ d with chan := s }, o)
  | "C20" :: rest => let (s, o) := Driver.C20.handle d.c20 rest; ({ d with c20 := s }, o)
  | "C13" :: rest => let (s, o) := Driver.C13.handle d.c13 rest; ({ d with c13 := s }, o)
  | "C09" :: rest => let (s, o) := Driver.C09.handle d.c09 rest; ({ d with c09 := s }, o)
  | "C12" :: rest => (d, Driver.C12.handle rest)
  | "C15" :: rest => let (s, o) := Driver.C15.handle d.c15 rest; ({ d with c15 := s }, o)
  | "C05L" :: rest => let (s, o) := Driver.Life.handle d.life rest; ({ d with life := s }, o)
  | "C16" :: rest => (d, Driver.C16.handle rest)
  | "C14" :: rest => (d, Driver.C14.handle rest)
  | "C04" :: rest => (d, Driver.C04.handle rest)
  | "C08" :: rest => (d, Driver.C04.handle rest)
  | _ => (d, "bad-op")

partial def loop (h : IO.FS.Stream) (out : IO.FS.Stream) (d : DS) : IO Unit := do
  let line ← h.getLine
  if line.isEmpty then return ()
  let (d', o) := dispatch d line
  out.putStrLn o
  loop h out d'

def main : IO Unit := do
  let stdin ← IO.getStdin
  let stdout ← IO.getStdout
  loop stdin stdout {}
  stdout.flush
