import NettyVerif.Model.Frame
import NettyVerif.Model.VarLen
import NettyVerif.Model.ExactReader
/-! Driver part for C04 and C08 (frame codecs): model (chunk level) vs implementation = `diff`;
    specification (repaired decoders on the flattened stream; encoder header = body length under the
    decoder's reading) vs implementation = `specviol`. -/
namespace Driver.C04
open NettyVerif.Frame

def hexVal (c : Char) : Option Nat :=
  if '0' ≤ c ∧ c ≤ '9' then some (c.toNat - '0'.toNat)
  else if 'a' ≤ c ∧ c ≤ 'f' then some (c.toNat - 'a'.toNat + 10) else none

def unhexL : List Char → Option Bytes
  | [] => some []
  | [_] => none
  | a :: b :: rest => do
    let x ← hexVal a; let y ← hexVal b; let r ← unhexL rest
    pure (UInt8.ofNat (x * 16 + y) :: r)

def unhex (s : String) : Option Bytes := if s == "-" then some [] else unhexL s.toList

def hexDigit (n : Nat) : Char := if n < 10 then Char.ofNat (48 + n) else Char.ofNat (87 + n)

def hex (b : Bytes) : String :=
  if b.isEmpty then "-" else String.ofList (b.flatMap (fun x => [hexDigit (x.toNat / 16), hexDigit (x.toNat % 16)]))

def parseFin : String → Option RErr
  | "eof" => some .eof | "ueof" => some .unexpectedEOF | "other" => some .other | _ => none

inductive Spec where
  | codec (c : Codec)
  | prep (c : PrepCfg)
  | varlen (max : Int)          -- VariableLengthCodec: no framing, one message per transport read of at most max bytes

def parseSpec (s : String) : Option Spec :=
  match s.splitOn ":" with
  | ["lf", big, max, off, fl, adj, strip] => do
    let c : LFCfg := { big := big == "1", max := ← max.toInt?, offset := ← off.toInt?, fieldLen := ← fl.toInt?,
                       adj := ← adj.toInt?, strip := ← strip.toInt? }
    pure (.codec (.lf c))
  | ["pp", big, fl, adj, incl] => do
    pure (.prep { big := big == "1", fieldLen := ← fl.toInt?, adj := ← adj.toInt?, incl := incl == "1" })
  | ["vi", max] => do pure (.codec (.varint (← max.toInt?)))
  | ["dl", d, max, strip] => do pure (.codec (.delim (← unhex d) (← max.toInt?) (strip == "1")))
  | ["fx", n] => do pure (.codec (.fixed (← n.toInt?)))
  | ["vl", m] => do pure (.varlen (← m.toInt?))
  | _ => none

def validSpec : Spec → Bool
  | .codec (.lf c) => c.valid
  | .codec (.varint m) => m > 0
  | .codec (.delim d m _) => m > 0 && !d.isEmpty
  | .codec (.fixed n) => n > 0
  | .prep c => c.fieldLen == 1 || c.fieldLen == 2 || c.fieldLen == 4 || c.fieldLen == 8
  | .varlen m => m > 0

def encode : Spec → Bytes → Option Bytes
  | .codec (.lf c), b => encodePrep c.prep b
  | .codec (.varint m), b => encodeVarint m b
  | .codec (.delim d _ _), b => some (encodeDelim d b)
  | .codec (.fixed _), b => some b
  | .prep c, b => encodePrep c b
  | .varlen _, b => some b

/-- encoder soundness, stated on the implementation's own output: the header must read back, under
    the decoder's reading of the field, as the length the configuration defines -/
def encSound (sp : Spec) (payload out : Bytes) : Option String :=
  let chk (big : Bool) (fl adj : Int) (incl : Bool) : Option String :=
    let want : Int := payload.length + adj + (if incl then fl else 0)
    let hdr := out.take fl.toNat
    if hdr.length ≠ fl.toNat then some "short-header"
    else if (unpack big hdr : Int) ≠ want then some s!"header-disagrees-with-body want={want} header={unpack big hdr}"
    else if fl = 8 ∧ want ≥ 2^63 then some "header-not-representable-as-int64"
    else if out.drop fl.toNat ≠ payload then some "body-altered"
    else none
  match sp with
  | .codec (.lf c) => chk c.big c.fieldLen 0 false
  | .prep c => chk c.big c.fieldLen c.adj c.incl
  | _ => none

def total (cs : List Bytes) : Nat := (cs.map List.length).foldl (· + ·) 0

/-- the read loop rendered as the harness renders it -/
def renderLoop (exact : Bool) (c : Codec) (tot : Nat) : Nat → List Bytes → RErr → String
  | 0, _, _ => "loop"
  | fuel+1, cs, fin =>
    match stepRead exact c cs fin with
    | .raise rest => s!"raise@{tot - total rest}"
    | .msg m rest => s!"m={hex m}@{tot - total rest} " ++ renderLoop exact c tot fuel rest fin

def verdict (modelStr specStr implStr : String) : String :=
  if specStr != implStr then s!"specviol spec={specStr.take 160} impl={implStr.take 160}"
  else if modelStr != implStr then s!"diff model={modelStr.take 160} impl={implStr.take 160}"
  else "ok"

def errName : Option RErr → String
  | none => "nil" | some .eof => "eof" | some .unexpectedEOF => "ueof" | some .other => "other"

def hexD (b : Bytes) : String := if b.isEmpty then "-" else hex b

/-- the exact reader, call by call, as the consumer of the harness drives it (stops at the first error) -/
def xrRun (fin : RErr) : List Nat → Int → List Bytes → List String
  | [], _, _ => []
  | p :: ps, n, cs =>
    let r := NettyVerif.ExactR.read n p cs fin
    let line := s!"{hexD r.1.data}:{errName r.1.err}"
    match r.1.err with
    | some _ => [line]
    | none => line :: xrRun fin ps r.2.1 r.2.2

/-- the property on the implementation's answers alone: what the reader delivered is a prefix of the
    stream of at most `n` bytes, and a clean end means exactly `n` bytes -/
def xrSpec (n : Int) (stream : Bytes) (calls : List String) : Option String :=
  let datas := calls.map (fun c => match c.splitOn ":" with | d :: _ => (if d == "-" then some [] else unhex d) | _ => none)
  if datas.any (·.isNone) then some "unparsable call" else
  let got := (datas.map (·.getD [])).flatten
  let lastErr := match calls.getLast? with | some c => (c.splitOn ":").getLast! | none => "nil"
  if got != stream.take got.length then some s!"the exact reader delivered {hexD got}, which is not a prefix of the stream {hexD (stream.take (got.length + 4))}"
  else if (got.length : Int) > (if n < 0 then 0 else n) then some s!"the exact reader delivered {got.length} bytes of a frame declared as {n}"
  else if lastErr == "eof" && (got.length : Int) < n then some s!"the exact reader reported a clean end of the frame after {got.length} of {n} bytes (a frame cut short is taken for a complete one)"
  else none

def handle : List String → String
  | "xr" :: n :: fin :: chunks :: plens :: calls =>
    match n.toInt?, parseFin fin, (if chunks == "-" then some [] else (chunks.splitOn ",").mapM (fun c => if c == "" then some [] else unhex c)),
          (if plens == "-" then some [] else (plens.splitOn ",").mapM String.toNat?) with
    | some n, some fin, some cs, some ps =>
      match xrSpec n cs.flatten calls with
      | some v => s!"specviol {v}"
      | none =>
        let model := xrRun fin ps n cs
        if model == calls then "ok" else s!"diff exact reader model=[{" ".intercalate (model.take 8)}] impl=[{" ".intercalate (calls.take 8)}]"
    | _, _, _, _ => "bad-op"
  | ["cfg", spec, r] =>
    match parseSpec spec with
    | some sp => let m := if validSpec sp then "ok" else "panic"; if m == r then "ok" else s!"diff cfg model={m} impl={r}"
    | none => "bad-op"
  | ["enc", spec, payload, _carrier, res] =>
    match parseSpec spec, unhex payload with
    | some sp, some p =>
      let m := match encode sp p with | some b => hex b | none => "raise"
      if res == "fault" then "specviol runtime-fault-in-encoder"
      else if res == "partial" then "specviol the encoder raised an exception after it had already passed part of the frame down the pipeline (a frame is emitted whole or not at all)"
      else if _carrier == "8" then (if res == "raise" then "ok" else s!"specviol a body stream that failed half way was encoded as a frame: {res.take 80}")
      else if res == "raise" then (if m == "raise" then "ok" else s!"diff enc model={m.take 80} impl=raise")
      else match unhex res with
        | none => "bad-op"
        | some out =>
          match encSound sp p out with
          | some why => s!"specviol encoder-unsound {why}"
          | none =>
            if m == res then "ok" else
            -- the bytes differ from the model encoder's: does the (proved) decoder still read the payload's frame out of them?
            match sp, encode sp p with
            | .codec c, some want =>
              let a := (renderLoop true c out.length (out.length + 8) [out] .eof).trimAscii.toString
              let b := (renderLoop true c want.length (want.length + 8) [want] .eof).trimAscii.toString
              if a != b then s!"specviol round trip fails: the encoder's output for payload {payload.take 40} decodes as [{a.take 100}], the payload's frame as [{b.take 100}]"
              else s!"diff enc model={m.take 80} impl={res.take 80}"
            | _, _ => s!"diff enc model={m.take 80} impl={res.take 80}"
    | _, _ => "bad-op"
  | "dec" :: spec :: fin :: chunks :: outcome =>
    match parseSpec spec, parseFin fin, (if chunks == "-" then some [] else (chunks.splitOn ",").mapM unhex) with
    | some (.varlen mx), some _, some cs =>
      -- every transport read of at most max bytes is a message; the final error raises
      let impl := " ".intercalate outcome
      let msgs := NettyVerif.VarLen.run mx.toNat (total cs + cs.length + 1) cs
      let rec render (ms : List Bytes) (pos : Nat) : String :=
        match ms with
        | [] => s!"raise@{pos}"
        | m :: r => s!"m={hex m}@{pos + m.length} " ++ render r (pos + m.length)
      let model := render msgs 0
      let tooBig := (impl.splitOn " ").any (fun t => t.startsWith "m=" && (((t.drop 2).toString.splitOn "@").head!.length / 2 > mx.toNat) && !t.startsWith "m=-")
      if impl.endsWith "loop" then s!"specviol decoder-does-not-terminate impl={impl.take 120}"
      else if (impl.splitOn "fault@").length > 1 then s!"specviol runtime-fault-in-decoder impl={impl.take 120}"
      else if tooBig then s!"specviol a message larger than the configured maximum ({mx}) was delivered: impl={impl.take 160}"
      else if model != impl then s!"specviol spec={model.take 160} impl={impl.take 160}"
      else "ok"
    | some (.codec c), some f, some cs =>
      let tot := total cs
      let impl := " ".intercalate outcome
      let model := (renderLoop true c tot (tot + 8) cs f).trimAscii.toString
      let spec := (renderLoop true c tot (tot + 8) [cs.flatten] f).trimAscii.toString
      if impl.endsWith "loop" then s!"specviol decoder-does-not-terminate impl={impl.take 120}"
      else if (impl.splitOn "fault@").length > 1 then s!"specviol runtime-fault-in-decoder impl={impl.take 120}"
      else verdict model spec impl
    | _, _, _ => "bad-op"
  | _ => "bad-op"

end Driver.C04
