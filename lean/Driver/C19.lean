import NettyVerif.Gen.Pmath
import NettyVerif.Model.Pool
/-! Driver part for C19: runs the generated pmath definitions and the pool model on the
    operations the harness performed on the implementation, compares (tie T2) and evaluates the
    property's own predicate on the implementation's answers (spec check). -/
namespace Driver.C19
open NettyVerif.Pool

structure S where
  st : St := { cfg := { step := 1, shards := 1 } }
  held : List Nat := []          -- ids currently owned by callers (handed out, not yet Put back)
  deriving Inhabited

def i64 (s : String) : Option (BitVec 64) := s.toInt?.map (BitVec.ofInt 64)

def showOpt (o : Option (BitVec 64)) : String :=
  match o with
  | none => "panic"
  | some v => toString v.toInt

def cmp (model impl : String) : String :=
  if model == impl then "ok" else s!"diff model={model} impl={impl}"

/-- property-level predicate on the implementation's own answer (independent of the model) -/
def specCeil (n : Int) (r : String) : Option String :=
  if n ≤ 2 then (if r == toString n then none else some "ceil-small")
  else if n > 2^62 then (if r == "panic" then none else some "ceil-large-must-panic")
  else match r.toInt? with
    | none => some "ceil-in-range-must-not-panic"
    | some v =>
      if v < n then some "ceil-lt-n"
      else if v ≥ 2 * n then some "ceil-ge-2n"
      else if v.toNat &&& (v.toNat - 1) != 0 then some "ceil-not-pow2"
      else none

def specFloor (n : Int) (r : String) : Option String :=
  if n ≤ 2 then (if r == toString n then none else some "floor-small")
  else match r.toInt? with
    | none => some "floor-panic"
    | some v =>
      if v > n then some "floor-gt-n"
      else if 2 * v ≤ n then some "floor-le-half"
      else if v.toNat &&& (v.toNat - 1) != 0 then some "floor-not-pow2"
      else none

def handle (s : S) : List String → S × String
  | ["overlap", id, cap, oid, ocap] =>
    (s, s!"specviol buffer {id} (capacity {cap}) shares memory with buffer {oid} (capacity {ocap}) while both are held: the capacity of a buffer is not its holder's alone")
  | "crash" :: rest => (s, "diff harness crashed: " ++ " ".intercalate rest)
  | ["conc", g, gets, double, short] =>
    (s, if short != "0" then (if g == "1" then s!"specviol after the channel recycled a batch the pool returned a buffer smaller than requested ({short} of {gets} Gets)"
         else s!"specviol a concurrent Get returned a buffer smaller than requested ({short} times in {gets} Gets of mixed size classes)") else
        if double == "0" then s!"ok {g} goroutines {gets} gets" else s!"specviol a buffer was handed to a second holder while the first still held it ({double} times in {gets} Gets, {g} goroutine(s))")
  | ["pmath", "ceil", n, r] =>
    match i64 n, n.toInt? with
    | some v, some ni =>
      let m := showOpt (Gen.Pmath.CeilToPowerOfTwo v)
      (s, match specCeil ni r with
          | some c => s!"specviol {c} n={n} got={r}"
          | none => cmp m r)
    | _, _ => (s, "bad-op")
  | ["pmath", "floor", n, r] =>
    match i64 n, n.toInt? with
    | some v, some ni =>
      let m := toString (Gen.Pmath.FloorToPowerOfTwo v).toInt
      (s, match specFloor ni r with
          | some c => s!"specviol {c} n={n} got={r}"
          | none => cmp m r)
    | _, _ => (s, "bad-op")
  | ["pmath", "ispow2", n, r] =>
    match i64 n with
    | some v => (s, cmp (if Gen.Pmath.IsPowerOfTwo v then "1" else "0") r)
    | none => (s, "bad-op")
  | ["pmath", "max", a, b, r] =>
    match i64 a, i64 b with
    | some x, some y => (s, cmp (toString (Gen.Pmath.Max x y).toInt) r)
    | _, _ => (s, "bad-op")
  | ["pmath", "min", a, b, r] =>
    match i64 a, i64 b with
    | some x, some y => (s, cmp (toString (Gen.Pmath.Min x y).toInt) r)
    | _, _ => (s, "bad-op")
  | ["new", mx] =>
    match mx.toInt? with
    | some m => ({ st := { cfg := mkCfg m }, held := [] }, s!"ok step={(mkCfg m).step} shards={(mkCfg m).shards}")
    | none => (s, "bad-op")
  -- get <size> <n-reported> <id> <cap> <fresh>
  | ["get", size, nrep, id, cap, fresh] =>
    match size.toInt?, (if nrep == "-" then some (s.st.cfg.getIdx (size.toInt?.getD 0)).1 else nrep.toNat?), id.toNat?, cap.toNat?, fresh.toNat? with
    | some sz, some nr, some i, some c, some f =>
      let it : Item := ⟨i, c⟩
      let spec : Option String :=
        if (c : Int) < sz then some "cap-lt-request"
        else if s.held.contains i then some "handed-out-twice"
        else none
      let nModel := (s.st.cfg.getIdx sz).1
      match spec with
      | some cl => ({ s with held := i :: s.held }, s!"specviol {cl} size={size} cap={cap} id={id}")
      | none =>
        if nr != nModel then ({ s with held := i :: s.held }, s!"diff class model={nModel} impl={nr}")
        else match step Cfg.putIdx s.st (.get sz it (f == 1)) with
          | some st' => ({ st := st', held := i :: s.held }, "ok")
          | none => ({ s with held := i :: s.held }, s!"diff get-not-admitted size={size} id={id} cap={cap} fresh={fresh}")
    | _, _, _, _, _ => (s, "bad-op")
  | ["put", id, cap] =>
    match id.toNat?, cap.toNat? with
    | some i, some c =>
      match step Cfg.putIdx s.st (.put ⟨i, c⟩) with
      | some st' => ({ st := st', held := s.held.erase i }, "ok")
      | none => (s, "diff put-not-admitted")
    | _, _ => (s, "bad-op")
  | _ => (s, "bad-op")

end Driver.C19
