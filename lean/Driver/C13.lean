import NettyVerif.Model.Boot
/-! Driver part for C13: follows a controlled execution of the real bootstrap step by step.
    Every scheduling-point label of bootstrap.go / holder.go (and the `closed` CAS of channel.go)
    is mapped to one action of the per-object LTSs of Model/Boot.lean — the listener object is
    named by the label's `#url@pN` suffix, the channel by the thread that runs its read loop or by
    the `#id` suffix of CloseAll's loop — and the action must be enabled in the model (`diff`
    otherwise). Independently of the model, the property's predicate is evaluated on the events
    observed from the mock transport factory and the probe handlers (`specviol`). -/
namespace Driver.C13
open NettyVerif.Boot

structure LObj where
  id : String
  st : LSt := {}
  syncTid : String := ""
  accN : Nat := 0                 -- index of the mock acceptor it created (0 = none)
  accClosedObs : Bool := false
  listenFailed : Bool := false    -- the factory refused to listen in the Sync that is returning (model side)
  refusedObs : Bool := false      -- … as observed (event of the mock factory)
  ret : String := ""              -- observed class of Sync's result ("" = not returned)
  deriving Inhabited

structure CObj where
  conn : Nat
  chid : Nat := 0
  st : CSt := {}
  loopTid : String := ""
  exiting : Bool := false         -- the read loop saw its context done; the deferred Close has not run yet
  trCloses : Nat := 0
  inactives : Nat := 0
  actives : Nat := 0
  deriving Inhabited

structure S where
  ls : List LObj := []
  cs : List CObj := []
  gl : List LAct := []            -- global listener actions so far, replayed into listeners created later
  gc : List CAct := []
  closing : List (String × String) := []   -- thread ↦ listener object whose Close it is running
  chanCtx : List (String × Nat) := []      -- thread ↦ connection whose channel it last handled
  shutTid : String := ""
  hasShutdown : Bool := false
  shutRet : Bool := false
  ctxObs : Bool := false
  dead : Option String := none    -- first disagreement: the model is no longer followed
  viol : Option String := none    -- first violation seen on the observed events before the end
  deriving Inhabited

def lookup (l : List (String × α)) (k : String) : Option α := (l.find? (·.1 == k)).map (·.2)
def assoc (l : List (String × α)) (k : String) (v : α) : List (String × α) := (k, v) :: l.filter (·.1 != k)

def S.updL (s : S) (id : String) (f : LObj → LObj) : S := { s with ls := s.ls.map (fun o => if o.id == id then f o else o) }
def S.updC (s : S) (conn : Nat) (f : CObj → CObj) : S := { s with cs := s.cs.map (fun o => if o.conn == conn then f o else o) }
def S.getL (s : S) (id : String) : Option LObj := s.ls.find? (·.id == id)
def S.getC (s : S) (conn : Nat) : Option CObj := s.cs.find? (·.conn == conn)

def flat (m : String) : String :=
  " ".intercalate (((m.replace "\n" " ").replace "NettyVerif.Boot." "").splitOn " " |>.filter (· ≠ ""))

def S.fail (s : S) (msg : String) : S := if s.dead.isSome then s else { s with dead := some (flat msg) }

/-- apply a listener action to one object; not enabled = disagreement -/
def S.lact (s : S) (id : String) (a : LAct) (what : String) : S :=
  if s.dead.isSome then s else
  match s.getL id with
  | none => s.fail s!"{what}: unknown listener object {id}"
  | some o =>
    match lstep o.st a with
    | some st' => s.updL id (fun o => { o with st := st' })
    | none => s.fail s!"{what}: model action {repr a} not enabled for listener {id} in {repr o.st}"

def S.cact (s : S) (conn : Nat) (a : CAct) (what : String) : S :=
  if s.dead.isSome then s else
  match s.getC conn with
  | none => s.fail s!"{what}: unknown connection {conn}"
  | some o =>
    match cstep o.st a with
    | some st' => s.updC conn (fun o => { o with st := st' })
    | none => s.fail s!"{what}: model action {repr a} not enabled for channel of connection {conn} in {repr o.st}"

/-- a global action (context cancel, Range begin/end, map swap, CloseAll end) hits every object -/
def S.lglobal (s : S) (a : LAct) (what : String) : S :=
  let s := s.ls.foldl (fun s o => s.lact o.id a what) s
  { s with gl := s.gl ++ [a] }

def S.cglobal (s : S) (a : CAct) (what : String) : S :=
  let s := s.cs.foldl (fun s o => s.cact o.conn a what) s
  { s with gc := s.gc ++ [a] }

def splitPoint (p : String) : String × String × String :=
  -- "Fn.label#url@pN" ↦ (Fn.label, url, pN); "holder-close#7" ↦ (…, "7", "")
  match p.splitOn "#" with
  | [b, suf] =>
    match suf.splitOn "@" with
    | [u, o] => (b, u, o)
    | _ => (b, suf, "")
  | _ => (p, "", "")

def chanOfThread (s : S) (tid : String) : Option Nat :=
  match s.cs.find? (·.loopTid == tid) with
  | some c => some c.conn
  | none => lookup s.chanCtx tid

def connOfChid (s : S) (chid : Nat) : Option Nat := (s.cs.find? (·.chid == chid)).map (·.conn)

/-- the label of a step -/
def onLabel (s : S) (tid point : String) (case : String) (evs : List String := []) : S :=
  let (base, suf, obj) := splitPoint point
  match base with
  | "Shutdown.bs-cancel" =>
    let s := { s with shutTid := tid }
    (s.lglobal .cancel base).cglobal .cancel base
  | "Shutdown.map-range" => s.lglobal .rangeStart base
  | "Shutdown.closeall" => s.lglobal .rangeEnd base
  | "CloseAll.lock" => s.cglobal .swap base
  | "CloseAll.holder-close" =>
    match suf.toNat?.bind (connOfChid s) with
    | none => s.fail s!"CloseAll closes unknown channel {suf}"
    | some conn =>
      let s := { s with chanCtx := assoc s.chanCtx tid conn }
      match s.getC conn with
      | some c => if c.st.loc == .old then s else s.fail s!"CloseAll closes channel {suf} which the model does not have in the swapped map ({repr c.st})"
      | none => s
  | "Sync.lock" =>
    match s.getL obj with
    | none => s.fail s!"Sync.lock: unknown listener {obj}"
    | some o =>
      match o.st.pc with
      | .idle => s.lact obj .syncCheck base
      | .created => s.lact obj .syncDecide base
      | .failed => s
      | _ => s.fail s!"Sync.lock: unexpected in {repr o.st}"
  | "Sync.factory-listen" =>
    -- the factory may refuse (address in use …): Sync returns that error and the listener stays usable
    if evs.any (·.startsWith "acc:refuse") then (s.lact obj .syncListenFail base).updL obj (fun o => { o with listenFailed := true })
    else s.lact obj .syncListen base
  | "Sync.acc-close" =>
    match s.getL obj with
    | some o => if o.st.pc == .returned true && o.st.acc == .closed then s else s.fail s!"Sync closes its fresh acceptor but the model is in {repr o.st}"
    | none => s
  | "Sync.accept" =>
    match s.getL obj with
    | some o => if o.st.pc == .accepting then s else s.fail s!"Sync calls Accept but the model is in {repr o.st}"
    | none => s.fail s!"Sync.accept: unknown listener {obj}"
  | "Sync.select" => s.lact obj .syncFail base
  | "Close.lock" =>
    match s.getL obj with
    | none => s.fail s!"Close.lock: unknown listener {obj}"
    | some o =>
      let byRange := tid == s.shutTid && o.st.inRange && !o.st.visited && !o.st.rangeDone && o.st.reg
      let s := { s with closing := assoc s.closing tid obj }
      s.lact obj (.closeMark byRange) base
  | "removeListener.map-delete" =>
    match lookup s.closing tid with
    | some obj => s.lact obj .closeUnreg base
    | none => s.fail "removeListener outside a tracked Listener.Close"
  | "Close.acc-close" => s.lact obj .closeAcc base
  | "serveChannel.exec" =>
    match lookup s.chanCtx tid with
    | some conn => s.cact conn .serve base
    | none => s.fail "serveChannel by a thread that accepted nothing"
  | "addChannel.lock" =>
    match chanOfThread s tid with
    | some conn => s.cact conn .add base
    | none => s.fail "addChannel by an unknown thread"
  | "delChannel.lock" =>
    match chanOfThread s tid with
    | some conn => s.cact conn .fireInactive base
    | none => s.fail "delChannel by an unknown thread"
  | "readLoop.select" =>
    match chanOfThread s tid with
    | none => s.fail "readLoop by an unknown thread"
    | some conn =>
      -- the loop is reached only after the handlers have returned from the active event
      let s : S := match s.getC conn with
        | some c => if c.st.pc == CPc.activating then s.cact conn .activeDone "active event over" else s
        | none => s
      match s.getC conn with
      | none => s
      | some c =>
        if c.st.pc == .closed then s
        else if case == "0" then
          if c.st.ctxDone then s.updC conn (fun c => { c with exiting := true })
          else s.fail s!"read loop of connection {conn} saw its context done; the model's bootstrap context is live"
        else
          if c.st.ctxDone then s.fail s!"read loop of connection {conn} goes on reading although the bootstrap context was cancelled"
          else s.cact conn .loopCheck base
  | "Close.cas-closed" =>
    match chanOfThread s tid with
    | none => s          -- a channel the scenario does not track
    | some conn =>
      match s.getC conn with
      | none => s
      | some c =>
        if c.st.pc == .closed then s                                     -- the CAS is lost
        else if c.loopTid == tid then (if c.exiting then s.cact conn .loopCheck base else s.cact conn .ownClose base)
        else if tid == s.shutTid then s.cact conn .closeAllVisit base
        else s.cact conn .ownClose base
  | _ => s

def natOf (x : String) : Nat := x.toNat?.getD 0

/-- one observed event of a step -/
def onEvent (s : S) (tid point : String) (ev : String) : S :=
  let (_, _, obj) := splitPoint point
  match ev.splitOn ":" with
  | ["listener", _k, gp] =>
    -- "g@pN": a new listener object was registered by Listen (LoadOrStore succeeded)
    match gp.splitOn "@" with
    | [_, id] =>
      let st0 : Option LSt := lrun {} (s.gl ++ [.listen])
      match st0 with
      | some st => { s with ls := s.ls ++ [{ id := id, st := st }] }
      | none => s.fail "Listen: the model cannot register a listener here"
    | _ => s
  | ["spawn", t] =>
    let (base, _, _) := splitPoint point
    if base == "Async.exec" then s.updL obj (fun o => { o with syncTid := t })
    else if base == "serveChannel.exec" then
      match lookup s.chanCtx tid with
      | some conn => s.updC conn (fun c => { c with loopTid := t })
      | none => s
    else s
  | ["acc", "new", n] => s.updL obj (fun o => { o with accN := natOf n })
  | ["acc", "close", n] => { s with ls := s.ls.map (fun o => if o.accN == natOf n then { o with accClosedObs := true } else o) }
  | ["acc", "fail", n] =>
    match s.ls.find? (·.accN == natOf n) with
    | some o => s.lact o.id .acceptWake "Accept fails"
    | none => s.fail s!"Accept fails on unknown acceptor {n}"
  | ["acc", "accept", _n, conn] =>
    let st0 : Option CSt := crun {} (s.gc ++ [.accept])
    match st0 with
    | some st => { s with cs := s.cs ++ [{ conn := natOf conn, st := st }], chanCtx := assoc s.chanCtx tid (natOf conn) }
    | none => s.fail "accept: the model cannot accept here"
  | ["cli", "connect", conn] =>
    -- an outgoing connection (Bootstrap.Connect): served like an accepted one
    let st0 : Option CSt := crun {} (s.gc ++ [.accept])
    match st0 with
    | some st => { s with cs := s.cs ++ [{ conn := natOf conn, st := st }], chanCtx := assoc s.chanCtx tid (natOf conn) }
    | none => s.fail "connect: the model cannot create a channel here"
  | ["chan", chid, conn] => s.updC (natOf conn) (fun c => { c with chid := natOf chid })
  | ["active", chid] =>
    match connOfChid s (natOf chid) with
    | some conn => s.updC conn (fun c => { c with actives := c.actives + 1 })
    | none => s
  | ["inactive", chid] =>
    match connOfChid s (natOf chid) with
    | some conn =>
      let s := s.updC conn (fun c => { c with inactives := c.inactives + 1 })
      match s.getC conn with
      | some c => if c.inactives > 1 && s.viol.isNone then { s with viol := some s!"inactive delivered {c.inactives} times to the channel of connection {conn}" } else s
      | none => s
    | none => s
  | ["tr", "close", conn] =>
    let s := s.updC (natOf conn) (fun c => { c with trCloses := c.trCloses + 1 })
    match s.getC (natOf conn) with
    | some c => if c.trCloses > 1 && s.viol.isNone then { s with viol := some s!"transport of connection {conn} closed {c.trCloses} times" } else s
    | none => s
  | ["acc", "refuse", _k] =>
    -- observation only: the factory refused to listen in the Sync running on this thread
    match s.ls.find? (·.syncTid == tid) with
    | some o => s.updL o.id (fun o => { o with refusedObs := true })
    | none => s
  | ["sync", "ret", _k, _g, cls] =>
    match s.ls.find? (·.syncTid == tid) with
    | none => s.fail "Sync returned on an unknown thread"
    | some o =>
      -- what was observed (independent of the model): a Sync that reports the factory's refusal is over, the listener may be synced again
      let refused := o.refusedObs && cls == "other"
      let s := s.updL o.id (fun o => if refused then { o with refusedObs := false, ret := "", syncTid := "" } else { o with ret := cls })
      if s.dead.isSome then s else
      match o.st.pc with
      | .idle =>
        if o.listenFailed && refused then s.updL o.id (fun o => { o with listenFailed := false })
        else s.fail s!"Sync returned {cls} but the model is in {repr o.st}"
      | .returned b => if b == (cls == "closed") then s else s.fail s!"Sync returned {cls}; the model says serverClosed = {b}"
      | _ => s.fail s!"Sync returned {cls} but the model is in {repr o.st}"
  | ["pcancel"] =>
    -- the context the bootstrap was created with is cancelled: every derived context is done, nothing else happens
    (s.lglobal .cancel "parent context cancelled").cglobal .cancel "parent context cancelled"
  | ["shutdown", "panic"] =>
    if s.viol.isNone then { s with viol := some "a panic escaped from Shutdown into its caller (the remaining channels are not closed)" } else s
  | ["shutdown", "ret", x] =>
    let s := { s with shutRet := true, ctxObs := x == "1" }
    s.cglobal .closeAllEnd "Shutdown returns"
  | _ => s

/-- the property on what was observed, at the end of an execution -/
def specEnd (s : S) (how parked : String) : Option String :=
  if s.viol.isSome then s.viol else
  if how != "quiescent" then some s!"execution does not come to rest: {how}" else
  let parks := if parked == "-" then [] else parked.splitOn ","
  if s.hasShutdown && !s.shutRet then some s!"Shutdown did not return (parked: {parked})" else
  if !s.shutRet then none else
  if !s.ctxObs then some "bootstrap context not cancelled after Shutdown" else
  match parks.find? (·.startsWith "openacceptor") with
  | some p => some s!"listener left accepting after Shutdown: {p} still open (parked: {parked})"
  | none =>
  match parks.find? (fun p => (p.splitOn "@acceptor").length > 1) with
  | some p => some s!"accept loop still parked after Shutdown: {p}"
  | none =>
  match s.ls.find? (fun o => o.syncTid != "" && o.ret != "closed") with
  | some o => some s!"Sync of listener {o.id} ended with '{o.ret}' instead of the server-closed error"
  | none =>
  match s.cs.find? (fun c => c.trCloses != 1 || c.inactives != 1) with
  | some c => some s!"channel of connection {c.conn} after Shutdown: transport closed {c.trCloses} times, inactive delivered {c.inactives} times (active {c.actives})"
  | none => none

/-- model and observation must agree at the end -/
def agreeEnd (s : S) : Option String :=
  match s.ls.find? (fun o => (o.st.acc == .closed) != o.accClosedObs) with
  | some o => some (flat s!"listener {o.id}: model acceptor {repr o.st.acc}, observed closed = {o.accClosedObs}")
  | none =>
  match s.cs.find? (fun c => (c.st.pc == .closed) != (c.trCloses == 1)) with
  | some c => some (flat s!"connection {c.conn}: model {repr c.st.pc}, observed transport closes = {c.trCloses}")
  | none => none

def handle (s : S) : List String → S × String
  | ["new"] => ({}, "ok")
  | "cfg" :: _ => (s, "ok")
  | "thr" :: _ :: ops => ({ s with hasShutdown := s.hasShutdown || ops.contains "shutdown" }, "ok")
  | "step" :: tid :: point :: case :: evs =>
    let was := s.dead
    let s := onLabel s tid point case evs
    let s := evs.foldl (fun s e => onEvent s tid point e) s
    match was, s.dead with
    | none, some d => (s, s!"diff {d}")
    | _, _ => (s, "ok")
  | ["end", how, parked] =>
    if how.startsWith "stuck" then (s, s!"diff a goroutine blocked outside the controller's view ({how}): the instrumentation does not cover this code") else
    match specEnd s how parked with
    | some v => (s, s!"specviol {v}")
    | none =>
      if s.dead.isSome then (s, "ok skipped-after-diff") else
      match agreeEnd s with
      | some d => (s, s!"diff {d}")
      | none => (s, s!"ok listeners={s.ls.length} channels={s.cs.length} shutdown={s.shutRet}")
  | ["tcp", "skip", _] => (s, "ok skipped")
  | ["tcp", _early, clients, sync, eof, redial, active, inactive, ctx] =>
    let f (t pre : String) : String := (t.drop pre.length).toString
    (s, if f ctx "ctx=" != "1" then "specviol tcp: bootstrap context not cancelled after Shutdown"
        else if f sync "sync=" != "closed" then s!"specviol tcp: the accept loop ended with '{f sync "sync="}' instead of the server-closed error"
        else if f redial "redial=" != "refused" then "specviol tcp: a connection is still accepted on the listener's port after Shutdown"
        else if f eof "eof=" != f clients "clients=" then s!"specviol tcp: {f eof "eof="} of {f clients "clients="} client connections were closed by Shutdown"
        else if f inactive "inactive=" != f active "active=" then s!"specviol tcp: {f active "active="} channels became active, inactive delivered {f inactive "inactive="} times"
        else "ok tcp")
  | "crash" :: rest => (s, "diff harness crashed: " ++ " ".intercalate rest)
  | _ => (s, "bad-op")

end Driver.C13
