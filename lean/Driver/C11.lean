import NettyVerif.Model.Carrier
/-! Driver part for the streaming half of C11 (`C11 rf …` lines): ReadFrom with a Close between two chunks. -/
namespace Driver.C11
open NettyVerif.Carrier

def hexNib (c : Char) : Option Nat :=
  if '0' ≤ c ∧ c ≤ '9' then some (c.toNat - 48) else if 'a' ≤ c ∧ c ≤ 'f' then some (c.toNat - 87) else none

def unhex (s : String) : Bytes :=
  let rec go : List Char → List UInt8 → List UInt8
    | a :: b :: r, acc => match hexNib a, hexNib b with
      | some x, some y => go r (UInt8.ofNat (x * 16 + y) :: acc)
      | _, _ => acc
    | _, acc => acc
  if s == "-" then [] else (go s.toList []).reverse

def hexOf (b : Bytes) : String :=
  if b.isEmpty then "-" else String.ofList (b.flatMap (fun u => [Nat.digitChar (u.toNat / 16), Nat.digitChar (u.toNat % 16)]))

def field (t pre : String) : String := (t.drop pre.length).toString

def handle : List String → String
  | ["rf", _mode, closeAt, chunks, n, err, wire, after] =>
    let cs := (chunks.splitOn ",").map unhex
    let j := closeAt.toNat?.getD 0
    -- "pre": the channel was closed before the call: the entry check refuses it, nothing is read or written
    let (written, nn, e) := if closeAt == "pre" then (([] : List Bytes), 0, true) else readFromClosing cs j
    let wantWire := hexOf written.flatten
    let gotWire := field wire "wire="
    let gotErr := field err "err="
    if field after "after=" != "0" then s!"specviol the transport was written to after Close had returned ({after})"
    else if gotWire != wantWire then
      (if gotWire.length > wantWire.length then s!"specviol bytes read after the Close reached the transport: wire {gotWire}, allowed {wantWire}"
       else s!"diff ReadFrom: model wire {wantWire}, implementation {gotWire}")
    else if e && gotErr != "closeerr" then s!"specviol ReadFrom returned '{gotErr}' although the channel was closed while it was copying"
    else if !e && gotErr != "nil" then s!"diff ReadFrom returned '{gotErr}' without a Close before its last chunk"
    else if field n "n=" != toString nn then s!"diff ReadFrom count: model {nn}, implementation {n}"
    else "ok"
  | ["pw", mode, cause, nils] =>
    if field nils "nil=" != "0" then s!"specviol Channel.Write on a closed channel ({mode}, closed with {cause}) returned nil for {field nils "nil="} of 4 messages that an outbound handler kept instead of passing them to the head"
    else "ok"
  | _ => "bad-op"

/-- `C18 rf …` lines: ReadFrom on a non-blocking queued channel with a stalled sender -/
def handle18 : List String → String
  | ["rf", q, chunks, n, err, queued, hang, dup] =>
    if field dup "dup=" != "0" then "specviol after a refused streamed write the buffer pool hands out one buffer twice (it was put back twice)" else
    handle18 ["rf", q, chunks, n, err, queued, hang]
  | ["rf", q, chunks, n, err, queued, hang] =>
    let cs := (chunks.splitOn ",").map unhex
    let free := (field q "q=").toNat?.getD 0
    let (qd, nn, e) := readFromNoSpace cs free
    if field hang "hang=" != "0" then s!"specviol ReadFrom did not return on a non-blocking channel whose queue is full ({cs.length} chunks, {free} free slots, sender stalled)"
    else if field queued "queued=" != hexOf qd.flatten then s!"diff ReadFrom (non-blocking): model queues {hexOf qd.flatten}, implementation {field queued "queued="}"
    else if e && field err "err=" != "nospace" then s!"specviol ReadFrom returned '{field err "err="}' instead of the no-space error when the queue was full"
    else if !e && field err "err=" != "nil" then s!"diff ReadFrom returned '{field err "err="}' although every chunk fitted"
    else if field n "n=" != toString nn then s!"diff ReadFrom count: model {nn}, implementation {n}"
    else if e then "ok refused" else "ok"
  | ["qfill", q, accepted, err] =>
    if field accepted "accepted=" != field q "q=" then
      s!"specviol a non-blocking channel configured with {field q "q="} queue slots accepted {field accepted "accepted="} payloads behind a stalled sender (the queue-full error must appear exactly when the configured queue is full)"
    else if field err "err=" != "nospace" then s!"specviol the write that found the queue full returned '{field err "err="}' instead of the queue-full error"
    else "ok refused"
  | ["park", wait, early, late, errs, wirelen] =>
    if field early "early=" != "0" then
      s!"specviol blocking mode: {field early "early="} write(s) parked on a full queue returned within {field wait "wait="} ms although the sender was stalled, the channel open and no context ended"
    else if field late "late=" != "2" || field errs "errs=" != "0" then s!"specviol blocking mode: parked writes were not accepted once the sender ran (returned {field late "late="}, errors {field errs "errs="})"
    else if field wirelen "wirelen=" != "4" then s!"specviol blocking mode: {field wirelen "wirelen="} of 4 accepted bytes reached the transport"
    else "ok refused"
  | _ => "bad-op"

end Driver.C11
