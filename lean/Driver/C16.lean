import NettyVerif.Model.Json
/-! Driver part for C16. Trees travel as whitespace-separated prefix tokens:
    `N` `T` `F` `#<hex of the literal>` `S<hex of the UTF-8 string>` `A<n> e1 … en` `O<n> k1 v1 … kn vn`. -/
namespace Driver.C16
open NettyVerif.Json

def hexNib (c : Char) : Option Nat :=
  if '0' ≤ c ∧ c ≤ '9' then some (c.toNat - 48) else if 'a' ≤ c ∧ c ≤ 'f' then some (c.toNat - 87) else none

def unhex (s : String) : Option ByteArray :=
  let rec go : List Char → ByteArray → Option ByteArray
    | [], acc => some acc
    | a :: b :: r, acc => do
      let x ← hexNib a; let y ← hexNib b
      go r (acc.push (UInt8.ofNat (x * 16 + y)))
    | _, _ => none
  if s == "-" then some ByteArray.empty else go s.toList ByteArray.empty

def unhexStr (s : String) : Option (List Char) := (unhex s).bind (fun b => (String.fromUTF8? b).map String.toList)

def hexOfStr (cs : List Char) : String :=
  let b := (String.ofList cs).toUTF8
  String.ofList (b.toList.flatMap (fun u => [hexDigit (u.toNat / 16), hexDigit (u.toNat % 16)]))

/-- tokens → value -/
def readTree : Nat → List String → Option (JV × List String)
  | 0, _ => none
  | _, [] => none
  | f+1, t :: rest =>
    if t == "N" then some (.null, rest)
    else if t == "T" then some (.bool true, rest)
    else if t == "F" then some (.bool false, rest)
    else if t.startsWith "#" then (unhexStr (t.drop 1).toString).map (fun l => (.num l, rest))
    else if t.startsWith "S" then (unhexStr (t.drop 1).toString).map (fun l => (.str l, rest))
    else if t.startsWith "A" then
      let rec elems : Nat → Nat → List String → Option (JL × List String)
        | _, 0, r => some (.nil, r)
        | 0, _, _ => none
        | g+1, k+1, r => do
          let (v, r1) ← readTree f r
          let (t, r2) ← elems g k r1
          pure (.cons v t, r2)
      ((t.drop 1).toString.toNat?).bind (fun n => (elems (n + 1) n rest).map (fun (l, r) => (.arr l, r)))
    else if t.startsWith "O" then
      let rec membs : Nat → Nat → List String → Option (JM × List String)
        | _, 0, r => some (.nil, r)
        | 0, _, _ => none
        | g+1, k+1, r =>
          match r with
          | ks :: r0 =>
            if ks.startsWith "S" then do
              let key ← unhexStr (ks.drop 1).toString
              let (v, r1) ← readTree f r0
              let (t, r2) ← membs g k r1
              pure (.cons key v t, r2)
            else none
          | [] => none
      ((t.drop 1).toString.toNat?).bind (fun n => (membs (n + 1) n rest).map (fun (m, r) => (.obj m, r)))
    else none

def ltChars : List Char → List Char → Bool
  | [], [] => false
  | [], _ :: _ => true
  | _ :: _, [] => false
  | a :: r, b :: s => if a < b then true else if b < a then false else ltChars r s

def insertKV (k : List Char) (v : String) : List (List Char × String) → List (List Char × String)
  | [] => [(k, v)]
  | (k', v') :: r => if k == k' then (k, v) :: r else if ltChars k k' then (k, v) :: (k', v') :: r else (k', v') :: insertKV k v r

-- canonical text of a value: keys sorted, a repeated key keeps its last value; numbers either
-- exact (`useNumber`) or, without number preservation, only small plain integers are comparable
mutual
def canon (useNumber : Bool) : JV → String
  | .null => "N"
  | .bool true => "T"
  | .bool false => "F"
  | .num l =>
    if useNumber then "#" ++ hexOfStr l
    else
      let digits := match l with | '-' :: r => r | r => r
      let plain := digits.all isDigit && digits.length ≤ 15 && (digits.length == 1 || digits.head? != some '0') && l != ['-', '0']
      if plain then "#" ++ hexOfStr l else "#?"
  | .str s => "S" ++ hexOfStr s
  | .arr l => let es := canonL useNumber l; s!"A{es.length}" ++ String.join (es.map (" " ++ ·))
  | .obj m =>
    let kvs := canonM useNumber m []
    s!"O{kvs.length}" ++ String.join (kvs.map (fun (k, v) => " S" ++ hexOfStr k ++ " " ++ v))
def canonL (useNumber : Bool) : JL → List String
  | .nil => []
  | .cons v t => canon useNumber v :: canonL useNumber t
def canonM (useNumber : Bool) : JM → List (List Char × String) → List (List Char × String)
  | .nil, acc => acc
  | .cons k v t, acc => canonM useNumber t (insertKV k (canon useNumber v) acc)
end

def handle : List String → String
  | "enc" :: goHex :: tree =>
    match readTree (tree.length + 1) tree, unhexStr goHex with
    | some (v, []), some go =>
      let m := enc v
      if m == go then "ok" else
      -- the bytes differ from the model encoder's: does the (proved) parser read the object back out of them?
      (match decodeFrame false go, decodeFrame false m with
       | .deliver a, .deliver b =>
         if canon true a == canon true b then s!"diff encoder: model {hexOfStr m} implementation {goHex}"
         else s!"specviol round trip fails: the encoder's output {goHex} decodes to a different object than the one written"
       | _, .deliver _ => s!"specviol round trip fails: the encoder's output {goHex} is not a frame holding one JSON object"
       | _, _ => s!"diff encoder: model {hexOfStr m} implementation {goHex}")
    | some (_, []), none => s!"specviol round trip fails: the encoder's output {goHex} is not valid UTF-8"
    | _, _ => "bad-op"
  | "dec" :: pinnedFlag :: useNum :: frameHex :: result =>
    let un := useNum == "1"
    match unhexStr frameHex with
    | none => "ok skipped-invalid-utf8"
    | some frame =>
      let model := decodeFrame false frame
      let modelStr := match model with
        | .deliver v => "ok " ++ canon un v
        | .deliverNil => "nil"
        | .raise => "exc"
      let impl := " ".intercalate result
      let unchecked := (modelStr.splitOn "#?").length > 1
      if pinnedFlag == "x" then "bad-op" else
      match model with
      | .raise =>
        if impl == "exc" then "ok rejected"
        else s!"specviol a frame that does not begin with one complete valid JSON object was delivered as a message: frame {frameHex} delivered {impl}"
      | .deliver _ =>
        if impl == modelStr || unchecked then "ok delivered"
        else if impl == "exc" then s!"diff decoder: model delivers {modelStr}, implementation raises (frame {frameHex})"
        else s!"specviol delivered object differs from the frame's first JSON object: frame {frameHex} expected {modelStr} delivered {impl}"
      | .deliverNil => "bad-op"
  | "rt" :: useNum :: rest =>
    -- rest = <tree tokens> "=>" <result tokens>
    let un := useNum == "1"
    let tree := rest.takeWhile (· != "=>")
    let result := (rest.dropWhile (· != "=>")).drop 1
    match readTree (tree.length + 1) tree with
    | some (v, []) =>
      let want := "ok " ++ canon un v
      if (want.splitOn "#?").length > 1 then "ok unchecked-number"
      else if " ".intercalate result == want then "ok"
      else s!"specviol object written through the JSON codec is not received as an equal object: wrote {want} received {" ".intercalate result}"
    | _ => "bad-op"
  | ["text", sent, received] =>
    if sent == received then "ok" else s!"specviol text codec: sent {sent} received {received}"
  | ["text", sent, received, "exc"] => s!"specviol text codec raised for {sent} {received}"
  | _ => "bad-op"

end Driver.C16
