import NettyVerif.Model.Pipeline
/-! Driver part for C03: the pointer-level model and the list specification are run side by side
    on the operations the harness performed on the real pipeline. `diff` = pointer model disagrees
    with the implementation; `specviol` = the implementation disagrees with the list specification. -/
namespace Driver.C03
open NettyVerif.Pipeline

structure S where
  p : Pipe := newPipe
  s : Spec := []
  tbl : List Handler := []
  deriving Inhabited

def lookup (s : S) (id : Nat) : Option Handler := s.tbl.find? (·.id == id)

def lookupAll (s : S) (ids : List String) : Option (List Handler) :=
  ids.mapM (fun t => t.toNat?.bind (lookup s))

def fwdChain (p : Pipe) : List Nat := chainNext p (p.fresh + 1) (some headA)
def bwdChain (p : Pipe) : List Nat := chainPrev p (p.fresh + 1) (some tailA)

def idsOf (p : Pipe) (as : List Nat) : String := " ".intercalate (as.map (fun a => toString (p.hdl a).id))
def idsOfS (hs : List Handler) : String := " ".intercalate (hs.map (fun h => toString h.id))

def finalStr : Final → String
  | .stopped => "none" | .dropped => "none" | .chanWrite => "chanwrite" | .close => "close"

def posOf (l : List Nat) (a : Nat) : Nat := (l.findIdx? (· == a)).getD 999

/-- visited list rendered as `pos:id` -/
def showVisitedC (p : Pipe) (v : List Nat) : String :=
  let l := fwdChain p
  " ".intercalate ((v.filter (fun a => a != headA && a != tailA)).map (fun a => s!"{posOf l a}:{(p.hdl a).id}"))

def showVisitedS (s : Spec) (v : List Nat) : String :=
  " ".intercalate ((v.filter (fun j => j != 0 && j != s.length + 1)).map (fun j => s!"{j}:{(s.all.getD j headH).id}"))

def verdict (modelStr specStr implStr : String) : String :=
  if specStr != implStr then s!"specviol spec={specStr} impl={implStr}"
  else if modelStr != implStr then s!"diff model={modelStr} impl={implStr}"
  else "ok"

def build (s : S) (o : BuildOp) (implRes : String) : S × String :=
  let ms := applyS s.s o
  let specStr := if ms.isSome then "ok" else "panic"
  match applyC s.p o with
  | .ok p' => ({ s with p := p', s := ms.getD s.s }, verdict "ok" specStr implRes)
  | .panic => ({ s with s := ms.getD s.s }, verdict "panic" specStr implRes)
  | .nilDeref => ({ s with s := ms.getD s.s }, verdict "nil-deref" specStr implRes)

def kindOf (t : String) : Option Kind := t.toNat?.bind Kind.ofNat?

def handle (s : S) : List String → S × String
  | ["new"] => ({}, "ok")
  | "crash" :: msg => (s, "specviol runtime-fault-in-pipeline-call " ++ " ".intercalate msg)
  | ["hdl", id, impl, fwd] =>
    match id.toNat?, impl.toNat?, fwd.toNat? with
    | some i, some m, some f => ({ s with tbl := { id := i, impl := m, fwd := f } :: s.tbl }, "ok")
    | _, _, _ => (s, "bad-op")
  | "addfirst" :: res :: ids =>
    match lookupAll s ids with | some hs => build s (.addFirst hs) res | none => (s, "bad-op")
  | "addlast" :: res :: ids =>
    match lookupAll s ids with | some hs => build s (.addLast hs) res | none => (s, "bad-op")
  | "addhandler" :: res :: pos :: ids =>
    match lookupAll s ids, pos.toInt? with
    | some hs, some ps => build s (.addHandler ps hs) res
    | _, _ => (s, "bad-op")
  | ["size", n] => (s, verdict (toString s.p.size) (toString (s.s.length + 2)) n)
  | "chain" :: "fwd" :: ids =>
    (s, verdict (idsOf s.p (fwdChain s.p)) (idsOfS s.s.all) (" ".intercalate ids))
  | "chain" :: "bwd" :: ids =>
    (s, verdict (idsOf s.p (bwdChain s.p)) (idsOfS s.s.all.reverse) (" ".intercalate ids))
  | ["indexof", id, r] =>
    match id.toNat? with
    | some i => (s, verdict (toString (indexOf s.p (·.id == i))) (toString (s.s.indexOf (·.id == i))) r)
    | none => (s, "bad-op")
  | ["lastindexof", id, r] =>
    match id.toNat? with
    | some i => (s, verdict (toString (lastIndexOf s.p (·.id == i))) (toString (s.s.lastIndexOf (·.id == i))) r)
    | none => (s, "bad-op")
  | ["ctxat", pos, r] =>
    match pos.toInt? with
    | some ps =>
      let m := match contextAt s.p ps with
        | .ok none => "nil" | .ok (some a) => toString (s.p.hdl a).id | .panic => "panic" | .nilDeref => "nil-deref"
      let sp := if ps = -1 ∨ ps ≥ (s.s.length : Int) + 2 then "nil" else toString (s.s.all.getD ps.toNat headH).id
      (s, verdict m sp r)
    | none => (s, "bad-op")
  -- from <kind> <pos> <final> <visited pos:id …>
  | "from" :: kind :: pos :: final :: visited =>
    match kindOf kind, pos.toNat? with
    | some k, some i =>
      if i ≥ s.s.length + 2 then (s, "bad-op") else
      let a := (fwdChain s.p).getD i 0
      let (v, f) := deliver s.p k (s.p.fresh + 1) a
      let (vs, fs) := s.s.deliver k i
      let impl := (finalStr' final ++ " " ++ " ".intercalate visited).trimAscii.toString
      (s, verdict (finalStr f ++ " " ++ showVisitedC s.p v).trimAscii.toString (finalStr fs ++ " " ++ showVisitedS s.s vs).trimAscii.toString impl)
    | _, _ => (s, "bad-op")
  -- nest <x> <final> <visited …>: the exception handler at position x, while it handles an exception fired at the
  -- head, fires a second one; each of the two travels the whole chain of exception handlers from the head
  | "nest" :: x :: final :: visited =>
    match x.toNat? with
    | some xi =>
      let (vs, fs) := s.s.deliver .exception 0
      let vs' := vs.filter (fun j => j != 0 && j != s.s.length + 1)
      let expect := if vs'.contains xi then
          let pre := vs'.takeWhile (· != xi) ++ [xi]
          let post := (vs'.dropWhile (· != xi)).drop 1
          pre ++ vs' ++ post
        else vs'
      let spec := (finalStr fs ++ " " ++ showVisitedS s.s expect).trimAscii.toString
      let impl := (final ++ " " ++ " ".intercalate visited).trimAscii.toString
      (s, verdict spec spec impl)
    | none => (s, "bad-op")
  | _ => (s, "bad-op")
where finalStr' (t : String) : String := t

end Driver.C03
