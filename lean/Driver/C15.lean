import NettyVerif.Model.Http
/-! Driver part for C15: one connection per case. From the requests sent and the handler programs
    the model computes which requests are served, what each handler sees and the response each
    produces; the implementation's wire is parsed with the model's response parser and compared,
    and the parser itself is compared with net/http.ReadResponse's reading of the same bytes. -/
namespace Driver.C15
open NettyVerif.Http

def hexNib (c : Char) : Option Nat :=
  if '0' ≤ c ∧ c ≤ '9' then some (c.toNat - 48) else if 'a' ≤ c ∧ c ≤ 'f' then some (c.toNat - 87) else none

def unhex (s : String) : Bytes :=
  let rec go : List Char → List UInt8 → List UInt8
    | a :: b :: r, acc => match hexNib a, hexNib b with
      | some x, some y => go r (UInt8.ofNat (x * 16 + y) :: acc)
      | _, _ => acc
    | _, acc => acc
  if s == "-" then [] else (go s.toList []).reverse

def hexOf (b : Bytes) : String :=
  if b.isEmpty then "-" else
  String.ofList (b.flatMap (fun u => [Nat.digitChar (u.toNat / 16), Nat.digitChar (u.toNat % 16)]))

structure ReqSpec where
  method : String
  target : String
  minor : Nat
  conn : String
  body : Bytes
  deriving Inhabited

structure S where
  reqs : List ReqSpec := []
  progs : List (Int × List HOp) := []
  obsReqs : List String := []
  wire : Bytes := []
  closeAt : Int := -1
  goParses : List String := []
  goErr : Option String := none
  crash : Option String := none
  lateClosed : Option Bool := none   -- late-body cases: was the connection closed before the rest of the request body was sent?
  deriving Inhabited

/-- `Header().Add(k, v)`: a second value for a field. The response-writer model keeps one value per key, so the
    second value travels under an alias of the key (its last letter replaced by '~', same length) which is mapped
    back before responses are compared: both values must reach the parser as separate values of the one field. -/
def aliasKey (k : Bytes) : Bytes := k.dropLast ++ [126]
def unaliasKey (k : Bytes) : Bytes := if k.getLast? == some 126 then k.dropLast ++ [105] else k   -- only "X-Multi" is ever added

def parseOp (t : String) : Option HOp :=
  match t.splitOn ":" with
  | ["h", k, v] => some (.setHeader (unhex k) (unhex v))
  | ["a", k, v] => some (.setHeader (aliasKey (unhex k)) (unhex v))
  | ["s", c] => c.toNat?.map .writeHeader
  | ["w", n, b] => n.toNat?.map (fun n => .write (List.replicate n ((unhex b).headD 0)))
  | ["f"] => some .flush
  | _ => none

def insertSorted (x : String) : List String → List String
  | [] => [x]
  | y :: r => if x ≤ y then x :: y :: r else y :: insertSorted x r

def headersText (hs : List (Bytes × Bytes)) : String :=
  let items := hs.foldl (fun acc (k, v) => insertSorted (hexOf k ++ ":" ++ (if v.isEmpty then "" else hexOf v)) acc) []
  if items.isEmpty then "-" else ",".intercalate items

def respText (r : Resp) : String := s!"{r.minor} {r.status} {headersText (r.headers.map (fun kv => (unaliasKey kv.1, kv.2)))} {hexOf r.body}"

/-- parse the wire into consecutive responses -/
def parseAll : Nat → Bytes → List Resp × Option String
  | 0, _ => ([], some "fuel")
  | _, [] => ([], none)
  | f+1, bs =>
    match parseResp bs with
    | none => ([], some "the wire does not parse as an HTTP response")
    | some (r, rest) => let (rs, e) := parseAll f rest; (r :: rs, e)

/-- the model's account of the connection: (handler observation, response view, bytes) per served request -/
def serveConn : List ReqSpec → List (Int × List HOp) → List (String × Resp × Nat)
  | [], _ => []
  | _, [] => []
  | r :: rs, (rd, ops) :: ps =>
    let reqClose := r.conn == "c" || (r.minor == 0 && r.conn != "k")
    let got : Bytes := if rd < 0 then r.body else r.body.take rd.toNat
    let w := serveOne r.minor reqClose ops
    let obs := s!"{r.method} {r.target} {r.minor} {if reqClose then 1 else 0} {hexOf got}"
    let view : Resp := { minor := r.minor, status := w.status, headers := w.sent, body := w.body }
    (obs, view, w.out.length) :: (if w.markedClose then [] else serveConn rs ps)

def handle (s : S) : List String → S × String
  | ["new"] => ({}, "ok")
  | ["req", _i, m, t, minor, conn, _kind, body] =>
    ({ s with reqs := s.reqs ++ [{ method := m, target := t, minor := minor.toNat?.getD 1, conn := conn, body := unhex body }] }, "ok")
  | ["prog", _i, rd, ops] =>
    let r : Int := match (rd.drop 5).toString.toInt? with | some v => v | none => 0
    let os := if ops == "-" then [] else (ops.splitOn ",").filterMap parseOp
    ({ s with progs := s.progs ++ [(r, os)] }, "ok")
  | "obs" :: "req" :: _i :: rest => ({ s with obsReqs := s.obsReqs ++ [" ".intercalate rest] }, "ok")
  | ["obs", "wire", h] => ({ s with wire := unhex h }, "ok")
  | ["obs", "close", n] => ({ s with closeAt := n.toInt?.getD (-1) }, "ok")
  | ["obs", "crash", m] => ({ s with crash := some m }, "ok")
  | ["obs", "hang"] => ({ s with crash := some "the connection did not come to an end within 5 s after the peer had sent everything and closed" }, "ok")
  | ["obs", "lateclosed", b] => ({ s with lateClosed := some (b == "1") }, "ok")
  | "obs" :: "go" :: _k :: rest => ({ s with goParses := s.goParses ++ [" ".intercalate rest] }, "ok")
  | ["obs", "goerr", _k, m] => ({ s with goErr := some m }, "ok")
  | ["end"] =>
    let model := serveConn s.reqs s.progs
    let wantObs := model.map (·.1)
    let (parsed, perr) := parseAll (s.reqs.length + 2) s.wire
    let parsedText := parsed.map respText
    let wantText := model.map (fun m => respText m.2.1)
    let total := (model.map (·.2.2)).foldl (· + ·) 0
    -- the model's parser against the standard parser on the same bytes
    if perr.isNone && s.goErr.isNone && parsedText != s.goParses then
      (s, s!"diff response parser: model {parsedText} net/http {s.goParses}")
    else if perr.isSome != s.goErr.isSome then
      (s, s!"diff response parser: model error {perr}, net/http error {s.goErr}")
    else if s.crash.isSome then (s, s!"specviol the connection's goroutine panicked: {s.crash.getD ""}")
    else if s.obsReqs != wantObs then
      (s, s!"specviol handler invocations differ from the requests sent: expected {wantObs} observed {s.obsReqs}")
    else if perr.isSome then (s, s!"specviol {perr.getD ""} (expected {wantText})")
    else if parsedText != wantText then
      (s, s!"specviol responses on the wire differ from what the handlers produced: expected {wantText} on the wire {parsedText}")
    else if s.wire.length != total then (s, s!"diff wire length {s.wire.length}, model {total}")
    else if s.lateClosed == some false && model.length == s.reqs.length &&
        (match s.reqs.getLast?, s.progs[s.reqs.length - 1]? with
         | some r, some (_, ops) => (serveOne r.minor (r.conn == "c" || (r.minor == 0 && r.conn != "k")) ops).markedClose
         | _, _ => false) then
      (s, "specviol the end of the last response is the end of the connection (no length, no chunking), but the server keeps the connection open waiting for request bytes that have not been sent")
    else if s.closeAt != (s.wire.length : Int) then
      (s, s!"specviol the connection was closed at byte {s.closeAt} of {s.wire.length} response bytes")
    else (s, s!"ok served={model.length}/{s.reqs.length}")
  | "crash" :: rest => (s, "diff harness crashed: " ++ " ".intercalate rest)
  | _ => (s, "bad-op")

end Driver.C15
