import NettyVerif.Model.Life
/-! Driver part for the read-loop half of C05 (`C05L` lines): the observable lifecycle events of one
    served channel must be accepted by the acceptor of Model/Life.lean (`diff` otherwise), and the
    property's predicates are evaluated on the observed events alone (`specviol`). -/
namespace Driver.Life
open NettyVerif.Life

def errCode (c : String) : Nat :=
  match c with
  | "nil" => 0 | "e1" => 1 | "e2" => 2 | "eof" => 3 | "net" => 4 | "to" => 5 | "trclosed" => 6 | _ => 7

structure S where
  st : St := {}
  dead : Option String := none
  viol : Option String := none
  pendingErr : List (String × String) := []     -- thread ↦ error class of the Close call it is in
  lastFail : List (String × String) := []       -- thread ↦ class of its last failed read
  winnerTid : String := ""
  winnerExternal : Bool := false
  casSeen : Bool := false            -- observation: some goroutine has executed the `closed` CAS (the first one wins)
  winnerRetObs : Bool := false
  -- observations
  stepNo : Nat := 0
  activeB : Nat := 0
  activeEAt : Option Nat := none
  handoutAt : Option Nat := none
  readsOpen : Nat := 0
  readBeforeActive : Bool := false
  readFailed : Bool := false
  inactiveErrs : List String := []
  trCloses : Nat := 0
  trCloseTid : String := ""
  closeSeen : Bool := false
  loopExited : Bool := false
  winnerErrObs : String := ""
  panicOwed : Bool := false          -- the active handler panicked while the channel was open: the exception handlers must see it
  deriving Inhabited

def lookup (l : List (String × String)) (k : String) : Option String := (l.find? (·.1 == k)).map (·.2)
def assoc (l : List (String × String)) (k v : String) : List (String × String) := (k, v) :: l.filter (·.1 != k)

def flat (m : String) : String :=
  " ".intercalate (((m.replace "\n" " ").replace "NettyVerif.Life." "").splitOn " " |>.filter (· ≠ ""))

def S.fail (s : S) (m : String) : S := if s.dead.isSome then s else { s with dead := some (flat m) }
def S.bad (s : S) (m : String) : S := if s.viol.isSome then s else { s with viol := some m }

def S.ev (s : S) (e : Ev) (what : String) : S :=
  if s.dead.isSome then s else
  match step s.st e with
  | some st' => { s with st := st' }
  | none => s.fail s!"{what}: event {repr e} is not enabled in {repr s.st}"

def onLabel (s : S) (tid label case : String) : S :=
  match label with
  | "readLoop.select" => if case == "0" then s.ev .loopExit label else s
  | "Close.cas-closed" =>
    let s := { s with closeSeen := true }
    if !s.casSeen then
      let (cls, ext) := match lookup s.pendingErr tid with
        | some c => (c, true)
        | none => ((lookup s.lastFail tid).getD "nil", false)
      let s := { s with winnerTid := tid, winnerExternal := ext, winnerErrObs := cls, casSeen := true }
      s.ev (.closeWin (errCode cls)) label
    else s.ev (.closeRet false) label
  | "Close.tr-close" => ({ s with trCloseTid := tid }).ev .closeTr label
  | "Close.cancel" => s.ev .closeCancel label
  | _ => s

def onEvent (s : S) (tid : String) (ev : String) : S :=
  match ev.splitOn ":" with
  | ["active", "b"] => ({ s with activeB := s.activeB + 1 }).ev .activeBegin ev
  | ["active", "e"] => ({ s with activeEAt := some s.stepNo }).ev .activeEnd ev
  | ["active", "p"] => ({ s with activeEAt := some s.stepNo, panicOwed := !s.closeSeen }).ev .activePanic ev
  | ["exc", cls] => ({ s with panicOwed := false, lastFail := assoc s.lastFail tid cls }).ev .exception ev
  | ["handout"] =>
    let s := if s.activeEAt.isNone then s.bad "the channel was handed out before the active event completed" else s
    ({ s with handoutAt := some s.stepNo }).ev .handOut ev
  | ["read", "b"] =>
    let s := if s.activeEAt.isNone then s.bad "a read was delivered before the active event completed" else s
    let s := if s.readsOpen > 0 then s.bad "two reads in flight at the same time" else s
    let s := if s.panicOwed && !s.closeSeen then s.bad "a panic of the active handler never reached the exception handlers (the read loop went on)" else s
    ({ s with readsOpen := s.readsOpen + 1 }).ev .readBegin ev
  | ["read", "e", "ok"] => ({ s with readsOpen := s.readsOpen - 1, lastFail := s.lastFail.filter (·.1 != tid) }).ev (.readEnd true) ev
  | ["read", "e", "fail", cls] =>
    ({ s with readsOpen := s.readsOpen - 1, readFailed := true, lastFail := assoc s.lastFail tid cls }).ev (.readEnd false) ev
  | ["closecall", _w, cls] => { s with pendingErr := assoc s.pendingErr tid cls, closeSeen := true }
  | ["tr", "close"] =>
    let s := { s with trCloses := s.trCloses + 1 }
    if s.trCloses > 1 then s.bad s!"transport closed {s.trCloses} times" else s
  | ["inactive", cls] =>
    let s := { s with inactiveErrs := s.inactiveErrs ++ [cls] }
    let s := if s.inactiveErrs.length > 1 then s.bad s!"inactive delivered {s.inactiveErrs.length} times" else s
    let s := s.ev (.inactive (errCode cls)) ev
    -- a Close issued by the framework itself has no call/return events: it returns right after firing inactive
    if tid == s.winnerTid && !s.winnerExternal then s.ev (.closeRet true) "winner returns" else s
  | "closeret" :: _w :: rest =>
    let s := { s with pendingErr := s.pendingErr.filter (·.1 != tid) }
    let s := match rest with
      | [ia, cd] =>
        let s := if ia != "0" then s.bad "IsActive is still true after a Close call returned" else s
        if tid == s.trCloseTid && cd != "1" then s.bad "the channel context is not cancelled after the Close call that took effect returned" else s
      | _ => s
    if tid == s.winnerTid && s.winnerExternal && !s.winnerRetObs then ({ s with winnerRetObs := true }).ev (.closeRet true) ev else s
  | ["wafter", cls] =>
    if cls == "nil" then s.bad "a write issued after a Close call had returned (from inside the active handler) reported success" else s
  | "exit" :: _ => { s with loopExited := true }
  | _ => s

def specEnd (s : S) (how : String) : Option String :=
  if s.viol.isSome then s.viol else
  if how != "quiescent" then some s!"execution does not come to rest: {how}" else
  if s.activeB != 1 then some s!"active delivered {s.activeB} times" else
  if s.panicOwed then some "a panic of the active handler never reached the exception handlers" else
  if s.handoutAt.isNone then some "the channel was never handed out (ServeChannel did not return)" else
  if s.readFailed && !s.closeSeen then some "a transport read failed but the channel was never closed" else
  if s.closeSeen then
    if s.trCloses != 1 then some s!"after Close: transport closed {s.trCloses} times" else
    if s.inactiveErrs.length != 1 then some s!"after Close: inactive delivered {s.inactiveErrs.length} times" else
    if !s.loopExited then some "after Close: the read loop has not terminated" else
    if s.inactiveErrs != [s.winnerErrObs] then some s!"inactive carries {s.inactiveErrs} but the Close call that took effect was given {s.winnerErrObs}" else none
  else none

def handle (s : S) : List String → S × String
  | ["new"] => ({}, "ok")
  | "cfg" :: _ => (s, "ok")
  | "thr" :: _ => (s, "ok")
  | "step" :: tid :: label :: case :: evs =>
    let was := s.dead
    let s := { s with stepNo := s.stepNo + 1 }
    let s := onLabel s tid label case
    let s := evs.foldl (fun s e => onEvent s tid e) s
    match was, s.dead with
    | none, some d => (s, s!"diff {d}")
    | _, _ => (s, "ok")
  | "end" :: how :: _ =>
    if how.startsWith "stuck" then (s, s!"diff a goroutine blocked outside the controller's view ({how})") else
    match specEnd s how with
    | some v => (s, s!"specviol {v}")
    | none =>
      if s.dead.isSome then (s, "ok skipped-after-diff")
      else if s.closeSeen && !(s.st.winnerReturned && s.st.loopExited) then
        (s, flat s!"diff model at the end: {repr s.st}")
      else (s, s!"ok reads={s.st.readsEnded} closed={s.closeSeen}")
  | "crash" :: rest => (s, "diff harness crashed: " ++ " ".intercalate rest)
  | _ => (s, "bad-op")

end Driver.Life
