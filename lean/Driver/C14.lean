import NettyVerif.Model.Carrier
import Driver.C04
/-! Driver part for C14 -/
namespace Driver.C14
open NettyVerif.Carrier Driver.C04

def unhexList (s : String) : Option (List Bytes) :=
  if s == "" || s == "-" then some [] else (s.splitOn ",").mapM unhex

def parseFrag (t : String) : Option (Bytes × Option RErr) :=
  match t.splitOn "!" with
  | [h] => (unhex h).map (·, none)
  | [h, "eof"] => (unhex h).map (·, some .eof)
  | [h, "err"] => (unhex h).map (·, some .other)
  | _ => none

def parseMsg (s : String) : Option Msg :=
  if s == "o" then some .other else
  match s.splitOn ":" with
  | ["b", h] => (unhex h).map .bytes
  | ["v", h] => (unhexList h).map .bytesv
  | ["u", h] => (unhex h).map .buffer
  | ["r", h] => (unhex h).map .bytesReader
  | ["S", h] => (unhex h).map .str
  | ["w", h] => (unhexList h).map .writerTo
  | ["R", h] => (if h == "" then some [] else (h.splitOn ";").mapM parseFrag).map .reader
  | _ => none

def sizesOf (ws : List LowWrite) : String :=
  if ws.isEmpty then "-" else ",".intercalate (ws.map (fun w => toString w.bytes.length))

def wireOf (ws : List LowWrite) : Bytes := (ws.map LowWrite.bytes).flatten

def verdict (model spec impl : String) : String :=
  if spec != impl then s!"specviol spec={spec.take 120} impl={impl.take 120}"
  else if model != impl then s!"diff model={model.take 120} impl={impl.take 120}" else "ok"

/-- ToReader then ReadAll -/
def toReaderAll : Msg → String
  | .other => "err"
  | .writerTo _ => "err"
  | .reader s => if (scriptError s).isSome then "err" else hex (scriptContent s)
  | m => match m.content with | some b => hex b | none => "err"

def handle : List String → String
  -- head <mode> <msg> <status> <wire> <sizes|->
  | ["head", mode, msg, status, wire, sizes] =>
    match parseMsg msg with
    | none => "bad-op"
    | some m =>
      let (mStatus, mWire, mSizes) := match headWrites m with
        | none => ("raise", "-", "-")
        | some (ws, err) => ((if err.isSome then "raise" else "ok"), hex (wireOf ws), sizesOf ws)
      -- specification: status ok iff the type is accepted and the reader did not fail; wire = content
      let sStatus := match m with
        | .other => "raise" | .str _ => "raise"
        | .reader s => if (scriptError s).isSome then "raise" else "ok"
        | _ => "ok"
      let sWire := match m with
        | .other => "-" | .str _ => "-"
        | _ => match m.content with | some b => hex b | none => "-"
      let spec := s!"{sStatus} {sWire}"
      let impl := s!"{status} {wire}"
      let model := s!"{mStatus} {mWire}"
      let v := verdict model spec impl
      if v != "ok" then v
      else if mode == "sync" && sizes != mSizes then s!"diff low-level-write-sizes model={mSizes} impl={sizes}"
      else "ok"
  | ["contend", want, got] =>
    if want == got then "ok" else
      s!"specviol a message written while the head handler was busy with another goroutine's message was transmitted as {got}; its caller held {want} when Channel.Write returned (and reused the storage afterwards)"
  | ["tobytes", msg, r] =>
    match parseMsg msg with
    | none => "bad-op"
    | some m => let e := match toBytes m with | .ok b => hex b | .error _ => "err"; verdict e e r
  | ["toreader", msg, r] =>
    match parseMsg msg with
    | none => "bad-op"
    | some m => let e := toReaderAll m; verdict e e r
  | ["countof", bs, r] =>
    match unhexList bs with
    | none => "bad-op"
    | some l => let e := toString (countOf l); verdict e (toString l.flatten.length) r
  | ["bytereader", msg, r] =>
    match parseMsg msg with
    | none => "bad-op"
    | some m =>
      let e := match m with
        | .reader sc => if (scriptError sc).isSome then "err" else hex (scriptContent sc)
        | _ => match m.content with | some b => hex b | none => "err"
      verdict e e r
  | _ => "bad-op"

end Driver.C14
