/-! Driver part for C12: the lines report what the race detector saw in the uninstrumented stress
    runs. A `race` line is a concrete execution with two conflicting, unordered accesses. -/
namespace Driver.C12

def handle : List String → String
  | "stress" :: name :: _ => s!"ok {name}"
  | "race" :: scen :: a :: b :: _ => s!"specviol data race in scenario {scen}: {a} / {b}"
  | "crash" :: rest => "diff stress program crashed: " ++ " ".intercalate rest
  | _ => "bad-op"

end Driver.C12
