module nvharness

go 1.21

require github.com/go-netty/go-netty v0.0.0

replace github.com/go-netty/go-netty => /repo
