package main

// T3 extractor for C17: which sink each method of the four transport wrappers in
// transport/buffered.go sends its data to, and which wrapper NewTransport picks.
// Output: Gen/Routing.lean (Lean data checked by `decide` in Props/C17.lean).

import (
	"fmt"
	"go/ast"
	"go/parser"
	"go/printer"
	"go/token"
	"sort"
	"strings"
)

func nodeStr(fset *token.FileSet, n ast.Node) string {
	var b strings.Builder
	printer.Fprint(&b, fset, n)
	return b.String()
}

func extractRouting(path, rel string) (string, error) {
	fset := token.NewFileSet()
	file, err := parser.ParseFile(fset, path, nil, 0)
	if err != nil {
		return "", err
	}
	// struct field kinds
	type fieldKinds map[string]string // field name -> bufw | bufr | rw | conn
	structs := map[string]fieldKinds{}
	for _, d := range file.Decls {
		gd, ok := d.(*ast.GenDecl)
		if !ok {
			continue
		}
		for _, sp := range gd.Specs {
			ts, ok := sp.(*ast.TypeSpec)
			if !ok {
				continue
			}
			st, ok := ts.Type.(*ast.StructType)
			if !ok {
				continue
			}
			fk := fieldKinds{}
			for _, f := range st.Fields.List {
				ty := nodeStr(fset, f.Type)
				kind := "other"
				switch ty {
				case "*bufio.Writer":
					kind = "bufw"
				case "*bufio.Reader":
					kind = "bufr"
				case "*bufio.ReadWriter":
					kind = "rw"
				case "net.Conn":
					kind = "conn"
				}
				if len(f.Names) == 0 {
					fk[strings.TrimPrefix(ty, "net.")] = kind // embedded net.Conn -> field "Conn"
				}
				for _, n := range f.Names {
					fk[n.Name] = kind
				}
			}
			structs[ts.Name.Name] = fk
		}
	}
	// classify the object a call is made on: recv.<field>[.Writer|.Reader]
	classify := func(typ, recv string, e ast.Expr, method string) string {
		s := nodeStr(fset, e)
		parts := strings.Split(s, ".")
		if len(parts) < 2 || parts[0] != recv {
			return "unknown"
		}
		kind, ok := structs[typ][parts[1]]
		if !ok {
			return "unknown"
		}
		if kind == "rw" {
			if len(parts) == 3 && parts[2] == "Writer" {
				return "bufw"
			}
			if len(parts) == 3 && parts[2] == "Reader" {
				return "bufr"
			}
			if len(parts) == 2 { // promoted method of bufio.ReadWriter
				if method == "Read" {
					return "bufr"
				}
				return "bufw"
			}
			return "unknown"
		}
		if len(parts) != 2 {
			return "unknown"
		}
		return kind
	}
	routes := map[string]map[string]string{}
	for name := range structs {
		routes[name] = map[string]string{}
	}
	for _, d := range file.Decls {
		fd, ok := d.(*ast.FuncDecl)
		if !ok || fd.Recv == nil || len(fd.Recv.List) != 1 || fd.Body == nil {
			continue
		}
		typ := strings.TrimPrefix(nodeStr(fset, fd.Recv.List[0].Type), "*")
		if _, ok := structs[typ]; !ok {
			continue
		}
		recv := ""
		if len(fd.Recv.List[0].Names) == 1 {
			recv = fd.Recv.List[0].Names[0].Name
		}
		m := fd.Name.Name
		if m != "Read" && m != "Write" && m != "Writev" && m != "Flush" {
			continue
		}
		sink := "unknown"
		if len(fd.Body.List) == 1 {
			if rs, ok := fd.Body.List[0].(*ast.ReturnStmt); ok && len(rs.Results) == 1 {
				switch r := rs.Results[0].(type) {
				case *ast.Ident:
					if r.Name == "nil" {
						sink = "noop"
					}
				case *ast.CallExpr:
					if sel, ok := r.Fun.(*ast.SelectorExpr); ok {
						switch {
						case m == "Writev" && sel.Sel.Name == "WriteTo" && len(r.Args) == 1 && len(fd.Type.Params.List) == 1 &&
							nodeStr(fset, sel.X) == fd.Type.Params.List[0].Names[0].Name:
							sink = classify(typ, recv, r.Args[0], "Write") // buffs.WriteTo(<sink>)
						case sel.Sel.Name == m && m != "Writev":
							sink = classify(typ, recv, sel.X, m)
						}
					}
				}
			}
		}
		routes[typ][m] = sink
	}
	// undeclared methods are promoted from the embedded net.Conn
	for typ, fk := range structs {
		if fk["Conn"] != "conn" {
			continue
		}
		for _, m := range []string{"Read", "Write"} {
			if _, ok := routes[typ][m]; !ok {
				routes[typ][m] = "conn"
			}
		}
		for _, m := range []string{"Writev", "Flush"} {
			if _, ok := routes[typ][m]; !ok {
				routes[typ][m] = "missing"
			}
		}
	}
	// NewTransport: switch cases in order
	var ctor []string
	ast.Inspect(file, func(n ast.Node) bool {
		fd, ok := n.(*ast.FuncDecl)
		if !ok || fd.Name.Name != "NewTransport" || fd.Body == nil {
			return true
		}
		ast.Inspect(fd.Body, func(n ast.Node) bool {
			cc, ok := n.(*ast.CaseClause)
			if !ok {
				return true
			}
			cond := "default"
			if len(cc.List) == 1 {
				cond = strings.ReplaceAll(nodeStr(fset, cc.List[0]), " ", "")
			}
			typ := "unknown"
			if len(cc.Body) == 1 {
				if rs, ok := cc.Body[0].(*ast.ReturnStmt); ok && len(rs.Results) == 1 {
					if ue, ok := rs.Results[0].(*ast.UnaryExpr); ok {
						if cl, ok := ue.X.(*ast.CompositeLit); ok {
							typ = nodeStr(fset, cl.Type)
						}
					}
				}
			}
			ctor = append(ctor, fmt.Sprintf("(%q, %q)", cond, typ))
			return true
		})
		return false
	})
	var b strings.Builder
	fmt.Fprintf(&b, "-- (see header comment below)\n")
	_ = rel
	hdr := fmt.Sprintf("/- GENERATED on every run by nvextract (T3) from %s -- do not edit.\n   For each wrapper type: the sink that Read / Write / Writev / Flush route to. -/\n", rel)
	b.Reset()
	b.WriteString("import NettyVerif.Model.Transport\nnamespace Gen.Routing\nopen NettyVerif.Transport\n\n")
	b.WriteString(hdr + "\n")
	var names []string
	for n, fk := range structs {
		if fk["Conn"] == "conn" {
			names = append(names, n)
		}
	}
	sort.Strings(names)
	b.WriteString("def routes : List Route := [\n")
	for i, n := range names {
		r := routes[n]
		fmt.Fprintf(&b, "  { name := %q, read := .%s, write := .%s, writev := .%s, flush := .%s }", n, r["Read"], r["Write"], r["Writev"], r["Flush"])
		if i < len(names)-1 {
			b.WriteString(",")
		}
		b.WriteString("\n")
	}
	b.WriteString("]\n\n")
	fmt.Fprintf(&b, "/-- NewTransport's switch: (condition, wrapper type) in source order -/\ndef ctor : List (String × String) := [%s]\n\n", strings.Join(ctor, ", "))
	b.WriteString("end Gen.Routing\n")
	return b.String(), nil
}
