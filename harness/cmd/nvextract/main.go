// nvextract regenerates the Lean files under lean/NettyVerif/Gen from /repo's current sources.
package main

import (
	"fmt"
	"os"
	"path/filepath"
)

func die(err error) {
	fmt.Fprintln(os.Stderr, "nvextract:", err)
	os.Exit(2)
}

func main() {
	if len(os.Args) < 4 {
		die(fmt.Errorf("usage: nvextract <what> <repo> <gen-dir>"))
	}
	what, repo, out := os.Args[1], os.Args[2], os.Args[3]
	// targets may change the working directory (the source importer resolves packages relative to it)
	if abs, err := filepath.Abs(out); err == nil {
		out = abs
	}
	if abs, err := filepath.Abs(repo); err == nil {
		repo = abs
	}
	write := func(name, text string) {
		p := filepath.Join(out, name)
		old, _ := os.ReadFile(p)
		if string(old) == text {
			return // keep mtime so lake does not rebuild
		}
		if err := os.WriteFile(p, []byte(text), 0o644); err != nil {
			die(err)
		}
	}
	switch what {
	case "pmath":
		rel := "utils/pool/internal/pmath/pmath.go"
		s, err := translatePmath(filepath.Join(repo, rel), rel)
		if err != nil {
			die(err)
		}
		write("Pmath.lean", s)
	case "routing":
		rel := "transport/buffered.go"
		s, err := extractRouting(filepath.Join(repo, rel), rel)
		if err != nil {
			die(err)
		}
		write("Routing.lean", s)
	case "access":
		s, err := extractAccess(repo)
		if err != nil {
			die(err)
		}
		write("Access.lean", s)
	case "guards":
		s, err := extractGuards(repo)
		if err != nil {
			die(err)
		}
		write("Guards.lean", s)
	default:
		die(fmt.Errorf("unknown target %q", what))
	}
}
