package main

// T1 translator: straight-line Go integer functions -> Lean 4 definitions over BitVec 64.
//
// Supported subset (anything else makes the function "unsupported", which is reported in the
// generated file and makes every theorem about it fail to elaborate -- never a silent skip):
//   statements : if c { ... } [else { ... }], x := e, x = e, x op= e, x++, x--, return e, panic(..)
//   expressions: identifiers, integer literals, package constants (evaluated by go/types),
//                + - * / % & | ^ &^ << >>, == != < <= > >=, && || !, calls of translated functions
// Go `int` is modelled as a 64-bit two's complement BitVec: comparisons are signed, `>>` is the
// arithmetic shift, `/` and `%` truncate toward zero (sdiv/srem), overflow wraps.
// A function that can panic (directly or through a callee) returns `Option`, `none` = panic.

import (
	"fmt"
	"go/ast"
	"go/constant"
	"go/importer"
	"go/parser"
	"go/token"
	"go/types"
	"sort"
	"strings"
)

type trFunc struct {
	name     string
	decl     *ast.FuncDecl
	params   []string
	retBool  bool
	mayPanic bool
	body     string
	err      error
}

type translator struct {
	fset  *token.FileSet
	info  *types.Info
	funcs map[string]*trFunc
}

func (t *translator) errf(n ast.Node, f string, a ...interface{}) error {
	return fmt.Errorf("%s: %s", t.fset.Position(n.Pos()), fmt.Sprintf(f, a...))
}

func isIntType(ty types.Type) bool {
	b, ok := ty.Underlying().(*types.Basic)
	return ok && b.Kind() == types.Int
}
func isBoolType(ty types.Type) bool {
	b, ok := ty.Underlying().(*types.Basic)
	return ok && (b.Kind() == types.Bool || b.Kind() == types.UntypedBool)
}

func lit64(v constant.Value) (string, bool) {
	if v.Kind() != constant.Int {
		return "", false
	}
	// two's complement 64-bit
	if i, ok := constant.Int64Val(v); ok {
		if i >= 0 {
			return fmt.Sprintf("%d#64", i), true
		}
		return fmt.Sprintf("(-(%d#64))", -i), true
	}
	if u, ok := constant.Uint64Val(v); ok {
		return fmt.Sprintf("%d#64", u), true
	}
	return "", false
}

// expr translates an int- or bool-typed expression. Calls to may-panic functions are rejected
// here (they are only allowed as a whole right-hand side, handled by the statement translator).
func (t *translator) expr(e ast.Expr) (string, error) {
	if tv, ok := t.info.Types[e]; ok && tv.Value != nil {
		if s, ok := lit64(tv.Value); ok {
			return s, nil
		}
		if tv.Value.Kind() == constant.Bool {
			return fmt.Sprintf("%v", constant.BoolVal(tv.Value)), nil
		}
	}
	switch x := e.(type) {
	case *ast.ParenExpr:
		return t.expr(x.X)
	case *ast.Ident:
		return x.Name, nil
	case *ast.UnaryExpr:
		s, err := t.expr(x.X)
		if err != nil {
			return "", err
		}
		switch x.Op {
		case token.NOT:
			return "(!" + s + ")", nil
		case token.SUB:
			return "(-" + s + ")", nil
		case token.XOR:
			return "(~~~" + s + ")", nil
		}
		return "", t.errf(e, "unsupported unary %s", x.Op)
	case *ast.BinaryExpr:
		a, err := t.expr(x.X)
		if err != nil {
			return "", err
		}
		b, err := t.expr(x.Y)
		if err != nil {
			return "", err
		}
		switch x.Op {
		case token.ADD:
			return "(" + a + " + " + b + ")", nil
		case token.SUB:
			return "(" + a + " - " + b + ")", nil
		case token.MUL:
			return "(" + a + " * " + b + ")", nil
		case token.QUO:
			return "(BitVec.sdiv " + a + " " + b + ")", nil
		case token.REM:
			return "(BitVec.srem " + a + " " + b + ")", nil
		case token.AND:
			return "(" + a + " &&& " + b + ")", nil
		case token.OR:
			return "(" + a + " ||| " + b + ")", nil
		case token.XOR:
			return "(" + a + " ^^^ " + b + ")", nil
		case token.AND_NOT:
			return "(" + a + " &&& ~~~" + b + ")", nil
		case token.SHL:
			return "(" + a + " <<< (" + b + ").toNat)", nil
		case token.SHR:
			return "(BitVec.sshiftRight " + a + " (" + b + ").toNat)", nil
		case token.EQL:
			return "(" + a + " == " + b + ")", nil
		case token.NEQ:
			return "(" + a + " != " + b + ")", nil
		case token.LSS:
			return "(BitVec.slt " + a + " " + b + ")", nil
		case token.LEQ:
			return "(BitVec.sle " + a + " " + b + ")", nil
		case token.GTR:
			return "(BitVec.slt " + b + " " + a + ")", nil
		case token.GEQ:
			return "(BitVec.sle " + b + " " + a + ")", nil
		case token.LAND:
			return "(" + a + " && " + b + ")", nil
		case token.LOR:
			return "(" + a + " || " + b + ")", nil
		}
		return "", t.errf(e, "unsupported binary %s", x.Op)
	case *ast.CallExpr:
		name, args, err := t.call(x)
		if err != nil {
			return "", err
		}
		if t.funcs[name].mayPanic {
			return "", t.errf(e, "call of may-panic function %s inside an expression", name)
		}
		return "(" + name + " " + strings.Join(args, " ") + ")", nil
	}
	return "", t.errf(e, "unsupported expression %T", e)
}

func (t *translator) call(x *ast.CallExpr) (string, []string, error) {
	id, ok := x.Fun.(*ast.Ident)
	if !ok {
		return "", nil, t.errf(x, "unsupported call target")
	}
	f, ok := t.funcs[id.Name]
	if !ok || f.err != nil {
		return "", nil, t.errf(x, "call of untranslated function %s", id.Name)
	}
	var args []string
	for _, a := range x.Args {
		s, err := t.expr(a)
		if err != nil {
			return "", nil, err
		}
		args = append(args, s)
	}
	return id.Name, args, nil
}

// containsPanicCall reports whether e is (after parens) a call to a may-panic function.
func (t *translator) panicCall(e ast.Expr) (*ast.CallExpr, bool) {
	for {
		p, ok := e.(*ast.ParenExpr)
		if !ok {
			break
		}
		e = p.X
	}
	c, ok := e.(*ast.CallExpr)
	if !ok {
		return nil, false
	}
	id, ok := c.Fun.(*ast.Ident)
	if !ok {
		return nil, false
	}
	f, ok := t.funcs[id.Name]
	return c, ok && f.mayPanic
}

func indent(s string, n int) string {
	pad := strings.Repeat("  ", n)
	return pad + strings.ReplaceAll(s, "\n", "\n"+pad)
}

// stmts translates a statement list in continuation style; `opt` says whether the function
// result is wrapped in Option.
func (t *translator) stmts(list []ast.Stmt, opt bool) (string, error) {
	if len(list) == 0 {
		return "", fmt.Errorf("control reaches end of function without return")
	}
	s, rest := list[0], list[1:]
	wrap := func(v string) string {
		if opt {
			return "some " + v
		}
		return v
	}
	assign := func(lhs string, rhs ast.Expr, op token.Token) (string, error) {
		if c, ok := t.panicCall(rhs); ok && (op == token.ASSIGN || op == token.DEFINE) {
			name, args, err := t.call(c)
			if err != nil {
				return "", err
			}
			k, err := t.stmts(rest, opt)
			if err != nil {
				return "", err
			}
			return fmt.Sprintf("match %s %s with\n| none => none\n| some %s =>\n%s", name, strings.Join(args, " "), lhs, indent(k, 1)), nil
		}
		r, err := t.expr(rhs)
		if err != nil {
			return "", err
		}
		var v string
		switch op {
		case token.ASSIGN, token.DEFINE:
			v = r
		case token.ADD_ASSIGN:
			v = lhs + " + " + r
		case token.SUB_ASSIGN:
			v = lhs + " - " + r
		case token.MUL_ASSIGN:
			v = lhs + " * " + r
		case token.OR_ASSIGN:
			v = lhs + " ||| " + r
		case token.AND_ASSIGN:
			v = lhs + " &&& " + r
		case token.XOR_ASSIGN:
			v = lhs + " ^^^ " + r
		case token.SHR_ASSIGN:
			v = "BitVec.sshiftRight " + lhs + " (" + r + ").toNat"
		case token.SHL_ASSIGN:
			v = lhs + " <<< (" + r + ").toNat"
		case token.QUO_ASSIGN:
			v = "BitVec.sdiv " + lhs + " " + r
		case token.REM_ASSIGN:
			v = "BitVec.srem " + lhs + " " + r
		default:
			return "", t.errf(s, "unsupported assignment operator %s", op)
		}
		k, err := t.stmts(rest, opt)
		if err != nil {
			return "", err
		}
		return fmt.Sprintf("let %s : I := %s\n%s", lhs, v, k), nil
	}
	switch x := s.(type) {
	case *ast.ReturnStmt:
		if len(x.Results) != 1 {
			return "", t.errf(s, "return with %d results", len(x.Results))
		}
		if c, ok := t.panicCall(x.Results[0]); ok {
			name, args, err := t.call(c)
			if err != nil {
				return "", err
			}
			return name + " " + strings.Join(args, " "), nil
		}
		r, err := t.expr(x.Results[0])
		if err != nil {
			return "", err
		}
		return wrap(r), nil
	case *ast.ExprStmt:
		if c, ok := x.X.(*ast.CallExpr); ok {
			if id, ok := c.Fun.(*ast.Ident); ok && id.Name == "panic" {
				if !opt {
					return "", t.errf(s, "panic in a function classified as total")
				}
				return "none", nil
			}
		}
		return "", t.errf(s, "unsupported expression statement")
	case *ast.IncDecStmt:
		id, ok := x.X.(*ast.Ident)
		if !ok {
			return "", t.errf(s, "unsupported inc/dec target")
		}
		one := &ast.BasicLit{Kind: token.INT, Value: "1"}
		_ = one
		k, err := t.stmts(rest, opt)
		if err != nil {
			return "", err
		}
		op := "+"
		if x.Tok == token.DEC {
			op = "-"
		}
		return fmt.Sprintf("let %s : I := %s %s 1#64\n%s", id.Name, id.Name, op, k), nil
	case *ast.AssignStmt:
		if len(x.Lhs) != 1 || len(x.Rhs) != 1 {
			return "", t.errf(s, "unsupported multi-assignment")
		}
		id, ok := x.Lhs[0].(*ast.Ident)
		if !ok {
			return "", t.errf(s, "unsupported assignment target")
		}
		if tv, ok := t.info.Types[x.Rhs[0]]; !ok || !isIntType(tv.Type) {
			if !(ok && tv.Value != nil && tv.Value.Kind() == constant.Int) {
				return "", t.errf(s, "non-int assignment")
			}
		}
		return assign(id.Name, x.Rhs[0], x.Tok)
	case *ast.IfStmt:
		if x.Init != nil {
			return "", t.errf(s, "if with init statement")
		}
		c, err := t.expr(x.Cond)
		if err != nil {
			return "", err
		}
		thenList := append(append([]ast.Stmt{}, x.Body.List...), rest...)
		var elseList []ast.Stmt
		switch e := x.Else.(type) {
		case nil:
			elseList = rest
		case *ast.BlockStmt:
			elseList = append(append([]ast.Stmt{}, e.List...), rest...)
		default:
			elseList = append([]ast.Stmt{e}, rest...)
		}
		a, err := t.stmts(thenList, opt)
		if err != nil {
			return "", err
		}
		b, err := t.stmts(elseList, opt)
		if err != nil {
			return "", err
		}
		return fmt.Sprintf("if %s then\n%s\nelse\n%s", c, indent(a, 1), indent(b, 1)), nil
	}
	return "", t.errf(s, "unsupported statement %T", s)
}

func hasPanic(t *translator, f *trFunc, seen map[string]bool) bool {
	if seen[f.name] {
		return false
	}
	seen[f.name] = true
	found := false
	ast.Inspect(f.decl.Body, func(n ast.Node) bool {
		if c, ok := n.(*ast.CallExpr); ok {
			if id, ok := c.Fun.(*ast.Ident); ok {
				if id.Name == "panic" {
					found = true
				} else if g, ok := t.funcs[id.Name]; ok && hasPanic(t, g, seen) {
					found = true
				}
			}
		}
		return true
	})
	return found
}

// translatePmath returns the text of Gen/Pmath.lean for the given Go file.
func translatePmath(path, rel string) (string, error) {
	fset := token.NewFileSet()
	file, err := parser.ParseFile(fset, path, nil, 0)
	if err != nil {
		return "", err
	}
	info := &types.Info{Types: map[ast.Expr]types.TypeAndValue{}, Defs: map[*ast.Ident]types.Object{}, Uses: map[*ast.Ident]types.Object{}}
	conf := types.Config{Importer: importer.Default(), Sizes: types.SizesFor("gc", "amd64")}
	pkg, err := conf.Check("pmath", fset, []*ast.File{file}, info)
	if err != nil {
		return "", err
	}
	t := &translator{fset: fset, info: info, funcs: map[string]*trFunc{}}

	var order []string
	for _, d := range file.Decls {
		fd, ok := d.(*ast.FuncDecl)
		if !ok || fd.Recv != nil || fd.Body == nil {
			continue
		}
		f := &trFunc{name: fd.Name.Name, decl: fd}
		sig := pkg.Scope().Lookup(fd.Name.Name).Type().(*types.Signature)
		okSig := sig.Results().Len() == 1
		for i := 0; i < sig.Params().Len(); i++ {
			p := sig.Params().At(i)
			if !isIntType(p.Type()) {
				okSig = false
			}
			f.params = append(f.params, p.Name())
		}
		if okSig {
			r := sig.Results().At(0).Type()
			if isBoolType(r) {
				f.retBool = true
			} else if !isIntType(r) {
				okSig = false
			}
		}
		if !okSig {
			f.err = fmt.Errorf("signature outside the translated subset")
		}
		t.funcs[f.name] = f
		order = append(order, f.name)
	}
	for _, n := range order {
		f := t.funcs[n]
		f.mayPanic = hasPanic(t, f, map[string]bool{})
	}
	// dependency order: callee before caller
	var sorted []string
	done := map[string]bool{}
	var visit func(n string)
	visit = func(n string) {
		if done[n] {
			return
		}
		done[n] = true
		ast.Inspect(t.funcs[n].decl.Body, func(x ast.Node) bool {
			if c, ok := x.(*ast.CallExpr); ok {
				if id, ok := c.Fun.(*ast.Ident); ok {
					if _, ok := t.funcs[id.Name]; ok {
						visit(id.Name)
					}
				}
			}
			return true
		})
		sorted = append(sorted, n)
	}
	for _, n := range order {
		visit(n)
	}

	var b strings.Builder
	fmt.Fprintf(&b, "/- GENERATED on every run by nvextract (T1) from %s -- do not edit.\n   Go `int` = BitVec 64 (signed comparisons, arithmetic >>, truncating / and %%); panic = none. -/\n", rel)
	b.WriteString("namespace Gen.Pmath\n\nabbrev I := BitVec 64\n\n")
	// package-level integer constants
	var cnames []string
	for _, n := range pkg.Scope().Names() {
		if c, ok := pkg.Scope().Lookup(n).(*types.Const); ok {
			if _, ok := lit64(c.Val()); ok {
				cnames = append(cnames, n)
			}
		}
	}
	sort.Strings(cnames)
	for _, n := range cnames {
		c := pkg.Scope().Lookup(n).(*types.Const)
		s, _ := lit64(c.Val())
		fmt.Fprintf(&b, "def %s : I := %s\n", n, s)
	}
	b.WriteString("\n")
	for _, n := range sorted {
		f := t.funcs[n]
		if f.err == nil {
			f.body, f.err = t.stmts(f.decl.Body.List, f.mayPanic)
		}
		if f.err != nil {
			fmt.Fprintf(&b, "-- UNSUPPORTED %s: %v\n\n", n, f.err)
			continue
		}
		ret := "I"
		if f.retBool {
			ret = "Bool"
		}
		if f.mayPanic {
			ret = "Option " + ret
		}
		var ps []string
		for _, p := range f.params {
			ps = append(ps, "("+p+" : I)")
		}
		fmt.Fprintf(&b, "def %s %s : %s :=\n%s\n\n", n, strings.Join(ps, " "), ret, indent(f.body, 1))
	}
	b.WriteString("end Gen.Pmath\n")
	return b.String(), nil
}
