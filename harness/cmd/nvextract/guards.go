package main

// T3 extractor "guards": the integer skeleton of the frame codecs.
//
// For every function of codec/frame/*.go (non-test) the statements that decide *whether* a frame /
// configuration is accepted and *how long* it is are extracted in source order:
//   - assignments to a single identifier (`x := e`, `x = e`, `x += e`, `x -= e`),
//   - utils.AssertIf(cond, ...)   (raise when cond holds),
//   - utils.Assert(err)           (raise when err is set),
// each with the guard under which it executes (enclosing `if` conditions and `switch` arms,
// flattened into a conjunction). Expressions are translated into a small term language; what is
// not an integer / boolean expression over identifiers, fields, literals, len(..) and conversions
// becomes `.opaque "<source>"`. The result is Gen/Guards.lean; the theorems in Props/C04.lean and
// Props/C08.lean compare it with the hand-written expectation (kernel-decided equality) whose
// meaning is proved equal to the guards of the model (Model/Frame.lean).
//
// Loops are not flattened: statements inside `for` are extracted with the loop condition as one
// more guard and marked by an `.opaque "for"` conjunct, so that a change inside a loop is seen.

import (
	"bytes"
	"fmt"
	"go/ast"
	"go/parser"
	"go/printer"
	"go/token"
	"os"
	"path/filepath"
	"sort"
	"strconv"
	"strings"
)

var guardConsts = map[string]string{
	"math.MaxUint8":         "255",
	"math.MaxUint16":        "65535",
	"math.MaxUint32":        "4294967295",
	"math.MaxInt8":          "127",
	"math.MaxInt16":         "32767",
	"math.MaxInt32":         "2147483647",
	"math.MaxInt64":         "9223372036854775807",
	"binary.MaxVarintLen64": "10",
	"binary.MaxVarintLen32": "5",
	"binary.MaxVarintLen16": "3",
}

var guardConvs = map[string]bool{"int": true, "int8": true, "int16": true, "int32": true, "int64": true,
	"uint": true, "uint8": true, "uint16": true, "uint32": true, "uint64": true, "byte": true}

type guardX struct {
	fset *token.FileSet
	recv string
	// qualify: receiver fields are named "recv.field" (functions whose results or locals share a name with a field)
	qualify bool
}

func (g *guardX) field(name string) string {
	if g.qualify {
		return g.recv + "." + name
	}
	return name
}

func (g *guardX) src(n ast.Node) string {
	var b bytes.Buffer
	printer.Fprint(&b, g.fset, n)
	s := strings.Join(strings.Fields(b.String()), " ")
	return s
}

func leanStr(s string) string { return strconv.Quote(s) }

func (g *guardX) expr(e ast.Expr) string {
	switch x := e.(type) {
	case *ast.ParenExpr:
		return g.expr(x.X)
	case *ast.Ident:
		return ".var " + leanStr(x.Name)
	case *ast.BasicLit:
		if x.Kind == token.INT {
			if v, err := strconv.ParseInt(x.Value, 0, 64); err == nil {
				return fmt.Sprintf(".lit %d", v)
			}
		}
		return ".opaque " + leanStr(g.src(e))
	case *ast.SelectorExpr:
		if id, ok := x.X.(*ast.Ident); ok {
			if v, ok := guardConsts[id.Name+"."+x.Sel.Name]; ok {
				return ".lit " + v
			}
			if id.Name == g.recv && g.recv != "" {
				return ".var " + leanStr(g.field(x.Sel.Name)) // field of the receiver
			}
		}
		return ".opaque " + leanStr(g.src(e))
	case *ast.UnaryExpr:
		switch x.Op {
		case token.NOT, token.SUB:
			return fmt.Sprintf(".un %s (%s)", leanStr(x.Op.String()), g.expr(x.X))
		}
		return ".opaque " + leanStr(g.src(e))
	case *ast.BinaryExpr:
		switch x.Op {
		case token.ADD, token.SUB, token.MUL, token.LSS, token.GTR, token.LEQ, token.GEQ, token.EQL, token.NEQ, token.LAND, token.LOR:
			return fmt.Sprintf(".bin %s (%s) (%s)", leanStr(x.Op.String()), g.expr(x.X), g.expr(x.Y))
		}
		return ".opaque " + leanStr(g.src(e))
	case *ast.CallExpr:
		if id, ok := x.Fun.(*ast.Ident); ok && len(x.Args) == 1 {
			if id.Name == "len" {
				return ".len " + leanStr(g.lenArg(x.Args[0]))
			}
			if guardConvs[id.Name] {
				return fmt.Sprintf(".conv %s (%s)", leanStr(id.Name), g.expr(x.Args[0]))
			}
		}
		return ".opaque " + leanStr(g.src(e))
	}
	return ".opaque " + leanStr(g.src(e))
}

// lenArg names what len() is taken of: receiver fields by their field name
func (g *guardX) lenArg(e ast.Expr) string {
	if s, ok := e.(*ast.SelectorExpr); ok {
		if id, ok := s.X.(*ast.Ident); ok && id.Name == g.recv && g.recv != "" {
			return g.field(s.Sel.Name)
		}
	}
	return g.src(e)
}

func conj(guard, c string) string {
	if guard == ".lit 1" {
		return c
	}
	return fmt.Sprintf(".bin \"&&\" (%s) (%s)", guard, c)
}

func (g *guardX) stmts(list []ast.Stmt, guard string, out *[]string) {
	for _, s := range list {
		g.stmt(s, guard, out)
	}
}

func (g *guardX) stmt(s ast.Stmt, guard string, out *[]string) {
	switch x := s.(type) {
	case *ast.AssignStmt:
		if len(x.Lhs) == 1 && len(x.Rhs) == 1 {
			lhs := x.Lhs[0]
			if sel, ok := lhs.(*ast.SelectorExpr); ok && g.qualify { // a field of the receiver
				if id, ok := sel.X.(*ast.Ident); ok && id.Name == g.recv && g.recv != "" {
					lhs = &ast.Ident{Name: g.field(sel.Sel.Name)}
				}
			}
			if id, ok := lhs.(*ast.Ident); ok {
				op := x.Tok.String()
				if op == ":=" {
					op = "="
				}
				if op == "=" || op == "+=" || op == "-=" {
					*out = append(*out, fmt.Sprintf(".assign (%s) %s %s (%s)", guard, leanStr(id.Name), leanStr(op), g.expr(x.Rhs[0])))
					return
				}
			}
		}
		// multi-value or non-identifier assignment: recorded opaquely so that a change is noticed
		*out = append(*out, fmt.Sprintf(".other (%s) %s", guard, leanStr(g.src(s))))
	case *ast.DeclStmt:
		if gd, ok := x.Decl.(*ast.GenDecl); ok && gd.Tok == token.VAR {
			for _, sp := range gd.Specs {
				vs := sp.(*ast.ValueSpec)
				if len(vs.Names) == 1 && len(vs.Values) == 1 {
					*out = append(*out, fmt.Sprintf(".assign (%s) %s \"=\" (%s)", guard, leanStr(vs.Names[0].Name), g.expr(vs.Values[0])))
				} else {
					*out = append(*out, fmt.Sprintf(".other (%s) %s", guard, leanStr(g.src(s))))
				}
			}
		}
	case *ast.ExprStmt:
		if call, ok := x.X.(*ast.CallExpr); ok {
			if sel, ok := call.Fun.(*ast.SelectorExpr); ok {
				if id, ok := sel.X.(*ast.Ident); ok && id.Name == "utils" {
					switch sel.Sel.Name {
					case "AssertIf":
						if len(call.Args) >= 1 {
							*out = append(*out, fmt.Sprintf(".assert (%s) (%s)", guard, g.expr(call.Args[0])))
							return
						}
					case "Assert":
						if len(call.Args) == 1 {
							*out = append(*out, fmt.Sprintf(".check (%s) %s", guard, leanStr(g.src(call.Args[0]))))
							return
						}
					}
				}
			}
		}
		*out = append(*out, fmt.Sprintf(".other (%s) %s", guard, leanStr(g.src(s))))
	case *ast.IfStmt:
		if x.Init != nil {
			g.stmt(x.Init, guard, out)
		}
		c := g.expr(x.Cond)
		g.stmts(x.Body.List, conj(guard, c), out)
		if x.Else != nil {
			nc := fmt.Sprintf(".un \"!\" (%s)", c)
			switch e := x.Else.(type) {
			case *ast.BlockStmt:
				g.stmts(e.List, conj(guard, nc), out)
			default:
				g.stmt(e, conj(guard, nc), out)
			}
		}
	case *ast.SwitchStmt:
		if x.Tag == nil || x.Init != nil {
			*out = append(*out, fmt.Sprintf(".other (%s) %s", guard, leanStr(g.src(s))))
			return
		}
		tag := g.expr(x.Tag)
		for _, cc := range x.Body.List {
			cl := cc.(*ast.CaseClause)
			var c string
			if cl.List == nil {
				c = ".opaque \"default\""
			} else {
				for i, v := range cl.List {
					eq := fmt.Sprintf(".bin \"==\" (%s) (%s)", tag, g.expr(v))
					if i == 0 {
						c = eq
					} else {
						c = fmt.Sprintf(".bin \"||\" (%s) (%s)", c, eq)
					}
				}
			}
			g.stmts(cl.Body, conj(guard, c), out)
		}
	case *ast.ForStmt:
		c := ".opaque \"for\""
		if x.Cond != nil {
			c = fmt.Sprintf(".bin \"&&\" (.opaque \"for\") (%s)", g.expr(x.Cond))
		}
		g.stmts(x.Body.List, conj(guard, c), out)
	case *ast.BlockStmt:
		g.stmts(x.List, guard, out)
	case *ast.ReturnStmt:
		*out = append(*out, fmt.Sprintf(".other (%s) %s", guard, leanStr(g.src(s))))
	default:
		*out = append(*out, fmt.Sprintf(".other (%s) %s", guard, leanStr(g.src(s))))
	}
}

func leanIdent(s string) string {
	r := strings.NewReplacer(".", "_", "*", "", "(", "", ")", "", " ", "")
	return r.Replace(s)
}

func extractGuards(repo string) (string, error) {
	dir := filepath.Join(repo, "codec/frame")
	ents, err := os.ReadDir(dir)
	if err != nil {
		return "", err
	}
	var files []string
	for _, e := range ents {
		if strings.HasSuffix(e.Name(), ".go") && !strings.HasSuffix(e.Name(), "_test.go") {
			files = append(files, e.Name())
		}
	}
	sort.Strings(files)
	var b strings.Builder
	b.WriteString("import NettyVerif.Model.Guards\nnamespace Gen.Guards\nopen NettyVerif.Guards\n\n")
	b.WriteString("/- GENERATED on every run by nvextract (T3) from codec/frame/*.go -- do not edit.\n")
	b.WriteString("   For each function: assignments to identifiers, utils.AssertIf conditions and utils.Assert checks in\n")
	b.WriteString("   source order, each under the conjunction of the enclosing if / switch / for conditions. -/\n\n")
	var names []string
	for _, f := range files {
		fset := token.NewFileSet()
		af, err := parser.ParseFile(fset, filepath.Join(dir, f), nil, 0)
		if err != nil {
			return "", err
		}
		for _, d := range af.Decls {
			fd, ok := d.(*ast.FuncDecl)
			if !ok || fd.Body == nil {
				continue
			}
			g := &guardX{fset: fset}
			name := fd.Name.Name
			if fd.Recv != nil && len(fd.Recv.List) == 1 {
				t := fd.Recv.List[0].Type
				if st, ok := t.(*ast.StarExpr); ok {
					t = st.X
				}
				if id, ok := t.(*ast.Ident); ok {
					name = id.Name + "_" + name
				}
				if len(fd.Recv.List[0].Names) == 1 {
					g.recv = fd.Recv.List[0].Names[0].Name
				}
			}
			if strings.HasSuffix(name, "_CodecName") {
				continue
			}
			var out []string
			g.stmts(fd.Body.List, ".lit 1", &out)
			name = leanIdent(name)
			names = append(names, name)
			fmt.Fprintf(&b, "/-- %s: %s -/\ndef %s : List GS := [", f, fd.Name.Name, name)
			for i, s := range out {
				if i > 0 {
					b.WriteString(",")
				}
				b.WriteString("\n  " + s)
			}
			b.WriteString("]\n\n")
		}
	}
	// utils/reader.go: the exact-length reader handed out by the decoders (field names qualified: `e.n` vs the result `n`)
	{
		fset := token.NewFileSet()
		af, err := parser.ParseFile(fset, filepath.Join(repo, "utils/reader.go"), nil, 0)
		if err != nil {
			return "", err
		}
		found := false
		for _, d := range af.Decls {
			fd, ok := d.(*ast.FuncDecl)
			if !ok || fd.Body == nil || fd.Name.Name != "Read" || fd.Recv == nil || len(fd.Recv.List) != 1 {
				continue
			}
			t := fd.Recv.List[0].Type
			if st, ok := t.(*ast.StarExpr); ok {
				t = st.X
			}
			if id, ok := t.(*ast.Ident); !ok || id.Name != "exactReader" || len(fd.Recv.List[0].Names) != 1 {
				continue
			}
			g := &guardX{fset: fset, recv: fd.Recv.List[0].Names[0].Name, qualify: true}
			var out []string
			g.stmts(fd.Body.List, ".lit 1", &out)
			names = append(names, "exactReader_Read")
			b.WriteString("/-- utils/reader.go: exactReader.Read -/\ndef exactReader_Read : List GS := [")
			for i, s := range out {
				if i > 0 {
					b.WriteString(",")
				}
				b.WriteString("\n  " + s)
			}
			b.WriteString("]\n\n")
			found = true
		}
		if !found {
			b.WriteString("-- UNSUPPORTED: utils/reader.go has no method exactReader.Read\n\n")
		}
	}
	b.WriteString("def all : List (String × List GS) := [")
	for i, n := range names {
		if i > 0 {
			b.WriteString(", ")
		}
		fmt.Fprintf(&b, "(%s, %s)", leanStr(n), n)
	}
	b.WriteString("]\n\nend Gen.Guards\n")
	return b.String(), nil
}
