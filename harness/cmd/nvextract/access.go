package main

// T3 extractor for C12: every access site of every field of the structs behind the concurrently
// usable API (channel, bootstrap, bootstrapOptions, listener, channelHolder, the idle handlers,
// pool.Pool), with its kind (plain read / plain write / sync-atomic call / method call or channel
// operation on the field's value / address taken), the mutexes of the same object lexically held
// at that point (exclusive and shared), and whether it belongs to the object's construction.
// Output: Gen/Access.lean, checked against the protection policy by `decide` in Props/C12.lean.
//
// Types are resolved with go/types (source importer), so a field is recognised however the
// object is named at the site.

import (
	"fmt"
	"go/ast"
	"go/importer"
	"go/parser"
	"go/token"
	"go/types"
	"os"
	"path/filepath"
	"sort"
	"strings"
)

type accSite struct {
	obj, field, ftype, fn, file string
	line, col                  int
	kind                       string // read write atomic call:<m> addr
	excl, shared               []string
	ctor                       bool
}

var accTargets = map[string][]string{
	".":          {"channel", "bootstrap", "bootstrapOptions", "listener", "channelHolder", "readIdleHandler", "writeIdleHandler"},
	"utils/pool": {"Pool"},
}

type fieldInfo struct{ obj, field, ftype string }

type accCtx struct {
	fset    *token.FileSet
	info    *types.Info
	fields  map[*types.Var]fieldInfo
	containerField map[fieldInfo]bool // map- or slice-typed fields
	wrapper        map[string]struct { // "<recvType>.<method>" -> lock wrapper
		lock   string
		shared bool
	}
	sites []accSite
	errs  []string
	file  string
	pkg   *types.Package
}

func typeStr(t types.Type, pkg *types.Package) string {
	return types.TypeString(t, func(p *types.Package) string {
		if p == pkg {
			return ""
		}
		return p.Name()
	})
}

// reference-like field types: a method call on the value does not modify the field itself
func refLike(t types.Type) bool {
	switch u := t.Underlying().(type) {
	case *types.Pointer, *types.Interface, *types.Signature, *types.Chan, *types.Map:
		return true
	case *types.Slice:
		return true
	case *types.Struct:
		_ = u
		return false
	}
	return false
}

var syncTypes = map[string]bool{"sync.Mutex": true, "sync.RWMutex": true, "sync.Map": true, "atomic.Value": true, "sync.Pool": true, "sync.Once": true, "sync.WaitGroup": true}

func (c *accCtx) fieldOf(e ast.Expr) (fieldInfo, *ast.SelectorExpr, bool) {
	se, ok := e.(*ast.SelectorExpr)
	if !ok {
		return fieldInfo{}, nil, false
	}
	sel := c.info.Selections[se]
	if sel == nil || sel.Kind() != types.FieldVal {
		return fieldInfo{}, nil, false
	}
	v, ok := sel.Obj().(*types.Var)
	if !ok {
		return fieldInfo{}, nil, false
	}
	fi, ok := c.fields[v]
	return fi, se, ok
}

func exprStr(fset *token.FileSet, e ast.Expr) string { return nodeStr(fset, e) }

type lockState struct{ excl, shared map[string]bool } // key: "<base expr>.<lock field>"

func (l lockState) clone() lockState {
	n := lockState{map[string]bool{}, map[string]bool{}}
	for k := range l.excl {
		n.excl[k] = true
	}
	for k := range l.shared {
		n.shared[k] = true
	}
	return n
}

func (l lockState) equal(o lockState) bool {
	if len(l.excl) != len(o.excl) || len(l.shared) != len(o.shared) {
		return false
	}
	for k := range l.excl {
		if !o.excl[k] {
			return false
		}
	}
	for k := range l.shared {
		if !o.shared[k] {
			return false
		}
	}
	return true
}

type walker struct {
	c      *accCtx
	fn     string
	ctorID map[types.Object]bool // local identifiers bound to an object under construction
}

// lockCall recognises `<base>.<m>.Lock()` etc. on a sync.Mutex / sync.RWMutex field
func (w *walker) lockCall(call *ast.CallExpr) (key, op string, ok bool) {
	se, ok1 := call.Fun.(*ast.SelectorExpr)
	if !ok1 {
		return "", "", false
	}
	switch se.Sel.Name {
	case "Lock", "Unlock", "RLock", "RUnlock":
	default:
		return "", "", false
	}
	fi, fse, ok2 := w.c.fieldOf(se.X)
	if !ok2 || !(fi.ftype == "sync.Mutex" || fi.ftype == "sync.RWMutex") {
		return "", "", false
	}
	return exprStr(w.c.fset, fse.X) + "." + fi.field, se.Sel.Name, true
}

func terminates(list []ast.Stmt) bool {
	if len(list) == 0 {
		return false
	}
	switch s := list[len(list)-1].(type) {
	case *ast.ReturnStmt, *ast.BranchStmt:
		return true
	case *ast.ExprStmt:
		if call, ok := s.X.(*ast.CallExpr); ok {
			if id, ok := call.Fun.(*ast.Ident); ok && id.Name == "panic" {
				return true
			}
		}
	}
	return false
}

func (w *walker) block(list []ast.Stmt, held lockState) lockState {
	for i, st := range list {
		rest = list[i+1:]
		held = w.stmt(st, held)
	}
	return held
}

// statements that follow the current one in its block (for the swap idiom)
var rest []ast.Stmt

func stripSlice(e ast.Expr) ast.Expr {
	for {
		switch x := e.(type) {
		case *ast.SliceExpr:
			e = x.X
			continue
		case *ast.ParenExpr:
			e = x.X
			continue
		}
		return e
	}
}

// swappedLater: before the next Unlock in the same block the field is assigned a value that is not itself a field
func (w *walker) swappedLater(se *ast.SelectorExpr, following []ast.Stmt) bool {
	want := exprStr(w.c.fset, se)
	for _, st := range following {
		switch s := st.(type) {
		case *ast.ExprStmt:
			if call, ok := s.X.(*ast.CallExpr); ok {
				if _, op, ok := w.lockCall(call); ok && (op == "Unlock" || op == "RUnlock") {
					return false
				}
			}
		case *ast.AssignStmt:
			for i, l := range s.Lhs {
				if exprStr(w.c.fset, l) == want && i < len(s.Rhs) {
					if _, _, isField := w.c.fieldOf(stripSlice(s.Rhs[i])); !isField {
						return true
					}
				}
			}
		}
	}
	return false
}

func (w *walker) nested(list []ast.Stmt, held lockState, pos token.Pos) {
	out := w.block(list, held.clone())
	// a lock acquired inside the block and kept (Lock + defer Unlock under a condition) is simply not counted afterwards
	// (conservative); a lock RELEASED inside a block that falls through would make the analysis unsound: refuse.
	released := false
	for k := range held.excl {
		if !out.excl[k] {
			released = true
		}
	}
	for k := range held.shared {
		if !out.shared[k] {
			released = true
		}
	}
	if released && !terminates(list) {
		w.c.errs = append(w.c.errs, fmt.Sprintf("%s: a lock is released inside a nested block that does not end in return/break/panic", w.c.fset.Position(pos)))
	}
}

func (w *walker) stmt(st ast.Stmt, held lockState) lockState {
	switch s := st.(type) {
	case nil:
		return held
	case *ast.ExprStmt:
		if call, ok := s.X.(*ast.CallExpr); ok {
			if key, op, ok := w.lockCall(call); ok {
				w.expr(call.Fun.(*ast.SelectorExpr).X, held, "call:"+op, nil)
				held = held.clone()
				switch op {
				case "Lock":
					held.excl[key] = true
				case "RLock":
					held.shared[key] = true
				case "Unlock":
					delete(held.excl, key)
				case "RUnlock":
					delete(held.shared, key)
				}
				return held
			}
		}
		w.expr(s.X, held, "read", nil)
	case *ast.DeferStmt:
		if _, op, ok := w.lockCall(s.Call); ok && (op == "Unlock" || op == "RUnlock") {
			w.expr(s.Call.Fun.(*ast.SelectorExpr).X, held, "call:"+op, nil)
			return held // released at function exit: held for the rest of the body
		}
		w.expr(s.Call, lockState{map[string]bool{}, map[string]bool{}}, "read", nil) // runs at exit: assume nothing held
	case *ast.GoStmt:
		w.expr(s.Call, lockState{map[string]bool{}, map[string]bool{}}, "read", nil)
	case *ast.AssignStmt:
		for _, r := range s.Rhs {
			mode := "read"
			// a map or slice held in a field is copied into a local: the local aliases the container. Harmless when the
			// field is replaced by a fresh container before the lock is released (the swap idiom); otherwise kind alias.
			if fi, se, ok := w.c.fieldOf(stripSlice(r)); ok && w.c.containerField[fi] && !w.swappedLater(se, rest) {
				mode = "alias"
			}
			w.expr(r, held, mode, nil)
		}
		for i, l := range s.Lhs {
			w.expr(l, held, "write", nil)
			// x := &T{...} / T{...} / new(T): x names an object under construction
			if s.Tok == token.DEFINE && i < len(s.Rhs) && len(s.Lhs) == len(s.Rhs) {
				if id, ok := l.(*ast.Ident); ok && w.fresh(s.Rhs[i]) {
					if obj := w.c.info.Defs[id]; obj != nil {
						w.ctorID[obj] = true
					}
				}
			}
		}
	case *ast.IncDecStmt:
		w.expr(s.X, held, "write", nil)
	case *ast.SendStmt:
		w.expr(s.Chan, held, "call:send", nil)
		w.expr(s.Value, held, "read", nil)
	case *ast.ReturnStmt:
		for _, r := range s.Results {
			w.expr(r, held, "read", nil)
		}
	case *ast.BlockStmt:
		return w.block(s.List, held)
	case *ast.IfStmt:
		held = w.stmt(s.Init, held)
		w.expr(s.Cond, held, "read", nil)
		w.nested(s.Body.List, held, s.Pos())
		if s.Else != nil {
			switch e := s.Else.(type) {
			case *ast.BlockStmt:
				w.nested(e.List, held, e.Pos())
			default:
				w.nested([]ast.Stmt{e}, held, e.Pos())
			}
		}
	case *ast.ForStmt:
		held = w.stmt(s.Init, held)
		if s.Cond != nil {
			w.expr(s.Cond, held, "read", nil)
		}
		w.stmt(s.Post, held)
		w.nested(s.Body.List, held, s.Pos())
	case *ast.RangeStmt:
		w.expr(s.X, held, "read", nil)
		if s.Key != nil {
			w.expr(s.Key, held, "write", nil)
		}
		if s.Value != nil {
			w.expr(s.Value, held, "write", nil)
		}
		w.nested(s.Body.List, held, s.Pos())
	case *ast.SwitchStmt:
		held = w.stmt(s.Init, held)
		if s.Tag != nil {
			w.expr(s.Tag, held, "read", nil)
		}
		for _, cc := range s.Body.List {
			cl := cc.(*ast.CaseClause)
			for _, e := range cl.List {
				w.expr(e, held, "read", nil)
			}
			w.nested(cl.Body, held, cl.Pos())
		}
	case *ast.TypeSwitchStmt:
		held = w.stmt(s.Init, held)
		w.stmt(s.Assign, held)
		for _, cc := range s.Body.List {
			cl := cc.(*ast.CaseClause)
			w.nested(cl.Body, held, cl.Pos())
		}
	case *ast.SelectStmt:
		for _, cc := range s.Body.List {
			cl := cc.(*ast.CommClause)
			if cl.Comm != nil {
				w.stmt(cl.Comm, held)
			}
			w.nested(cl.Body, held, cl.Pos())
		}
	case *ast.LabeledStmt:
		return w.stmt(s.Stmt, held)
	case *ast.DeclStmt:
		if gd, ok := s.Decl.(*ast.GenDecl); ok {
			for _, sp := range gd.Specs {
				if vs, ok := sp.(*ast.ValueSpec); ok {
					for _, v := range vs.Values {
						w.expr(v, held, "read", nil)
					}
				}
			}
		}
	case *ast.BranchStmt, *ast.EmptyStmt:
	default:
		w.c.errs = append(w.c.errs, fmt.Sprintf("%s: unhandled statement %T", w.c.fset.Position(st.Pos()), st))
	}
	return held
}

func (w *walker) fresh(e ast.Expr) bool {
	if u, ok := e.(*ast.UnaryExpr); ok && u.Op == token.AND {
		e = u.X
	}
	cl, ok := e.(*ast.CompositeLit)
	if !ok {
		return false
	}
	t := w.c.info.TypeOf(cl)
	if t == nil {
		return false
	}
	if n, ok := t.(*types.Named); ok {
		for _, names := range accTargets {
			for _, nm := range names {
				if n.Obj().Name() == nm {
					return true
				}
			}
		}
	}
	return false
}

func (w *walker) baseIsCtor(se *ast.SelectorExpr) bool {
	x := se.X
	for {
		switch y := x.(type) {
		case *ast.ParenExpr:
			x = y.X
			continue
		case *ast.StarExpr:
			x = y.X
			continue
		}
		break
	}
	if id, ok := x.(*ast.Ident); ok {
		if obj := w.c.info.Uses[id]; obj != nil && w.ctorID[obj] {
			return true
		}
	}
	return false
}

func (w *walker) record(fi fieldInfo, se *ast.SelectorExpr, kind string, held lockState) {
	base := exprStr(w.c.fset, se.X)
	var ex, sh []string
	for k := range held.excl {
		if strings.HasPrefix(k, base+".") {
			ex = append(ex, strings.TrimPrefix(k, base+"."))
		}
	}
	for k := range held.shared {
		if strings.HasPrefix(k, base+".") {
			sh = append(sh, strings.TrimPrefix(k, base+"."))
		}
	}
	sort.Strings(ex)
	sort.Strings(sh)
	p := w.c.fset.Position(se.Sel.Pos())
	w.c.sites = append(w.c.sites, accSite{obj: fi.obj, field: fi.field, ftype: fi.ftype, fn: w.fn, file: w.c.file, line: p.Line, col: p.Column,
		kind: kind, excl: ex, shared: sh, ctor: w.baseIsCtor(se)})
}

// expr walks an expression; `mode` says how the expression itself is used (read / write / call:<m> /
// atomic / addr); sub-expressions are reads unless the syntax says otherwise.
func (w *walker) expr(e ast.Expr, held lockState, mode string, _ ast.Node) {
	switch x := e.(type) {
	case nil:
	case *ast.SelectorExpr:
		if fi, se, ok := w.c.fieldOf(x); ok {
			kind := mode
			if strings.HasPrefix(mode, "call:") {
				v := w.c.info.Selections[se].Obj().(*types.Var)
				if !(syncTypes[fi.ftype] || refLike(v.Type())) {
					kind = "write" // a method of a plain value may modify it in place
				}
			}
			w.record(fi, se, kind, held)
			w.expr(x.X, held, "read", nil)
			return
		}
		w.expr(x.X, held, "read", nil)
	case *ast.Ident, *ast.BasicLit:
	case *ast.ParenExpr:
		w.expr(x.X, held, mode, nil)
	case *ast.StarExpr:
		w.expr(x.X, held, "read", nil)
	case *ast.UnaryExpr:
		switch x.Op {
		case token.AND:
			if _, ok := x.X.(*ast.CompositeLit); ok {
				w.expr(x.X, held, "read", nil)
			} else {
				w.expr(x.X, held, "addr", nil)
			}
		case token.ARROW:
			w.expr(x.X, held, "call:recv", nil)
		default:
			w.expr(x.X, held, "read", nil)
		}
	case *ast.BinaryExpr:
		w.expr(x.X, held, "read", nil)
		w.expr(x.Y, held, "read", nil)
	case *ast.IndexExpr:
		// element write = write to the container named by the field
		w.expr(x.X, held, mode, nil)
		w.expr(x.Index, held, "read", nil)
	case *ast.SliceExpr:
		if mode == "alias" {
			w.expr(x.X, held, "alias", nil)
		} else {
			w.expr(x.X, held, "read", nil)
		}
		w.expr(x.Low, held, "read", nil)
		w.expr(x.High, held, "read", nil)
		w.expr(x.Max, held, "read", nil)
	case *ast.TypeAssertExpr:
		w.expr(x.X, held, "read", nil)
	case *ast.KeyValueExpr:
		w.expr(x.Value, held, "read", nil)
	case *ast.CompositeLit:
		t := w.c.info.TypeOf(x)
		for _, el := range x.Elts {
			if kv, ok := el.(*ast.KeyValueExpr); ok {
				if id, ok := kv.Key.(*ast.Ident); ok && t != nil {
					if v, ok := w.c.info.Uses[id].(*types.Var); ok {
						if fi, ok := w.c.fields[v]; ok {
							p := w.c.fset.Position(id.Pos())
							w.c.sites = append(w.c.sites, accSite{obj: fi.obj, field: fi.field, ftype: fi.ftype, fn: w.fn, file: w.c.file, line: p.Line, col: p.Column, kind: "write", ctor: true})
						}
					}
				}
				w.expr(kv.Value, held, "read", nil)
			} else {
				w.expr(el, held, "read", nil)
			}
		}
	case *ast.FuncLit:
		// an Option-style initialiser `func(o *bootstrapOptions) {...}`: its parameter names an object under construction
		sub := &walker{c: w.c, fn: w.fn, ctorID: w.ctorID}
		if sig, ok := w.c.info.TypeOf(x).(*types.Signature); ok && sig.Params().Len() == 1 && sig.Results().Len() == 0 {
			if pt, ok := sig.Params().At(0).Type().(*types.Pointer); ok {
				if n, ok := pt.Elem().(*types.Named); ok && n.Obj().Name() == "bootstrapOptions" && len(x.Type.Params.List) == 1 && len(x.Type.Params.List[0].Names) == 1 {
					if obj := w.c.info.Defs[x.Type.Params.List[0].Names[0]]; obj != nil {
						sub.ctorID[obj] = true
					}
				}
			}
		}
		sub.block(x.Body.List, lockState{map[string]bool{}, map[string]bool{}})
	case *ast.CallExpr:
		w.call(x, held)
	default:
		if _, ok := e.(ast.Expr); ok {
			// type expressions (ArrayType, MapType, ChanType, FuncType, InterfaceType, StructType, Ellipsis): nothing to record
			return
		}
	}
}

func (w *walker) call(x *ast.CallExpr, held lockState) {
	// sync/atomic functions: first argument is the address of the word
	if se, ok := x.Fun.(*ast.SelectorExpr); ok {
		if id, ok := se.X.(*ast.Ident); ok {
			if pn, ok := w.c.info.Uses[id].(*types.PkgName); ok && pn.Imported().Path() == "sync/atomic" && len(x.Args) > 0 {
				if u, ok := x.Args[0].(*ast.UnaryExpr); ok && u.Op == token.AND {
					w.expr(u.X, held, "atomic", nil)
				} else {
					w.expr(x.Args[0], held, "read", nil)
				}
				for _, a := range x.Args[1:] {
					w.expr(a, held, "read", nil)
				}
				return
			}
		}
		// lock wrapper: r.withLock(func() {...})
		if sel := w.c.info.Selections[se]; sel != nil && sel.Kind() == types.MethodVal {
			recv := sel.Recv()
			if p, ok := recv.(*types.Pointer); ok {
				recv = p.Elem()
			}
			if n, ok := recv.(*types.Named); ok {
				if wr, ok := w.c.wrapper[n.Obj().Name()+"."+se.Sel.Name]; ok && len(x.Args) == 1 {
					if fl, ok := x.Args[0].(*ast.FuncLit); ok {
						w.expr(se.X, held, "read", nil)
						h := lockState{map[string]bool{}, map[string]bool{}}
						key := exprStr(w.c.fset, se.X) + "." + wr.lock
						if wr.shared {
							h.shared[key] = true
						} else {
							h.excl[key] = true
						}
						(&walker{c: w.c, fn: w.fn, ctorID: w.ctorID}).block(fl.Body.List, h)
						return
					}
				}
			}
			// method call on a field's value: X.f.M(...)
			w.expr(se.X, held, "call:"+se.Sel.Name, nil)
			for _, a := range x.Args {
				w.expr(a, held, "read", nil)
			}
			return
		}
	}
	if id, ok := x.Fun.(*ast.Ident); ok {
		if _, isBuiltin := w.c.info.Uses[id].(*types.Builtin); isBuiltin && len(x.Args) > 0 {
			switch id.Name {
			case "len", "cap":
				mode := "read"
				if t := w.c.info.TypeOf(x.Args[0]); t != nil {
					if _, ok := t.Underlying().(*types.Chan); ok {
						mode = "call:" + id.Name
					}
				}
				w.expr(x.Args[0], held, mode, nil)
				return
			case "close":
				w.expr(x.Args[0], held, "call:close", nil)
				return
			case "delete":
				w.expr(x.Args[0], held, "write", nil)
				for _, a := range x.Args[1:] {
					w.expr(a, held, "read", nil)
				}
				return
			}
		}
	}
	w.expr(x.Fun, held, "read", nil)
	for _, a := range x.Args {
		w.expr(a, held, "read", nil)
	}
}

// findWrappers: methods of the form  func (r *T) name(fn func()) { r.m.Lock(); defer r.m.Unlock(); fn() }
func findWrappers(c *accCtx, files []*ast.File) {
	for _, f := range files {
		for _, d := range f.Decls {
			fd, ok := d.(*ast.FuncDecl)
			if !ok || fd.Recv == nil || fd.Body == nil || len(fd.Body.List) != 3 || len(fd.Type.Params.List) != 1 {
				continue
			}
			w := &walker{c: c}
			es, ok1 := fd.Body.List[0].(*ast.ExprStmt)
			ds, ok2 := fd.Body.List[1].(*ast.DeferStmt)
			cs, ok3 := fd.Body.List[2].(*ast.ExprStmt)
			if !(ok1 && ok2 && ok3) {
				continue
			}
			call, ok := es.X.(*ast.CallExpr)
			if !ok {
				continue
			}
			key, op, ok := w.lockCall(call)
			key2, op2, okd := w.lockCall(ds.Call)
			fcall, okc := cs.X.(*ast.CallExpr)
			if !ok || !okd || !okc || key != key2 || len(fcall.Args) != 0 {
				continue
			}
			if id, ok := fcall.Fun.(*ast.Ident); !ok || len(fd.Type.Params.List[0].Names) != 1 || id.Name != fd.Type.Params.List[0].Names[0].Name {
				continue
			}
			if !((op == "Lock" && op2 == "Unlock") || (op == "RLock" && op2 == "RUnlock")) {
				continue
			}
			rt := fd.Recv.List[0].Type
			if s, ok := rt.(*ast.StarExpr); ok {
				rt = s.X
			}
			c.wrapper[nodeStr(c.fset, rt)+"."+fd.Name.Name] = struct {
				lock   string
				shared bool
			}{key[strings.LastIndex(key, ".")+1:], op == "RLock"}
		}
	}
}

func extractAccess(repo string) (string, error) {
	if err := os.Chdir(repo); err != nil {
		return "", err
	}
	var all []accSite
	var allFields []fieldInfo
	var errs []string
	dirs := make([]string, 0, len(accTargets))
	for d := range accTargets {
		dirs = append(dirs, d)
	}
	sort.Strings(dirs)
	for _, dir := range dirs {
		fset := token.NewFileSet()
		pkgs, err := parser.ParseDir(fset, filepath.Join(repo, dir), func(fi os.FileInfo) bool { return !strings.HasSuffix(fi.Name(), "_test.go") }, 0)
		if err != nil {
			return "", err
		}
		for name, p := range pkgs {
			var names []string
			for fn := range p.Files {
				names = append(names, fn)
			}
			sort.Strings(names)
			var files []*ast.File
			for _, fn := range names {
				files = append(files, p.Files[fn])
			}
			info := &types.Info{Selections: map[*ast.SelectorExpr]*types.Selection{}, Uses: map[*ast.Ident]types.Object{}, Defs: map[*ast.Ident]types.Object{}, Types: map[ast.Expr]types.TypeAndValue{}}
			conf := types.Config{Importer: importer.ForCompiler(fset, "source", nil)}
			pkg, err := conf.Check(name, fset, files, info)
			if err != nil {
				return "", fmt.Errorf("type-checking %s: %v", dir, err)
			}
			c := &accCtx{fset: fset, info: info, fields: map[*types.Var]fieldInfo{}, containerField: map[fieldInfo]bool{}, pkg: pkg, wrapper: map[string]struct {
				lock   string
				shared bool
			}{}}
			for _, tn := range accTargets[dir] {
				obj := pkg.Scope().Lookup(tn)
				if obj == nil {
					return "", fmt.Errorf("type %s not found in %s", tn, dir)
				}
				st, ok := obj.Type().Underlying().(*types.Struct)
				if !ok {
					return "", fmt.Errorf("%s is not a struct", tn)
				}
				for i := 0; i < st.NumFields(); i++ {
					f := st.Field(i)
					if f.Embedded() {
						continue
					}
					c.fields[f] = fieldInfo{tn, f.Name(), typeStr(f.Type(), pkg)}
					allFields = append(allFields, c.fields[f])
					switch f.Type().Underlying().(type) {
					case *types.Map, *types.Slice:
						c.containerField[c.fields[f]] = true
					}
				}
			}
			findWrappers(c, files)
			for i, f := range files {
				c.file = filepath.Base(names[i])
				for _, d := range f.Decls {
					fd, ok := d.(*ast.FuncDecl)
					if !ok || fd.Body == nil {
						continue
					}
					fn := fd.Name.Name
					if fd.Recv != nil && len(fd.Recv.List) == 1 {
						rt := fd.Recv.List[0].Type
						if s, ok := rt.(*ast.StarExpr); ok {
							rt = s.X
						}
						if ix, ok := rt.(*ast.IndexExpr); ok {
							rt = ix.X
						}
						fn = nodeStr(fset, rt) + "." + fn
					}
					w := &walker{c: c, fn: fn, ctorID: map[types.Object]bool{}}
					w.block(fd.Body.List, lockState{map[string]bool{}, map[string]bool{}})
				}
			}
			all = append(all, c.sites...)
			errs = append(errs, c.errs...)
		}
	}
	if len(errs) > 0 {
		return "", fmt.Errorf("irregular code for the lock-scope analysis: %s", strings.Join(errs, "; "))
	}
	sort.Slice(all, func(i, j int) bool {
		a, b := all[i], all[j]
		if a.obj != b.obj {
			return a.obj < b.obj
		}
		if a.field != b.field {
			return a.field < b.field
		}
		if a.file != b.file {
			return a.file < b.file
		}
		if a.line != b.line {
			return a.line < b.line
		}
		return a.col < b.col
	})
	var b strings.Builder
	b.WriteString("import NettyVerif.Model.Access\nnamespace Gen.Access\nopen NettyVerif.Access\n\n")
	b.WriteString("/- GENERATED on every run by nvextract (T3) from channel.go, bootstrap.go, holder.go, handler.go, options.go,\n   utils/pool/generic.go -- do not edit. One entry per access site of a field of the structs behind the concurrently\n   usable API. -/\n\n")
	lst := func(xs []string) string {
		q := make([]string, len(xs))
		for i, x := range xs {
			q[i] = fmt.Sprintf("%q", x)
		}
		return "[" + strings.Join(q, ", ") + "]"
	}
	// group per field: one definition per struct keeps every term small enough for `decide`
	byObj := map[string][]accSite{}
	var objs []string
	for _, s := range all {
		if _, ok := byObj[s.obj]; !ok {
			objs = append(objs, s.obj)
		}
		byObj[s.obj] = append(byObj[s.obj], s)
	}
	for _, o := range objs {
		fmt.Fprintf(&b, "def sites_%s : List Site := [\n", o)
		ss := byObj[o]
		for i, s := range ss {
			kind := "." + s.kind
			if strings.HasPrefix(s.kind, "call:") {
				kind = fmt.Sprintf("(.call %q)", strings.TrimPrefix(s.kind, "call:"))
			}
			comma := ","
			if i == len(ss)-1 {
				comma = ""
			}
			fmt.Fprintf(&b, "  { obj := %q, field := %q, ftype := %q, fn := %q, file := %q, line := %d, kind := %s, excl := %s, shared := %s, ctor := %v }%s\n",
				s.obj, s.field, s.ftype, s.fn, s.file, s.line, kind, lst(s.excl), lst(s.shared), s.ctor, comma)
		}
		b.WriteString("]\n\n")
	}
	b.WriteString("def table : List Site := ")
	for i, o := range objs {
		if i > 0 {
			b.WriteString(" ++ ")
		}
		b.WriteString("sites_" + o)
	}
	b.WriteString("\n\n")
	// every declared field of the target structs (a new field cannot go unnoticed)
	b.WriteString("def fields : List (String × String) := [")
	for i, f := range allFields {
		if i > 0 {
			b.WriteString(", ")
		}
		fmt.Fprintf(&b, "(%q, %q)", f.obj, f.field)
	}
	b.WriteString("]\n\nend Gen.Access\n")
	return b.String(), nil
}
