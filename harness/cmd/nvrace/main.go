// nvrace: uninstrumented concurrent stress programs over pairs and triples of the operations the
// API offers for concurrent use, built with -race against /repo's current tree (no overlay, real
// goroutines, the framework's own goroutines running). The race detector's reports (GORACE
// log_path) are the implementation-side search of C12: a report is a concrete failing execution.
package main

import (
	"testing/iotest"
	"github.com/go-netty/go-netty/codec/frame"
	"github.com/go-netty/go-netty/codec/format"
	"encoding/binary"
	"bytes"
	"context"
	"errors"
	"flag"
	"fmt"
	"io"
	"math/rand"
	"net"
	"os"
	"strings"
	"sync"
	"sync/atomic"
	"time"

	netty "github.com/go-netty/go-netty"
	"github.com/go-netty/go-netty/transport"
	"github.com/go-netty/go-netty/utils/pool/pbuffer"
	"github.com/go-netty/go-netty/utils/pool/pbytes"
	"nvharness/mock"
)

var opCount int64

func op() { atomic.AddInt64(&opCount, 1) }

type sink struct{}

func (sink) HandleRead(ctx netty.InboundContext, m netty.Message) { ctx.HandleRead(m) }
func (sink) HandleException(ctx netty.ExceptionContext, ex netty.Exception) {
	// swallow: read failures after Close are expected; do not forward to the logging tail
}
func (sink) HandleEvent(ctx netty.EventContext, ev netty.Event) {}

// blocking reader: pulls bytes from the transport like a frame codec would
type reader struct{}

func (reader) HandleRead(ctx netty.InboundContext, m netty.Message) {
	type rd interface{ Read([]byte) (int, error) }
	buf := make([]byte, 64)
	n, err := m.(rd).Read(buf)
	if err != nil {
		panic(err)
	}
	ctx.HandleRead(buf[:n])
}

func newBootstrap(f *mock.Factory, async bool, extra ...netty.Handler) netty.Bootstrap {
	chf := netty.NewChannel()
	if async {
		chf = netty.NewAsyncWriteChannel(8, true)
	}
	init := func(ch netty.Channel) {
		ch.Pipeline().AddLast(reader{})
		for _, h := range extra {
			ch.Pipeline().AddLast(h)
		}
		ch.Pipeline().AddLast(sink{})
	}
	return netty.NewBootstrap(netty.WithTransport(f), netty.WithChannel(chf), netty.WithChildInitializer(init), netty.WithClientInitializer(init))
}

// writes (all entry points) x Trigger x IsActive/Context x Close on one channel
func channelOps(rng *rand.Rand, async bool) {
	f := mock.NewFactory()
	bs := newBootstrap(f, async)
	ch, err := bs.Connect("mock://c:1")
	if err != nil {
		panic(err)
	}
	var wg sync.WaitGroup
	nw := 2 + rng.Intn(3)
	closeAfter := time.Duration(rng.Intn(300)) * time.Microsecond
	for g := 0; g < nw; g++ {
		wg.Add(1)
		go func(g int) {
			defer wg.Done()
			for i := 0; i < 40; i++ {
				switch (g + i) % 6 {
				case 0:
					ch.Write([]byte("hello"))
				case 1:
					ch.Write1([]byte("w1"))
				case 2:
					ch.Writev([][]byte{[]byte("a"), []byte("b")})
				case 3:
					ch.Write(bytes.NewBufferString("buffer"))
				case 4:
					ch.Write(strings.NewReader("reader"))
				case 5:
					ch.Trigger("event")
				}
				op()
			}
		}(g)
	}
	wg.Add(1)
	go func() {
		defer wg.Done()
		for i := 0; i < 60; i++ {
			_ = ch.IsActive()
			_ = ch.Context().Err()
			_ = ch.ID()
			op()
		}
	}()
	for k := 0; k < 1+rng.Intn(2); k++ {
		wg.Add(1)
		go func(k int) {
			defer wg.Done()
			time.Sleep(closeAfter)
			if k == 0 {
				ch.Close(errors.New("bye"))
			} else {
				ch.Close(nil)
			}
			op()
		}(k)
	}
	wg.Wait()
	ch.Close(nil)
	bs.Shutdown()
}

// Listen/Async x Listener.Close x Shutdown x Connect, with connections arriving
func bootstrapOps(rng *rand.Rand, async bool) {
	f := mock.NewFactory()
	bs := newBootstrap(f, async)
	var wg sync.WaitGroup
	nl := 1 + rng.Intn(3)
	listeners := make([]netty.Listener, nl)
	var lmu sync.Mutex
	for k := 0; k < nl; k++ {
		wg.Add(1)
		go func(k int) {
			defer wg.Done()
			func() {
				defer func() { recover() }() // duplicate listener after a racing re-Listen
				l := bs.Listen(fmt.Sprintf("mock://l%d:1", k))
				lmu.Lock()
				listeners[k] = l
				lmu.Unlock()
				l.Async(func(error) {})
				op()
			}()
		}(k)
	}
	for d := 0; d < 3; d++ {
		wg.Add(1)
		targets := []int{rng.Intn(3), rng.Intn(3), rng.Intn(3), rng.Intn(3), rng.Intn(3)}
		go func(d int) {
			defer wg.Done()
			for i := 0; i < 5; i++ {
				if t, ok := f.Dial(fmt.Sprintf("l%d:1", targets[i])); ok {
					t.Feed([]byte("ping"))
				}
				op()
				time.Sleep(time.Duration(20+d*10) * time.Microsecond)
			}
		}(d)
	}
	// two goroutines connect with one option list that has spare capacity (built once with append, passed as opts...)
	shared := append(make([]transport.Option, 0, 4), transport.WithAttachment("shared"))
	for c := 0; c < 2; c++ {
		wg.Add(1)
		go func(c int) {
			defer wg.Done()
			for i := 0; i < 3; i++ {
				if ch, err := bs.Connect(fmt.Sprintf("mock://c%d:1", c), shared...); err == nil {
					ch.Write([]byte("x"))
				}
				op()
			}
		}(c)
	}
	closeDelay, shutDelay := time.Duration(rng.Intn(200))*time.Microsecond, time.Duration(rng.Intn(400))*time.Microsecond
	wg.Add(1)
	go func() {
		defer wg.Done()
		time.Sleep(closeDelay)
		lmu.Lock()
		l := listeners[0]
		lmu.Unlock()
		if l != nil {
			l.Close()
		}
		op()
	}()
	if rng.Intn(2) == 0 { // the listening socket of listener 0 fails on its own, around the time it is closed
		wg.Add(1)
		breakDelay := closeDelay + time.Duration(rng.Intn(40)-20)*time.Microsecond
		go func() {
			defer wg.Done()
			time.Sleep(breakDelay)
			f.Break("l0:1")
			op()
		}()
	}
	wg.Add(1)
	go func() {
		defer wg.Done()
		time.Sleep(shutDelay)
		bs.Shutdown()
		op()
	}()
	wg.Wait()
	bs.Shutdown()
	time.Sleep(2 * time.Millisecond)
}

// idle handlers: traffic x timer callbacks x inactive (idle time is at least one second)
func idleOps(rng *rand.Rand, async bool) {
	f := mock.NewFactory()
	bs := newBootstrap(f, async, netty.ReadIdleHandler(time.Second), netty.WriteIdleHandler(time.Second))
	var chans []netty.Channel
	for i := 0; i < 3; i++ {
		ch, err := bs.Connect("mock://c:1")
		if err != nil {
			panic(err)
		}
		chans = append(chans, ch)
	}
	trs := f.Transports()
	stop := make(chan struct{})
	var wg sync.WaitGroup
	for i, ch := range chans {
		wg.Add(2)
		pause := time.Duration(200+rng.Intn(400)) * time.Millisecond
		go func(i int, ch netty.Channel) { // outbound traffic, pausing around the timer's expiry
			defer wg.Done()
			for {
				select {
				case <-stop:
					return
				default:
				}
				ch.Write([]byte("o"))
				op()
				time.Sleep(pause)
			}
		}(i, ch)
		go func(i int) { // inbound traffic
			defer wg.Done()
			for {
				select {
				case <-stop:
					return
				default:
				}
				trs[i].Feed([]byte("i"))
				op()
				time.Sleep(time.Duration(300+i*350) * time.Millisecond)
			}
		}(i)
	}
	time.Sleep(time.Duration(1050+rng.Intn(200)) * time.Millisecond) // the first timers fire about now
	chans[0].Close(nil)                                             // inactive while a callback may be running
	time.Sleep(time.Duration(rng.Intn(100)) * time.Millisecond)
	close(stop)
	bs.Shutdown()
	wg.Wait()
}

// the buffer pools
func poolOps(rng *rand.Rand, _ bool) {
	var wg sync.WaitGroup
	for g := 0; g < 6; g++ {
		wg.Add(1)
		go func(g int) {
			defer wg.Done()
			r := rand.New(rand.NewSource(int64(g)))
			for i := 0; i < 300; i++ {
				n := 1 + r.Intn(70000)
				p := pbytes.Get(n)
				*p = append((*p)[:0], byte(g))
				pbytes.Put(p)
				b := pbuffer.Get(n)
				b.WriteByte(byte(g))
				pbuffer.Put(b)
				op()
			}
		}(g)
	}
	wg.Wait()
}

// an in-memory net.Conn without any synchronisation of its own on the write side beyond what net.Pipe gives:
// the library's buffered transport (bufio.Writer) sits on top, as with a TCP connection
type bufFactory struct{ mock.Factory }

func newBufFactory() *bufFactory { return &bufFactory{*mock.NewFactory()} }

func (f *bufFactory) Connect(o *transport.Options) (transport.Transport, error) {
	a, b := net.Pipe()
	go io.Copy(io.Discard, b) // the peer drains
	return transport.NewTransport(a, 0, 512), nil
}

// writes x Close on an async channel over the library's write-buffered transport
func bufferedOps(rng *rand.Rand, _ bool) {
	f := newBufFactory()
	chf := netty.NewAsyncWriteChannel(4, true)
	init := func(ch netty.Channel) { ch.Pipeline().AddLast(sink{}) }
	bs := netty.NewBootstrap(netty.WithTransport(f), netty.WithChannel(chf), netty.WithClientInitializer(init), netty.WithChildInitializer(init))
	ch, err := bs.Connect("mock://c:1")
	if err != nil {
		panic(err)
	}
	var wg sync.WaitGroup
	for g := 0; g < 3; g++ {
		wg.Add(1)
		go func(g int) {
			defer wg.Done()
			for i := 0; i < 60; i++ {
				if (g+i)%2 == 0 {
					ch.Write1(bytes.Repeat([]byte{byte(g)}, 100+i))
				} else {
					ch.Writev([][]byte{bytes.Repeat([]byte{byte(g)}, 300), []byte("x")})
				}
				op()
				if i%7 == 0 {
					time.Sleep(time.Duration(50+g*20) * time.Microsecond) // let the sender release and re-acquire
				}
			}
		}(g)
	}
	wg.Wait()
	ch.Close(nil)
	bs.Shutdown()
}

// a connection whose k-th write stalls and then fails: the sender gives up while writers and Close go on
type failingConn struct {
	net.Conn
	n     int64
	k     int64
	stall time.Duration
}

func (c *failingConn) Write(p []byte) (int, error) {
	if atomic.AddInt64(&c.n, 1) >= c.k {
		time.Sleep(c.stall)
		return 0, errors.New("connection reset by peer")
	}
	return c.Conn.Write(p)
}

type failFactory struct {
	mock.Factory
	k     int64
	stall time.Duration
}

func (f *failFactory) Connect(o *transport.Options) (transport.Transport, error) {
	a, b := net.Pipe()
	go io.Copy(io.Discard, b)
	return transport.NewTransport(&failingConn{Conn: a, k: f.k, stall: f.stall}, 0, 0), nil
}

// writes x Close on an async channel whose sender hits a failing transport write while Close is polling
func sendFailOps(rng *rand.Rand, _ bool) {
	f := &failFactory{Factory: *mock.NewFactory(), k: int64(1 + rng.Intn(3)), stall: time.Duration(100+rng.Intn(400)) * time.Microsecond}
	chf := netty.NewAsyncWriteChannel(8, rng.Intn(2) == 0)
	init := func(ch netty.Channel) { ch.Pipeline().AddLast(sink{}) }
	bs := netty.NewBootstrap(netty.WithTransport(f), netty.WithChannel(chf), netty.WithClientInitializer(init), netty.WithChildInitializer(init))
	ch, err := bs.Connect("mock://c:1")
	if err != nil {
		panic(err)
	}
	var wg sync.WaitGroup
	for g := 0; g < 2; g++ {
		wg.Add(1)
		go func(g int) {
			defer wg.Done()
			for i := 0; i < 12; i++ {
				ch.Write1(bytes.Repeat([]byte{byte(g)}, 64))
				op()
			}
		}(g)
	}
	wg.Add(1)
	go func() {
		defer wg.Done()
		time.Sleep(time.Duration(rng.Intn(300)) * time.Microsecond)
		ch.Close(nil) // polls the queue and the sender's state while the sender is stalled in the failing write
		op()
	}()
	wg.Wait()
	ch.Close(nil)
	bs.Shutdown()
}

// a connection whose writes take a little while: the sender is still inside Writev when the writer goes on
type slowConn struct{ net.Conn }

func (c slowConn) Write(p []byte) (int, error) {
	time.Sleep(30 * time.Microsecond)
	return c.Conn.Write(p)
}

type slowFactory struct{ mock.Factory }

func (f *slowFactory) Connect(o *transport.Options) (transport.Transport, error) {
	a, b := net.Pipe()
	go io.Copy(io.Discard, b)
	return transport.NewTransport(slowConn{a}, 0, 0), nil
}

type onlyReader struct{ r io.Reader } // hides WriteTo: the head handler streams it through ReadFrom

func (o onlyReader) Read(p []byte) (int, error) { return o.r.Read(p) }

// messages that are plain io.Readers of several KiB on an async channel with a slow connection: ReadFrom hands
// chunk after chunk to the sender while it reads the next one
func streamOps(rng *rand.Rand, _ bool) {
	f := &slowFactory{Factory: *mock.NewFactory()}
	chf := netty.NewAsyncWriteChannel(8, true)
	init := func(ch netty.Channel) { ch.Pipeline().AddLast(sink{}) }
	bs := netty.NewBootstrap(netty.WithTransport(f), netty.WithChannel(chf), netty.WithClientInitializer(init), netty.WithChildInitializer(init))
	ch, err := bs.Connect("mock://c:1")
	if err != nil {
		panic(err)
	}
	var wg sync.WaitGroup
	var sizes [2][4]int
	for g := range sizes {
		for i := range sizes[g] {
			sizes[g][i] = 3000 + rng.Intn(3000)
		}
	}
	for g := 0; g < 2; g++ {
		wg.Add(1)
		go func(g int) {
			defer wg.Done()
			for i := 0; i < 4; i++ {
				var r io.Reader = bytes.NewReader(bytes.Repeat([]byte{byte('a' + g)}, sizes[g][i]))
				if i%2 == 1 { // a reader that hands out its last bytes together with io.EOF
					r = iotest.DataErrReader(r)
				}
				ch.Write(onlyReader{r})
				op()
			}
		}(g)
	}
	// … while a third goroutine writes small messages, whose copies come from the same pool class as the stream chunks
	wg.Add(1)
	go func() {
		defer wg.Done()
		for i := 0; i < 12; i++ {
			ch.Write(bytes.Repeat([]byte{'z'}, 400+50*i))
			op()
		}
	}()
	wg.Wait()
	ch.Close(nil)
	bs.Shutdown()
}

// several goroutines write through the shipped codecs of one channel: whatever state a codec keeps is shared by them
func codecOps(rng *rand.Rand, async bool) {
	f := mock.NewFactory()
	chf := netty.NewChannel()
	if async {
		chf = netty.NewAsyncWriteChannel(8, true)
	}
	which := rng.Intn(5)
	init := func(ch netty.Channel) {
		switch which {
		case 0:
			ch.Pipeline().AddLast(frame.VarintLengthFieldCodec(1<<20), format.TextCodec())
		case 1:
			ch.Pipeline().AddLast(frame.LengthFieldCodec(binary.BigEndian, 1<<20, 0, 2, 0, 2), format.TextCodec())
		case 2:
			ch.Pipeline().AddLast(frame.DelimiterCodec(1<<20, "\n", true), format.TextCodec())
		case 3:
			ch.Pipeline().AddLast(frame.VarintLengthFieldCodec(1<<20), format.JSONCodec(true, false))
		default:
			ch.Pipeline().AddLast(frame.LengthFieldPrepender(binary.LittleEndian, 4, 0, false))
		}
		ch.Pipeline().AddLast(sink{})
	}
	bs := netty.NewBootstrap(netty.WithTransport(f), netty.WithChannel(chf), netty.WithClientInitializer(init), netty.WithChildInitializer(init))
	ch, err := bs.Connect("mock://c:1")
	if err != nil {
		panic(err)
	}
	var wg sync.WaitGroup
	for g := 0; g < 3; g++ {
		wg.Add(1)
		go func(g int) {
			defer wg.Done()
			for i := 0; i < 30; i++ {
				switch which {
				case 3:
					ch.Write(map[string]interface{}{"g": g, "i": i})
				case 4:
					ch.Write(bytes.Repeat([]byte{byte('a' + g)}, 10+100*g))
				default:
					ch.Write(strings.Repeat(string(rune('a'+g)), 10+100*g))
				}
				op()
			}
		}(g)
	}
	wg.Wait()
	ch.Close(nil)
	bs.Shutdown()
}

var scenarios = []struct {
	name  string
	f     func(*rand.Rand, bool)
	async bool
	cost  int // iterations are divided by cost
}{
	{"channel-async", channelOps, true, 1},
	{"channel-sync", channelOps, false, 1},
	{"bootstrap-async", bootstrapOps, true, 1},
	{"bootstrap-sync", bootstrapOps, false, 1},
	{"channel-buffered", bufferedOps, true, 2},
	{"channel-sendfail", sendFailOps, true, 4},
	{"channel-stream", streamOps, true, 4},
	{"codecs-async", codecOps, true, 2},
	{"codecs-sync", codecOps, false, 2},
	{"idle", idleOps, true, 150},
	{"pools", poolOps, false, 10},
}

func main() {
	name := flag.String("scenario", "", "scenario name")
	iters := flag.Int("iters", 100, "iterations")
	seed := flag.Int64("seed", 1, "seed")
	list := flag.Bool("list", false, "list scenarios")
	flag.Parse()
	if *list {
		for _, s := range scenarios {
			fmt.Println(s.name)
		}
		return
	}
	_ = context.Background
	for _, s := range scenarios {
		if s.name != *name {
			continue
		}
		n := *iters / s.cost
		if n < 1 {
			n = 1
		}
		rng := rand.New(rand.NewSource(*seed))
		for i := 0; i < n; i++ {
			s.f(rng, s.async)
		}
		fmt.Printf("C12 stress %s iters=%d ops=%d\n", s.name, n, atomic.LoadInt64(&opCount))
		return
	}
	fmt.Fprintln(os.Stderr, "unknown scenario")
	os.Exit(2)
}
