// nvinstr rewrites go-netty sources into instrumented copies used through `go build -overlay`:
//   * NvYield("<func>.<kind>") is inserted before every statement that touches shared state
//     (atomics, queue length, closeErr, cancel, transport calls, pool Get/Put, mutex) -- exactly one
//     yield per such statement;
//   * every `select` becomes `nvsel := NvSelect(point, hasDefault, cases...)` + `switch nvsel.Index`,
//     so that the choice among ready cases is made by the controller;
//   * `x.Lock()` on a sync.Mutex field becomes a TryLock loop, `time.Sleep` becomes NvSleep,
//     `<-ch` statements become NvRecvBlock.
// Identification is by AST shape and source text of the statement, never by line number.
// usage: nvinstr <in.go> <out.go> [func,func,...]   (default: all functions)
package main

import (
	"bytes"
	"fmt"
	"go/ast"
	"go/format"
	"go/parser"
	"go/token"
	"os"
	"strings"
)

var fset = token.NewFileSet()

func src(n ast.Node) string {
	var b bytes.Buffer
	format.Node(&b, fset, n)
	return b.String()
}

func parseStmts(code string) []ast.Stmt {
	f, err := parser.ParseFile(fset, "", "package p\nfunc _() {\n"+code+"\n}", 0)
	if err != nil {
		panic(fmt.Sprintf("%v\n%s", err, code))
	}
	return f.Decls[0].(*ast.FuncDecl).Body.List
}

// sync-relevant fragments: (substring, label)
var syncKeys = []struct{ key, label string }{
	{"atomic.CompareAndSwapInt32(&c.closed", "cas-closed"},
	{"atomic.CompareAndSwapInt32(&c.running", "cas-running"},
	{"atomic.LoadInt32(&c.running", "load-running"},
	{"atomic.LoadInt32(&c.closed", "load-closed"},
	{"atomic.StoreInt32(&c.running", "store-running"},
	{"atomic.StoreInt32(&c.sendFailed", "store-failed"},
	{"len(c.writeQueue)", "len-queue"},
	{"atomic.LoadInt32(&c.sendFailed", "load-failed"},
	{"c.closeErr", "closeerr"},
	{"c.cancel()", "cancel"},
	{"c.transport.Close()", "tr-close"},
	{"c.transport.Writev(", "tr-writev"},
	{"c.transport.Write(", "tr-write"},
	{"c.transport.Flush()", "tr-flush"},
	{"c.transport.SetWriteDeadline(", "tr-deadline"},
	{"pbytes.Get(", "pool-get"},
	{"pbytes.Put(", "pool-put"},
	{"c.executor.Exec(", "exec"},
	// bootstrap.go / holder.go
	{"bs.listeners.LoadOrStore(", "map-store"},
	{"bs.listeners.Load(", "map-load"},
	{"bs.listeners.Range(", "map-range"},
	{"bs.listeners.Delete(", "map-delete"},
	{"bs.bootstrapCancel()", "bs-cancel"},
	{"bs.holder.CloseAll(", "closeall"},
	{".transportFactory.Listen(", "factory-listen"},
	{".Accept()", "accept"},
	{"acceptor.Close()", "acc-close"},
	{"l.acceptor", "acceptor-field"},
	{"l.bs.ServeChannel(", "serve"},
	{"l.bs.executor.Exec(", "exec"},
	{"ch.Close(err)", "holder-close"},
}

// idSuffix is a Go expression (type string) naming the object the current function works on; it is
// appended to every label of the function as "#<value>" so that the monitor can tell which
// listener a step belongs to. Set per function declaration from its receiver.
var idSuffix string

func labelExpr(fn, lab string) string {
	q := fmt.Sprintf("%q", fn+"."+lab)
	if lab == "holder-close" {
		return q + ` + "#" + fmt.Sprint(ch.ID())`
	}
	if idSuffix != "" {
		return q + ` + "#" + ` + idSuffix
	}
	return q
}

func receiverID(fd *ast.FuncDecl) string {
	if fd.Recv == nil || len(fd.Recv.List) != 1 || len(fd.Recv.List[0].Names) != 1 {
		return ""
	}
	if src(fd.Recv.List[0].Type) == "*listener" {
		n := fd.Recv.List[0].Names[0].Name
		return fmt.Sprintf(`fmt.Sprintf("%%s@%%p", %s.url, %s)`, n, n)
	}
	return ""
}

func syncLabel(text string) (string, bool) {
	for _, k := range syncKeys {
		if strings.Contains(text, k.key) {
			return k.label, true
		}
	}
	return "", false
}

func rewriteSelect(fn string, s *ast.SelectStmt) []ast.Stmt {
	var cases []string
	var sw strings.Builder
	hasDefault := false
	idx := 0
	sw.WriteString("switch nvsel.Index {\n")
	for _, c := range s.Body.List {
		cc := c.(*ast.CommClause)
		var body strings.Builder
		for _, st := range cc.Body {
			body.WriteString(src(st) + "\n")
		}
		if cc.Comm == nil {
			hasDefault = true
			sw.WriteString("default:\n" + body.String())
			continue
		}
		switch st := cc.Comm.(type) {
		case *ast.SendStmt:
			cases = append(cases, fmt.Sprintf("nvSend(%s, %s)", src(st.Chan), src(st.Value)))
			sw.WriteString(fmt.Sprintf("case %d:\n%s", idx, body.String()))
		case *ast.ExprStmt:
			ch := st.X.(*ast.UnaryExpr).X
			cases = append(cases, fmt.Sprintf("nvRecv(%s)", src(ch)))
			sw.WriteString(fmt.Sprintf("case %d:\n%s", idx, body.String()))
		case *ast.AssignStmt:
			ch := st.Rhs[0].(*ast.UnaryExpr).X
			cases = append(cases, fmt.Sprintf("nvRecv(%s)", src(ch)))
			bind := ""
			if len(st.Lhs) == 1 {
				bind = fmt.Sprintf("%s %s nvVal(nvsel, %s)\n_ = %s\n", src(st.Lhs[0]), st.Tok, src(ch), src(st.Lhs[0]))
			} else {
				bind = fmt.Sprintf("%s, %s %s nvVal2(nvsel, %s)\n", src(st.Lhs[0]), src(st.Lhs[1]), st.Tok, src(ch))
			}
			sw.WriteString(fmt.Sprintf("case %d:\n%s%s", idx, bind, body.String()))
		default:
			panic("unknown comm clause")
		}
		idx++
	}
	if !hasDefault { // keeps a select that ends a function a terminating statement
		sw.WriteString("default:\npanic(\"nvinstr: select index out of range\")\n")
	}
	sw.WriteString("}\n")
	code := fmt.Sprintf("{\nnvsel := NvSelect(%s, %v, %s)\n%s}\n", labelExpr(fn, "select"), hasDefault, strings.Join(cases, ", "), sw.String())
	return parseStmts(code)
}

func rewriteBlock(fn string, b *ast.BlockStmt) {
	if b == nil {
		return
	}
	var out []ast.Stmt
	for _, st := range b.List {
		switch s := st.(type) {
		case *ast.SelectStmt:
			for _, c := range s.Body.List {
				cc := c.(*ast.CommClause)
				blk := &ast.BlockStmt{List: cc.Body}
				rewriteBlock(fn, blk)
				cc.Body = blk.List
			}
			out = append(out, rewriteSelect(fn, s)...)
			continue
		case *ast.ForStmt:
			rewriteBlock(fn, s.Body)
			if s.Cond != nil {
				if lab, ok := syncLabel(src(s.Cond)); ok {
					pre := parseStmts(fmt.Sprintf("NvYield(%s)\nif !(%s) { break }", labelExpr(fn, lab), src(s.Cond)))
					s.Body.List = append(pre, s.Body.List...)
					s.Cond = nil
				}
			}
			out = append(out, st)
			continue
		case *ast.RangeStmt:
			rewriteBlock(fn, s.Body)
			out = append(out, st)
			continue
		case *ast.IfStmt:
			rewriteBlock(fn, s.Body)
			if e, ok := s.Else.(*ast.BlockStmt); ok {
				rewriteBlock(fn, e)
			}
			head := ""
			if s.Init != nil {
				head += src(s.Init) + ";"
			}
			head += src(s.Cond)
			if lab, ok := syncLabel(head); ok {
				out = append(out, parseStmts(fmt.Sprintf("NvYield(%s)", labelExpr(fn, lab)))...)
			}
			out = append(out, st)
			continue
		case *ast.BlockStmt:
			rewriteBlock(fn, s)
			out = append(out, st)
			continue
		case *ast.DeferStmt:
			if fl, ok := s.Call.Fun.(*ast.FuncLit); ok {
				rewriteBlock(fn, fl.Body)
			}
			out = append(out, st)
			continue
		case *ast.ExprStmt:
			text := src(s)
			if strings.HasPrefix(text, "time.Sleep(") {
				out = append(out, parseStmts(fmt.Sprintf("NvSleep(%s, %s)", labelExpr(fn, "sleep"), strings.TrimSuffix(strings.TrimPrefix(text, "time.Sleep("), ")")))...)
				continue
			}
			if strings.HasSuffix(text, ".Lock()") && !strings.Contains(text, "RLock") {
				mu := strings.TrimSuffix(text, ".Lock()")
				out = append(out, parseStmts(fmt.Sprintf("NvLock(%s, &%s)", labelExpr(fn, "lock"), mu))...)
				continue
			}
			if ue, ok := s.X.(*ast.UnaryExpr); ok && ue.Op == token.ARROW {
				out = append(out, parseStmts(fmt.Sprintf("NvRecvBlock(%s, %s)", labelExpr(fn, "recv"), src(ue.X)))...)
				continue
			}
		}
		// function literals nested in the statement (c.invokeMethod(func(){...}), c.executor.Exec(func(){...}))
		ast.Inspect(st, func(n ast.Node) bool {
			if fl, ok := n.(*ast.FuncLit); ok {
				rewriteBlock(fn, fl.Body)
				return false
			}
			return true
		})
		// statement text without nested function literal bodies
		text := src(st)
		if i := strings.Index(text, "func("); i >= 0 {
			text = text[:i]
		}
		if lab, ok := syncLabel(text); ok {
			out = append(out, parseStmts(fmt.Sprintf("NvYield(%s)", labelExpr(fn, lab)))...)
		}
		out = append(out, st)
	}
	b.List = out
}

// timeShim rewrites the uses of package time in handler.go to the virtual-time shim (textual).
func timeShim(in, out string) {
	b, err := os.ReadFile(in)
	if err != nil {
		fmt.Fprintln(os.Stderr, err)
		os.Exit(2)
	}
	s := string(b)
	for _, r := range [][2]string{{"time.Now(", "NvNow("}, {"time.Since(", "NvSince("}, {"time.AfterFunc(", "NvAfterFunc("}, {"*time.Timer", "*NvTimer"}, {"time.NewTimer(", "NvUnsupportedNewTimer("}} {
		s = strings.ReplaceAll(s, r[0], r[1])
	}
	if err := os.WriteFile(out, []byte(s), 0o644); err != nil {
		fmt.Fprintln(os.Stderr, err)
		os.Exit(2)
	}
}

func main() {
	if len(os.Args) == 4 && os.Args[1] == "-time" {
		timeShim(os.Args[2], os.Args[3])
		return
	}
	if len(os.Args) < 3 {
		fmt.Fprintln(os.Stderr, "usage: nvinstr <in.go> <out.go> [funcs]")
		os.Exit(2)
	}
	only := map[string]bool{}
	if len(os.Args) > 3 && os.Args[3] != "" {
		for _, f := range strings.Split(os.Args[3], ",") {
			only[f] = true
		}
	}
	f, err := parser.ParseFile(fset, os.Args[1], nil, parser.ParseComments)
	if err != nil {
		fmt.Fprintln(os.Stderr, err)
		os.Exit(2)
	}
	f.Comments = nil // comments float after rewriting; the instrumented copy is never read by humans
	n := 0
	for _, d := range f.Decls {
		if fd, ok := d.(*ast.FuncDecl); ok && fd.Body != nil {
			if len(only) > 0 && !only[fd.Name.Name] {
				// "@text" selects every function whose body mentions text
				hit := false
				for k := range only {
					if strings.HasPrefix(k, "@") && strings.Contains(src(fd.Body), k[1:]) {
						hit = true
					}
				}
				if !hit {
					continue
				}
			}
			idSuffix = receiverID(fd)
			rewriteBlock(fd.Name.Name, fd.Body)
			idSuffix = ""
			n++
		}
	}
	var b bytes.Buffer
	if err := format.Node(&b, fset, f); err != nil {
		fmt.Fprintln(os.Stderr, err)
		os.Exit(2)
	}
	if err := os.WriteFile(os.Args[2], b.Bytes(), 0o644); err != nil {
		fmt.Fprintln(os.Stderr, err)
		os.Exit(2)
	}
}
