package main

import (
	"math/big"
	"bytes"
	"context"
	"errors"
	"fmt"
	"io"
	"math/rand"
	"strings"
	"time"

	netty "github.com/go-netty/go-netty"
	"github.com/go-netty/go-netty/transport"
	"github.com/go-netty/go-netty/utils"
	"github.com/go-netty/go-netty/utils/pool/pbytes"
	"nvharness/mock"
)

// C14: messages of every accepted carrier type through the real head handler (sync and async
// channel over the mock transport) and the conversion helpers of utils/reader.go.

type frag struct {
	data []byte
	err  error
}

type scriptReader struct{ script []frag }

func (r *scriptReader) Read(p []byte) (int, error) {
	if len(r.script) == 0 {
		return 0, io.EOF
	}
	f := &r.script[0]
	if len(f.data) <= len(p) {
		n := copy(p, f.data)
		err := f.err
		r.script = r.script[1:]
		return n, err
	}
	n := copy(p, f.data)
	f.data = f.data[n:]
	return n, nil
}

// scratchWriter writes every chunk from one reused scratch buffer (what bufio.Reader.WriteTo does).
type scratchWriter struct{ chunks [][]byte }

func (s *scratchWriter) WriteTo(w io.Writer) (int64, error) {
	max := 0
	for _, c := range s.chunks {
		if len(c) > max {
			max = len(c)
		}
	}
	scratch := make([]byte, max)
	var n int64
	for _, c := range s.chunks {
		k := copy(scratch, c)
		m, err := w.Write(scratch[:k])
		n += int64(m)
		if err != nil {
			return n, err
		}
	}
	return n, nil
}

var errScript = errors.New("scripted reader failure")

// genMsg returns the protocol spec and a constructor producing a fresh message instance.
func genMsg(rng *rand.Rand) (string, func() netty.Message) {
	sz := func() int {
		switch rng.Intn(6) {
		case 0:
			return 0
		case 1:
			return 1 + rng.Intn(3)
		case 2:
			return 1023 + rng.Intn(3)
		case 3:
			return 2047 + rng.Intn(3)
		case 4:
			if rng.Intn(2) == 0 { // at and just above the largest pool class
				return 65536 + rng.Intn(3)
			}
			return rng.Intn(5000)
		default:
			return rng.Intn(300)
		}
	}
	pl := func(n int) []byte { return randPayload(rng, n) }
	hexList := func(bs [][]byte) string {
		parts := make([]string, len(bs))
		for i, b := range bs {
			parts[i] = hexOrDash(b)
		}
		return strings.Join(parts, ",")
	}
	switch rng.Intn(11) {
	case 0:
		b := pl(sz())
		return "b:" + hexOrDash(b), func() netty.Message { return append([]byte(nil), b...) }
	case 1:
		n := rng.Intn(4)
		aliased := rng.Intn(2) == 0
		if aliased {
			n = 3 + rng.Intn(2)
		}
		bs := make([][]byte, n)
		for i := range bs {
			bs[i] = pl(sz() % 1500)
			if aliased {
				bs[i] = pl(1 + rng.Intn(12))
			}
		}
		perm := rng.Perm(n)
		return "v:" + hexList(bs), func() netty.Message {
			cp := make([][]byte, len(bs))
			if aliased {
				// the blocks are views of ONE backing array, laid out in a different order than they are listed, the
				// first listed block with spare capacity behind it (fields of a packet re-ordered)
				total := 0
				for _, b := range bs {
					total += len(b)
				}
				back := make([]byte, total+8)
				off := 0
				for _, i := range perm {
					copy(back[off:], bs[i])
					cp[i] = back[off : off+len(bs[i])]
					off += len(bs[i])
				}
				return cp
			}
			for i := range bs {
				cp[i] = append([]byte(nil), bs[i]...)
			}
			return cp
		}
	case 2:
		b := pl(sz())
		k := 0
		if rng.Intn(3) == 0 { // a carrier somebody has already read from: the message is what is left in it
			k = rng.Intn(len(b) + 1)
		}
		return "u:" + hexOrDash(b[k:]), func() netty.Message {
			u := bytes.NewBuffer(append([]byte(nil), b...))
			u.Next(k)
			return u
		}
	case 3:
		b := pl(sz())
		k := 0
		if rng.Intn(3) == 0 {
			k = rng.Intn(len(b) + 1)
			if rng.Intn(3) == 0 {
				k = len(b)
			}
		}
		if rng.Intn(2) == 0 {
			return "r:" + hexOrDash(b[k:]), func() netty.Message {
				r := bytes.NewReader(append([]byte(nil), b...))
				r.Seek(int64(k), io.SeekStart)
				return r
			}
		}
		return "r:" + hexOrDash(b[k:]), func() netty.Message {
			r := strings.NewReader(string(b))
			r.Seek(int64(k), io.SeekStart)
			return r
		}
	case 4:
		b := pl(sz() % 2000)
		return "S:" + hexOrDash(b), func() netty.Message { return string(b) }
	case 5:
		n := 1 + rng.Intn(4)
		bs := make([][]byte, n)
		for i := range bs {
			bs[i] = pl(1 + rng.Intn(40))
		}
		if rng.Intn(4) == 0 { // a small header followed by a body above the largest pool class (and vice versa)
			bs = [][]byte{pl(1 + rng.Intn(16)), pl(65537 + rng.Intn(5000))}
			if rng.Intn(3) == 0 {
				bs = [][]byte{bs[1], bs[0], pl(3)}
			}
		}
		return "w:" + hexList(bs), func() netty.Message { return &scratchWriter{chunks: bs} }
	case 6, 7:
		n := rng.Intn(5)
		var fr []frag
		var parts []string
		full := rng.Intn(5) == 0 // every read fills the whole 1024-byte chunk, the end of the stream is a read of its own
		if full {
			n = 1 + rng.Intn(3)
		}
		for i := 0; i < n; i++ {
			f := frag{data: pl(sz() % 3000)}
			if full {
				f = frag{data: pl(1024)}
				fr = append(fr, f)
				parts = append(parts, hexOrDash(f.data))
				continue
			}
			s := hexOrDash(f.data)
			switch rng.Intn(8) {
			case 0:
				f.err = io.EOF
				s += "!eof"
			case 1:
				f.err = errScript
				s += "!err"
			}
			fr = append(fr, f)
			parts = append(parts, s)
		}
		return "R:" + strings.Join(parts, ";"), func() netty.Message {
			cp := make([]frag, len(fr))
			for i := range fr {
				cp[i] = frag{data: append([]byte(nil), fr[i].data...), err: fr[i].err}
			}
			return &scriptReader{script: cp}
		}
	case 8: // a packet type that embeds a buffer with the payload and writes a header in front of it
		hdr, body := pl(1+rng.Intn(8)), pl(1+rng.Intn(300))
		return "w:" + hexList([][]byte{hdr, body}), func() netty.Message {
			return &pktBuf{Buffer: bytes.NewBuffer(append([]byte(nil), body...)), hdr: append([]byte(nil), hdr...)}
		}
	case 9: // many empty reads spread over the stream (a reader polling a slow source)
		n := 100 + rng.Intn(80)
		var fr []frag
		var parts []string
		for i := 0; i < n; i++ {
			d := pl(1 + rng.Intn(4))
			fr = append(fr, frag{}, frag{data: d})
			parts = append(parts, "-", hexOrDash(d))
		}
		return "R:" + strings.Join(parts, ";"), func() netty.Message {
			cp := make([]frag, len(fr))
			for i := range fr {
				cp[i] = frag{data: append([]byte(nil), fr[i].data...)}
			}
			return &scriptReader{script: cp}
		}
	default:
		if rng.Intn(2) == 0 { // not a supported carrier although it has a Bytes() method
			return "o", func() netty.Message { return big.NewInt(0x010203) }
		}
		return "o", func() netty.Message { return 42 }
	}
}

// pktBuf: the stream it stands for (WriteTo) is header + payload; Bytes(), promoted from the embedded
// buffer, is the payload alone
type pktBuf struct {
	*bytes.Buffer
	hdr []byte
}

func (p *pktBuf) WriteTo(w io.Writer) (int64, error) {
	n, err := w.Write(p.hdr)
	if err != nil {
		return int64(n), err
	}
	m, err := w.Write(p.Buffer.Bytes())
	return int64(n + m), err
}

// deferExec holds the sender until the harness releases it (a stalled peer / slow executor).
type deferExec struct{ pending []netty.Action }

func (d *deferExec) Exec(a netty.Action) { d.pending = append(d.pending, a) }
func (d *deferExec) runAll() {
	for len(d.pending) > 0 {
		a := d.pending[0]
		d.pending = d.pending[1:]
		a()
	}
}

// scribble overwrites the storage of a message the caller still owns after Write returned.
func scribble(m netty.Message) {
	switch v := m.(type) {
	case []byte:
		for i := range v {
			v[i] = 0xEE
		}
	case [][]byte:
		for _, b := range v {
			for i := range b {
				b[i] = 0xEE
			}
		}
	case *bytes.Buffer:
		b := v.Bytes()
		b = b[:cap(b)]
		for i := range b {
			b[i] = 0xEE
		}
		v.Reset()
	}
}

type keptBytes struct {
	spec string
	b    []byte
}

// gateReader: a message whose first Read waits until the gate opens (a slow source): the head handler is busy with it
type gateReader struct {
	gate <-chan struct{}
	data []byte
	done bool
}

func (g *gateReader) Read(p []byte) (int, error) {
	if g.done {
		return 0, io.EOF
	}
	<-g.gate
	g.done = true
	return copy(p, g.data), nil
}

// c14Contend: while another goroutine's message occupies the head handler, a second goroutine writes a message and
// reuses its storage as soon as Channel.Write has returned; what is transmitted for it must be what it held then.
func c14Contend(rng *rand.Rand, round int) {
	for _, mode := range []string{"sync", "async"} {
		emit("#case c14-contend-%d-%s", round, mode)
		pl := netty.NewPipeline()
		tr := mock.NewTransport()
		var ch netty.Channel
		if mode == "sync" {
			ch = netty.NewChannel()(int64(round), context.Background(), pl, tr, goExec{})
		} else {
			ch = netty.NewAsyncWriteChannel(16, true)(int64(round), context.Background(), pl, tr, goExec{})
		}
		netty.NvAttach(pl, ch)
		gate := make(chan struct{})
		first := bytes.Repeat([]byte{'A'}, 10)
		aDone := make(chan struct{})
		go func() { defer close(aDone); ch.Write(&gateReader{gate: gate, data: first}) }()
		time.Sleep(2 * time.Millisecond) // the first message now holds the head handler
		want := randPayload(rng, 1+rng.Intn(64))
		for i := range want {
			if want[i] == 'A' || want[i] == 0xEE {
				want[i] = 'b'
			}
		}
		var msg netty.Message
		kind := rng.Intn(3)
		buf := append([]byte(nil), want...)
		switch kind {
		case 0:
			msg = buf
		case 1:
			h := len(buf) / 2
			msg = [][]byte{buf[:h], buf[h:]}
		default:
			msg = bytes.NewBuffer(buf)
		}
		bDone := make(chan struct{})
		go func() {
			defer close(bDone)
			ch.Write(msg)
			for i := range buf { // the caller reuses its storage right after Write has returned
				buf[i] = 0xEE
			}
		}()
		time.Sleep(2 * time.Millisecond)
		close(gate)
		<-aDone
		select {
		case <-bDone:
		case <-time.After(2 * time.Second):
		}
		deadline := time.Now().Add(2 * time.Second)
		for (netty.NvQueueLen(ch) > 0 || netty.NvSenderRunning(ch)) && time.Now().Before(deadline) {
			time.Sleep(50 * time.Microsecond)
		}
		time.Sleep(time.Millisecond)
		var got []byte
		for _, b := range tr.Written() {
			if b != 'A' {
				got = append(got, b)
			}
		}
		emit("C14 contend %s %s", hexOrDash(want), hexOrDash(got))
		ch.Close(nil)
	}
}

func runC14(seed int64, count int) {
	var kept []keptBytes
	rng := rand.New(rand.NewSource(seed))
	for round := 0; round < 3; round++ {
		c14Contend(rng, round)
	}
	c14Deadline(0)
	for cs := 0; cs < count; cs++ {
		spec, mk := genMsg(rng)
		emit("#case c14-%d", cs)
		modes := []string{"sync", "async"}
		if rng.Intn(2) == 0 {
			modes = append(modes, "syncbuf") // synchronous channel over the library's write-buffered transport
		}
		for _, mode := range modes {
			pl := netty.NewPipeline()
			tr := mock.NewTransport()
			var ch netty.Channel
			var btr transport.Transport
			dexec := &deferExec{}
			if mode == "sync" {
				ch = netty.NewChannel()(int64(cs), context.Background(), pl, tr, goExec{})
			} else if mode == "syncbuf" {
				btr = transport.NewTransport(tr, 0, []int{16, 512, 4096, 100000}[rng.Intn(4)])
				ch = netty.NewChannel()(int64(cs), context.Background(), pl, btr, goExec{})
			} else {
				// queue large enough for every chunk of the message: the sender stays parked meanwhile
				ch = netty.NewAsyncWriteChannel(256, false)(int64(cs), context.Background(), pl, tr, dexec)
			}
			netty.NvAttach(pl, ch)
			msg := mk()
			status := guard(func() { pl.FireChannelWrite(msg) })
			if status == "panic" {
				status = "raise"
				if btr != nil {
					btr.Flush() // what a failed write leaves in the buffer is not the property's concern
				}
			}
			if mode == "async" {
				scribble(msg) // the caller reuses its buffer before the (stalled) sender has run
				// ... and somebody else uses the buffer pool meanwhile: whatever the channel returned to the pool too
				// early is handed out again and overwritten before the sender has transmitted it
				for _, size := range []int{1, 64, 1024, 1024, 4096, 65536} {
					b := pbytes.Get(size)
					buf := (*b)[:cap(*b)]
					for k := range buf {
						buf[k] = 0xDD
					}
					pbytes.Put(b)
				}
				dexec.runAll()
				deadline := time.Now().Add(2 * time.Second)
				for (netty.NvQueueLen(ch) > 0 || netty.NvSenderRunning(ch)) && time.Now().Before(deadline) {
					time.Sleep(50 * time.Microsecond)
				}
			}
			sizes := "-"
			if mode == "sync" {
				var ss []string
				for _, c := range tr.Snapshot() {
					if c.Op == "write" || c.Op == "writev" {
						n := 0
						for _, b := range c.Bufs {
							n += len(b)
						}
						ss = append(ss, fmt.Sprint(n))
					}
				}
				if len(ss) > 0 {
					sizes = strings.Join(ss, ",")
				}
			}
			emit("C14 head %s %s %s %s %s", mode, spec, status, hexOrDash(tr.Written()), sizes)
		}
		if _, isPkt := mk().(*pktBuf); isPkt {
			continue // the conversion helpers are specified for the plain carriers only
		}
		// helpers
		if b, err := utils.ToBytes(mk()); err != nil {
			emit("C14 tobytes %s err", spec)
		} else {
			emit("C14 tobytes %s %s", spec, hexOrDash(b))
			// the caller keeps what it was given: looked at again a few conversions later
			kept = append(kept, keptBytes{spec, b})
			if len(kept) > 4 {
				k := kept[0]
				kept = kept[1:]
				emit("C14 tobytes %s %s", k.spec, hexOrDash(k.b))
			}
		}
		if r, err := utils.ToReader(mk()); err != nil {
			emit("C14 toreader %s err", spec)
		} else if b, err := io.ReadAll(r); err != nil {
			emit("C14 toreader %s err", spec)
		} else {
			emit("C14 toreader %s %s", spec, hexOrDash(b))
		}
		if strings.HasPrefix(spec, "v:") {
			m := mk().([][]byte)
			arg := strings.TrimPrefix(spec, "v:")
			if arg == "" {
				arg = "-"
			}
			emit("C14 countof %s %d", arg, utils.CountOf(m))
		}
		// (only scripts that end when they say so: an error flag, if any, is on the last fragment)
		if i := strings.Index(spec, "!"); strings.HasPrefix(spec, "R:") && !strings.Contains(spec, "!err") && len(spec) < 4000 && (i < 0 || !strings.Contains(spec[i:], ";")) {
			// byte-wise reading of a scripted reader (fragments, empty reads, the last byte together with io.EOF)
			br := utils.NewByteReader(mk().(io.Reader))
			var got []byte
			for i := 0; i < 1<<20; i++ {
				c, err := br.ReadByte()
				if err != nil {
					break
				}
				got = append(got, c)
			}
			emit("C14 bytereader %s %s", spec, hexOrDash(got))
		}
		if strings.HasPrefix(spec, "r:") || strings.HasPrefix(spec, "u:") {
			br := utils.NewByteReader(mk().(io.Reader))
			var got []byte
			for i := 0; i < 1<<20; i++ {
				c, err := br.ReadByte()
				if err != nil {
					break
				}
				got = append(got, c)
			}
			emit("C14 bytereader %s %s", spec, hexOrDash(got))
		}
	}
}
