package main

import (
	"bytes"
	"context"
	"io"
	"net"
	"sync"
	"time"

	netty "github.com/go-netty/go-netty"
	"github.com/go-netty/go-netty/transport"
)

// Write deadlines belong to the shared transport, not to a call. Two real-time scenarios over net.Pipe (which,
// like a socket, applies a deadline to a write that is already in progress) with a peer that starts reading late:
//
//   - C06: a queued channel whose sender is in the middle of a gathering write of accepted payloads while another
//     goroutine calls CtxWrite1 / CtxWritev with a context whose deadline has passed or passes while the call
//     waits for queue space: everything accepted before Close must still reach the peer.
//   - C14: a synchronous channel on which a pipeline message is in flight while another goroutine calls CtxWrite1
//     with a short deadline: the message must arrive byte-exact.

type pipePeer struct {
	mu   sync.Mutex
	got  []byte
	done chan struct{}
}

// startPeer reads everything from c after `delay` until EOF / error.
func startPeer(c net.Conn, delay time.Duration) *pipePeer {
	p := &pipePeer{done: make(chan struct{})}
	go func() {
		defer close(p.done)
		time.Sleep(delay)
		buf := make([]byte, 32*1024)
		for {
			n, err := c.Read(buf)
			p.mu.Lock()
			p.got = append(p.got, buf[:n]...)
			p.mu.Unlock()
			if err != nil {
				return
			}
		}
	}()
	return p
}

func (p *pipePeer) bytes() []byte {
	p.mu.Lock()
	defer p.mu.Unlock()
	return append([]byte(nil), p.got...)
}

func runC06deadline() {
	for _, variant := range []string{"expired-w1", "expired-wv", "expires-w1", "expires-wv"} {
		emit("#case c06-deadline-%s", variant)
		local, remote := net.Pipe()
		peer := startPeer(remote, 120*time.Millisecond)
		pl := netty.NewPipeline()
		ch := netty.NewAsyncWriteChannel(2, true)(1, context.Background(), pl, transport.NewTransport(local, 0, 0), asyncExec{})
		netty.NvAttach(pl, ch)
		var want []byte
		accept := func(p []byte) {
			if n, err := ch.Write1(append([]byte(nil), p...)); err == nil && n == len(p) {
				want = append(want, p...)
			}
		}
		accept(bytes.Repeat([]byte{'A'}, 40)) // the sender takes it and parks in the gathering write: the peer is not reading yet
		time.Sleep(10 * time.Millisecond)
		accept(bytes.Repeat([]byte{'B'}, 30))
		accept(bytes.Repeat([]byte{'C'}, 20)) // the queue (2) is full now
		var ctx context.Context
		var cancel context.CancelFunc
		if variant[:7] == "expired" {
			ctx, cancel = context.WithDeadline(context.Background(), time.Now().Add(-time.Second))
		} else {
			ctx, cancel = context.WithTimeout(context.Background(), 30*time.Millisecond)
		}
		d := bytes.Repeat([]byte{'D'}, 10)
		var err error
		if variant[len(variant)-2:] == "w1" {
			_, err = ch.CtxWrite1(ctx, d)
		} else {
			_, err = ch.CtxWritev(ctx, [][]byte{d[:4], d[4:]})
		}
		cancel()
		if err == nil { // accepted after all (a free slot and the context case were both ready): then it has to arrive too
			want = append(want, d...)
		}
		closed := make(chan struct{})
		go func() { ch.Close(nil); close(closed) }()
		select {
		case <-closed:
		case <-time.After(5 * time.Second):
		}
		select {
		case <-peer.done:
		case <-time.After(2 * time.Second):
		}
		local.Close()
		emit("C06 deadline %s want=%s got=%s", variant, hexOrDash(want), hexOrDash(peer.bytes()))
	}
}

type bareReader struct{ r io.Reader }

func (b bareReader) Read(p []byte) (int, error) { return b.r.Read(p) }

func c14Deadline(round int) {
	for _, kind := range []string{"bytes", "buffer", "reader"} {
		emit("#case c14-deadline-%d-%s", round, kind)
		local, remote := net.Pipe()
		peer := startPeer(remote, 100*time.Millisecond)
		pl := netty.NewPipeline()
		ch := netty.NewChannel()(int64(round), context.Background(), pl, transport.NewTransport(local, 0, 0), goExec{})
		netty.NvAttach(pl, ch)
		want := make([]byte, 20000)
		for i := range want {
			want[i] = byte('a' + (i*7+round)%23)
		}
		var msg netty.Message
		switch kind {
		case "bytes":
			msg = append([]byte(nil), want...)
		case "buffer":
			msg = bytes.NewBuffer(append([]byte(nil), want...))
		default:
			msg = bareReader{bytes.NewReader(want)}
		}
		aDone := make(chan struct{})
		go func() { defer close(aDone); defer func() { recover() }(); ch.Write(msg) }()
		time.Sleep(10 * time.Millisecond) // the message is in flight: the peer is not reading yet
		bDone := make(chan struct{})
		go func() {
			defer close(bDone)
			ctx, cancel := context.WithTimeout(context.Background(), 30*time.Millisecond)
			defer cancel()
			ch.CtxWrite1(ctx, bytes.Repeat([]byte{0xBB}, 8)) // another caller, with a deadline of its own
		}()
		for _, d := range []chan struct{}{aDone, bDone} {
			select {
			case <-d:
			case <-time.After(3 * time.Second):
			}
		}
		time.Sleep(20 * time.Millisecond)
		ch.Close(nil)
		select {
		case <-peer.done:
		case <-time.After(2 * time.Second):
		}
		var got []byte
		for _, b := range peer.bytes() { // 0xBB bytes belong to the second caller, wherever they were sent
			if b != 0xBB {
				got = append(got, b)
			}
		}
		emit("C14 contend %s %s", hexOrDash(want), hexOrDash(got))
	}
}
