package main

import (
	"bufio"
	"bytes"
	"encoding/binary"
	"encoding/hex"
	"errors"
	"fmt"
	"io"
	"math/rand"
	"runtime"
	"strconv"
	"strings"

	netty "github.com/go-netty/go-netty"
	"github.com/go-netty/go-netty/codec"
	"github.com/go-netty/go-netty/codec/frame"
	"github.com/go-netty/go-netty/utils"
)

// C04 / C08: the real frame codecs driven through fake handler contexts.
//   <P> cfg <spec> ok|panic
//   <P> enc <spec> <payload-hex|-> <carrier> <hex|raise|fault>
//   <P> dec <spec> <fin> <chunk-hex,chunk-hex,…|-> <m=hex@off …> <raise@off|loop|fault@off>

type chunkReader struct {
	chunks   [][]byte
	fin      error
	consumed int
	reads    int
}

func (r *chunkReader) Read(p []byte) (int, error) {
	r.reads++
	if len(r.chunks) > 0 && len(r.chunks[0]) == 0 {
		// an empty fragment is a Read that returns (0, nil): allowed by the io.Reader contract
		// ("nothing happened"), e.g. a zero-length write on a net.Pipe
		r.chunks = r.chunks[1:]
		return 0, nil
	}
	if len(r.chunks) == 0 {
		return 0, r.fin
	}
	if len(p) == 0 {
		return 0, nil
	}
	n := copy(p, r.chunks[0])
	r.chunks[0] = r.chunks[0][n:]
	if len(r.chunks[0]) == 0 {
		r.chunks = r.chunks[1:]
	}
	r.consumed += n
	return n, nil
}

// fake contexts -------------------------------------------------------------
type fakeCtx struct {
	onRead  func(m netty.Message)
	onWrite func(m netty.Message)
}

func (f *fakeCtx) Channel() netty.Channel            { return nil }
func (f *fakeCtx) Handler() netty.Handler            { return nil }
func (f *fakeCtx) Write(m netty.Message)             { f.onWrite(m) }
func (f *fakeCtx) Trigger(e netty.Event)             {}
func (f *fakeCtx) Close(err error)                   {}
func (f *fakeCtx) Attachment() netty.Attachment      { return nil }
func (f *fakeCtx) SetAttachment(netty.Attachment)    {}
func (f *fakeCtx) HandleRead(m netty.Message)        { f.onRead(m) }
func (f *fakeCtx) HandleWrite(m netty.Message)       { f.onWrite(m) }

func flattenMsg(m netty.Message) ([]byte, error) {
	switch v := m.(type) {
	case []byte:
		return append([]byte(nil), v...), nil
	case [][]byte:
		var out []byte
		for _, b := range v {
			out = append(out, b...)
		}
		return out, nil
	case string:
		return []byte(v), nil
	case *bytes.Buffer:
		return append([]byte(nil), v.Bytes()...), nil
	case io.Reader:
		return io.ReadAll(v)
	}
	return nil, fmt.Errorf("unsupported %T", m)
}

type codecSpec struct {
	kind                                 string
	big                                  bool
	max, offset, fieldLen, adj, strip, n int
	incl, stripDelim                     bool
	delim                                []byte
}

func b2i(b bool) int {
	if b {
		return 1
	}
	return 0
}

func (s codecSpec) String() string {
	switch s.kind {
	case "lf":
		return fmt.Sprintf("lf:%d:%d:%d:%d:%d:%d", b2i(s.big), s.max, s.offset, s.fieldLen, s.adj, s.strip)
	case "pp":
		return fmt.Sprintf("pp:%d:%d:%d:%d", b2i(s.big), s.fieldLen, s.adj, b2i(s.incl))
	case "vi":
		return fmt.Sprintf("vi:%d", s.max)
	case "dl":
		return fmt.Sprintf("dl:%s:%d:%d", hex.EncodeToString(s.delim), s.max, b2i(s.stripDelim))
	case "fx":
		return fmt.Sprintf("fx:%d", s.n)
	case "vl":
		return fmt.Sprintf("vl:%d", s.max)
	}
	return "?"
}

func order(big bool) binary.ByteOrder {
	if big {
		return binary.BigEndian
	}
	return binary.LittleEndian
}

// build constructs the real handler; ok=false when the constructor panicked.
func (s codecSpec) build() (in netty.InboundHandler, out netty.OutboundHandler, ok bool) {
	defer func() {
		if r := recover(); r != nil {
			ok = false
		}
	}()
	var c codec.Codec
	switch s.kind {
	case "lf":
		c = frame.LengthFieldCodec(order(s.big), s.max, s.offset, s.fieldLen, s.adj, s.strip)
	case "pp":
		return nil, frame.LengthFieldPrepender(order(s.big), s.fieldLen, s.adj, s.incl), true
	case "vi":
		c = frame.VarintLengthFieldCodec(s.max)
	case "dl":
		c = frame.DelimiterCodec(s.max, string(s.delim), s.stripDelim)
	case "fx":
		c = frame.FixedLengthCodec(s.n)
	case "vl":
		c = frame.VariableLengthCodec(s.max)
	}
	return c, c, true
}

func hexOrDash(b []byte) string {
	if len(b) == 0 {
		return "-"
	}
	return hex.EncodeToString(b)
}

func isRuntimeFault(r interface{}) bool {
	if _, ok := r.(runtime.Error); ok {
		return true
	}
	if e, ok := r.(error); ok {
		var re runtime.Error
		return errors.As(e, &re)
	}
	return false
}

// doEncodeHeld runs the encoder on a []byte message and returns what it passed down the pipeline as it is,
// without reading it: a handler below the codec (or the head handler waiting for the message lock) may hold
// a frame while the next one is being encoded.
func doEncodeHeld(out netty.OutboundHandler, owned []byte) (msgs []netty.Message, status string) {
	defer func() {
		if r := recover(); r != nil {
			if isRuntimeFault(r) {
				status = "fault"
			} else {
				status = "raise"
			}
		}
	}()
	ctx := &fakeCtx{onWrite: func(m netty.Message) { msgs = append(msgs, m) }}
	out.HandleWrite(ctx, owned)
	if len(msgs) == 0 {
		return nil, "raise"
	}
	return msgs, "ok"
}

// encode runs the real encoder; returns bytes, "raise" or "fault".
func doEncode(out netty.OutboundHandler, payload []byte, carrier int) (res []byte, status string) {
	return doEncodeOwned(out, payload, carrier, nil)
}

// owned != nil: the []byte carrier is this very slice (a sub-slice of a larger buffer of the caller's,
// with spare capacity behind it) instead of a private copy of payload
type failingSized struct {
	data   []byte
	pos    int
	failAt int
}

func (f *failingSized) Len() int { return len(f.data) - f.pos }
func (f *failingSized) Read(p []byte) (int, error) {
	if f.pos >= f.failAt {
		return 0, errors.New("body stream failed")
	}
	n := copy(p, f.data[f.pos:f.failAt])
	f.pos += n
	return n, nil
}

func doEncodeOwned(out netty.OutboundHandler, payload []byte, carrier int, owned []byte) (res []byte, status string) {
	emitted := 0
	defer func() {
		if r := recover(); r != nil {
			if isRuntimeFault(r) {
				status = "fault"
			} else if emitted > 0 {
				status = "partial" // failed after part of the frame had already been passed down the pipeline
			} else {
				status = "raise"
			}
		}
	}()
	var msg netty.Message
	switch carrier {
	case 0:
		if owned != nil {
			msg = owned
		} else {
			msg = append([]byte(nil), payload...)
		}
	case 1:
		msg = string(payload)
	case 2:
		msg = bytes.NewBuffer(append([]byte(nil), payload...))
	case 3:
		msg = bytes.NewReader(append([]byte(nil), payload...))
	case 4:
		msg = strings.NewReader(string(payload))
	case 6: // a plain io.Reader: no Len(), no WriteTo
		msg = io.LimitReader(bytes.NewReader(append([]byte(nil), payload...)), int64(len(payload)))
	case 7:
		msg = bufio.NewReaderSize(bytes.NewReader(append([]byte(nil), payload...)), 16)
	case 8: // a sized body stream (it has Len()) whose Read fails half way
		msg = &failingSized{data: append([]byte(nil), payload...), failAt: len(payload) / 2}
	default:
		h := len(payload) / 2
		msg = [][]byte{append([]byte(nil), payload[:h]...), append([]byte(nil), payload[h:]...)}
	}
	var got []byte
	n := 0
	ctx := &fakeCtx{onWrite: func(m netty.Message) {
		b, err := flattenMsg(m)
		if err != nil {
			panic(err)
		}
		got = append(got, b...)
		n++
		emitted++
	}}
	out.HandleWrite(ctx, msg)
	if n == 0 {
		return nil, "raise"
	}
	return got, "ok"
}

// decodeAll runs the read loop of a default pipeline: HandleRead per iteration with a consumer that
// drains the frame, until the first exception.
func doDecode(in netty.InboundHandler, chunks [][]byte, fin error, capIter int) string {
	return doDecodeFrom(in, chunks, fin, capIter, false)
}

// asBuffer: the decoder's message is a *bytes.Buffer holding the whole stream (what PacketCodec hands to a frame
// decoder behind it) instead of a reader over the transport; only meaningful for one chunk ending in io.EOF
func doDecodeFrom(in netty.InboundHandler, chunks [][]byte, fin error, capIter int, asBuffer bool) string {
	cp := make([][]byte, len(chunks))
	total := 0
	for i := range chunks {
		cp[i] = append([]byte(nil), chunks[i]...)
		total += len(chunks[i])
	}
	r := &chunkReader{chunks: cp, fin: fin}
	var src netty.Message = r
	var buf *bytes.Buffer
	if asBuffer {
		var all []byte
		for _, c := range cp {
			all = append(all, c...)
		}
		buf = bytes.NewBuffer(all)
		src = buf
	}
	consumed := func() int {
		if buf != nil {
			return total - buf.Len()
		}
		return r.consumed
	}
	var sb strings.Builder
	for it := 0; ; it++ {
		if it >= capIter {
			sb.WriteString(" loop")
			return strings.TrimSpace(sb.String())
		}
		status := func() (st string) {
			defer func() {
				if rec := recover(); rec != nil {
					if isRuntimeFault(rec) {
						st = "fault"
					} else {
						st = "raise"
					}
				}
			}()
			delivered := 0
			ctx := &fakeCtx{onRead: func(m netty.Message) {
				b := utils.MustToBytes(m) // what the shipped format codecs do with a frame
				fmt.Fprintf(&sb, " m=%s@", hexOrDash(b))
				delivered++
			}}
			in.HandleRead(ctx, src)
			if delivered == 0 {
				return "nomsg"
			}
			return "ok"
		}()
		switch status {
		case "ok":
			fmt.Fprintf(&sb, "%d", consumed())
		case "nomsg":
			fmt.Fprintf(&sb, " nomsg@%d", consumed())
			return strings.TrimSpace(sb.String())
		default:
			// an exception may be raised by the consumer after "m=" was not yet written: fine
			s := sb.String()
			if strings.HasSuffix(s, "@") { // message written but offset pending: cannot happen (panic precedes write)
				sb.WriteString("?")
			}
			fmt.Fprintf(&sb, " %s@%d", status, consumed())
			return strings.TrimSpace(sb.String())
		}
	}
}

func finName(i int) (string, error) {
	switch i {
	case 0:
		return "eof", io.EOF
	case 1:
		return "ueof", io.ErrUnexpectedEOF
	default:
		return "other", errors.New("connection reset")
	}
}

func chunkings(rng *rand.Rand, data []byte, mode int) [][]byte {
	if len(data) == 0 {
		return nil
	}
	switch mode % 4 {
	case 0:
		return [][]byte{data}
	case 1:
		out := make([][]byte, 0, len(data))
		for i := range data {
			out = append(out, data[i:i+1])
		}
		return out
	default:
		var out [][]byte
		for i := 0; i < len(data); {
			n := 1 + rng.Intn(7)
			if rng.Intn(4) == 0 {
				n = 1 + rng.Intn(len(data))
			}
			if rng.Intn(10) == 0 {
				out = append(out, nil) // empty chunk
			}
			if i+n > len(data) {
				n = len(data) - i
			}
			out = append(out, data[i:i+n])
			i += n
		}
		return out
	}
}

func chunksHex(cs [][]byte) string {
	if len(cs) == 0 {
		return "-"
	}
	parts := make([]string, len(cs))
	for i, c := range cs {
		parts[i] = hex.EncodeToString(c)
	}
	return strings.Join(parts, ",")
}

var boundaryLens = []int{0, 1, 2, 3, 9, 127, 128, 129, 254, 255, 256, 257, 300, 1023, 1024, 1025, 16383, 16384, 65534, 65535, 65536, 65537, 70000}

func randPayload(rng *rand.Rand, n int) []byte {
	b := make([]byte, n)
	switch rng.Intn(3) {
	case 0:
		rng.Read(b)
	case 1:
		for i := range b {
			b[i] = byte('a' + i%7)
		}
	default:
		for i := range b {
			b[i] = byte(rng.Intn(4)) // many repeated small values (collide with delimiters / headers)
		}
	}
	return b
}

func genSpec(rng *rand.Rand) codecSpec {
	switch rng.Intn(10) {
	case 0, 1, 2:
		fl := []int{1, 2, 4, 8}[rng.Intn(4)]
		s := codecSpec{kind: "lf", big: rng.Intn(2) == 0, fieldLen: fl}
		s.max = []int{16, 64, 255, 256, 300, 1024, 65535, 65536, 70000, 1 << 20}[rng.Intn(10)]
		if rng.Intn(2) == 0 {
			s.offset = rng.Intn(4)
		}
		if rng.Intn(3) == 0 {
			s.adj = rng.Intn(9) - 4
		}
		if rng.Intn(2) == 0 {
			switch rng.Intn(4) {
			case 0:
				s.strip = rng.Intn(fl + s.offset + 3)
			case 1: // the natural choices: the bytes in front of the field, the field, both
				s.strip = []int{s.offset, fl, s.offset + fl, 1}[rng.Intn(4)]
			case 2: // reaching well into the body (a sub-header that is stripped with the length field)
				s.strip = fl + s.offset + 1 + rng.Intn(8)
			default:
				s.strip = fl
			}
		}
		if rng.Intn(20) == 0 { // invalid configurations
			s.fieldLen = []int{0, 3, 5, 16}[rng.Intn(4)]
		}
		if rng.Intn(30) == 0 {
			s.max = rng.Intn(3) - 1
		}
		return s
	case 3:
		fl := []int{1, 2, 4, 8}[rng.Intn(4)]
		s := codecSpec{kind: "pp", big: rng.Intn(2) == 0, fieldLen: fl, incl: rng.Intn(2) == 0}
		switch rng.Intn(4) {
		case 0:
			s.adj = rng.Intn(9) - 4
		case 1: // push the value to the field's capacity boundary
			capv := map[int]int{1: 1 << 8, 2: 1 << 16, 4: 1 << 32, 8: 1<<62 - 1 + 1<<62}[fl]
			s.adj = capv - rng.Intn(600)
		case 2:
			s.adj = -rng.Intn(600)
		}
		return s
	case 4, 5:
		return codecSpec{kind: "vi", max: []int{1, 16, 127, 128, 300, 16384, 65536, 1 << 20}[rng.Intn(8)]}
	case 6, 7:
		d := [][]byte{[]byte("\n"), []byte("\r\n"), []byte("aa"), []byte("ab"), []byte("aba"), {0}, {0, 1}, []byte("$_$"), []byte("aab"), []byte("==\n"), []byte("--\n"), []byte("abab")}[rng.Intn(12)]
		return codecSpec{kind: "dl", delim: d, max: []int{1, 2, 3, 8, 64, 300, 4096, 70010}[rng.Intn(8)], stripDelim: rng.Intn(2) == 0}
	case 8:
		if rng.Intn(2) == 0 { // no framing: every transport read of at most max bytes is a message
			return codecSpec{kind: "vl", max: []int{1, 2, 5, 16, 100, 1000, 1024, 1500, 2048, 5000, 0, -3}[rng.Intn(12)]}
		}
		fallthrough
	default:
		return codecSpec{kind: "fx", n: []int{1, 2, 3, 7, 16, 255, 256, 1024, 0, -1}[rng.Intn(10)]}
	}
}

func pickLen(rng *rand.Rand, s codecSpec) int {
	switch rng.Intn(4) {
	case 0:
		if rng.Intn(12) == 0 {
			return boundaryLens[rng.Intn(len(boundaryLens))]
		}
		return boundaryLens[rng.Intn(16)] // up to 1025
	case 1: // around max
		if s.max > 5000 && rng.Intn(10) != 0 {
			return rng.Intn(300)
		}
		m := s.max
		if s.kind == "fx" {
			m = s.n
		}
		v := m - s.fieldLen - s.offset + rng.Intn(5) - 2
		if v < 0 {
			v = 0
		}
		if v > 80000 {
			v = 80000
		}
		return v
	case 2:
		return rng.Intn(40)
	default:
		return rng.Intn(600)
	}
}

// runExactReader: utils.ExactReader call by call (C08): <P> xr <n> <fin> <chunks> <buffer sizes> <data:err>...
func runExactReader(prop string, rng *rand.Rand, k int) {
	emit("#case %s-xr-%d", strings.ToLower(prop), k)
	stream := randPayload(rng, rng.Intn(40))
	chunks := chunkings(rng, stream, rng.Intn(4))
	if rng.Intn(4) == 0 { // zero-length reads in between
		var cs [][]byte
		for _, c := range chunks {
			if rng.Intn(3) == 0 {
				cs = append(cs, []byte{})
			}
			cs = append(cs, c)
		}
		chunks = cs
	}
	var n int64
	switch rng.Intn(6) {
	case 0:
		n = int64(len(stream))
	case 1:
		n = int64(len(stream)) + int64(1+rng.Intn(5)) // the stream ends inside the frame
	case 2:
		n = int64(rng.Intn(3)) - 1 // -1, 0, 1
	default:
		n = int64(rng.Intn(len(stream) + 2))
	}
	finS, fin := finName(rng.Intn(3))
	cp := make([][]byte, len(chunks))
	for i := range chunks {
		cp[i] = append([]byte(nil), chunks[i]...)
	}
	r := utils.ExactReader(&chunkReader{chunks: cp, fin: fin}, n)
	var sizes, calls []string
	for i := 0; i < 60; i++ {
		sz := []int{0, 1, 1, 2, 3, 5, 8, 64}[rng.Intn(8)]
		sizes = append(sizes, strconv.Itoa(sz))
		buf := make([]byte, sz)
		got, err := r.Read(buf)
		cls := "nil"
		switch {
		case err == io.EOF:
			cls = "eof"
		case err == io.ErrUnexpectedEOF:
			cls = "ueof"
		case err != nil:
			cls = "other"
		}
		calls = append(calls, hexOrDash(buf[:got])+":"+cls)
		if err != nil {
			break
		}
	}
	emit("%s xr %d %s %s %s %s", prop, n, finS, chunksHex(chunks), strings.Join(sizes, ","), strings.Join(calls, " "))
}

func runC04(prop string, seed int64, count int) {
	rng := rand.New(rand.NewSource(seed))
	if prop == "C08" {
		xrng := rand.New(rand.NewSource(seed + 99))
		for k := 0; k < count; k++ {
			runExactReader(prop, xrng, k)
		}
	}
	for cs := 0; cs < count; cs++ {
		s := genSpec(rng)
		in, out, ok := s.build()
		emit("#case %s-%d-%s", strings.ToLower(prop), cs, s.kind)
		emit("%s cfg %s %s", prop, s, map[bool]string{true: "ok", false: "panic"}[ok])
		if !ok {
			continue
		}
		// encode a few payloads
		var stream []byte
		npl := 1 + rng.Intn(4)
		// 1/3: the payloads of the case are consecutive records of one buffer of the caller's, written as
		// buf[a:b], buf[b:c], … (each slice has the following records in its spare capacity)
		batch := rng.Intn(3) == 0
		var arena []byte
		var spans [][2]int
		var origs [][]byte
		for i := 0; i < npl; i++ {
			n := pickLen(rng, s)
			if s.kind == "fx" && rng.Intn(4) != 0 && s.n > 0 {
				n = s.n
			}
			p := randPayload(rng, n)
			if s.kind == "dl" && rng.Intn(2) == 0 { // payload ending in a partial match of the delimiter
				k := 1 + rng.Intn(len(s.delim))
				if k > len(s.delim)-1 && len(s.delim) > 1 {
					k = len(s.delim) - 1
				}
				p = append(p, s.delim[:k]...)
				if rng.Intn(2) == 0 {
					p = append(p, s.delim[0])
				}
			}
			if batch {
				if n > 2000 {
					p = p[:2000]
				}
				spans = append(spans, [2]int{len(arena), len(arena) + len(p)})
				arena = append(arena, p...)
				origs = append(origs, append([]byte(nil), p...))
				continue
			}
			carrier := rng.Intn(8)
			if rng.Intn(12) == 0 {
				carrier = 8
			}
			enc, st := doEncode(out, p, carrier)
			if st == "ok" {
				emit("%s enc %s %s %d %s", prop, s, hexOrDash(p), carrier, hexOrDash(enc))
				stream = append(stream, enc...)
			} else {
				emit("%s enc %s %s %d %s", prop, s, hexOrDash(p), carrier, st)
			}
		}
		if batch {
			arena = append(arena, bytes.Repeat([]byte{0xEE}, 16)...)[:len(arena)] // spare capacity behind the last record too
			if rng.Intn(2) == 0 {
				// corked: every record is encoded before any of the frames is read by whatever is below the codec
				held := make([][]netty.Message, len(spans))
				sts := make([]string, len(spans))
				for i, sp := range spans {
					held[i], sts[i] = doEncodeHeld(out, arena[sp[0]:sp[1]])
				}
				for i := range spans {
					st := sts[i]
					var enc []byte
					if st == "ok" {
						for _, m := range held[i] {
							b, err := flattenMsg(m)
							if err != nil {
								st = "raise"
								break
							}
							enc = append(enc, b...)
						}
					}
					if st == "ok" {
						emit("%s enc %s %s %d %s", prop, s, hexOrDash(origs[i]), 0, hexOrDash(enc))
						stream = append(stream, enc...)
					} else {
						emit("%s enc %s %s %d %s", prop, s, hexOrDash(origs[i]), 0, st)
					}
				}
				spans = nil
			}
			for i, sp := range spans {
				enc, st := doEncodeOwned(out, origs[i], 0, arena[sp[0]:sp[1]])
				if st == "ok" {
					emit("%s enc %s %s %d %s", prop, s, hexOrDash(origs[i]), 0, hexOrDash(enc))
					stream = append(stream, enc...)
				} else {
					emit("%s enc %s %s %d %s", prop, s, hexOrDash(origs[i]), 0, st)
				}
			}
		}
		if in == nil {
			continue
		}
		finI := 0
		if prop == "C08" {
			// adversarial streams: cut, corrupt, random, huge headers
			switch rng.Intn(7) {
			case 0:
				if len(stream) > 0 {
					stream = stream[:rng.Intn(len(stream)+1)]
				}
			case 1:
				stream = randPayload(rng, rng.Intn(64))
			case 2:
				hdr := make([]byte, 1+rng.Intn(12))
				for i := range hdr {
					hdr[i] = []byte{0xff, 0x80, 0x7f, 0x00, 0x01}[rng.Intn(5)]
				}
				stream = append(hdr, randPayload(rng, rng.Intn(40))...)
			case 3:
				if len(stream) > 0 {
					stream[rng.Intn(len(stream))] ^= byte(1 << uint(rng.Intn(8)))
				}
			case 4:
				stream = append(stream, randPayload(rng, rng.Intn(10))...)
			case 5: // well-formed but huge length headers: 2^63, 2^64-1, 2^63-1, 2^32 (varint) / all-ones fields
				hd := [][]byte{
					{0x80, 0x80, 0x80, 0x80, 0x80, 0x80, 0x80, 0x80, 0x80, 0x01},
					{0xff, 0xff, 0xff, 0xff, 0xff, 0xff, 0xff, 0xff, 0xff, 0x01},
					{0xff, 0xff, 0xff, 0xff, 0xff, 0xff, 0xff, 0xff, 0x7f},
					{0x80, 0x80, 0x80, 0x80, 0x10},
					{0x80, 0x00, 0x00, 0x00, 0x00, 0x00, 0x00, 0x00},
					{0xff, 0xff, 0xff, 0xff, 0xff, 0xff, 0xff, 0xff},
					{0x7f, 0xff, 0xff, 0xff, 0xff, 0xff, 0xff, 0xff},
					// not varints at all: ten bytes whose last one overflows 64 bits, more than ten bytes, continuation bytes only
					{0x85, 0x80, 0x80, 0x80, 0x80, 0x80, 0x80, 0x80, 0x80, 0x02},
					{0x85, 0x80, 0x80, 0x80, 0x80, 0x80, 0x80, 0x80, 0x80, 0x80, 0x00},
					{0x80, 0x80, 0x80, 0x80, 0x80, 0x80, 0x80, 0x80, 0x80, 0x80, 0x80, 0x80, 0x80, 0x80},
				}[rng.Intn(10)]
				stream = append(append([]byte(nil), hd...), randPayload(rng, rng.Intn(20))...)
			}
			finI = rng.Intn(3)
		}
		fname, ferr := finName(finI)
		modes := []int{rng.Intn(8)}
		if len(stream) <= 600 {
			modes = []int{0, 1, 2, 3} // whole, byte by byte, two random fragmentations
		}
		for _, mode := range modes {
			chunks := chunkings(rng, stream, mode)
			if s.kind == "vl" { // a read that returns nothing is delivered as an empty message by design: not generated
				var ne [][]byte
				for _, c := range chunks {
					if len(c) > 0 {
						ne = append(ne, c)
					}
				}
				chunks = ne
			}
			// one chunk ending in EOF: half of the time the decoder gets a *bytes.Buffer (a packet), as behind PacketCodec
			asBuffer := len(chunks) == 1 && fname == "eof" && rng.Intn(2) == 0
			outcome := doDecodeFrom(in, chunks, ferr, len(stream)+8, asBuffer)
			emit("%s dec %s %s %s %s", prop, s, fname, chunksHex(chunks), outcome)
		}
	}
}
