package main

import (
	"io"
	"context"
	"errors"
	"fmt"
	"math/rand"
	"strings"

	netty "github.com/go-netty/go-netty"
	"nvharness/mock"
)

// C03: random pipeline-building programs on the real pipeline, then every query and every event
// kind through every entry point, observed by probe handlers.

type c03env struct {
	pl      netty.Pipeline
	log     []string
	recKind int
	// C07 (nested): one ordered trace of every handler invocation, and a hook run by the exception handlers
	traceAll bool
	trace    []string
	valName  func(error) string
	onExcAll func(p *probe, pos int)
	// C03 (nested exceptions): run once by the first exception handler that is visited at position nestAt
	nestAt   int
	nestFire func()
}

type probe struct {
	id, fwd int
	env     *c03env
	pan     int         // bit mask of kinds on which the handler panics
	pval    interface{} // what it panics with
	onExc   func(p *probe, pos int, ex error) // C07: exception observer
}

func (p *probe) probeOf() *probe { return p }

func (p *probe) on(kind int, ctx netty.HandlerContext, arg interface{}, forward func()) {
	env := p.env
	if env.recKind == kind {
		pos := -1
		for j := 0; j < env.pl.Size()+2; j++ {
			if c := env.pl.ContextAt(j); c != nil && c == ctx {
				pos = j
				break
			}
		}
		if h, ok := ctx.Handler().(interface{ probeOf() *probe }); !ok || h.probeOf() != p {
			pos = -2 // context not bound to this handler
		}
		env.log = append(env.log, fmt.Sprintf("%d:%d", pos, p.id))
		if kind == 3 && env.nestFire != nil && pos == env.nestAt {
			f := env.nestFire
			env.nestFire = nil
			f()
		}
	}
	if env.traceAll && kind != 4 {
		pos := -1
		for j := 0; j < env.pl.Size()+2; j++ {
			if c := env.pl.ContextAt(j); c != nil && c == ctx {
				pos = j
				break
			}
		}
		if kind == 3 {
			ex, _ := arg.(error)
			env.trace = append(env.trace, fmt.Sprintf("x%d:%d=%s", pos, p.id, env.valName(ex)))
			if env.onExcAll != nil {
				env.onExcAll(p, pos)
			}
		} else {
			env.trace = append(env.trace, fmt.Sprintf("v%d:%d:%d", kind, pos, p.id))
		}
	}
	if (kind == 3 || kind == 4) && p.onExc != nil && env.recKind != kind {
		pos := -1
		for j := 0; j < env.pl.Size()+2; j++ {
			if c := env.pl.ContextAt(j); c != nil && c == ctx {
				pos = j
				break
			}
		}
		ex, _ := arg.(error)
		if kind == 4 {
			pos = -4 // inactive: the close error
		}
		p.onExc(p, pos, ex)
	}
	if p.pan>>uint(kind)&1 == 1 {
		panic(p.pval)
	}
	if p.fwd>>uint(kind)&1 == 1 {
		forward()
	}
}

type goExec struct{}

func (goExec) Exec(a netty.Action) { go a() }

func guard(f func()) (res string) {
	defer func() {
		if r := recover(); r != nil {
			res = "panic"
		}
	}()
	f()
	return "ok"
}

func handlerID(h netty.Handler) int {
	if q, ok := h.(interface{ probeOf() *probe }); ok {
		return q.probeOf().id
	}
	s := fmt.Sprintf("%T", h)
	if strings.Contains(s, "headHandler") {
		return 0
	}
	return 1
}

func runC03(seed int64, count int) {
	rng := rand.New(rand.NewSource(seed))
	for cs := 0; cs < count; cs++ {
		c03Case(rng, cs)
	}
}

func c03Case(rng *rand.Rand, cs int) {
	defer func() {
		if r := recover(); r != nil {
			emit("C03 crash %s", strings.ReplaceAll(fmt.Sprint(r), " ", "_"))
		}
	}()
	{
		env := &c03env{recKind: -1}
		pl := netty.NewPipeline()
		env.pl = pl
		tr := mock.NewTransport()
		ch := netty.NewChannel()(int64(cs), context.Background(), pl, tr, goExec{})
		netty.NvAttach(pl, ch)
		emit("#case c03-%d", cs)
		emit("C03 new")
		nh := 2 + rng.Intn(7)
		hs := make([]netty.Handler, nh)
		for i := 0; i < nh; i++ {
			mask := 1 + rng.Intn(63)
			if rng.Intn(25) == 0 {
				mask = 0 // inadmissible: implements nothing
			}
			fwd := rng.Intn(64)
			if rng.Intn(3) == 0 {
				fwd = 63
			}
			id := 10 + i
			hs[i] = mkProbe(rng, mask, &probe{id: id, fwd: fwd, env: env})
			emit("C03 hdl %d %d %d", id, mask, fwd)
		}
		pick := func() ([]netty.Handler, string) {
			n := rng.Intn(4)
			if rng.Intn(3) == 0 {
				n = 1
			}
			var out []netty.Handler
			var ids []string
			for i := 0; i < n; i++ {
				k := rng.Intn(nh)
				out = append(out, hs[k])
				ids = append(ids, fmt.Sprint(10+k))
			}
			return out, strings.Join(ids, " ")
		}
		nops := 1 + rng.Intn(8)
		for o := 0; o < nops; o++ {
			hl, ids := pick()
			switch rng.Intn(4) {
			case 0:
				r := guard(func() { pl.AddFirst(hl...) })
				emit("C03 addfirst %s %s", r, ids)
			case 1:
				r := guard(func() { pl.AddLast(hl...) })
				emit("C03 addlast %s %s", r, ids)
			default:
				pos := rng.Intn(pl.Size()+5) - 3
				r := guard(func() { pl.AddHandler(pos, hl...) })
				emit("C03 addhandler %s %d %s", r, pos, ids)
			}
			if rng.Intn(3) == 0 || o == nops-1 {
				c03Queries(pl, nh, o == nops-1)
			}
			// events between the mutations too (a pipeline is changed while it is in use: protocol upgrades);
			// only kinds that cannot close the channel
			if o < nops-1 && rng.Intn(2) == 0 {
				observe := c03Observer(env, tr)
				for _, k := range rng.Perm(4)[:1+rng.Intn(3)] {
					switch k {
					case 0:
						observe(0, 0, func() { pl.FireChannelActive() })
					case 1:
						observe(1, 0, func() { pl.FireChannelRead("m") })
					case 2:
						observe(5, 0, func() { pl.FireChannelEvent("e") })
					default:
						observe(2, pl.Size()-1, func() { pl.FireChannelWrite([]byte("w")) })
					}
				}
			}
		}
		c03Events(env, pl, ch, tr, rng)
	}
}

func c03Queries(pl netty.Pipeline, nh int, full bool) {
	emit("C03 size %d", pl.Size())
	var f, b []string
	pl.IndexOf(func(h netty.Handler) bool { f = append(f, fmt.Sprint(handlerID(h))); return false })
	pl.LastIndexOf(func(h netty.Handler) bool { b = append(b, fmt.Sprint(handlerID(h))); return false })
	emit("C03 chain fwd %s", strings.Join(f, " "))
	emit("C03 chain bwd %s", strings.Join(b, " "))
	if !full {
		return
	}
	for id := 0; id < 10+nh; id++ {
		if id >= 2 && id < 10 {
			continue
		}
		want := id
		emit("C03 indexof %d %d", id, pl.IndexOf(func(h netty.Handler) bool { return handlerID(h) == want }))
		emit("C03 lastindexof %d %d", id, pl.LastIndexOf(func(h netty.Handler) bool { return handlerID(h) == want }))
	}
	for pos := -3; pos <= pl.Size()+1; pos++ {
		var r string
		res := guard(func() {
			c := pl.ContextAt(pos)
			if c == nil {
				r = "nil"
			} else {
				r = fmt.Sprint(handlerID(c.Handler()))
			}
		})
		if res == "panic" {
			r = "panic"
		}
		emit("C03 ctxat %d %s", pos, r)
	}
}

func c03Observer(env *c03env, tr *mock.Transport) func(kind int, pos int, f func()) bool {
	return func(kind int, pos int, f func()) bool {
		env.recKind = kind
		env.log = nil
		w0 := len(tr.Snapshot())
		c0 := tr.Closed()
		res := guard(f)
		env.recKind = -1
		final := "none"
		if tr.Closed() > c0 {
			final = "close"
		} else if len(tr.Snapshot()) > w0 {
			final = "chanwrite"
		}
		if res == "panic" {
			final = "panic"
		}
		emit("C03 from %d %d %s %s", kind, pos, final, strings.Join(env.log, " "))
		return final == "close"
	}
}

func c03Events(env *c03env, pl netty.Pipeline, ch netty.Channel, tr *mock.Transport, rng *rand.Rand) {
	size := pl.Size()
	observe := c03Observer(env, tr)
	// the exception that travels: a plain error, or one of the kinds other parts of the library special-case
	// (timeout / non-timeout net.Error, bare or wrapped, io.EOF); where it goes does not depend on its kind
	var ex error = errors.New("nv-exception")
	switch rng.Intn(6) {
	case 0:
		ex = &netErr{msg: "nv-timeout", timeout: true}
	case 1:
		ex = fmt.Errorf("wrapped: %w", &netErr{msg: "nv-timeout", timeout: true})
	case 2:
		ex = &netErr{msg: "nv-fatal"}
	case 3:
		ex = io.EOF
	}
	msg := []byte("w")
	// pipeline.Fire* and Channel.Write/Trigger
	observe(0, 0, func() { pl.FireChannelActive() })
	observe(1, 0, func() { pl.FireChannelRead("m") })
	observe(4, 0, func() { pl.FireChannelInactive(ex) })
	observe(5, 0, func() { pl.FireChannelEvent("e") })
	observe(5, 0, func() { ch.Trigger("e") })
	observe(2, size-1, func() { pl.FireChannelWrite(msg) })
	observe(2, size-1, func() { ch.Write(msg) })
	// ctx.Write / ctx.Trigger / forwarding from every position
	for pos := 0; pos < size; pos++ {
		c := pl.ContextAt(pos)
		observe(2, pos, func() { c.Write(msg) })
		observe(5, pos, func() { c.Trigger("e") })
		if rng.Intn(2) == 0 {
			observe(0, pos, func() { c.(netty.ActiveContext).HandleActive() })
			observe(1, pos, func() { c.(netty.InboundContext).HandleRead("m") })
			observe(2, pos, func() { c.(netty.OutboundContext).HandleWrite(msg) })
			observe(4, pos, func() { c.(netty.InactiveContext).HandleInactive(ex) })
			observe(5, pos, func() { c.(netty.EventContext).HandleEvent("e") })
		}
	}
	// exceptions last: one that reaches the tail closes the channel.
	// First an exception that originates in a failed ctx.Write: the head rejects the message (unsupported type), the
	// writer's recover hands the exception to the pipeline, where it enters at the head like any other. The writer is
	// the deepest context with no outbound handler between it and the head, so that the write really gets there.
	if rng.Intn(2) == 0 {
		p := 1
		for p+1 < size-1 {
			if _, isOut := pl.ContextAt(p).Handler().(netty.OutboundHandler); isOut {
				break
			}
			p++
		}
		c := pl.ContextAt(p)
		if observe(3, 0, func() { c.Write(42) }) {
			return
		}
	}
	if rng.Intn(2) == 0 {
		// an exception handler that, while handling this exception, causes another one (its reply fails, say): the
		// second one travels the whole chain from the head as well
		env.nestAt = 1 + rng.Intn(size-1)
		env.nestFire = func() { pl.FireChannelException(errors.New("nv-second-exception")) }
		env.recKind = 3
		env.log = nil
		c0 := tr.Closed()
		res := guard(func() { pl.FireChannelException(ex) })
		env.recKind = -1
		env.nestFire = nil
		final := "none"
		if tr.Closed() > c0 {
			final = "close"
		}
		if res == "panic" {
			final = "panic"
		}
		emit("C03 nest %d %s %s", env.nestAt, final, strings.Join(env.log, " "))
		if final == "close" {
			return
		}
	}
	if observe(3, 0, func() { pl.FireChannelException(ex) }) {
		return
	}
	for pos := 0; pos < size; pos++ {
		c := pl.ContextAt(pos)
		if observe(3, pos, func() { c.(netty.ExceptionContext).HandleException(ex) }) {
			return
		}
	}
}
