package main

import (
	"context"
	"errors"
	"fmt"
	"math/rand"
	"strings"

	netty "github.com/go-netty/go-netty"
	"nvharness/mock"
)

// C07: panics of every value kind injected at every handler position x event kind x entry point,
// pipelines with absent / forwarding / swallowing exception handlers, open and closed channels,
// and a failing transport under the head handler.

type netErr struct {
	msg     string
	timeout bool
}

func (e *netErr) Error() string   { return e.msg }
func (e *netErr) Timeout() bool   { return e.timeout }
func (e *netErr) Temporary() bool { return e.timeout }

func mkVal(kind string, id int) interface{} {
	switch kind {
	case "err":
		return fmt.Errorf("nv-error-%d", id)
	case "str":
		return fmt.Sprintf("nv-string-%d", id)
	case "nto":
		return &netErr{msg: fmt.Sprintf("nv-net-timeout-%d", id), timeout: true}
	default:
		return &netErr{msg: fmt.Sprintf("nv-net-fatal-%d", id)}
	}
}

func sameVal(raised interface{}, got error) bool {
	if got == nil {
		return false
	}
	if e, ok := raised.(error); ok {
		return errors.Is(got, e) && got == e
	}
	return got.Error() == fmt.Sprint(raised)
}

func runC07(seed int64, count int) {
	rng := rand.New(rand.NewSource(seed))
	kinds := []string{"err", "str", "nto", "nft"}
	for cs := 0; cs < count; cs++ {
		func() {
			defer func() {
				if r := recover(); r != nil {
					emit("C07 crash %s", strings.ReplaceAll(fmt.Sprint(r), " ", "_"))
				}
			}()
			env := &c03env{recKind: -1}
			pl := netty.NewPipeline()
			env.pl = pl
			tr := mock.NewTransport()
			ch := netty.NewChannel()(int64(cs), context.Background(), pl, tr, goExec{})
			netty.NvAttach(pl, ch)
			emit("#case c07-%d", cs)
			emit("C07 new")
			nh := 1 + rng.Intn(5)
			type rec struct {
				vk  string
				vid int
				val interface{}
			}
			var excLog []string
			var excVals []error
			recs := map[int]rec{}
			var ids []string
			var hs []netty.Handler
			for i := 0; i < nh; i++ {
				mask := 1 + rng.Intn(63)
				fwd := rng.Intn(64)
				if rng.Intn(2) == 0 {
					fwd = 63
				}
				pan := 0
				if rng.Intn(2) == 0 {
					pan = (1 << uint(rng.Intn(6))) &^ 8 // never panic on exceptions (proviso of the property)
				}
				if rng.Intn(6) == 0 {
					pan = 55 // panics on every non-exception kind
				}
				vk := kinds[rng.Intn(4)]
				vid := 100*cs + i
				val := mkVal(vk, vid)
				id := 10 + i
				p := &probe{id: id, fwd: fwd, env: env, pan: pan, pval: val}
				p.onExc = func(p *probe, pos int, ex error) {
					if pos == -4 {
						return
					}
					excLog = append(excLog, fmt.Sprintf("%d:%d", pos, p.id))
					excVals = append(excVals, ex)
				}
				recs[id] = rec{vk, vid, val}
				hs = append(hs, mkProbe(rng, mask, p))
				ids = append(ids, fmt.Sprint(id))
				emit("C07 hdl %d %d %d %d %s:%d", id, mask, fwd, pan, vk, vid)
			}
			// a sink that only observes the error the channel is closed with (inactive event)
			var closeErrs []error
			sink := &probe{id: 99, fwd: 16, env: env}
			sink.onExc = func(p *probe, pos int, ex error) {
				if pos == -4 {
					closeErrs = append(closeErrs, ex)
				}
			}
			hs = append([]netty.Handler{newProbe(16, sink)}, hs...)
			ids = append([]string{"99"}, ids...)
			emit("C07 hdl 99 16 16 0 err:0")
			pl.AddLast(hs...)
			emit("C07 add %s", strings.Join(ids, " "))
			// one injection scenario per case (a closing one ends the case)
			headFail := "-"
			var headVal interface{}
			if rng.Intn(4) == 0 {
				vk := []string{"err", "nft", "nto"}[rng.Intn(3)]
				headVal = mkVal(vk, 9000+cs)
				headFail = fmt.Sprintf("%s:%d", vk, 9000+cs)
				tr.FailWrite = func(int) error { return headVal.(error) }
			}
			closedBefore := 0
			if rng.Intn(6) == 0 {
				ch.Close(nil)
				closedBefore = 1
			}
			entries := []string{"chwrite", "chtrigger", "read", "active", "ctx", "ctx"}
			entry := entries[rng.Intn(len(entries))]
			kind, pos := 0, 0
			var call func()
			switch entry {
			case "chwrite":
				kind = 2
				call = func() { ch.Write([]byte("w")) }
			case "chtrigger":
				kind = 5
				call = func() { ch.Trigger("e") }
			case "read":
				kind = 1
				call = func() { netty.NvInvoke(ch, func() { pl.FireChannelRead("m") }) }
			case "active":
				kind = 0
				call = func() { netty.NvInvoke(ch, func() { pl.FireChannelActive() }) }
			default:
				pos = rng.Intn(pl.Size())
				c := pl.ContextAt(pos)
				if rng.Intn(2) == 0 {
					kind = 2
					call = func() { c.Write([]byte("w")) }
				} else {
					kind = 5
					call = func() { c.Trigger("e") }
				}
			}
			env.recKind = kind
			env.log = nil
			c0 := tr.Closed()
			esc := 0
			func() {
				defer func() {
					if r := recover(); r != nil {
						esc = 1
					}
				}()
				call()
			}()
			vis := env.log
			env.recKind = -1
			// which value did the exception handlers get?
			val := "none"
			if len(excVals) == 0 && len(closeErrs) > 0 && closeErrs[0] != nil {
				excVals = append(excVals, closeErrs[0]) // nobody but the tail saw it: identify it by the close error
			}
			if len(excVals) > 0 {
				val = "bad"
				// find the raiser: the last visited handler, or the head
				var raised interface{}
				rk, rid := "", 0
				if len(vis) > 0 {
					var p, id int
					fmt.Sscanf(vis[len(vis)-1], "%d:%d", &p, &id)
					r := recs[id]
					raised, rk, rid = r.val, r.vk, r.vid
				}
				if headVal != nil && (len(vis) == 0 || !sameVal(raised, excVals[0])) {
					raised, rk, rid = headVal, strings.Split(headFail, ":")[0], 9000+cs
				}
				if excVals[0] != nil && excVals[0].Error() == "netty: channel closed" {
					raised, rk, rid = excVals[0], "err", 424242
				}
				ok := true
				for _, e := range excVals {
					if !sameVal(raised, e) {
						ok = false
					}
				}
				if ok {
					val = fmt.Sprintf("%s:%d", rk, rid)
				}
			}
			closed := "none"
			evclose := 0
			if closedBefore == 0 && tr.Closed() > c0 {
				// closed by this call: with which value? (the inactive/close error is not observable through the
				// mock; attribute it to the exception value when one was routed, else to the event itself)
				if val != "none" && len(closeErrs) > 0 && closeErrs[0] != nil && sameVal(func() interface{} {
					if headVal != nil && strings.HasPrefix(val, strings.Split(headFail, ":")[0]) && strings.HasSuffix(val, fmt.Sprint(9000+cs)) {
						return headVal
					}
					for _, r := range recs {
						if fmt.Sprintf("%s:%d", r.vk, r.vid) == val {
							return r.val
						}
					}
					return nil
				}(), closeErrs[0]) {
					closed = val
				} else if val != "none" {
					closed = "bad"
				} else {
					evclose = 1
				}
			}
			join := func(l []string) string {
				if len(l) == 0 {
					return "-"
				}
				return strings.Join(l, ",")
			}
			// exception log only counts exception handlers invoked for the routed exception
			e := entry
			emit("C07 invoke %s %d %d %d %s esc=%d vis=%s exc=%s val=%s closed=%s evclose=%d", e, kind, pos, closedBefore, headFail, esc, join(vis), join(excLog), val, closed, evclose)
		}()
	}
}
