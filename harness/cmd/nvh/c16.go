package main

import (
	"bytes"
	"encoding/binary"
	"encoding/hex"
	"encoding/json"
	"fmt"
	"io"
	"math/rand"
	"sort"
	"strconv"
	"strings"
	"unicode/utf8"

	netty "github.com/go-netty/go-netty"
	"github.com/go-netty/go-netty/codec"
	"github.com/go-netty/go-netty/codec/format"
	"github.com/go-netty/go-netty/codec/frame"
)

// C16: the real text and JSON codecs (optionally over a real frame codec) on generated strings,
// object trees and well-formed / malformed frames. Trees travel as prefix tokens (see Driver/C16.lean).

func hexS(s string) string { return hex.EncodeToString([]byte(s)) }

var keyAlphabet = []string{"a", "b", "k", "Z", "0", "_", " ", "\"", "\\", "/", "<", ">", "&", "\n", "\t", "\r", "\b", "\f", "\x01", "\x1f", "\x7f",
	"é", "ß", "中", "😀", "\u2028", "\u2029", "\ufffd", "'", ":", ",", "{", "}", "[", "]"}

func genString(rng *rand.Rand) string {
	n := rng.Intn(6)
	if rng.Intn(12) == 0 {
		n = 20 + rng.Intn(60)
	}
	var sb strings.Builder
	for i := 0; i < n; i++ {
		sb.WriteString(keyAlphabet[rng.Intn(len(keyAlphabet))])
	}
	return sb.String()
}

var numLits = []string{"0", "-0", "1", "-1", "7", "42", "100", "-250", "9007199254740992", "9007199254740993", "-9007199254740993", "18446744073709551616",
	"123456789012345678901234567890", "0.5", "-0.25", "12.50", "3.141592653589793238462643383279", "1e10", "1E+5", "2.5e-3", "-1.0E-0", "0.000001", "1e400"}

func genNumber(rng *rand.Rand, intsOnly bool) json.Number {
	if intsOnly {
		return json.Number(strconv.FormatInt(rng.Int63n(2000001)-1000000, 10))
	}
	if rng.Intn(3) == 0 {
		return json.Number(strconv.FormatInt(rng.Int63()-rng.Int63(), 10))
	}
	return json.Number(numLits[rng.Intn(len(numLits))])
}

func genValue(rng *rand.Rand, depth int, intsOnly bool) interface{} {
	k := rng.Intn(9)
	if depth <= 0 && k >= 6 {
		k = rng.Intn(6)
	}
	switch k {
	case 0:
		return nil
	case 1:
		return rng.Intn(2) == 0
	case 2, 3:
		return genNumber(rng, intsOnly)
	case 4, 5:
		return genString(rng)
	case 6:
		n := rng.Intn(4)
		a := make([]interface{}, n)
		for i := range a {
			a[i] = genValue(rng, depth-1, intsOnly)
		}
		return a
	default:
		return genObject(rng, depth-1, intsOnly)
	}
}

func genObject(rng *rand.Rand, depth int, intsOnly bool) map[string]interface{} {
	n := rng.Intn(5)
	m := map[string]interface{}{}
	for i := 0; i < n; i++ {
		m[genString(rng)] = genValue(rng, depth, intsOnly)
	}
	return m
}

// canonical tokens of a Go value as delivered by the codec / as generated
func tokens(v interface{}) string {
	switch x := v.(type) {
	case nil:
		return "N"
	case bool:
		if x {
			return "T"
		}
		return "F"
	case json.Number:
		return "#" + hexS(string(x))
	case float64:
		if x == float64(int64(x)) && x < 1e15 && x > -1e15 {
			return "#" + hexS(strconv.FormatInt(int64(x), 10))
		}
		return "#?"
	case string:
		return "S" + hexS(x)
	case []interface{}:
		parts := []string{fmt.Sprintf("A%d", len(x))}
		for _, e := range x {
			parts = append(parts, tokens(e))
		}
		return strings.Join(parts, " ")
	case map[string]interface{}:
		keys := make([]string, 0, len(x))
		for k := range x {
			keys = append(keys, k)
		}
		sort.Strings(keys)
		parts := []string{fmt.Sprintf("O%d", len(x))}
		for _, k := range keys {
			parts = append(parts, "S"+hexS(k), tokens(x[k]))
		}
		return strings.Join(parts, " ")
	}
	return fmt.Sprintf("?%T", v)
}

// carrier wraps frame bytes in one of the message types a frame codec or the transport hands up
func carrier(rng *rand.Rand, b []byte) netty.Message {
	b = append([]byte(nil), b...)
	switch rng.Intn(5) {
	case 0:
		return b
	case 1:
		return string(b)
	case 2:
		return bytes.NewReader(b)
	case 3:
		return io.LimitReader(bytes.NewReader(b), int64(len(b))) // plain io.Reader
	default:
		h := len(b) / 2
		return io.MultiReader(bytes.NewReader(b[:h]), bytes.NewReader(b[h:]))
	}
}

// jsonRead runs the real codec's HandleRead; returns "ok <tokens>", "nil" or "exc"
func jsonRead(c netty.InboundHandler, msg netty.Message) (res string) {
	defer func() {
		if r := recover(); r != nil {
			if isRuntimeFault(r) {
				res = "fault"
			} else {
				res = "exc"
			}
		}
	}()
	delivered := 0
	ctx := &fakeCtx{onRead: func(m netty.Message) {
		delivered++
		obj, ok := m.(map[string]interface{})
		switch {
		case !ok:
			res = fmt.Sprintf("type:%T", m)
		case obj == nil:
			res = "nil"
		default:
			res = "ok " + tokens(obj)
		}
	}}
	c.HandleRead(ctx, msg)
	if delivered == 0 {
		return "none"
	}
	return res
}

func jsonWrite(c netty.OutboundHandler, v interface{}) (b []byte, ok bool) {
	defer func() {
		if r := recover(); r != nil {
			ok = false
		}
	}()
	ctx := &fakeCtx{onWrite: func(m netty.Message) {
		x, err := flattenMsg(m)
		if err != nil {
			panic(err)
		}
		b = append(b, x...)
	}}
	c.HandleWrite(ctx, v)
	return b, true
}

var wsChars = []string{" ", "\t", "\n", "\r", "  "}

// respace inserts whitespace between tokens of valid JSON text (outside strings) and rewrites some
// string characters as \u escapes (incl. surrogate pairs) or short escapes
func respace(rng *rand.Rand, b []byte) []byte {
	var out []byte
	inStr := false
	for i := 0; i < len(b); {
		c := b[i]
		if inStr {
			if c == '\\' {
				n := 2
				if b[i+1] == 'u' {
					n = 6
				}
				out = append(out, b[i:i+n]...)
				i += n
				continue
			}
			if c == '"' {
				inStr = false
				out = append(out, c)
				i++
				continue
			}
			r, size := utf8.DecodeRune(b[i:])
			if rng.Intn(4) == 0 {
				if r >= 0x10000 {
					r -= 0x10000
					out = append(out, []byte(fmt.Sprintf("\\u%04x\\u%04X", 0xD800+(r>>10), 0xDC00+(r&0x3FF)))...)
				} else if r == '/' && rng.Intn(2) == 0 {
					out = append(out, '\\', '/')
				} else {
					out = append(out, []byte(fmt.Sprintf("\\u%04X", r))...)
				}
			} else {
				out = append(out, b[i:i+size]...)
			}
			i += size
			continue
		}
		if c == '"' {
			inStr = true
		}
		if (c == '{' || c == '}' || c == '[' || c == ']' || c == ',' || c == ':') && rng.Intn(3) == 0 {
			out = append(out, []byte(wsChars[rng.Intn(len(wsChars))])...)
			out = append(out, c)
			if rng.Intn(2) == 0 {
				out = append(out, []byte(wsChars[rng.Intn(len(wsChars))])...)
			}
		} else {
			out = append(out, c)
		}
		i++
	}
	return out
}

var garbage = []string{"", "", " ", "\n", "x", "}", "]", "{\"a\":1}", "null", ",", "\x00", "12", "\"", " trailing"}

var malformed = []string{"", " ", "null", " null ", "true", "false", "0", "12", "-1.5e3", "\"str\"", "[]", "[1,2]", "[{\"a\":1}]", "nul", "nulll", "{", "}", "{]", "{\"a\"}", "{\"a\":}",
	"{\"a\":1,}", "{,}", "{\"a\" 1}", "{\"a\":1 \"b\":2}", "{a:1}", "{'a':1}", "{\"a\":01}", "{\"a\":1.}", "{\"a\":.5}", "{\"a\":-}", "{\"a\":1e}", "{\"a\":1e+}", "{\"a\":+1}", "{\"a\":0x10}",
	"{\"a\":NaN}", "{\"a\":Infinity}", "{\"a\":tru}", "{\"a\":True}", "{\"a\":nullx}", "{\"a\":\"\\x\"}", "{\"a\":\"\\u12\"}", "{\"a\":\"\\u12G4\"}", "{\"a\":\"\\'\"}", "{\"a\":\"\x01\"}", "{\"a\":\"\n\"}",
	"{\"a\":\"unterminated}", "{\"a\":[1,2}", "{\"a\":[1,]}", "{\"a\":[,1]}", "{\"a\":{\"b\":1}", "{\"a\":1}}", "{\"a\":1}{", "{\"a\":\"\\ud800\"}", "{\"a\":\"\\udc00\\ud800\"}", "{\"a\":\"\\ud83d\\u0041\"}",
	"{\"a\":\"\\uD83D\\uDE00\"}", "{\"\":{}}", "{\"a\":1,\"a\":2}", "{\"a\":[]}", "{\"a\" : [ ] }", "\t{\r\n}", "{\"a\":1.0e+00}", "{\"a\":-0}", "{\"a\":1E5}", "{\"a\":1.5.5}", "{\"a\":1-2}", "{\"a\":1 2}",
	"[", "\"", "{\"a", "{\"a\":", "{\"a\":1", "{\"a\":tr", "{\"a\":\"\\", "{\"a\":\"\\u", "{\"a\":-", "{\"a\":[", "{\"a\":{", "\ufeff{}", "{}garbage", "{} {}", "{}null"}

func runC16(seed int64, count int) {
	rng := rand.New(rand.NewSource(seed))
	// one codec instance per configuration serves every frame of the run, as one instance serves every frame of a
	// connection (a codec that keeps anything from one frame to the next shows up in the later frames)
	codecs := map[[2]bool]codec.Codec{}
	for i := 0; i < count; i++ {
		emit("#case C16-%d-k%d", i, i%5)
		useNumber := rng.Intn(4) != 0
		disallow := rng.Intn(2) == 0
		c := codecs[[2]bool{useNumber, disallow}]
		if c == nil || rng.Intn(50) == 0 {
			c = format.JSONCodec(useNumber, disallow)
			codecs[[2]bool{useNumber, disallow}] = c
		}
		un := b2i(useNumber)
		switch i % 5 {
		case 0: // encoder against the model, then the implementation's own round trip (optionally through a frame codec)
			tree := genObject(rng, 3, !useNumber)
			if rng.Intn(3) == 0 {
				// two objects are encoded before the first one's frame is read by whatever is below the codec
				// (a corking handler, or the head handler waiting for the message lock of a concurrent writer)
				tree2 := genObject(rng, 2, !useNumber)
				var held [2][]netty.Message
				okh := true
				func() {
					defer func() {
						if r := recover(); r != nil {
							okh = false
						}
					}()
					c.HandleWrite(&fakeCtx{onWrite: func(m netty.Message) { held[0] = append(held[0], m) }}, tree)
					c.HandleWrite(&fakeCtx{onWrite: func(m netty.Message) { held[1] = append(held[1], m) }}, tree2)
				}()
				if okh {
					for k, t := range []map[string]interface{}{tree, tree2} {
						var hb []byte
						for _, m := range held[k] {
							x, _ := flattenMsg(m)
							hb = append(hb, x...)
						}
						emit("C16 enc %s %s", hexOrDash(hb), tokens(t))
					}
				}
			}
			b, ok := jsonWrite(c, tree)
			if !ok {
				emit("C16 crash marshal")
				continue
			}
			emit("C16 enc %s %s", hexOrDash(b), tokens(tree))
			var msg netty.Message
			if rng.Intn(2) == 0 {
				// length-field frame codec underneath: encode the frame, decode it, hand the frame body up
				lf := frame.LengthFieldCodec(binary.BigEndian, 1<<24, 0, 4, 0, 4)
				var framed []byte
				lf.HandleWrite(&fakeCtx{onWrite: func(m netty.Message) { x, _ := flattenMsg(m); framed = append(framed, x...) }}, b)
				var res string
				lf.HandleRead(&fakeCtx{onRead: func(m netty.Message) { res = jsonRead(c, m) }}, bytes.NewReader(framed))
				emit("C16 rt %d %s => %s", un, tokens(tree), res)
				continue
			}
			msg = carrier(rng, b)
			emit("C16 rt %d %s => %s", un, tokens(tree), jsonRead(c, msg))
		case 1, 2: // well-formed frames with whitespace, escapes, duplicates, trailing bytes
			tree := genObject(rng, 3, false)
			b, _ := json.Marshal(tree)
			f := respace(rng, b)
			if rng.Intn(6) == 0 && len(f) > 2 { // a repeated key: the last one wins
				f = append([]byte(`{"dup":1,`), f[1:]...)
				if len(tree) == 0 {
					f = []byte(`{"dup":1,"dup":[2]}`)
				} else {
					f = append(f[:len(f)-1], []byte(`,"dup":"last"}`)...)
				}
			}
			f = append(f, []byte(garbage[rng.Intn(len(garbage))])...)
			if rng.Intn(4) == 0 {
				f = append([]byte(wsChars[rng.Intn(len(wsChars))]), f...)
			}
			emit("C16 dec - %d %s %s", un, hexOrDash(f), jsonRead(c, carrier(rng, f)))
		case 3: // malformed: fixed list and random truncation / mutation of valid text
			var f []byte
			if rng.Intn(2) == 0 {
				f = []byte(malformed[rng.Intn(len(malformed))])
			} else {
				tree := genObject(rng, 2, false)
				b, _ := json.Marshal(tree)
				f = respace(rng, b)
				switch rng.Intn(3) {
				case 0:
					f = f[:rng.Intn(len(f)+1)]
				case 1:
					if len(f) > 0 {
						p := rng.Intn(len(f))
						f = append(append(append([]byte(nil), f[:p]...), []byte(garbage[rng.Intn(len(garbage))])...), f[p:]...)
					}
				default:
					if len(f) > 0 {
						p := rng.Intn(len(f))
						f = append(append([]byte(nil), f[:p]...), f[p+1:]...)
					}
				}
			}
			if !utf8.Valid(f) {
				f = []byte(strings.ToValidUTF8(string(f), "?"))
			}
			emit("C16 dec - %d %s %s", un, hexOrDash(f), jsonRead(c, carrier(rng, f)))
		case 4: // text codec: arbitrary bytes, optionally through a frame codec
			if rng.Intn(3) == 0 {
				// several frames through a frame codec that reuses its read buffer (VariableLengthCodec, PacketCodec);
				// the strings are compared only after the last frame was delivered
				tc := format.TextCodec()
				var fc netty.InboundHandler = frame.VariableLengthCodec(4096)
				delim := false
				switch rng.Intn(3) {
				case 0:
					fc = frame.PacketCodec(64)
				case 1: // delimiter-framed text, the pairing of the repository's own example
					fc = frame.DelimiterCodec(4096, "\n", true)
					delim = true
				}
				k := 2 + rng.Intn(3)
				sent := make([][]byte, k)
				var got []string
				for j := range sent {
					n := 1 + rng.Intn(40)
					sent[j] = make([]byte, n)
					for x := range sent[j] {
						sent[j][x] = byte(rng.Intn(256))
						if delim && sent[j][x] == '\n' {
							sent[j][x] = '.'
						}
					}
				}
				func() {
					defer func() { recover() }()
					for j := range sent {
						fc.HandleRead(&fakeCtx{onRead: func(m netty.Message) {
							tc.HandleRead(&fakeCtx{onRead: func(m netty.Message) { got = append(got, m.(string)) }}, m)
						}}, bytes.NewReader(append(append([]byte(nil), sent[j]...), []byte("\n")[:b2i(delim)]...)))
					}
				}()
				for j := range sent {
					if j < len(got) {
						emit("C16 text %s %s", hexOrDash(sent[j]), hexOrDash([]byte(got[j])))
					} else {
						emit("C16 text %s - exc", hexOrDash(sent[j]))
					}
				}
				continue
			}
			n := []int{0, 1, 2, 7, 63, 64, 65, 500, 1023, 1024, 1025, 4096, 70000}[rng.Intn(13)]
			s := make([]byte, n)
			for j := range s {
				switch rng.Intn(6) {
				case 0:
					s[j] = 0
				case 1:
					s[j] = '\n'
				case 2:
					s[j] = 0xff
				default:
					s[j] = byte(rng.Intn(256))
				}
			}
			tc := format.TextCodec()
			// the text codec alone, or above a length-prefixing frame codec: the frame codec gets the very message the
			// text codec emits (not a flattened copy), as in a pipeline
			var fc codec.Codec
			unframed := false
			switch rng.Intn(7) {
			case 0:
				fc = frame.LengthFieldCodec(binary.BigEndian, 1<<24, 0, 4, 0, 4)
			case 1:
				fc = frame.VarintLengthFieldCodec(1 << 24)
			case 2:
				fc = frame.LengthFieldCodec(binary.LittleEndian, 1<<24, 0, 2, 0, 2)
				if n > 60000 {
					fc = nil
				}
			case 3:
				if n > 0 {
					fc = frame.FixedLengthCodec(n)
				}
			case 4: // codecs that pass outbound messages through untouched
				if n > 0 && n <= 4096 {
					fc = frame.VariableLengthCodec(4096)
					unframed = true
				}
			}
			var wire []byte
			var got string
			delivered := false
			func() {
				defer func() { recover() }()
				// what the head handler does with a message: the five carriers it accepts, anything else is refused
				sink := &fakeCtx{onWrite: func(m netty.Message) {
					if _, isString := m.(string); isString {
						panic("unsupported type: string")
					}
					x, err := flattenMsg(m)
					if err != nil {
						panic(err)
					}
					wire = append(wire, x...)
				}}
				if fc != nil {
					tc.HandleWrite(&fakeCtx{onWrite: func(m netty.Message) { fc.HandleWrite(sink, m) }}, string(s))
				} else {
					tc.HandleWrite(sink, string(s))
				}
				onRead := func(m netty.Message) { got, delivered = m.(string), true }
				if fc != nil {
					// the frame arrives in several transport reads
					var src netty.Message = bytes.NewReader(wire)
					if rng.Intn(2) == 0 && !unframed { // (a codec without framing delivers one message per read by design)
						var cs [][]byte
						for _, c := range chunkings(rng, wire, 2+rng.Intn(2)) {
							if len(c) > 0 {
								cs = append(cs, append([]byte(nil), c...))
							}
						}
						src = &chunkReader{chunks: cs, fin: io.EOF}
					}
					fc.HandleRead(&fakeCtx{onRead: func(m netty.Message) { tc.HandleRead(&fakeCtx{onRead: onRead}, m) }}, src)
				} else if rng.Intn(3) == 0 {
					// a handler in front of the text codec has consumed a prefix (a tag, a sequence number) of the reader
					junk := []byte("#tag#")[:1+rng.Intn(5)]
					r := bytes.NewReader(append(append([]byte(nil), junk...), wire...))
					io.CopyN(io.Discard, r, int64(len(junk)))
					tc.HandleRead(&fakeCtx{onRead: onRead}, r)
				} else {
					tc.HandleRead(&fakeCtx{onRead: onRead}, carrier(rng, wire))
				}
			}()
			if delivered {
				emit("C16 text %s %s", hexOrDash(s), hexOrDash([]byte(got)))
			} else {
				emit("C16 text %s - exc", hexOrDash(s))
			}
		}
	}
}
