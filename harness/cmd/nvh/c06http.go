package main

import (
	"bufio"
	"bytes"
	"context"
	"io"
	"net"
	"net/http"
	"os"
	"sync"
	"time"

	netty "github.com/go-netty/go-netty"
	"github.com/go-netty/go-netty/codec/xhttp"
	"github.com/go-netty/go-netty/transport"
)

// C06 through the HTTP close path, in real time: a `Connection: close` request whose response takes about
// 2.5 s to drain to a peer that keeps reading slowly. The channel is the bootstrap's default (queued, waits
// for pending writes): everything the handler wrote must reach the connection before it is closed.

// slowConn: a connection that takes `per` for every write, honours write deadlines like a socket does and
// hands the peer whatever was written.
type slowConn struct {
	mu       sync.Mutex
	in       *bytes.Reader
	got      []byte
	closed   bool
	deadline time.Time
	per      time.Duration
	closedCh chan struct{}
}

func (c *slowConn) Read(p []byte) (int, error) {
	c.mu.Lock()
	n, err := c.in.Read(p)
	c.mu.Unlock()
	if err == io.EOF { // the request has been sent; the peer now only reads
		<-c.closedCh
		return 0, io.EOF
	}
	return n, err
}

func (c *slowConn) Write(p []byte) (int, error) {
	time.Sleep(c.per)
	c.mu.Lock()
	defer c.mu.Unlock()
	if c.closed {
		return 0, net.ErrClosed
	}
	if !c.deadline.IsZero() && time.Now().After(c.deadline) {
		return 0, &net.OpError{Op: "write", Err: os.ErrDeadlineExceeded}
	}
	c.got = append(c.got, p...)
	return len(p), nil
}

func (c *slowConn) Close() error {
	c.mu.Lock()
	defer c.mu.Unlock()
	if !c.closed {
		c.closed = true
		close(c.closedCh)
	}
	return nil
}
func (c *slowConn) LocalAddr() net.Addr             { return nil }
func (c *slowConn) RemoteAddr() net.Addr            { return nil }
func (c *slowConn) SetDeadline(t time.Time) error   { return c.SetWriteDeadline(t) }
func (c *slowConn) SetReadDeadline(time.Time) error { return nil }
func (c *slowConn) SetWriteDeadline(t time.Time) error {
	c.mu.Lock()
	c.deadline = t
	c.mu.Unlock()
	return nil
}

type asyncExec struct{}

func (asyncExec) Exec(a netty.Action) { go a() }

func runC06http() {
	emit("#case c06-http-close")
	const bodyLen = 200 * 1024
	req := "GET /big HTTP/1.1\r\nHost: x\r\nConnection: close\r\n\r\n"
	conn := &slowConn{in: bytes.NewReader([]byte(req)), per: 25 * time.Millisecond, closedCh: make(chan struct{})}
	handler := http.HandlerFunc(func(w http.ResponseWriter, r *http.Request) {
		w.Header().Set("Content-Length", "204800")
		piece := bytes.Repeat([]byte{'z'}, 2048)
		for sent := 0; sent < bodyLen; sent += len(piece) { // produced piecemeal, as a handler streaming a file does
			w.Write(piece)
		}
	})
	pl := netty.NewPipeline()
	pl.AddLast(xhttp.ServerCodec(), xhttp.Handler(handler))
	ch := netty.NewAsyncWriteChannel(64, true)(1, context.Background(), pl, transport.NewTransport(conn, 0, 0), asyncExec{})
	done := make(chan struct{})
	go func() {
		defer close(done)
		defer func() { recover() }()
		pl.ServeChannel(ch)
	}()
	select {
	case <-conn.closedCh:
	case <-time.After(20 * time.Second):
	}
	conn.mu.Lock()
	got := append([]byte(nil), conn.got...)
	closed := conn.closed
	conn.mu.Unlock()
	body := -1
	if resp, err := http.ReadResponse(bufio.NewReader(bytes.NewReader(got)), nil); err == nil {
		b, _ := io.ReadAll(resp.Body)
		body = len(b)
	}
	emit("C06 http want=%d body=%d closed=%d", bodyLen, body, b2i(closed))
	ch.Close(nil)
}
