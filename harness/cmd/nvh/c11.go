package main

import (
	"bytes"
	"fmt"
	"context"
	"encoding/hex"
	"errors"
	"io"
	"math/rand"
	"strings"
	"time"

	netty "github.com/go-netty/go-netty"
	"github.com/go-netty/go-netty/transport"
	"github.com/go-netty/go-netty/utils/pool/pbytes"
	"nvharness/mock"
)

// C11 (streaming entry point): ReadFrom copies a reader chunk by chunk; the channel is closed from
// inside one of the reader's Read calls, i.e. between two chunks. Nothing read after the close may
// reach the transport, and the call must report the close error.

var errC11 = errors.New("close-error-c11")
var errNilCause = errors.New("(Close(nil))")

type closingReader struct {
	chunks  [][]byte
	k       int
	closeAt int
	ch      netty.Channel
	cause   error
}

func (r *closingReader) Read(p []byte) (int, error) {
	r.k++
	if r.k == r.closeAt {
		if r.cause == errNilCause {
			r.ch.Close(nil)
		} else {
			r.ch.Close(r.cause)
		}
	}
	if r.k > len(r.chunks) {
		return 0, io.EOF
	}
	return copy(p, r.chunks[r.k-1]), nil
}

func runC11(seed int64, count int) {
	rng := rand.New(rand.NewSource(seed))
	for cs := 0; cs < count; cs++ {
		emit("#case c11rf-%d", cs)
		nch := 1 + rng.Intn(4)
		chunks := make([][]byte, nch)
		hs := make([]string, nch)
		for i := range chunks {
			chunks[i] = randPayload(rng, 1+rng.Intn(30))
			if rng.Intn(6) == 0 {
				chunks[i] = randPayload(rng, 1024)
			}
			hs[i] = hex.EncodeToString(chunks[i])
		}
		closeAt := rng.Intn(nch + 3) // 0 = never; nch+1 = at the EOF read; nch+2 = never reached
		pre := rng.Intn(6) == 0      // the channel is closed before ReadFrom is called
		// what the channel is closed with: an ordinary error, nil, or what a peer hang-up leaves behind (io.EOF itself)
		cause := []error{errC11, errC11, errNilCause, io.EOF, io.ErrUnexpectedEOF}[rng.Intn(5)]
		for _, mode := range []string{"sync", "async"} {
			pl := netty.NewPipeline()
			tr := mock.NewTransport()
			var ch netty.Channel
			if mode == "sync" {
				ch = netty.NewChannel()(int64(cs), context.Background(), pl, tr, goExec{})
			} else {
				ch = netty.NewAsyncWriteChannel(8, true)(int64(cs), context.Background(), pl, tr, goExec{})
			}
			netty.NvAttach(pl, ch)
			rd := &closingReader{chunks: chunks, closeAt: closeAt, ch: ch, cause: cause}
			if pre {
				rd.closeAt = 0
				if cause == errNilCause {
					ch.Close(nil)
				} else {
					ch.Close(cause)
				}
			}
			var n int64
			var err error
			status := guard(func() { n, err = ch.ReadFrom(rd) })
			if mode == "async" {
				deadline := time.Now().Add(2 * time.Second)
				for (netty.NvQueueLen(ch) > 0 || netty.NvSenderRunning(ch)) && time.Now().Before(deadline) {
					time.Sleep(50 * time.Microsecond)
				}
			}
			cls := "nil"
			switch {
			case status == "panic":
				cls = "panic"
			case cause != errNilCause && err == cause, cause == errNilCause && err != nil && err.Error() == "netty: channel closed":
				cls = "closeerr"
			case err != nil:
				cls = "other"
			}
			var wire []byte
			after, closed := 0, false
			for _, c := range tr.Snapshot() {
				switch c.Op {
				case "close":
					closed = true
				case "write", "writev":
					if closed {
						after++
					} else if c.Err == "" {
						for _, b := range c.Bufs {
							wire = append(wire, b...)
						}
					}
				}
			}
			at := fmt.Sprint(closeAt)
			if pre {
				at = "pre"
			}
			emit("C11 rf %s %s %s n=%d err=%s wire=%s after=%d", mode, at, strings.Join(hs, ","), n, cls, hexOrDash(wire), after)
			ch.Close(nil)
		}
	}
}

// C18 (streaming entry point): ReadFrom on a queued channel in non-blocking mode whose sender is stalled
// (the executor does not run it): the chunks that fit are queued, the first that does not must be refused
// at once. A call that has not returned after 2 s is reported as a hang.
func runC18rf(seed int64, count int) {
	rng := rand.New(rand.NewSource(seed ^ 0x18))
	for cs := 0; cs < count; cs++ {
		emit("#case c18rf-%d", cs)
		q := 1 + rng.Intn(3)
		nch := 1 + rng.Intn(6)
		chunks := make([][]byte, nch)
		hs := make([]string, nch)
		for i := range chunks {
			chunks[i] = randPayload(rng, 1+rng.Intn(30))
			if rng.Intn(4) == 0 {
				chunks[i] = randPayload(rng, 1024)
			}
			hs[i] = hex.EncodeToString(chunks[i])
		}
		pl := netty.NewPipeline()
		tr := mock.NewTransport()
		dexec := &deferExec{}
		ch := netty.NewAsyncWriteChannel(q, false)(int64(cs), context.Background(), pl, tr, dexec)
		netty.NvAttach(pl, ch)
		rd := &closingReader{chunks: chunks, closeAt: 0, ch: ch}
		var n int64
		var err error
		done := make(chan struct{})
		go func() {
			defer close(done)
			guard(func() { n, err = ch.ReadFrom(rd) })
		}()
		hang := 0
		select {
		case <-done:
		case <-time.After(2 * time.Second):
			hang = 1
		}
		if hang == 1 {
			emit("C18 rf q=%d %s n=0 err=- queued=- hang=1 dup=0", q, strings.Join(hs, ","))
			continue
		}
		dexec.runAll()
		deadline := time.Now().Add(2 * time.Second)
		for (netty.NvQueueLen(ch) > 0 || netty.NvSenderRunning(ch)) && time.Now().Before(deadline) {
			time.Sleep(50 * time.Microsecond)
		}
		cls := "nil"
		switch {
		case errors.Is(err, netty.ErrAsyncNoSpace):
			cls = "nospace"
		case err != nil:
			cls = "other"
		}
		// whatever the refused call did with its read buffer, the pool must not hold one buffer twice afterwards
		dup := 0
		{
			var got []*[]byte
			seen := map[*byte]bool{}
			for k := 0; k < 6; k++ {
				b := pbytes.Get(1000)
				if cap(*b) > 0 {
					p0 := &(*b)[:1][0]
					if seen[p0] {
						dup = 1
					}
					seen[p0] = true
				}
				got = append(got, b)
			}
			for _, b := range got {
				pbytes.Put(b)
			}
		}
		emit("C18 rf q=%d %s n=%d err=%s queued=%s hang=0 dup=%d", q, strings.Join(hs, ","), n, cls, hexOrDash(tr.Written()), dup)
		ch.Close(nil)
	}
}

// C18, capacity and patience, sequentially and in real time:
//  - qfill: a non-blocking channel of capacity q with a stalled sender accepts exactly q payloads, the next one is
//    refused with the queue-full error (whatever q is, also far above the sizes normally used);
//  - park: in blocking mode a write that finds the queue full stays parked for as long as the sender is stalled
//    (observed for `wait`), and is accepted and transmitted once the sender runs.
func runC18cap(seed int64, wait time.Duration) {
	for _, q := range []int{1, 3, 64, 1024, 1025, 1500, 4000} {
		emit("#case c18qfill-%d", q)
		pl := netty.NewPipeline()
		tr := mock.NewTransport()
		dexec := &deferExec{}
		ch := netty.NewAsyncWriteChannel(q, false)(int64(q), context.Background(), pl, tr, dexec)
		netty.NvAttach(pl, ch)
		accepted, cls := 0, "nil"
		for i := 0; i < q+1; i++ {
			if _, err := ch.Write1([]byte{byte(i)}); err != nil {
				cls = "other"
				if errors.Is(err, netty.ErrAsyncNoSpace) {
					cls = "nospace"
				}
				break
			}
			accepted++
		}
		emit("C18 qfill q=%d accepted=%d err=%s", q, accepted, cls)
		ch.Close(nil)
	}
	emit("#case c18park")
	pl := netty.NewPipeline()
	tr := mock.NewTransport()
	dexec := &deferExec{}
	ch := netty.NewAsyncWriteChannel(1, true)(1, context.Background(), pl, tr, dexec)
	netty.NvAttach(pl, ch)
	ch.Write1([]byte("A")) // fills the queue; the sender is not run
	type res struct {
		n   int
		err error
	}
	out := make(chan res, 2)
	go func() { n, err := ch.Write1([]byte("B")); out <- res{n, err} }()
	go func() { n, err := ch.Writev([][]byte{[]byte("C"), []byte("D")}); out <- res{int(n), err} }()
	early := 0
	timer := time.After(wait)
wait:
	for {
		select {
		case <-out:
			early++
		case <-timer:
			break wait
		}
	}
	// now let the sender run until both parked writes are through
	late, errs := 0, 0
	deadline := time.Now().Add(3 * time.Second)
	for late+early < 2 && time.Now().Before(deadline) {
		dexec.runAll()
		select {
		case r := <-out:
			late++
			if r.err != nil {
				errs++
			}
		case <-time.After(2 * time.Millisecond):
		}
	}
	dexec.runAll()
	for (netty.NvQueueLen(ch) > 0 || netty.NvSenderRunning(ch)) && time.Now().Before(deadline) {
		dexec.runAll()
		time.Sleep(100 * time.Microsecond)
	}
	emit("C18 park wait=%d early=%d late=%d errs=%d wirelen=%d", int(wait/time.Millisecond), early, late, errs, len(tr.Written()))
	ch.Close(nil)
}

// C02, sustained traffic in lock-step: the transport lets one gathering write through at a time, and before each
// is let through the next payload has been accepted, so that every round of the sender finds the queue non-empty.
// When the traffic stops, everything accepted must have been handed to the transport.
func runC02burst() {
	for _, n := range []int{5, 17, 20, 25, 33, 40} {
		emit("#case c02burst-%d", n)
		pl := netty.NewPipeline()
		tr := mock.NewTransport()
		gate := make(chan struct{}, 256)
		entered := make(chan struct{}, 256)
		gt := &gatedTransport{Transport: tr, entered: entered, gate: gate}
		ch := netty.NewAsyncWriteChannel(4, true)(int64(n), context.Background(), pl, gt, goExec{})
		netty.NvAttach(pl, ch)
		accepted := 0
		waitEntered := func() {
			select {
			case <-entered:
			case <-time.After(300 * time.Millisecond):
			}
		}
		for i := 0; i < n; i++ {
			if _, err := ch.Write1([]byte{byte(i)}); err == nil {
				accepted++
			}
			if i == 0 {
				waitEntered() // the sender is inside its first gathering write
			} else {
				gate <- struct{}{} // the previous round's write goes through now that the queue has been refilled
				waitEntered()      // … and the sender is inside the next one
			}
		}
		for i := 0; i < 64; i++ {
			gate <- struct{}{}
		}
		deadline := time.Now().Add(1500 * time.Millisecond)
		for len(tr.Written()) < accepted && time.Now().Before(deadline) {
			time.Sleep(200 * time.Microsecond)
		}
		emit("C02 burst n=%d accepted=%d delivered=%d", n, accepted, len(tr.Written()))
		close(gate)
		go ch.Close(nil) // not waited for: with a stranded payload a channel that waits for pending writes never finishes closing
	}
}

// gatedTransport lets one gathering write through per token and reports when the sender is inside one
type gatedTransport struct {
	*mock.Transport
	entered chan struct{}
	gate    chan struct{}
}

func (g *gatedTransport) Writev(bufs transport.Buffers) (int64, error) {
	select {
	case g.entered <- struct{}{}:
	default:
	}
	<-g.gate
	return g.Transport.Writev(bufs)
}

// C11 (pipeline entry point): Channel.Write after Close has returned, on pipelines whose outbound handlers keep
// messages (batching, pacing) instead of handing each one to the head within the same call: the call must fail.
type keepHandler struct{ kept []netty.Message }

func (k *keepHandler) HandleWrite(ctx netty.OutboundContext, m netty.Message) { k.kept = append(k.kept, m) }

func runC11pw() {
	for _, mode := range []string{"sync", "async", "async-bounded"} {
		for _, cause := range []string{"nil", "e"} {
			emit("#case c11pw-%s-%s", mode, cause)
			pl := netty.NewPipeline()
			tr := mock.NewTransport()
			var ch netty.Channel
			switch mode {
			case "sync":
				ch = netty.NewChannel()(1, context.Background(), pl, tr, goExec{})
			case "async":
				ch = netty.NewAsyncWriteChannel(8, true)(1, context.Background(), pl, tr, goExec{})
			default:
				ch = netty.NewAsyncWriteChannel(8, false)(1, context.Background(), pl, tr, goExec{})
			}
			pl.AddLast(&keepHandler{})
			netty.NvAttach(pl, ch)
			if cause == "nil" {
				ch.Close(nil)
			} else {
				ch.Close(errC11)
			}
			nils := 0
			for _, m := range []netty.Message{[]byte("x"), [][]byte{[]byte("y")}, bytes.NewBufferString("z"), strings.NewReader("r")} {
				var err error
				guard(func() { err = ch.Write(m) })
				if err == nil {
					nils++
				}
			}
			emit("C11 pw %s %s nil=%d", mode, cause, nils)
		}
	}
}
