package main

import (
	"context"
	"fmt"
	"math/rand"
	"strings"
	"time"

	netty "github.com/go-netty/go-netty"
	"nvharness/mock"
)

// C07, second generator: several invocations on one channel for as long as it stays open ("the channel
// remains usable unless it was closed"; a call that does not return is reported as a hang), and an
// exception handler that answers an exception with Channel.Write / Channel.Trigger whose own delivery may
// panic (a second exception while the first is still travelling). The whole ordered trace of handler
// invocations is reported and compared with the model (invokeR / ctxInvokeR).

func runC07n(seed int64, count int) {
	rng := rand.New(rand.NewSource(seed ^ 0x7e57))
	kinds := []string{"err", "str", "nto", "nft"}
	for cs := 0; cs < count; cs++ {
		func() {
			defer func() {
				if r := recover(); r != nil {
					emit("C07 crash %s", strings.ReplaceAll(fmt.Sprint(r), " ", "_"))
				}
			}()
			env := &c03env{recKind: -1}
			pl := netty.NewPipeline()
			env.pl = pl
			tr := mock.NewTransport()
			parent, parentCancel := context.WithCancel(context.Background())
			defer parentCancel()
			ch := netty.NewChannel()(int64(cs), parent, pl, tr, goExec{})
			netty.NvAttach(pl, ch)
			// 1/6: the context the channel was created under ends (the bootstrap is shutting down) while the channel is still
			// open: panics are still routed; a write is refused by the head with the context's error, which is an exception too
			parentDone := rng.Intn(6) == 0
			emit("#case c07n-%d", cs)
			emit("C07 new")
			nh := 1 + rng.Intn(5)
			type rec struct {
				name string
				val  interface{}
			}
			var recs []rec
			var ids []string
			var hs []netty.Handler
			var excIdx []int // handler ids implementing exception
			for i := 0; i < nh; i++ {
				mask := 1 + rng.Intn(63)
				if rng.Intn(3) == 0 {
					mask |= 8
				}
				fwd := rng.Intn(64)
				if rng.Intn(2) == 0 {
					fwd = 63
				}
				pan := 0
				if rng.Intn(2) == 0 {
					pan = (1 << uint(rng.Intn(6))) &^ 8
				}
				if rng.Intn(5) == 0 {
					pan = 55 &^ 16
				}
				vk := kinds[rng.Intn(4)]
				vid := 100*cs + i
				val := mkVal(vk, vid)
				id := 10 + i
				p := &probe{id: id, fwd: fwd, env: env, pan: pan, pval: val}
				recs = append(recs, rec{fmt.Sprintf("%s:%d", vk, vid), val})
				hs = append(hs, mkProbe(rng, mask, p))
				ids = append(ids, fmt.Sprint(id))
				if mask&8 != 0 {
					excIdx = append(excIdx, id)
				}
				emit("C07 hdl %d %d %d %d %s:%d", id, mask, fwd, pan, vk, vid)
			}
			var closeErrs []error
			sink := &probe{id: 99, fwd: 16, env: env}
			sink.onExc = func(p *probe, pos int, ex error) {
				if pos == -4 {
					closeErrs = append(closeErrs, ex)
				}
			}
			hs = append([]netty.Handler{newProbe(16, sink)}, hs...)
			ids = append([]string{"99"}, ids...)
			emit("C07 hdl 99 16 16 0 err:0")
			pl.AddLast(hs...)
			emit("C07 add %s", strings.Join(ids, " "))
			// the reacting exception handler
			reactor, rk := 0, 2
			if len(excIdx) > 0 && rng.Intn(3) != 0 {
				reactor = excIdx[rng.Intn(len(excIdx))]
				if rng.Intn(2) == 0 {
					rk = 5
				}
			}
			var headVal interface{}
			headName := "-"
			env.valName = func(e error) string {
				if e == nil {
					return "nil"
				}
				if headVal != nil && sameVal(headVal, e) {
					return headName
				}
				for _, r := range recs {
					if sameVal(r.val, e) {
						return r.name
					}
				}
				if e.Error() == "netty: channel closed" {
					return "err:424242"
				}
				if e == context.Canceled {
					return "err:555555"
				}
				return "unknown"
			}
			reacted, inReaction := false, false
			env.onExcAll = func(p *probe, pos int) {
				if p.id != reactor || reacted || inReaction {
					return
				}
				reacted, inReaction = true, true
				defer func() { inReaction = false }()
				if rk == 2 {
					ch.Write([]byte("n"))
				} else {
					ch.Trigger("n")
				}
			}
			if parentDone {
				parentCancel()
			}
			ninv := 1 + rng.Intn(3)
			for inv := 0; inv < ninv; inv++ {
				headVal, headName = nil, "-"
				tr.FailWrite, tr.FailFlush, tr.PartialOnFail = nil, nil, false
				if rng.Intn(3) == 0 {
					vk := []string{"err", "nft", "nto"}[rng.Intn(3)]
					hv := mkVal(vk, 9000+10*cs+inv)
					headVal, headName = hv, fmt.Sprintf("%s:%d", vk, 9000+10*cs+inv)
					switch rng.Intn(3) { // how the transport fails under the head handler
					case 0:
						tr.FailWrite = func(int) error { return hv.(error) }
					case 1: // after it has taken part of the payload
						tr.FailWrite = func(int) error { return hv.(error) }
						tr.PartialOnFail = true
					default: // the write is taken, the flush fails
						tr.FailFlush = func(int) error { return hv.(error) }
					}
				}
				if parentDone { // the low-level write refuses before it touches the transport
					tr.FailWrite, tr.FailFlush = nil, nil
					headVal, headName = context.Canceled, "err:555555"
				}
				entries := []string{"chwrite", "chwrite", "chtrigger", "read", "active", "ctx", "ctx"}
				entry := entries[rng.Intn(len(entries))]
				kind, pos := 0, 0
				var call func()
				switch entry {
				case "chwrite":
					kind = 2
					call = func() { ch.Write([]byte("w")) }
				case "chtrigger":
					kind = 5
					call = func() { ch.Trigger("e") }
				case "read":
					kind = 1
					call = func() { netty.NvInvoke(ch, func() { pl.FireChannelRead("m") }) }
				case "active":
					kind = 0
					call = func() { netty.NvInvoke(ch, func() { pl.FireChannelActive() }) }
				default:
					pos = rng.Intn(pl.Size())
					c := pl.ContextAt(pos)
					if rng.Intn(2) == 0 {
						kind = 2
						call = func() { c.Write([]byte("w")) }
					} else {
						kind = 5
						call = func() { c.Trigger("e") }
					}
				}
				env.traceAll, env.trace = true, nil
				reacted, inReaction = false, false
				closeErrs = nil
				c0 := tr.Closed()
				esc := "0"
				done := make(chan struct{})
				go func() {
					defer close(done)
					defer func() {
						if r := recover(); r != nil {
							esc = "1"
						}
					}()
					call()
				}()
				select {
				case <-done:
				case <-time.After(3 * time.Second):
					esc = "hang"
				}
				if esc == "hang" {
					emit("C07 ninvoke %s %d %d %s r=%d:%d esc=hang trace=- closed=none", entry, kind, pos, headName, reactor, rk)
					return // the goroutine is lost; the channel cannot be used any further
				}
				env.traceAll = false
				closed := "none"
				if tr.Closed() > c0 {
					closed = "unknown"
					if len(closeErrs) > 0 {
						closed = env.valName(closeErrs[0])
					}
				}
				t := "-"
				if len(env.trace) > 0 {
					t = strings.Join(env.trace, ",")
				}
				emit("C07 ninvoke %s %d %d %s r=%d:%d esc=%s trace=%s closed=%s", entry, kind, pos, headName, reactor, rk, esc, t, closed)
				if tr.Closed() > 0 {
					break
				}
			}
		}()
	}
}
