package main

import (
	"time"
	"bufio"
	"bytes"
	"context"
	"encoding/hex"
	"fmt"
	"io"
	"math/rand"
	"net/http"
	"sort"
	"strings"

	netty "github.com/go-netty/go-netty"
	"github.com/go-netty/go-netty/codec/xhttp"
	"nvharness/mock"
)

// C15: one connection carrying a sequence of HTTP/1.x requests (pipelined, fragmented) into the
// real server codec + handler adapter, with a scripted http.Handler per request. Reported: what
// was sent, each handler program, the handler invocations observed, every byte written to the
// transport, where Close happened, and net/http.ReadResponse's reading of the wire.

type c15Req struct {
	method, target string
	minor          int
	conn           string // c close | k keep-alive | - absent
	bodyKind       string // n none | l content-length | c chunked
	body           []byte
	chunks         int
	extra          [][2]string
}

type c15Op struct {
	kind string // h s w f
	k, v string
	code int
	n    int
	b    byte
	copy bool // w: the bytes are produced with io.Copy(w, reader) instead of w.Write
}

type repeatReader struct{ b byte }

func (r repeatReader) Read(p []byte) (int, error) {
	for i := range p {
		p[i] = r.b
	}
	return len(p), nil
}

type c15Prog struct {
	read      int // -1 all, 0 none, k bytes
	closeBody bool // the handler closes the request body itself when it is done with it
	ops       []c15Op
}

func (r c15Req) raw() []byte {
	var b bytes.Buffer
	fmt.Fprintf(&b, "%s %s HTTP/1.%d\r\nHost: example\r\n", r.method, r.target, r.minor)
	for _, h := range r.extra {
		fmt.Fprintf(&b, "%s: %s\r\n", h[0], h[1])
	}
	switch r.conn {
	case "c":
		b.WriteString("Connection: close\r\n")
	case "k":
		b.WriteString("Connection: keep-alive\r\n")
	}
	switch r.bodyKind {
	case "l":
		fmt.Fprintf(&b, "Content-Length: %d\r\n\r\n", len(r.body))
		b.Write(r.body)
	case "c":
		b.WriteString("Transfer-Encoding: chunked\r\n\r\n")
		for _, c := range split(r.body, r.chunks) {
			if len(c) > 0 {
				fmt.Fprintf(&b, "%x\r\n", len(c))
				b.Write(c)
				b.WriteString("\r\n")
			}
		}
		b.WriteString("0\r\n\r\n")
	default:
		b.WriteString("\r\n")
	}
	return b.Bytes()
}

func split(b []byte, k int) [][]byte {
	if k < 1 {
		k = 1
	}
	var out [][]byte
	step := (len(b) + k - 1) / k
	if step == 0 {
		return [][]byte{b}
	}
	for i := 0; i < len(b); i += step {
		j := i + step
		if j > len(b) {
			j = len(b)
		}
		out = append(out, b[i:j])
	}
	return out
}

func genC15Req(rng *rand.Rand, i int) c15Req {
	r := c15Req{method: []string{"GET", "POST", "PUT", "DELETE", "POST"}[rng.Intn(5)], target: fmt.Sprintf("/p%d?x=%d", i, rng.Intn(100)), minor: 1, conn: "-", bodyKind: "n"}
	if rng.Intn(8) == 0 {
		r.minor = 0
	}
	switch rng.Intn(10) {
	case 0:
		r.conn = "c"
	case 1, 2:
		r.conn = "k"
	}
	if r.method != "GET" && r.method != "DELETE" || rng.Intn(4) == 0 {
		n := []int{0, 1, 5, 16, 100, 1000, 4097}[rng.Intn(7)]
		if rng.Intn(25) == 0 { // around the limits a server might put on discarding an unread body
			n = []int{65536, 262144, 262145, 300000}[rng.Intn(4)]
		}
		r.body = make([]byte, n)
		for j := range r.body {
			r.body[j] = "GETPOST /HTTP1.\r\nabcxyz:0159"[rng.Intn(27)] // bodies that look like requests
		}
		if rng.Intn(3) == 0 && r.minor == 1 {
			r.bodyKind, r.chunks = "c", 1+rng.Intn(3)
		} else {
			r.bodyKind = "l"
		}
	}
	for k := 0; k < rng.Intn(3); k++ {
		r.extra = append(r.extra, [2]string{fmt.Sprintf("X-H%d", k), fmt.Sprintf("v%d", rng.Intn(1000))})
	}
	return r
}

func genC15Prog(rng *rand.Rand, bodyLen int, minor int) c15Prog {
	p := c15Prog{read: []int{-1, -1, 0, 0, 1}[rng.Intn(5)], closeBody: rng.Intn(4) == 0}
	if p.read == 1 {
		p.read = 1 + rng.Intn(bodyLen+1)
	}
	sizes := []int{}
	for k := 0; k < rng.Intn(4); k++ {
		sizes = append(sizes, []int{0, 1, 14, 100, 2047, 2048, 2049, 5000}[rng.Intn(8)])
	}
	total := 0
	for _, s := range sizes {
		total += s
	}
	framing := rng.Intn(3) // 0 content-length, 1 chunked, 2 neither
	if rng.Intn(3) == 0 {
		p.ops = append(p.ops, c15Op{kind: "h", k: "Content-Type", v: "text/plain"})
	}
	if rng.Intn(4) == 0 {
		p.ops = append(p.ops, c15Op{kind: "h", k: fmt.Sprintf("X-R%d", rng.Intn(3)), v: fmt.Sprintf("r%d", rng.Intn(100))})
	}
	if rng.Intn(5) == 0 { // a field with two values (Set, then Add): they stay two values
		p.ops = append(p.ops, c15Op{kind: "h", k: "X-Multi", v: fmt.Sprintf("m%d", rng.Intn(100))}, c15Op{kind: "a", k: "X-Multi", v: fmt.Sprintf("n%d, q=1", rng.Intn(100))})
	}
	switch framing {
	case 0:
		p.ops = append(p.ops, c15Op{kind: "h", k: "Content-Length", v: fmt.Sprint(total)})
	case 1:
		p.ops = append(p.ops, c15Op{kind: "h", k: "Transfer-Encoding", v: "chunked"})
	}
	if rng.Intn(5) == 0 {
		p.ops = append(p.ops, c15Op{kind: "f"}) // Flush before anything was written
	}
	if rng.Intn(2) == 0 {
		p.ops = append(p.ops, c15Op{kind: "s", code: []int{200, 201, 404, 500, 202}[rng.Intn(5)]})
	}
	for _, s := range sizes {
		p.ops = append(p.ops, c15Op{kind: "w", n: s, b: byte('a' + rng.Intn(26)), copy: s > 0 && rng.Intn(4) == 0})
		if rng.Intn(4) == 0 {
			p.ops = append(p.ops, c15Op{kind: "f"})
		}
	}
	if rng.Intn(6) == 0 {
		p.ops = append(p.ops, c15Op{kind: "f"}, c15Op{kind: "f"})
	}
	// 1/6: the handler goes on setting header fields after the header block has been produced (too late to be
	// sent): what counts for the peer, and for keeping the connection open, is what went out on the wire
	sentAlready := false
	for _, o := range p.ops {
		if o.kind == "s" || o.kind == "w" || o.kind == "f" {
			sentAlready = true
		}
	}
	if sentAlready && rng.Intn(6) == 0 {
		switch rng.Intn(4) {
		case 3:
			p.ops = append(p.ops, c15Op{kind: "h", k: "Trailer", v: "X-Sum"})
		case 0:
			p.ops = append(p.ops, c15Op{kind: "h", k: "Content-Length", v: fmt.Sprint(total)})
		case 1:
			p.ops = append(p.ops, c15Op{kind: "h", k: "Transfer-Encoding", v: "chunked"})
		default:
			p.ops = append(p.ops, c15Op{kind: "h", k: "X-Late", v: "too-late"})
		}
	}
	return p
}

func (p c15Prog) String() string {
	var parts []string
	for _, o := range p.ops {
		switch o.kind {
		case "h":
			parts = append(parts, fmt.Sprintf("h:%s:%s", hexS(o.k), hexS(o.v)))
		case "a":
			parts = append(parts, fmt.Sprintf("a:%s:%s", hexS(o.k), hexS(o.v)))
		case "s":
			parts = append(parts, fmt.Sprintf("s:%d", o.code))
		case "w":
			parts = append(parts, fmt.Sprintf("w:%d:%02x", o.n, o.b))
		case "f":
			parts = append(parts, "f")
		}
	}
	if len(parts) == 0 {
		parts = []string{"-"}
	}
	if p.closeBody {
		parts = append([]string{"c"}, parts...)
	}
	return fmt.Sprintf("read=%d %s", p.read, strings.Join(parts, ","))
}

type inlineExec struct{}

func (inlineExec) Exec(a netty.Action) { a() }

func runC15(seed int64, count int) {
	rng := rand.New(rand.NewSource(seed))
	for i := 0; i < count; i++ {
		emit("#case C15-%d", i)
		emit("C15 new")
		nreq := 1 + rng.Intn(4)
		reqs := make([]c15Req, nreq)
		progs := make([]c15Prog, nreq)
		var stream []byte
		for k := range reqs {
			reqs[k] = genC15Req(rng, k)
			progs[k] = genC15Prog(rng, len(reqs[k].body), reqs[k].minor)
			stream = append(stream, reqs[k].raw()...)
			emit("C15 req %d %s %s %d %s %s %s", k, reqs[k].method, reqs[k].target, reqs[k].minor, reqs[k].conn, reqs[k].bodyKind, hexOrDash(reqs[k].body))
			emit("C15 prog %d %s", k, progs[k].String())
		}
		tr := mock.NewTransport()
		// 1/5: the tail of the last request's body has not been sent yet when its handler (which does not read the
		// body) answers; it is sent - or the peer gives up - only after the response was seen
		var held []byte
		last := reqs[nreq-1]
		if rng.Intn(5) == 0 && len(last.body) >= 2 && last.bodyKind == "l" && progs[nreq-1].read == 0 && !progs[nreq-1].closeBody {
			k := 1 + rng.Intn(len(last.body)-1)
			held = append([]byte(nil), stream[len(stream)-k:]...)
			stream = stream[:len(stream)-k]
		}
		late := held != nil
		// fragment the stream
		for len(stream) > 0 {
			n := 1 + rng.Intn(len(stream))
			if rng.Intn(3) == 0 && n > 7 {
				n = 1 + rng.Intn(7)
			}
			tr.Feed(stream[:n])
			stream = stream[n:]
		}
		if !late {
			tr.EndOfStream(nil)
		}
		served := 0
		var obs []string
		handler := http.HandlerFunc(func(w http.ResponseWriter, r *http.Request) {
			k := served
			served++
			var got []byte
			var p c15Prog
			if k < len(progs) {
				p = progs[k]
			}
			switch {
			case p.read < 0:
				got, _ = io.ReadAll(r.Body)
			case p.read > 0:
				buf := make([]byte, p.read)
				n, _ := io.ReadFull(r.Body, buf)
				got = buf[:n]
			}
			if p.closeBody {
				r.Body.Close()
			}
			cl := "0"
			if r.Close {
				cl = "1"
			}
			obs = append(obs, fmt.Sprintf("C15 obs req %d %s %s %d %s %s", k, r.Method, r.URL.RequestURI(), r.ProtoMinor, cl, hexOrDash(got)))
			for _, o := range p.ops {
				switch o.kind {
				case "h":
					w.Header().Set(o.k, o.v)
				case "a":
					w.Header().Add(o.k, o.v)
				case "s":
					w.WriteHeader(o.code)
				case "w":
					if o.copy { // a relayed body: io.Copy from a source without WriteTo
						io.Copy(w, io.LimitReader(repeatReader{o.b}, int64(o.n)))
					} else {
						w.Write(bytes.Repeat([]byte{o.b}, o.n))
					}
				case "f":
					w.(http.Flusher).Flush()
				}
			}
		})
		crashed := ""
		done := make(chan struct{})
		go func() {
			defer close(done)
			defer func() {
				if r := recover(); r != nil {
					crashed = fmt.Sprint(r)
				}
			}()
			pl := netty.NewPipeline()
			pl.AddLast(xhttp.ServerCodec(), xhttp.Handler(handler))
			ch := netty.NewChannel()(1, context.Background(), pl, tr, inlineExec{})
			pl.ServeChannel(ch) // inline executor: runs the whole connection
		}()
		lateClosed := -1
		if late {
			// give the server time to answer what it has; did it close the connection meanwhile?
			deadline := time.Now().Add(300 * time.Millisecond)
		wait:
			for tr.Closed() == 0 && time.Now().Before(deadline) {
				select {
				case <-done:
					break wait
				default:
					time.Sleep(200 * time.Microsecond)
				}
			}
			lateClosed = 0
			if tr.Closed() > 0 {
				lateClosed = 1
			}
			tr.Feed(held)
			tr.EndOfStream(nil)
		}
		hung := false
		select {
		case <-done:
		case <-time.After(5 * time.Second):
			hung = true
		}
		for _, o := range obs {
			emit("%s", o)
		}
		// transport log: bytes written before Close, position of Close
		var wire []byte
		closeAt := -1
		for _, c := range tr.Snapshot() {
			switch c.Op {
			case "write", "writev":
				if c.Err == "" {
					for _, b := range c.Bufs {
						wire = append(wire, b...)
					}
				}
			case "close":
				if closeAt < 0 {
					closeAt = len(wire)
				}
			}
		}
		if hung {
			emit("C15 obs hang")
		}
		if lateClosed >= 0 {
			emit("C15 obs lateclosed %d", lateClosed)
		}
		emit("C15 obs wire %s", hexOrDash(wire))
		emit("C15 obs close %d", closeAt)
		if crashed != "" {
			emit("C15 obs crash %s", hex.EncodeToString([]byte(crashed)))
		}
		// the standard parser's reading of the wire, response after response
		br := bufio.NewReader(bytes.NewReader(wire))
		for k := 0; k < served+1; k++ {
			if _, err := br.Peek(1); err != nil {
				break
			}
			resp, err := http.ReadResponse(br, nil)
			if err != nil {
				emit("C15 obs goerr %d %s", k, hex.EncodeToString([]byte(err.Error())))
				break
			}
			body, err := io.ReadAll(resp.Body)
			if err != nil {
				emit("C15 obs goerr %d %s", k, hex.EncodeToString([]byte("body: "+err.Error())))
				break
			}
			var hs []string
			for key, vals := range resp.Header {
				for _, v := range vals {
					hs = append(hs, hexS(key)+":"+hexS(v))
				}
			}
			if len(resp.TransferEncoding) > 0 { // ReadResponse moves it out of the header map
				hs = append(hs, hexS("Transfer-Encoding")+":"+hexS(strings.Join(resp.TransferEncoding, ",")))
			}
			sort.Strings(hs)
			if len(hs) == 0 {
				hs = []string{"-"}
			}
			emit("C15 obs go %d %d %d %s %s", k, resp.ProtoMinor, resp.StatusCode, strings.Join(hs, ","), hexOrDash(body))
		}
		emit("C15 end")
	}
}
