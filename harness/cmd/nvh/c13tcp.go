package main

import (
	"errors"
	"fmt"
	"io"
	"math/rand"
	"net"
	"sync"
	"sync/atomic"
	"time"

	netty "github.com/go-netty/go-netty"
	"github.com/go-netty/go-netty/transport/tcp"
)

// C13 over the real TCP factory on the loopback interface: Listen, Async, k client connections, Shutdown
// (immediately after Async, or once the connections are active). Timing is real, the timeouts generous.

type tcpProbe struct {
	active, inactive *int64
}

func (p tcpProbe) HandleActive(ctx netty.ActiveContext) {
	atomic.AddInt64(p.active, 1)
	ctx.HandleActive()
}
func (p tcpProbe) HandleInactive(ctx netty.InactiveContext, ex netty.Exception) {
	atomic.AddInt64(p.inactive, 1)
	ctx.HandleInactive(ex)
}
func (p tcpProbe) HandleRead(ctx netty.InboundContext, m netty.Message) {
	buf := make([]byte, 16)
	if _, err := m.(io.Reader).Read(buf); err != nil {
		panic(err)
	}
}
func (p tcpProbe) HandleException(ctx netty.ExceptionContext, ex netty.Exception) { ctx.Close(ex) }

func freePort() int {
	l, err := net.Listen("tcp", "127.0.0.1:0")
	if err != nil {
		return 0
	}
	defer l.Close()
	return l.Addr().(*net.TCPAddr).Port
}

// a listener whose accept loop has failed on its own (the options of an accepted connection are rejected by the
// kernel: keep-alive period of 12 h) must still be closed by Shutdown: the port is released
func runC13tcpFatal() {
	emit("#case c13tcp-fatal")
	port := freePort()
	if port == 0 {
		emit("C13 tcp skip no-port")
		return
	}
	bad := *tcp.DefaultOption
	bad.KeepAlivePeriod = 12 * time.Hour
	bs := netty.NewBootstrap(netty.WithChildInitializer(func(ch netty.Channel) {}))
	addr := fmt.Sprintf("127.0.0.1:%d", port)
	done := make(chan error, 1)
	bs.Listen("tcp://"+addr, tcp.WithOptions(&bad)).Async(func(err error) { done <- err })
	var c net.Conn
	deadline := time.Now().Add(2 * time.Second)
	for time.Now().Before(deadline) {
		var err error
		if c, err = net.DialTimeout("tcp", addr, 200*time.Millisecond); err == nil {
			break
		}
		time.Sleep(2 * time.Millisecond)
	}
	failed := false
	select {
	case err := <-done:
		failed = err != nil
	case <-time.After(2 * time.Second):
	}
	if c != nil {
		c.Close()
	}
	if !failed {
		emit("C13 tcp skip accept-did-not-fail") // a kernel that accepts the period: nothing to observe
		bs.Shutdown()
		return
	}
	bs.Shutdown()
	time.Sleep(5 * time.Millisecond)
	redial := "refused"
	if c2, err := net.DialTimeout("tcp", addr, 300*time.Millisecond); err == nil {
		redial = "accepted"
		c2.Close()
	}
	emit("C13 tcp early=0 clients=0 sync=closed eof=0 redial=%s active=0 inactive=0 ctx=1", redial)
}

func runC13tcp(seed int64, count int) {
	runC13tcpFatal()
	rng := rand.New(rand.NewSource(seed))
	for cs := 0; cs < count; cs++ {
		emit("#case c13tcp-%d", cs)
		port := freePort()
		if port == 0 {
			emit("C13 tcp skip no-port")
			continue
		}
		k := rng.Intn(4)
		early := rng.Intn(3) == 0 // Shutdown right after Async
		if early {
			k = 0
		}
		var active, inactive int64
		bs := netty.NewBootstrap(netty.WithChildInitializer(func(ch netty.Channel) {
			ch.Pipeline().AddLast(tcpProbe{&active, &inactive})
		}))
		addr := fmt.Sprintf("127.0.0.1:%d", port)
		done := make(chan error, 1)
		bs.Listen("tcp://" + addr).Async(func(err error) { done <- err })
		var conns []net.Conn
		if !early {
			// wait for the listener, then connect k clients and wait until the server has activated them
			deadline := time.Now().Add(2 * time.Second)
			for time.Now().Before(deadline) {
				c, err := net.DialTimeout("tcp", addr, 200*time.Millisecond)
				if err == nil {
					conns = append(conns, c)
					break
				}
				time.Sleep(2 * time.Millisecond)
			}
			for len(conns) < k+1 && len(conns) > 0 {
				c, err := net.DialTimeout("tcp", addr, 500*time.Millisecond)
				if err != nil {
					break
				}
				conns = append(conns, c)
			}
			want := int64(len(conns))
			deadline = time.Now().Add(2 * time.Second)
			for atomic.LoadInt64(&active) < want && time.Now().Before(deadline) {
				time.Sleep(time.Millisecond)
			}
		}
		bs.Shutdown()
		syncRes := "timeout"
		select {
		case err := <-done:
			switch {
			case errors.Is(err, netty.ErrServerClosed):
				syncRes = "closed"
			case err == nil:
				syncRes = "nil"
			default:
				syncRes = "other"
			}
		case <-time.After(3 * time.Second):
		}
		// every client must see its connection closed by the server
		var wg sync.WaitGroup
		var eofs int64
		for _, c := range conns {
			wg.Add(1)
			go func(c net.Conn) {
				defer wg.Done()
				c.SetReadDeadline(time.Now().Add(3 * time.Second))
				buf := make([]byte, 1)
				if _, err := c.Read(buf); err != nil && !errors.Is(err, io.EOF) {
					var ne net.Error
					if errors.As(err, &ne) && ne.Timeout() {
						return
					}
				}
				atomic.AddInt64(&eofs, 1)
				c.Close()
			}(c)
		}
		wg.Wait()
		// nobody accepts on the port any more
		redial := "refused"
		time.Sleep(5 * time.Millisecond)
		if c, err := net.DialTimeout("tcp", addr, 300*time.Millisecond); err == nil {
			redial = "accepted"
			c.Close()
		}
		deadline := time.Now().Add(2 * time.Second)
		for atomic.LoadInt64(&inactive) < atomic.LoadInt64(&active) && time.Now().Before(deadline) {
			time.Sleep(time.Millisecond)
		}
		ctx := 0
		if bs.Context().Err() != nil {
			ctx = 1
		}
		emit("C13 tcp early=%d clients=%d sync=%s eof=%d redial=%s active=%d inactive=%d ctx=%d", b2i(early), len(conns), syncRes, eofs, redial,
			atomic.LoadInt64(&active), atomic.LoadInt64(&inactive), ctx)
	}
}
